// Package c16 monitors the CSV codec: for every source and destination kind and every option set
// the records delivered are those of an encoding/csv parse of the input (same reader options)
// minus the skipped ones, byte destinations hold what an encoding/csv writer (same writer options)
// makes of them, malformed input is answered with the parser's error, nothing panics, and
// delivered records do not alias one another.
package c16

import (
	"bytes"
	"encoding/csv"
	"encoding/json"
	"fmt"
	"io"
	"strings"
	"unicode/utf8"

	"github.com/go-openapi/runtime"

	"verif/mon"
)

func init() {
	mon.Register(&mon.Property{
		ID:    "C16",
		Level: "exploration",
		Race:  true,
		Rule: "a group = one CSV text drawn from a grammar (plain/quoted fields, embedded separators, line breaks and quotes, empty fields, blank lines, ragged rows, comment lines, CR LF endings, missing final newline, and malformed quoting) + one option set (reader comma, comment, lazy quotes, trim, fields per record, reuse record; writer comma, CRLF; skipped lines 0..records+2; closing option); " +
			"every group is pushed through EVERY destination kind of the consumer (record kinds and byte kinds; record tables fresh, pre-populated shorter / equal / longer / with spare capacity, typed-nil; kinds the codec does not document) and EVERY source kind of the producer (text kinds and record-table kinds), each on a scripted stream (1-byte / random chunks, <= 50 zero-length reads, data with EOF, fault at an offset; for some consumes a reader without Close or a *bytes.Buffer / *bytes.Reader / *strings.Reader), some with earlier and later calls on the same codec instance; one text in 40 has 120..320 records (4..12 KiB). " +
			"expectation = encoding/csv itself with the same options, so all kinds are compared with one reference and therefore with one another. " +
			"non-trivial = every executed case; distinct by (text feature set, direction, kind, destination pre-state, option set, stream class)",
		Assumptions: []string{
			"'skipped lines' are counted in records, as the parser delivers them (a quoted header spanning two lines is one)",
			"an unset option (zero rune, zero fields-per-record) means the encoding/csv default, as the codec documents",
			"record-table and CSVReader sources carry the records that the reference parse of the group's text yields; groups whose text does not parse are not run through those kinds",
			"CSVWriter destinations are judged on the records passed to Write (copied at the time of the call, as csv.Writer does); aliasing is judged for record-table destinations, which the codec fills itself, and for a second CSVWriter kind that keeps the very slices it is handed -- except with the reuse-record option, which means precisely that a slice handed to Write is valid during the call only (that combination is not generated and not judged)",
			"typed-nil SOURCES and nil readers/writers are not generated (the no-panic clause names destination state and options)",
			"whether the stream is closed is recorded, not judged (the statement has no closing clause); a stream or closable source that is still used after the codec closed it is a violation (a closed file or HTTP body fails, so records are lost): scripted streams fail once closed",
			"a failure of the destination's or source's own methods (CSVWriter.Write / Error, io.ReaderFrom, encoding.BinaryUnmarshaler, CSVReader.Read, encoding.BinaryMarshaler) must surface as an error, like a stream fault",
			"'the parser's error instead of partial success': after the parser's error a destination the codec fills in one piece (record tables, *[]byte, *string and their named forms) must not hold anything new; streaming destinations (writers, CSVWriter) necessarily received the records before the malformed one",
			"what a call delivered must still be there, and share no memory with it, after later calls on the same codec instance and on a fresh one, and after the caller overwrote its *bytes.Buffer / *bytes.Reader source",
			"record-table and CSVReader sources may also hold nil, empty and one-empty-field records: the bytes written must be what encoding/csv's writer makes of those records",
			"a scripted read or write fault must surface as an error (a shorter success would be 'records delivered != parse of the input'); which error is not judged",
			"for malformed input the error must be the reference parser's error (same text); this includes the io.WriterTo source (whose pipe used to surface 'io: read/write on closed pipe' from the writing side first: repaired defect)",
			"destination kinds the codec does not document must not panic and must not report success while dropping records",
			"a *csv.Reader source / *csv.Writer destination may come with the caller's own separator, comment rune or fields-per-record (reader) / separator (writer) while the codec has no option of that name: the object's setting is then the dialect of the 'standard CSV parse' (writer: of the bytes written). Lazy quotes, trimmed space, record reuse and CRLF are not pre-set on the object (the codec sets them unconditionally from its options: decision pending), and a setting both on the object and in the codec options is not generated",
			"io.ReaderFrom and encoding.BinaryUnmarshaler destinations are filled in one piece too: after the parser's error their method must not have been called",
		},
		MinNontrivial: 500,
		QuickTimeout:  0,
		Run:           run,
		Replay:        replay,
	})
}

// Opts is the option set of one case.
type Opts struct {
	Comma   string `json:"comma,omitempty"`   // reader separator ("" = not set)
	Comment string `json:"comment,omitempty"` // reader comment rune
	Lazy    bool   `json:"lazy_quotes,omitempty"`
	Trim    bool   `json:"trim_leading_space,omitempty"`
	FPR     int    `json:"fields_per_record,omitempty"`
	Reuse   bool   `json:"reuse_record,omitempty"`
	WComma  string `json:"writer_comma,omitempty"`
	CRLF    bool   `json:"use_crlf,omitempty"`
	Skip    int    `json:"skip,omitempty"`
	Close   bool   `json:"close,omitempty"`
}

func r1(s string) rune {
	if s == "" {
		return 0
	}
	r, _ := utf8.DecodeRuneInString(s)
	return r
}

func (o Opts) set() string {
	var b []string
	add := func(c bool, s string) {
		if c {
			b = append(b, s)
		}
	}
	add(o.Comma != "", "comma="+o.Comma)
	add(o.Comment != "", "comment")
	add(o.Lazy, "lazy")
	add(o.Trim, "trim")
	add(o.FPR < 0, "fpr<0")
	add(o.FPR > 0, "fpr>0")
	add(o.Reuse, "reuse")
	add(o.WComma != "", "wcomma="+o.WComma)
	add(o.CRLF, "crlf")
	add(o.Skip > 0, "skip")
	add(o.Close, "close")
	return strings.Join(b, ",")
}

func (o Opts) sut() []runtime.CSVOpt {
	var l []runtime.CSVOpt
	rd := csv.Reader{Comma: r1(o.Comma), Comment: r1(o.Comment), LazyQuotes: o.Lazy, TrimLeadingSpace: o.Trim, FieldsPerRecord: o.FPR, ReuseRecord: o.Reuse}
	if rd.Comma != 0 || rd.Comment != 0 || rd.LazyQuotes || rd.TrimLeadingSpace || rd.FieldsPerRecord != 0 || rd.ReuseRecord {
		l = append(l, runtime.WithCSVReaderOpts(rd))
	}
	if o.WComma != "" || o.CRLF {
		l = append(l, runtime.WithCSVWriterOpts(csv.Writer{Comma: r1(o.WComma), UseCRLF: o.CRLF}))
	}
	if o.Skip != 0 {
		l = append(l, runtime.WithCSVSkipLines(o.Skip))
	}
	if o.Close {
		l = append(l, runtime.WithCSVClosesStream())
	}
	return l
}

// ---- reference: encoding/csv with the same options ----

func refParse(text string, o Opts, withOptions bool) ([][]string, error) {
	r := csv.NewReader(strings.NewReader(text))
	if withOptions {
		if c := r1(o.Comma); c != 0 {
			r.Comma = c
		}
		if c := r1(o.Comment); c != 0 {
			r.Comment = c
		}
		if o.FPR != 0 {
			r.FieldsPerRecord = o.FPR
		}
		r.LazyQuotes = o.Lazy
		r.TrimLeadingSpace = o.Trim
	}
	recs, err := r.ReadAll()
	if err != nil {
		return nil, err
	}
	return recs, nil
}

func refWrite(recs [][]string, o Opts, withOptions bool) ([]byte, error) {
	var b bytes.Buffer
	w := csv.NewWriter(&b)
	if withOptions {
		if c := r1(o.WComma); c != 0 {
			w.Comma = c
		}
		w.UseCRLF = o.CRLF
	}
	if err := w.WriteAll(recs); err != nil {
		return nil, err
	}
	return b.Bytes(), nil
}

func skipRecs(recs [][]string, k int) [][]string {
	if k < 0 {
		k = 0
	}
	if k > len(recs) {
		k = len(recs)
	}
	return recs[k:]
}

// Case is one call of the CSV consumer or producer.
type Case struct {
	Dir  string `json:"dir"`  // consume | produce
	Kind string `json:"kind"` // destination kind (consume) or source kind (produce), a string tag
	Text mon.Q  `json:"text"` // the CSV input (record-table sources carry its reference parse)
	Opts Opts   `json:"opts"`
	// destination pre-state (consume)
	PreLen  int    `json:"pre_len,omitempty"`  // records already in a record-table destination
	PreCap  int    `json:"pre_cap,omitempty"`  // its capacity (>= PreLen)
	PreText string `json:"pre_text,omitempty"` // prior content of a byte/string destination
	PreNil  bool   `json:"pre_nil,omitempty"`  // the destination is the typed-nil pointer of its kind
	// S scripts the stream (reader of Consume, writer of Produce); O scripts the payload when it is
	// stream-like (reader / writer-to / *csv.Reader source; writer-backed destination).
	S Script `json:"s"`
	O Script `json:"o"`
	// Warm: number of earlier calls made on the SAME codec instance (same input, throw-away
	// destination) before the judged call, which must behave exactly like the first one.
	Warm int `json:"warm,omitempty"`
	// Post: later calls made AFTER the judged one (1: one more on the same codec instance with another
	// text; 2: also one on a fresh codec with an unrelated text and default options); what the judged
	// call delivered is then read again and must not have changed.
	Post int `json:"post,omitempty"`
	// RK: the reader handed to Consume. "" = the scripted io.ReadCloser; "plain" = the scripted reader
	// without Close; "bytes.Buffer" / "bytes.Reader" / "strings.Reader" = the concrete standard types
	// (the script S does not apply to them).
	RK string `json:"rk,omitempty"`
	// Table: for record-table and CSVReader SOURCES, the records handed over when they are not the
	// parse of Text (tables holding nil or empty records, which no parse yields).
	Table [][]string `json:"table,omitempty"`
	// Obj: settings the CALLER made on the object it hands over, before the call: the *csv.Reader source of a
	// produce case (comma, comment, fields per record) or the *csv.Writer destination of a consume case (comma).
	// The codec option of the same name is then left unset: the object's own setting is the dialect of that
	// source / destination.
	Obj *ObjOpts `json:"obj,omitempty"`
}

// ObjOpts are settings made on a caller-supplied *csv.Reader / *csv.Writer.
type ObjOpts struct {
	Comma   string `json:"comma,omitempty"`
	Comment string `json:"comment,omitempty"`
	FPR     int    `json:"fields_per_record,omitempty"`
}

// refOpts returns the option set the reference parse and the reference writer work with: the codec options,
// plus the settings the caller made on its own reader / writer object. ok = false: a setting is made on the object
// AND named by a codec option (which of the two wins is not in the statement: such a case is not judged).
func (c *Case) refOpts() (o Opts, ok bool) {
	o = c.Opts
	if c.Obj == nil {
		return o, true
	}
	switch {
	case c.Dir == "produce" && c.Kind == "*csv.Reader":
		if (c.Obj.Comma != "" && o.Comma != "") || (c.Obj.Comment != "" && o.Comment != "") || (c.Obj.FPR != 0 && o.FPR != 0) {
			return o, false
		}
		if c.Obj.Comma != "" {
			o.Comma = c.Obj.Comma
		}
		if c.Obj.Comment != "" {
			o.Comment = c.Obj.Comment
		}
		if c.Obj.FPR != 0 {
			o.FPR = c.Obj.FPR
		}
	case c.Dir == "consume" && c.Kind == "*csv.Writer":
		if c.Obj.Comma != "" && o.WComma != "" {
			return o, false
		}
		if c.Obj.Comma != "" {
			o.WComma = c.Obj.Comma
		}
	}
	return o, true
}

func (c *Case) objSet() bool {
	return c.Obj != nil && (c.Obj.Comma != "" || c.Obj.Comment != "" || c.Obj.FPR != 0) && (c.Kind == "*csv.Reader" || c.Kind == "*csv.Writer")
}

func textFeatures(t string) string {
	var f []string
	add := func(c bool, s string) {
		if c {
			f = append(f, s)
		}
	}
	add(t == "", "empty")
	add(strings.Contains(t, `"`), "quotes")
	add(strings.Contains(t, `""`), "escaped-quote")
	add(strings.Contains(t, "\r\n"), "crlf")
	add(strings.Contains(t, "\n\n") || strings.HasPrefix(t, "\n"), "blank-line")
	add(strings.Contains(t, ",,") || strings.Contains(t, ",\n") || strings.Contains(t, "\n,"), "empty-field")
	add(strings.Contains(t, "#"), "hash")
	add(strings.ContainsAny(t, ";\t|"), "alt-sep")
	add(t != "" && !strings.HasSuffix(t, "\n"), "no-final-newline")
	add(strings.Contains(t, ", ") || strings.Contains(t, "\n "), "lead-space")
	return strings.Join(f, "+")
}

func destClass(kind string) string {
	switch {
	case kind == "*[]named-record" || kind == "*[][]named-field":
		return "record-table-named-elements"
	case isIn(destTableKinds, kind):
		return "record-table"
	case kind == "csvwriter":
		return "csv-writer-interface"
	case kind == "csvwriter-retaining":
		return "csv-writer-retaining"
	case kind == "*csv.Writer":
		return "csv.Writer"
	case isIn(destByteKinds, kind):
		return "bytes"
	}
	return "undocumented-kind"
}

func srcClass(kind string) string {
	switch {
	case kind == "binm":
		return "binary-marshaler"
	case kind == "writerto":
		return "writer-to"
	case kind == "csvreader":
		return "csv-reader-interface"
	case kind == "[]named-record" || kind == "[][]named-field":
		return "record-table-named-elements"
	case isIn(srcTableKinds, kind):
		return "record-table"
	case kind == "*csv.Reader":
		return "csv.Reader"
	case kind == "reader" || kind == "readcloser" || kind == "buffer":
		return "reader"
	}
	return "bytes-or-string"
}

func short(b []byte) string {
	if len(b) > 120 {
		return fmt.Sprintf("%q…(%d bytes)", b[:120], len(b))
	}
	return fmt.Sprintf("%q", b)
}

func shortRecs(r [][]string) string {
	s := fmt.Sprintf("%q", r)
	if len(s) > 300 {
		s = s[:300] + "…"
	}
	return fmt.Sprintf("%d records %s", len(r), s)
}

func sameRecords(a, b [][]string) bool {
	if len(a) != len(b) {
		return false
	}
	for i := range a {
		if len(a[i]) != len(b[i]) {
			return false
		}
		for j := range a[i] {
			if a[i][j] != b[i][j] {
				return false
			}
		}
	}
	return true
}

// aliased reports two delivered records that share storage: every cell record i can reach (its fields
// and the spare capacity an append to it would write into) is overwritten and the other records are
// read again.
func aliased(recs [][]string) (int, int, bool) {
	snap := make([][]string, len(recs))
	for i, r := range recs {
		snap[i] = append([]string(nil), r...)
	}
	for i := range recs {
		full := recs[i][:cap(recs[i])]
		if len(full) == 0 {
			continue
		}
		saved := append([]string(nil), full...)
		for j := range full {
			full[j] = "\x00verif-overwritten\x00"
		}
		for k := range recs {
			if k == i {
				continue
			}
			for j := range recs[k] {
				if recs[k][j] != snap[k][j] {
					copy(full, saved)
					return i, k, true
				}
			}
		}
		copy(full, saved)
	}
	return 0, 0, false
}

// explainRecords names the input feature that accounts for a record mismatch.
func explainRecords(c *Case, got, want [][]string, nodefault [][]string, nodefaultOK bool) string {
	switch {
	case c.Opts.Reuse:
		return "reuse-record"
	case nodefaultOK && !sameRecords(nodefault, want) && sameRecords(got, nodefault):
		return "reader-options-ignored"
	case len(got) == len(want)+1 && sameRecords(got[1:], want):
		return "one-skipped-record-too-few"
	case len(got)+1 == len(want) && sameRecords(got, want[1:]):
		return "one-skipped-record-too-many"
	case len(got) < len(want) && sameRecords(got, want[:len(got)]):
		return "records-missing-at-the-end"
	case c.Dir == "consume" && c.PreLen > 0:
		return "pre-populated-table"
	}
	return "other"
}

func preState(c *Case, n int) string {
	switch {
	case c.PreNil:
		return "typed-nil"
	case isIn(destTableKinds, c.Kind):
		switch {
		case c.PreLen == 0 && c.PreCap == 0:
			return "fresh"
		case c.PreLen > n:
			return "pre-populated-longer"
		case c.PreLen == n:
			return "pre-populated-equal"
		case c.PreLen == 0:
			return "empty-with-capacity"
		}
		return "pre-populated-shorter"
	case c.PreText != "":
		return "pre-populated"
	}
	return "fresh"
}

func (c *Case) fp(pre string) string {
	if c.Warm > 0 {
		pre += fmt.Sprintf("+warm%d", c.Warm)
	}
	if c.Post > 0 {
		pre += fmt.Sprintf("+post%d", c.Post)
	}
	if c.RK != "" {
		pre += "+reader=" + c.RK
	}
	if len(c.Table) > 0 {
		pre += "+odd-table"
	}
	if len(c.Text) > 4096 {
		pre += "+over-4KiB"
	}
	if longestLine(string(c.Text)) > 4096 {
		pre += "+line-over-4KiB"
	}
	if c.objSet() {
		pre += "+caller-configured-object"
	}
	return strings.Join([]string{textFeatures(string(c.Text)), c.Dir, c.Kind, pre, c.Opts.set(), c.S.class(len(c.Text)), c.O.class(len(c.Text))}, "|")
}

func longestLine(t string) int {
	best := 0
	for _, l := range strings.Split(t, "\n") {
		if len(l) > best {
			best = len(l)
		}
	}
	return best
}

func runCase(m *mon.M, c *Case) {
	m.Eval(1)
	if len(c.Text) > 4096 && longestLine(string(c.Text)) > 4096 {
		m.Class("text/one-line-over-4KiB/" + c.Dir)
	}
	switch c.Dir {
	case "consume":
		runConsume(m, c)
	case "produce":
		runProduce(m, c)
	default:
		m.Violate("bad-replay-case", "unknown direction "+c.Dir, c)
		return
	}
	if m.WantSample() {
		m.Sample(c)
	}
}

func errText(e error) string {
	if e == nil {
		return "<nil>"
	}
	return e.Error()
}

func noteClose(m *mon.M, c *Case, closes int) {
	switch {
	case closes > 0 && c.Opts.Close:
		m.Class("stream-closed-with-option")
	case closes > 0:
		m.Class("stream-closed-WITHOUT-option")
	case c.Opts.Close:
		m.Class("stream-not-closed-with-option")
	}
}

// ---- consumer ----

// byValueKinds are the destinations the codec fills itself, in one piece, once the input was parsed.
var byValueKinds = []string{"*[][]string", "*named-table", "*[]named-record", "*[][]named-field", "*[]byte", "*named-bytes", "*string", "*named-string"}

// held is a deep copy of what a destination holds at one moment.
type held struct {
	recs   [][]string
	b      []byte
	isRecs bool
	isB    bool
}

func copyRecs(r [][]string) [][]string {
	out := make([][]string, len(r))
	for i := range r {
		if r[i] != nil {
			out[i] = append(make([]string, 0, len(r[i])), r[i]...)
		}
	}
	return out
}

func snapshot(d dest) held {
	var h held
	if d.records != nil {
		h.isRecs, h.recs = true, copyRecs(d.records())
	}
	if d.bytes != nil {
		h.isB, h.b = true, append([]byte(nil), d.bytes()...)
	}
	return h
}

func (h held) same(d dest) bool {
	if h.isRecs && !sameRecords(h.recs, d.records()) {
		return false
	}
	if h.isB && !bytes.Equal(h.b, d.bytes()) {
		return false
	}
	return true
}

func (h held) String() string {
	if h.isRecs {
		return shortRecs(h.recs)
	}
	return short(h.b)
}

func (h held) empty() bool { return len(h.recs) == 0 && len(h.b) == 0 }

// consumeReader builds the reader handed to Consume. sr carries the counters of the scripted kinds (a
// blank one for the concrete standard readers); src is the memory a *bytes.Buffer / *bytes.Reader reads from.
func consumeReader(c *Case, text string) (rd io.Reader, sr *sReader, src []byte, ok bool) {
	switch c.RK {
	case "":
		sr = newReader([]byte(text), c.S)
		return sr, sr, nil, true
	case "plain":
		sr = newReader([]byte(text), c.S)
		return readerOnly{sr}, sr, nil, true
	case "bytes.Buffer":
		src = []byte(text)
		return bytes.NewBuffer(src), &sReader{}, src, true
	case "bytes.Reader":
		src = []byte(text)
		return bytes.NewReader(src), &sReader{}, src, true
	case "strings.Reader":
		return strings.NewReader(text), &sReader{}, nil, true
	}
	return nil, nil, nil, false
}

// laterText is a text a later call consumes or produces: same structure as the judged one (so that it
// parses under the same options), other letters.
func laterText(text string) string { return strings.ToUpper(text) }

// unrelatedText is a plain text, valid under the default options, longer than n bytes.
func unrelatedText(n int) string { return strings.Repeat("x,y,z\n0,2,3\n", n/12+2) }

// laterConsumes makes the calls that follow the judged one and reads again what the judged call delivered
// (h: what it held right after the judged call). It reports whether everything is still in place.
func laterConsumes(m *mon.M, c *Case, cons runtime.Consumer, d dest, h held, dc string) bool {
	if c.Post <= 0 {
		return true
	}
	text := string(c.Text)
	var later []dest
	if pd, ok := mkDest(c.Kind, 0, 0, "", false, Script{}); ok {
		_, _ = mon.Catch(func() { _ = cons.Consume(newReader([]byte(laterText(text)), Script{}), pd.v) })
		later = append(later, pd)
	}
	if c.Post >= 2 {
		if pd, ok := mkDest("*[]byte", 0, 0, "", false, Script{}); ok {
			_, _ = mon.Catch(func() {
				_ = runtime.CSVConsumer().Consume(newReader([]byte(unrelatedText(len(h.b)+len(text))), Script{}), pd.v)
			})
			later = append(later, pd)
		}
	}
	m.Class("later-calls-made")
	if !h.same(d) {
		m.Violate("delivered-result-altered-by-later-call/consume/"+dc, fmt.Sprintf("CSVConsumer into %s: input %s options {%s}: the judged call delivered %s; after %d later call(s) (same codec with %s, then a fresh codec with an unrelated text) the same destination reads %s", c.Kind, short([]byte(text)), c.Opts.set(), h, c.Post, short([]byte(laterText(text))), snapshot(d)), c)
		return false
	}
	// what the judged call delivered must not share memory with what a later call delivered
	var lh []held
	for _, pd := range later {
		lh = append(lh, snapshot(pd))
	}
	shared := -1
	if d.records != nil {
		for _, rec := range d.records() {
			full := rec[:cap(rec)]
			saved := append([]string(nil), full...)
			for j := range full {
				full[j] = "\x00verif-overwritten\x00"
			}
			for k, pd := range later {
				if !lh[k].same(pd) {
					shared = k
				}
			}
			copy(full, saved)
		}
	}
	if d.bytes != nil {
		b := d.bytes()
		full := b[:cap(b)]
		saved := append([]byte(nil), full...)
		for j := range full {
			full[j] = 0xAA
		}
		for k, pd := range later {
			if !lh[k].same(pd) {
				shared = k
			}
		}
		copy(full, saved)
	}
	if shared >= 0 {
		m.Violate("delivered-result-shared-with-later-call/consume/"+dc, fmt.Sprintf("CSVConsumer into %s: overwriting what the judged call delivered (%s) changed what later call #%d delivered into another destination", c.Kind, h, shared+1), c)
		return false
	}
	return true
}

func runConsume(m *mon.M, c *Case) {
	text := string(c.Text)
	ropts, judged := c.refOpts()
	if !judged {
		m.Class("not-judged:setting-made-on-the-object-and-named-by-a-codec-option")
		return
	}
	rcv := *c
	rcv.Opts = ropts
	rc := &rcv // the case as the reference sees it: the caller's own settings on its object included
	recs, perr := refParse(text, ropts, true)
	want := skipRecs(recs, c.Opts.Skip)
	pre := preState(c, len(want))
	d, ok := mkDest(c.Kind, c.PreLen, c.PreCap, c.PreText, c.PreNil, c.O)
	if !ok {
		m.Violate("bad-replay-case", "unknown destination kind "+c.Kind, c)
		return
	}
	applyObj(c, d.csvw, nil)
	before := snapshot(d) // the destination's own pre-state, copied before the codec can touch it
	rd, r, src, ok := consumeReader(c, text)
	if !ok {
		m.Violate("bad-replay-case", "unknown reader kind "+c.RK, c)
		return
	}
	cons := runtime.CSVConsumer(c.Opts.sut()...)
	for i := 0; i < c.Warm; i++ {
		if wd, ok := mkDest(c.Kind, 0, 0, "", false, Script{}); ok {
			_, _ = mon.Catch(func() { _ = cons.Consume(newReader([]byte(text), Script{}), wd.v) })
			m.Class("codec-instance-reused")
		}
	}
	var err error
	pv, st := mon.Catch(func() { err = cons.Consume(rd, d.v) })
	m.NT(c.fp(pre))
	dc := destClass(c.Kind)
	m.Class("consume/" + dc + "/" + pre)
	if c.objSet() {
		m.Class("consume/caller-configured-csv.Writer")
	}
	if c.RK != "" {
		m.Class("consume/reader=" + c.RK)
	}
	if pv != nil {
		sig := "consume-panic/" + dc + "/" + pre
		switch {
		case c.PreNil:
			sig = "consume-panic/typed-nil-destination"
		case dc == "record-table-named-elements" || dc == "undocumented-kind":
			sig = "consume-panic/" + dc
		}
		m.Violate(sig, fmt.Sprintf("CSVConsumer into %s (%T, %s) panicked: %v\ninput %s options {%s}; the reference parse yields %d records after skipping (err=%s)\n%s", c.Kind, d.v, pre, pv, short([]byte(text)), c.Opts.set(), len(want), errText(perr), st), c)
		return
	}
	noteClose(m, c, r.closes)
	if r.readsAfterClose > 0 {
		// a closed file or HTTP body answers with an error: records are lost
		m.Violate("stream-used-after-close/consume/reader", fmt.Sprintf("CSVConsumer into %s, options {%s}: the reader was read %d time(s) after the codec had closed it (err=%s)", c.Kind, c.Opts.set(), r.readsAfterClose, errText(err)), c)
		return
	}
	if src != nil && err == nil && (d.records != nil || d.bytes != nil) {
		// the destination must not share memory with the caller's source buffer
		h := snapshot(d)
		for i := range src {
			src[i] = 0xAA
		}
		if !h.same(d) {
			m.Violate("destination-aliases-source/consume/"+dc, fmt.Sprintf("CSVConsumer from a *%s into %s: the destination held %s; after the source buffer was overwritten it reads %s", c.RK, c.Kind, h, snapshot(d)), c)
			return
		}
		copy(src, text)
	}
	documented := dc != "undocumented-kind" && dc != "record-table-named-elements" && !c.PreNil
	if !documented {
		// an error is a fine answer; so is a correct delivery (judged below); a success that drops records is not
		if err != nil {
			m.Class("undocumented-or-nil-rejected")
			return
		}
		if d.records == nil && d.bytes == nil {
			if perr == nil && len(want) > 0 {
				m.Violate("silent-success/"+dc+"/"+pre, fmt.Sprintf("CSVConsumer into %s (%T): %d records parsed, none deliverable, nil returned", c.Kind, d.v, len(want)), c)
			}
			return
		}
	}
	if collab := d.faulted != nil && d.faulted(); r.errDelivered || (d.sink != nil && d.sink.errDelivered) || collab {
		m.Class("fault-delivered")
		if err == nil {
			what := "read"
			if !r.errDelivered {
				what = "destination-write"
			}
			sig := "stream-" + what + "-error-swallowed/consume/" + dc
			if what == "destination-write" && collab {
				what, sig = "destination's own (Write / Error / ReadFrom / UnmarshalBinary)", "collaborator-error-swallowed/consume/"+dc
			}
			m.Violate(sig, fmt.Sprintf("CSVConsumer into %s: the scripted %s error was delivered and nil was returned", c.Kind, what), c)
		}
		if collab {
			m.Class("collaborator-fault-delivered/" + dc)
		}
		if r.errDelivered && err != nil && isIn(byValueKinds, c.Kind) && !before.same(d) {
			m.Class("destination-touched-on-read-fault")
		}
		return
	}
	if d.bytes != nil && writerOptionsInvalid(ropts) {
		// encoding/csv's writer rejects these options as soon as one record is written: with a
		// malformed input either error may come first, so only the presence of an error is judged
		m.Class("writer-options-rejected-by-reference")
		if noR, noE := outcomeWith(rc, false); err == nil && (perr != nil || len(want) > 0) && noE == "" && len(noR) == 0 {
			m.Violate("reader-options-ignored/consume/"+dc, fmt.Sprintf("CSVConsumer into %s: input %s options {%s}: nil returned although the writer options are invalid: without the reader options the text holds no record to write", c.Kind, short([]byte(text)), c.Opts.set()), c)
		} else if err == nil && (perr != nil || len(want) > 0) {
			m.Violate("writer-error-swallowed/consume/"+dc, fmt.Sprintf("CSVConsumer into %s: encoding/csv's writer rejects the options {%s}, the consumer returned nil", c.Kind, c.Opts.set()), c)
		}
		return
	}
	if consumeIgnoresReaderOptions(rc, d, err, recs, perr) {
		m.Violate("reader-options-ignored/consume/"+dc, fmt.Sprintf("CSVConsumer into %s: input %s options {%s}: the outcome (err=%s) is what encoding/csv gives WITHOUT the reader options, not with them (with: err=%s, %d records)", c.Kind, short([]byte(text)), c.Opts.set(), errText(err), errText(perr), len(recs)), c)
		return
	}
	if perr != nil {
		m.Class("malformed-input")
		if err == nil {
			m.Violate("malformed-accepted/consume/"+dc, fmt.Sprintf("CSVConsumer into %s: input %s options {%s}: encoding/csv says %q, the consumer returned nil", c.Kind, short([]byte(text)), c.Opts.set(), perr), c)
		} else if err.Error() != perr.Error() {
			m.Violate("not-the-parser-error/consume/"+dc, fmt.Sprintf("CSVConsumer into %s: input %s options {%s}: encoding/csv says %q, the consumer says %q", c.Kind, short([]byte(text)), c.Opts.set(), perr, err), c)
		} else if d.calls != nil && (d.calls() > 0 || len(d.bytes()) > 0) {
			// io.ReaderFrom / encoding.BinaryUnmarshaler destinations are filled in one piece from the codec's own
			// buffer: next to the parser's error they must have been handed nothing
			m.Violate("partial-delivery-on-error/consume/"+dc+"/"+c.Kind, fmt.Sprintf("CSVConsumer into %s: input %s options {%s}: the parser's error %q was returned, and the destination's own method was called %d time(s) and was handed %s", c.Kind, short([]byte(text)), c.Opts.set(), err, d.calls(), short(d.bytes())), c)
		} else if isIn(byValueKinds, c.Kind) && !before.same(d) {
			// "the parser's error instead of partial success": a destination the codec fills itself must not
			// hold a part of the malformed input next to the error (the streaming kinds cannot help it)
			if now := snapshot(d); !now.empty() {
				m.Violate("partial-delivery-on-error/consume/"+dc+"/"+pre, fmt.Sprintf("CSVConsumer into %s (%s): input %s options {%s}: the parser's error %q was returned, and the destination, which held %s, now holds %s", c.Kind, pre, short([]byte(text)), c.Opts.set(), err, before, now), c)
			} else {
				m.Class("destination-emptied-on-error")
			}
		}
		return
	}
	nodef, nderr := refParse(text, ropts, false)
	nodef = skipRecs(nodef, c.Opts.Skip)
	if d.records != nil {
		if err != nil {
			m.Violate("spurious-error/consume/"+dc, fmt.Sprintf("CSVConsumer into %s (%s): well-formed input %s options {%s} rejected: %v", c.Kind, pre, short([]byte(text)), c.Opts.set(), err), c)
			return
		}
		got := d.records()
		if c.Kind == "csvwriter-retaining" && c.Opts.Reuse {
			m.Class("not-judged:retaining-csvwriter-with-reuse-record")
			return
		}
		if isIn(destTableKinds, c.Kind) || c.Kind == "csvwriter-retaining" {
			if i, k, al := aliased(got); al {
				feature := "plain-options"
				if c.Opts.Reuse {
					feature = "reuse-record"
				}
				if c.Kind == "csvwriter-retaining" {
					// the records the codec handed to the CSVWriter's Write, kept as they were handed over
					feature = "csv-writer-retaining/" + feature
				}
				m.Violate("aliased-records/"+feature, fmt.Sprintf("CSVConsumer into %s: overwriting delivered record %d changed delivered record %d (options {%s}); delivered %s, expected %s", c.Kind, i, k, c.Opts.set(), shortRecs(got), shortRecs(want)), c)
				return
			}
		}
		if !sameRecords(got, want) {
			m.Violate("records-mismatch/consume/"+dc+"/"+explainRecords(c, got, want, nodef, nderr == nil), fmt.Sprintf("CSVConsumer into %s (%s): input %s options {%s}\n delivered %s\n expected  %s", c.Kind, pre, short([]byte(text)), c.Opts.set(), shortRecs(got), shortRecs(want)), c)
			return
		}
		if d.rw != nil && len(want) > 0 && (d.rw.flushes == 0 || d.rw.flushedAt != len(want)) {
			m.Violate("csvwriter-not-flushed/consume", fmt.Sprintf("CSVConsumer into a CSVWriter: %d records written, Flush called %d times (last after %d records)", len(want), d.rw.flushes, d.rw.flushedAt), c)
		}
		if !laterConsumes(m, c, cons, d, snapshot(d), dc) {
			return
		}
		m.Class("records-ok")
		return
	}
	// byte destinations
	wantBytes, werr := refWrite(want, ropts, true)
	if werr != nil {
		m.Class("writer-options-rejected-by-reference")
		if err == nil {
			m.Violate("writer-error-swallowed/consume/"+dc, fmt.Sprintf("CSVConsumer into %s: encoding/csv's writer rejects the options {%s} (%v), the consumer returned nil", c.Kind, c.Opts.set(), werr), c)
		}
		return
	}
	if err != nil {
		m.Violate("spurious-error/consume/"+dc, fmt.Sprintf("CSVConsumer into %s (%s): well-formed input %s options {%s} rejected: %v", c.Kind, pre, short([]byte(text)), c.Opts.set(), err), c)
		return
	}
	got := d.bytes()
	if !bytes.Equal(got, wantBytes) {
		feat := explainBytes(rc, got, wantBytes, want, nodef, nderr == nil)
		if c.objSet() && (feat == "writer-options-ignored" || feat == "writer-comma-ignored") {
			// the separator the caller had set on its own *csv.Writer (no codec option names one) was replaced
			feat = "caller-writer-comma-overridden"
		}
		m.Violate("bytes-mismatch/consume/"+dc+"/"+feat, fmt.Sprintf("CSVConsumer into %s (%s): input %s options {%s}\n stored   %s\n expected %s", c.Kind, pre, short([]byte(text)), c.Opts.set(), short(got), short(wantBytes)), c)
		return
	}
	if !laterConsumes(m, c, cons, d, snapshot(d), dc) {
		return
	}
	m.Class("bytes-ok")
}

// explainBytes names the input feature that accounts for a byte mismatch.
func explainBytes(c *Case, got, wantBytes []byte, want, nodef [][]string, nodefOK bool) string {
	if alt, err := refWrite(want, c.Opts, false); err == nil && !bytes.Equal(alt, wantBytes) && bytes.Equal(got, alt) {
		return "writer-options-ignored"
	}
	if c.Opts.CRLF {
		o := c.Opts
		o.CRLF = false
		if alt, err := refWrite(want, o, true); err == nil && bytes.Equal(got, alt) {
			return "crlf-option-ignored"
		}
	}
	if c.Opts.WComma != "" {
		o := c.Opts
		o.WComma = ""
		if alt, err := refWrite(want, o, true); err == nil && bytes.Equal(got, alt) {
			return "writer-comma-ignored"
		}
	}
	if nodefOK && !sameRecords(nodef, want) {
		if alt, err := refWrite(nodef, c.Opts, true); err == nil && bytes.Equal(got, alt) {
			return "reader-options-ignored"
		}
	}
	if len(got) < len(wantBytes) && bytes.HasPrefix(wantBytes, got) {
		return "output-truncated"
	}
	if len(got) > len(wantBytes) && bytes.HasSuffix(got, wantBytes) {
		if c.Dir == "consume" && c.PreText != "" {
			return "appended-to-prior-content"
		}
		return "one-skipped-record-too-few"
	}
	if len(got) < len(wantBytes) && bytes.HasSuffix(wantBytes, got) {
		return "one-skipped-record-too-many"
	}
	return "other"
}

// outcomeWith computes what encoding/csv yields for the text, with or without the reader options:
// the error text, or the records after skipping.
func outcomeWith(c *Case, withOptions bool) ([][]string, string) {
	recs, err := refParse(string(c.Text), c.Opts, withOptions)
	if err != nil {
		return nil, err.Error()
	}
	return skipRecs(recs, c.Opts.Skip), ""
}

// produceIgnoresReaderOptions: the observed outcome differs from the reference with the reader
// options and equals the reference without them.
func produceIgnoresReaderOptions(c *Case, got []byte, err error, recs [][]string, perr error) bool {
	withR, withE := outcomeWith(c, true)
	noR, noE := outcomeWith(c, false)
	if withE == noE && sameRecords(withR, noR) {
		return false // the options make no difference on this text
	}
	if noE != "" {
		return err != nil && err.Error() == noE && withE != noE
	}
	if err != nil {
		return false
	}
	alt, werr := refWrite(noR, c.Opts, true)
	if werr != nil {
		return false
	}
	if withE == "" {
		if exp, e2 := refWrite(withR, c.Opts, true); e2 == nil && bytes.Equal(exp, got) {
			return false
		}
	}
	return bytes.Equal(got, alt)
}

func consumeIgnoresReaderOptions(c *Case, d dest, err error, recs [][]string, perr error) bool {
	withR, withE := outcomeWith(c, true)
	noR, noE := outcomeWith(c, false)
	if withE == noE && sameRecords(withR, noR) {
		return false
	}
	if noE != "" {
		return err != nil && err.Error() == noE && withE != noE
	}
	if err != nil {
		return false
	}
	if d.records != nil {
		got := d.records()
		return sameRecords(got, noR) && !(withE == "" && sameRecords(got, withR))
	}
	if d.bytes != nil {
		alt, werr := refWrite(noR, c.Opts, true)
		if werr != nil {
			return false
		}
		if withE == "" {
			if exp, e2 := refWrite(withR, c.Opts, true); e2 == nil && bytes.Equal(exp, d.bytes()) {
				return false
			}
		}
		return bytes.Equal(d.bytes(), alt)
	}
	return false
}

func writerOptionsInvalid(o Opts) bool {
	_, err := refWrite([][]string{{"x"}}, o, true)
	return err != nil
}

// ---- producer ----

func upperRecs(recs [][]string) [][]string {
	out := copyRecs(recs)
	for i := range out {
		for j := range out[i] {
			out[i][j] = strings.ToUpper(out[i][j])
		}
	}
	return out
}

// laterProduces makes the calls that follow the judged one and reads again what the judged call wrote.
func laterProduces(m *mon.M, c *Case, prod runtime.Producer, w *sWriter, table [][]string, sc string) bool {
	if c.Post <= 0 {
		return true
	}
	text := string(c.Text)
	written, writes := append([]byte(nil), w.buf...), w.writes
	if ps, ok := mkSource(c.Kind, []byte(laterText(text)), upperRecs(table), Script{}); ok {
		_, _ = mon.Catch(func() { _ = prod.Produce(newWriter(Script{}), ps.v) })
	}
	if c.Post >= 2 {
		_, _ = mon.Catch(func() { _ = runtime.CSVProducer().Produce(newWriter(Script{}), []byte(unrelatedText(len(text)))) })
	}
	m.Class("later-calls-made")
	if !bytes.Equal(w.buf, written) || w.writes != writes {
		m.Violate("written-result-altered-by-later-call/produce/"+sc, fmt.Sprintf("CSVProducer from %s: input %s options {%s}: the judged call wrote %s in %d writes; after %d later call(s) on other writers the same writer holds %s after %d writes", c.Kind, short([]byte(text)), c.Opts.set(), short(written), writes, c.Post, short(w.buf), w.writes), c)
		return false
	}
	return true
}

func runProduce(m *mon.M, c *Case) {
	text := string(c.Text)
	ropts, judged := c.refOpts()
	if !judged {
		m.Class("not-judged:setting-made-on-the-object-and-named-by-a-codec-option")
		return
	}
	rcv := *c
	rcv.Opts = ropts
	rc := &rcv // the case as the reference sees it: the caller's own settings on its object included
	recs, perr := refParse(text, ropts, true)
	tableKind := isIn(srcTableKinds, c.Kind)
	if tableKind && len(c.Table) > 0 {
		// a table no parse yields (nil / empty records): the records handed over ARE the input
		recs, perr = copyRecs(c.Table), nil
	}
	if tableKind && perr != nil {
		m.Class("table-source-skipped-unparsable-text")
		return
	}
	want := skipRecs(recs, c.Opts.Skip)
	s, ok := mkSource(c.Kind, []byte(text), copyRecs(recs), c.O)
	if !ok {
		m.Violate("bad-replay-case", "unknown source kind "+c.Kind, c)
		return
	}
	applyObj(c, nil, s.csvr)
	w := newWriter(c.S)
	prod := runtime.CSVProducer(c.Opts.sut()...)
	for i := 0; i < c.Warm; i++ {
		if ws, ok := mkSource(c.Kind, []byte(text), copyRecs(recs), Script{}); ok {
			applyObj(c, nil, ws.csvr)
			_, _ = mon.Catch(func() { _ = prod.Produce(newWriter(Script{}), ws.v) })
			m.Class("codec-instance-reused")
		}
	}
	var err error
	pv, st := mon.Catch(func() { err = prod.Produce(w, s.v) })
	m.NT(c.fp(""))
	sc := srcClass(c.Kind)
	m.Class("produce/" + sc)
	if c.objSet() {
		m.Class("produce/caller-configured-csv.Reader")
	}
	if tableKind && len(c.Table) > 0 {
		m.Class("produce/table-with-nil-or-empty-records")
	}
	if pv != nil {
		feat := sc
		if tableKind && len(c.Table) > 0 {
			feat += "/nil-or-empty-records"
		}
		m.Violate("produce-panic/"+feat, fmt.Sprintf("CSVProducer from %s (%T) panicked: %v\ninput %s options {%s}\n%s", c.Kind, s.v, pv, short([]byte(text)), c.Opts.set(), st), c)
		return
	}
	noteClose(m, c, w.closes)
	if c.Kind == "readcloser" && s.rd.closes == 0 {
		m.Class("closable-source-not-closed")
	}
	if w.writesAfterClose > 0 {
		m.Violate("stream-used-after-close/produce/writer", fmt.Sprintf("CSVProducer from %s, options {%s}: the writer was written to %d time(s) after the codec had closed it (err=%s, written %s)", c.Kind, c.Opts.set(), w.writesAfterClose, errText(err), short(w.buf)), c)
		return
	}
	if s.rd != nil && s.rd.readsAfterClose > 0 {
		m.Violate("stream-used-after-close/produce/source-payload", fmt.Sprintf("CSVProducer from %s, options {%s}: the closable source was read %d time(s) after the codec had closed it (err=%s)", c.Kind, c.Opts.set(), s.rd.readsAfterClose, errText(err)), c)
		return
	}
	collab := s.faulted != nil && s.faulted()
	srcFault := c.O.Fault && ((s.rd != nil && s.rd.errDelivered) || (s.wt != nil && s.wt.calls > 0))
	if w.errDelivered || srcFault || collab {
		m.Class("fault-delivered")
		if collab {
			m.Class("collaborator-fault-delivered/" + sc)
		}
		if err == nil {
			what := "write"
			if !w.errDelivered {
				what = "source-read"
			}
			sig := "stream-" + what + "-error-swallowed/produce/" + sc
			if what == "source-read" && collab {
				what, sig = "source's own (Read / MarshalBinary)", "collaborator-error-swallowed/produce/"+sc
			}
			m.Violate(sig, fmt.Sprintf("CSVProducer from %s: the scripted %s error was delivered and nil was returned (written %s)", c.Kind, what, short(w.buf)), c)
		}
		return
	}
	if writerOptionsInvalid(ropts) {
		m.Class("writer-options-rejected-by-reference")
		if noR, noE := outcomeWith(rc, false); err == nil && (perr != nil || len(want) > 0) && !tableKind && noE == "" && len(noR) == 0 {
			m.Violate("reader-options-ignored/produce/"+sc, fmt.Sprintf("CSVProducer from %s: input %s options {%s}: nil returned although the writer options are invalid: without the reader options the text holds no record to write", c.Kind, short([]byte(text)), c.Opts.set()), c)
		} else if err == nil && (perr != nil || len(want) > 0) {
			m.Violate("writer-error-swallowed/produce/"+sc, fmt.Sprintf("CSVProducer from %s: encoding/csv's writer rejects the options {%s}, the producer returned nil", c.Kind, c.Opts.set()), c)
		}
		return
	}
	if !tableKind && produceIgnoresReaderOptions(rc, w.buf, err, recs, perr) {
		sig := "reader-options-ignored/produce/" + sc
		if c.objSet() {
			// the settings the caller had made on its own *csv.Reader (no codec option names them) were replaced
			sig = "caller-reader-settings-overridden/produce/" + sc
		}
		m.Violate(sig, fmt.Sprintf("CSVProducer from %s: input %s options {%s}: the outcome (err=%s, written %s) is what encoding/csv gives WITHOUT the reader options, not with them (with: err=%s)", c.Kind, short([]byte(text)), c.Opts.set(), errText(err), short(w.buf), errText(perr)), c)
		return
	}
	if sc == "record-table-named-elements" && err != nil {
		m.Class("named-element-table-source-rejected")
		return
	}
	if perr != nil {
		m.Class("malformed-input")
		if err == nil {
			m.Violate("malformed-accepted/produce/"+sc, fmt.Sprintf("CSVProducer from %s: input %s options {%s}: encoding/csv says %q, the producer returned nil (written %s)", c.Kind, short([]byte(text)), c.Opts.set(), perr, short(w.buf)), c)
		} else if err.Error() != perr.Error() {
			if c.Kind == "writerto" {
				m.Class("writer-to-pipe-error-instead-of-parser-error")
			}
			m.Violate("not-the-parser-error/produce/"+sc, fmt.Sprintf("CSVProducer from %s: input %s options {%s}: encoding/csv says %q, the producer says %q", c.Kind, short([]byte(text)), c.Opts.set(), perr, err), c)
		}
		return
	}
	wantBytes, werr := refWrite(want, ropts, true)
	if werr != nil {
		m.Class("writer-options-rejected-by-reference")
		if err == nil {
			m.Violate("writer-error-swallowed/produce/"+sc, fmt.Sprintf("CSVProducer from %s: encoding/csv's writer rejects the options {%s} (%v), the producer returned nil", c.Kind, c.Opts.set(), werr), c)
		}
		return
	}
	if err != nil {
		m.Violate("spurious-error/produce/"+sc, fmt.Sprintf("CSVProducer from %s: well-formed input %s options {%s} rejected: %v", c.Kind, short([]byte(text)), c.Opts.set(), err), c)
		return
	}
	if !bytes.Equal(w.buf, wantBytes) {
		var nodef [][]string
		var nderr error
		if tableKind {
			nodef, nderr = nil, fmt.Errorf("n/a")
		} else {
			nodef, nderr = refParse(text, ropts, false)
			nodef = skipRecs(nodef, c.Opts.Skip)
		}
		feat := explainBytes(rc, w.buf, wantBytes, want, nodef, nderr == nil)
		if tableKind && len(c.Table) > 0 {
			feat = "nil-or-empty-records"
		}
		m.Violate("bytes-mismatch/produce/"+sc+"/"+feat, fmt.Sprintf("CSVProducer from %s: input %s options {%s}\n written  %s\n expected %s", c.Kind, short([]byte(text)), c.Opts.set(), short(w.buf), short(wantBytes)), c)
		return
	}
	if !laterProduces(m, c, prod, w, recs, sc) {
		return
	}
	m.Class("bytes-ok")
}

// applyObj makes the caller's own settings on the object it hands over (before the call).
func applyObj(c *Case, w *csv.Writer, r *csv.Reader) {
	if c.Obj == nil {
		return
	}
	if w != nil && c.Obj.Comma != "" {
		w.Comma = r1(c.Obj.Comma)
	}
	if r != nil {
		if c.Obj.Comma != "" {
			r.Comma = r1(c.Obj.Comma)
		}
		if c.Obj.Comment != "" {
			r.Comment = r1(c.Obj.Comment)
		}
		if c.Obj.FPR != 0 {
			r.FieldsPerRecord = c.Obj.FPR
		}
	}
}

func replay(m *mon.M, raw json.RawMessage) {
	var c Case
	if err := json.Unmarshal(raw, &c); err != nil {
		m.Violate("bad-replay-case", err.Error(), nil)
		return
	}
	runCase(m, &c)
}
