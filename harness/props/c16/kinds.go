package c16

import (
	"bytes"
	"encoding/csv"
	"errors"
	"io"
)

// ---- named forms ----

type namedTable [][]string
type namedRecord []string
type namedField string
type namedBytes []byte
type namedString string

// ---- destinations ----

// recWriter is a runtime.CSVWriter. Like csv.Writer it does not retain the slice it is handed, unless
// retain is set: then it keeps the very slices the codec passes to Write (a collecting writer).
//
// With sc.Fault the write that carries record number sc.ErrAt (0-based) fails: Write returns the error
// and keeps failing (as csv.Writer does once its underlying writer failed), or - with sc.ErrData - Write
// keeps returning nil, drops the record and the following ones, and only Error() reports the failure
// (as csv.Writer does for what is still in its buffer).
type recWriter struct {
	records                [][]string
	flushes, flushedAt     int
	errorCalls, writeCalls int
	retain                 bool
	sc                     Script
	failed                 bool
}

func (w *recWriter) Write(rec []string) error {
	w.writeCalls++
	if !w.failed && w.sc.Fault && len(w.records) >= w.sc.ErrAt {
		w.failed = true
	}
	if w.failed {
		if w.sc.ErrData {
			return nil
		}
		return errInjected
	}
	if w.retain {
		w.records = append(w.records, rec)
		return nil
	}
	w.records = append(w.records, append([]string(nil), rec...))
	return nil
}
func (w *recWriter) Flush() { w.flushes++; w.flushedAt = len(w.records) }
func (w *recWriter) Error() error {
	w.errorCalls++
	if w.failed {
		return errInjected
	}
	return nil
}

type wDest struct{ w *sWriter }

func (d wDest) Write(p []byte) (int, error) { return d.w.Write(p) }

// rfDest is an io.ReaderFrom; with fail it reports an error after draining the reader.
type rfDest struct {
	stored       []byte
	fail, failed bool
	calls        int
}

func (d *rfDest) ReadFrom(r io.Reader) (int64, error) {
	d.calls++
	buf := make([]byte, 7)
	var total int64
	for guard := 0; guard < 1<<24; guard++ {
		n, err := r.Read(buf)
		d.stored = append(d.stored, buf[:n]...)
		total += int64(n)
		if err == io.EOF {
			if d.fail {
				d.failed = true
				return total, errInjected
			}
			return total, nil
		}
		if err != nil {
			return total, err
		}
	}
	return total, errors.New("rfDest: no progress")
}

// buDest is an encoding.BinaryUnmarshaler; with fail it rejects what it is given.
type buDest struct {
	stored       []byte
	fail, failed bool
	calls        int
}

func (d *buDest) UnmarshalBinary(b []byte) error {
	d.calls++
	if d.fail {
		d.failed = true
		return errInjected
	}
	d.stored = append([]byte(nil), b...)
	return nil
}

// ---- sources ----

// recReader is a runtime.CSVReader over a record table; with sc.Fault the read that would deliver record
// number sc.ErrAt (or the end of the table) fails instead.
//
// With reuse it hands out ONE backing slice, overwritten by every Read (what csv.Reader does with ReuseRecord,
// and what the CSVReader contract allows): a record is valid until the next Read only. Before the slice is
// filled again its old fields are overwritten with a marker, so that a record kept by reference shows.
type recReader struct {
	records [][]string
	i       int
	sc      Script
	failed  bool
	reuse   bool
	shared  []string
}

func (r *recReader) Read() ([]string, error) {
	if r.failed || (r.sc.Fault && r.i >= r.sc.ErrAt) {
		r.failed = true
		return nil, errInjected
	}
	if r.i >= len(r.records) {
		return nil, io.EOF
	}
	r.i++
	if r.reuse {
		if r.shared == nil {
			widest := 1
			for _, rec := range r.records {
				if len(rec) > widest {
					widest = len(rec)
				}
			}
			r.shared = make([]string, 0, widest)
		}
		for j := range r.shared[:cap(r.shared)] {
			r.shared[:cap(r.shared)][j] = "\x00verif-reused-slot\x00"
		}
		r.shared = append(r.shared[:0], r.records[r.i-1]...)
		return r.shared, nil
	}
	return r.records[r.i-1], nil
}

// wtSrc is an io.WriterTo writing its text in scripted chunks; with Fault it fails after ErrAt bytes.
type wtSrc struct {
	data  []byte
	sc    Script
	calls int
}

func (s *wtSrc) WriteTo(w io.Writer) (int64, error) {
	s.calls++
	var total int64
	pos, ci := 0, 0
	lim := len(s.data)
	if s.sc.Fault && s.sc.ErrAt < lim {
		lim = s.sc.ErrAt
		if lim < 0 {
			lim = 0
		}
	}
	for pos < lim {
		c := lim - pos
		if len(s.sc.Chunks) > 0 {
			c = s.sc.Chunks[ci%len(s.sc.Chunks)]
			ci++
			if c <= 0 {
				c = 1
			}
			if c > lim-pos {
				c = lim - pos
			}
		}
		n, err := w.Write(s.data[pos : pos+c])
		total += int64(n)
		pos += n
		if err != nil {
			return total, err
		}
		if n < c {
			return total, io.ErrShortWrite
		}
	}
	if s.sc.Fault {
		return total, errInjected
	}
	return total, nil
}

// bmSrc is an encoding.BinaryMarshaler; with fail it has nothing to give but an error.
type bmSrc struct {
	data         []byte
	fail, failed bool
}

func (s *bmSrc) MarshalBinary() ([]byte, error) {
	if s.fail {
		s.failed = true
		return nil, errInjected
	}
	return append([]byte(nil), s.data...), nil
}

// ---- kind tables ----

// Destination kinds of the consumer. "records" kinds receive records, "bytes" kinds CSV text.
var destRecordKinds = []string{"csvwriter", "csvwriter-retaining", "*[][]string", "*named-table", "*[]named-record", "*[][]named-field"}
var destByteKinds = []string{"*csv.Writer", "writer", "buffer", "readerfrom", "binunm", "*[]byte", "*named-bytes", "*string", "*named-string"}
var destTableKinds = []string{"*[][]string", "*named-table", "*[]named-record", "*[][]named-field"}
var destOtherKinds = []string{"nil", "[]byte", "[][]string", "string", "int", "*int", "*struct", "*[]string", "*[][]int", "*[][][]string", "map", "chan", "**[][]string"}

// Source kinds of the producer. "text" kinds carry CSV text, "table" kinds a record table.
var srcTextKinds = []string{"*csv.Reader", "reader", "readcloser", "buffer", "writerto", "binm", "[]byte", "named-bytes", "*[]byte", "string", "named-string", "*string"}
var srcTableKinds = []string{"csvreader", "csvreader-reusing", "[][]string", "named-table", "*[][]string", "[]named-record", "[][]named-field"}

// srcNilKinds: untyped nil data (judged: an error, no panic) and typed-nil pointer sources (probed and classed).
var srcNilKinds = []string{"nil", "nil-*string", "nil-*[]byte", "nil-*[][]string", "nil-*csv.Reader"}

func isIn(l []string, s string) bool {
	for _, e := range l {
		if e == s {
			return true
		}
	}
	return false
}

// dest is one destination handed to Consume.
type dest struct {
	v        interface{}
	records  func() [][]string // for record kinds
	bytes    func() []byte     // for byte kinds
	sink     *sWriter
	rw       *recWriter
	csvw     *csv.Writer
	typedNil bool
	faulted  func() bool // a fallible collaborator (CSVWriter, ReaderFrom, BinaryUnmarshaler) delivered its error
	calls    func() int  // calls of the destination's own ReadFrom / UnmarshalBinary
}

func preTable(n, cp int) [][]string {
	if cp < n {
		cp = n
	}
	if n == 0 && cp == 0 {
		return nil
	}
	t := make([][]string, n, cp)
	for i := range t {
		t[i] = []string{"old", "record", string(rune('0' + i%10))}
	}
	return t
}

func toStrings(t interface{}) [][]string {
	switch x := t.(type) {
	case [][]string:
		return x
	case namedTable:
		return x
	case []namedRecord:
		out := make([][]string, len(x))
		for i, r := range x {
			out[i] = r
		}
		return out
	case [][]namedField:
		out := make([][]string, len(x))
		for i, r := range x {
			if r != nil {
				out[i] = make([]string, len(r))
			}
			for j, f := range r {
				out[i][j] = string(f)
			}
		}
		return out
	}
	return nil
}

// mkDest builds the destination. preLen/preCap describe a pre-populated record table; preText the
// prior content of a byte or string destination; preNil asks for the typed-nil pointer of the kind.
func mkDest(kind string, preLen, preCap int, preText string, preNil bool, o Script) (d dest, ok bool) {
	d.typedNil = preNil
	switch kind {
	case "*csv.Writer":
		if preNil {
			d.v = (*csv.Writer)(nil)
			return d, true
		}
		d.sink = newWriter(o)
		d.csvw = csv.NewWriter(d.sink)
		d.v, d.bytes = d.csvw, func() []byte { return d.sink.buf }
	case "csvwriter", "csvwriter-retaining":
		rw := &recWriter{sc: o, retain: kind == "csvwriter-retaining"}
		d.rw = rw
		d.v, d.records = rw, func() [][]string { return rw.records }
		d.faulted = func() bool { return rw.failed }
	case "writer":
		d.sink = newWriter(o)
		d.v, d.bytes = wDest{d.sink}, func() []byte { return d.sink.buf }
	case "buffer":
		x := &bytes.Buffer{}
		d.v, d.bytes = x, func() []byte { return x.Bytes() }
	case "readerfrom":
		x := &rfDest{fail: o.Fault}
		d.v, d.bytes = x, func() []byte { return x.stored }
		d.faulted = func() bool { return x.failed }
		d.calls = func() int { return x.calls }
	case "binunm":
		x := &buDest{fail: o.Fault}
		d.v, d.bytes = x, func() []byte { return x.stored }
		d.faulted = func() bool { return x.failed }
		d.calls = func() int { return x.calls }
	case "*[][]string":
		if preNil {
			d.v = (*[][]string)(nil)
			return d, true
		}
		x := new([][]string)
		*x = preTable(preLen, preCap)
		d.v, d.records = x, func() [][]string { return *x }
	case "*named-table":
		if preNil {
			d.v = (*namedTable)(nil)
			return d, true
		}
		x := new(namedTable)
		*x = preTable(preLen, preCap)
		d.v, d.records = x, func() [][]string { return *x }
	case "*[]named-record":
		if preNil {
			d.v = (*[]namedRecord)(nil)
			return d, true
		}
		x := new([]namedRecord)
		for _, r := range preTable(preLen, preCap) {
			*x = append(*x, r)
		}
		d.v, d.records = x, func() [][]string { return toStrings(*x) }
	case "*[][]named-field":
		if preNil {
			d.v = (*[][]namedField)(nil)
			return d, true
		}
		x := new([][]namedField)
		for range preTable(preLen, preCap) {
			*x = append(*x, []namedField{"old"})
		}
		d.v, d.records = x, func() [][]string { return toStrings(*x) }
	case "*[]byte":
		if preNil {
			d.v = (*[]byte)(nil)
			return d, true
		}
		x := new([]byte)
		if preText != "" {
			*x = []byte(preText)
		}
		d.v, d.bytes = x, func() []byte { return *x }
	case "*named-bytes":
		if preNil {
			d.v = (*namedBytes)(nil)
			return d, true
		}
		x := new(namedBytes)
		if preText != "" {
			*x = namedBytes(preText)
		}
		d.v, d.bytes = x, func() []byte { return *x }
	case "*string":
		if preNil {
			d.v = (*string)(nil)
			return d, true
		}
		x := new(string)
		*x = preText
		d.v, d.bytes = x, func() []byte { return []byte(*x) }
	case "*named-string":
		if preNil {
			d.v = (*namedString)(nil)
			return d, true
		}
		x := new(namedString)
		*x = namedString(preText)
		d.v, d.bytes = x, func() []byte { return []byte(*x) }
	// kinds the consumer does not document
	case "nil":
		d.v = nil
	case "[]byte":
		d.v = []byte("old")
	case "[][]string":
		d.v = [][]string{{"old"}}
	case "string":
		d.v = "old"
	case "int":
		d.v = 7
	case "*int":
		d.v = new(int)
	case "*struct":
		d.v = &struct{ A string }{}
	case "*[]string":
		d.v = &[]string{"old"}
	case "*[][]int":
		d.v = &[][]int{{1}}
	case "*[][][]string":
		d.v = &[][][]string{{{"old"}}}
	case "map":
		d.v = map[string]string{}
	case "chan":
		d.v = make(chan []string, 100)
	case "**[][]string":
		x := new([][]string)
		d.v = &x
	default:
		return d, false
	}
	return d, true
}

// source is one source handed to Produce.
type source struct {
	v       interface{}
	csvr    *csv.Reader // the caller's own reader object (kind *csv.Reader)
	rd      *sReader
	wt      *wtSrc
	faulted func() bool // a fallible collaborator (CSVReader, BinaryMarshaler) delivered its error
}

func fromStrings(kind string, t [][]string) interface{} {
	switch kind {
	case "[][]string":
		return t
	case "named-table":
		return namedTable(t)
	case "*[][]string":
		x := t
		return &x
	case "[]named-record":
		out := make([]namedRecord, len(t))
		for i, r := range t {
			out[i] = r
		}
		return out
	case "[][]named-field":
		out := make([][]namedField, len(t))
		for i, r := range t {
			out[i] = make([]namedField, len(r))
			for j, f := range r {
				out[i][j] = namedField(f)
			}
		}
		return out
	}
	return nil
}

func mkSource(kind string, text []byte, table [][]string, o Script) (s source, ok bool) {
	switch kind {
	case "*csv.Reader":
		s.rd = newReader(text, o)
		s.csvr = csv.NewReader(s.rd)
		s.v = s.csvr
	case "csvreader", "csvreader-reusing":
		x := &recReader{records: table, sc: o, reuse: kind == "csvreader-reusing"}
		s.v, s.faulted = x, func() bool { return x.failed }
	case "reader":
		s.rd = newReader(text, o)
		s.v = readerOnly{s.rd}
	case "readcloser":
		s.rd = newReader(text, o)
		s.v = s.rd
	case "buffer":
		s.v = bytes.NewBuffer(append([]byte(nil), text...))
	case "writerto":
		s.wt = &wtSrc{data: text, sc: o}
		s.v = s.wt
	case "binm":
		x := &bmSrc{data: text, fail: o.Fault}
		s.v, s.faulted = x, func() bool { return x.failed }
	case "[]byte":
		s.v = append([]byte{}, text...)
	case "named-bytes":
		s.v = namedBytes(append([]byte{}, text...))
	case "*[]byte":
		x := append([]byte{}, text...)
		s.v = &x
	case "string":
		s.v = string(text)
	case "named-string":
		s.v = namedString(text)
	case "*string":
		x := string(text)
		s.v = &x
	case "[][]string", "named-table", "*[][]string", "[]named-record", "[][]named-field":
		s.v = fromStrings(kind, table)
	// no data at all, and the typed-nil pointers of the pointer kinds
	case "nil":
		s.v = nil
	case "nil-*string":
		s.v = (*string)(nil)
	case "nil-*[]byte":
		s.v = (*[]byte)(nil)
	case "nil-*[][]string":
		s.v = (*[][]string)(nil)
	case "nil-*csv.Reader":
		s.v = (*csv.Reader)(nil)
	default:
		return s, false
	}
	return s, true
}
