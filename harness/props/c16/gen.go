package c16

import (
	"math/rand"
	"strings"

	"verif/mon"
)

// ---- CSV text grammar ----

var plainFields = []string{"a", "b", "name", "John", "US", "19", "x y", "é", "世界", "0", "-1.5", "true", "a'b", "a;b", "a|b", "a\tb", "#nocomment", "end."}
var hardFields = []string{"", "", "a,b", "say \"hi\"", "\"", "line1\nline2", "line1\r\nline2", " lead", "trail ", "  ", ",", "\n", "#", "a,\"b\"\nc", "\r", "x\ry", "\ufeffid", "\ufeff", "\u00a0pad", "\u200b", "nul\x00inside"}

// longField is one field of 4200..9000 bytes: longer than the 4096-byte buffers of csv.Reader, csv.Writer and bufio.
func longField(r *rand.Rand) string {
	unit := []string{"long field ", "0123456789", "x\"q\" y, z; ", "line\nbreak inside "}[r.Intn(4)]
	return strings.Repeat(unit, (4200+r.Intn(4800))/len(unit)+1)
}

func genField(r *rand.Rand) string {
	if r.Intn(3) == 0 {
		return hardFields[r.Intn(len(hardFields))]
	}
	return plainFields[r.Intn(len(plainFields))]
}

func needsQuote(f string, sep string) bool {
	return strings.ContainsAny(f, "\"\r\n") || strings.Contains(f, sep) || strings.HasPrefix(f, " ") || strings.HasPrefix(f, "#")
}

// render writes one field the way a hand-written CSV file would.
func render(r *rand.Rand, f, sep string, malform bool) string {
	if malform {
		switch r.Intn(5) {
		case 0:
			return "a\"b" // bare quote in an unquoted field
		case 1:
			return "\"open" + f // unterminated quote
		case 2:
			return "\"a\"b" // text after the closing quote
		case 3:
			return "\"a\" " // space after the closing quote
		default:
			return "x\"\"y"
		}
	}
	if needsQuote(f, sep) || r.Intn(6) == 0 {
		return "\"" + strings.ReplaceAll(f, "\"", "\"\"") + "\""
	}
	return f
}

type textSpec struct {
	text   string
	nrecs  int
	broken bool
}

// genText draws a CSV text. sep is the separator the text is written with (usually, but not
// always, the one the reader options name).
func genText(r *rand.Rand, sep string) textSpec {
	var sb strings.Builder
	n := r.Intn(7)
	large := false
	if r.Intn(12) == 0 {
		n = 0
	}
	if r.Intn(40) == 0 {
		// 4..12 KiB: crosses the 4096-byte buffers of csv.Reader, csv.Writer and bufio more than once
		n = 120 + r.Intn(200)
		// one large text in 2 has a record count at or just beyond a round number (a codec that moves records in
		// batches of 32, 64, 128, 256 or 512 shows at those counts and nowhere else)
		if r.Intn(2) == 0 {
			n = batchCounts[r.Intn(len(batchCounts))] + r.Intn(3) - 1
		}
		large = true
	}
	width := 1 + r.Intn(4)
	// one text in 50: a single field (hence a single record, and for most units a single line) above 4096 bytes
	longAt := -1
	if n > 0 && n < 20 && r.Intn(50) == 0 {
		longAt = r.Intn(n)
	}
	ragged := r.Intn(8) == 0
	broken := r.Intn(9) == 0
	brokenAt := -1
	if broken && n > 0 {
		brokenAt = r.Intn(n)
	}
	// a large text is malformed one time in 2, and then mostly in one of its last records: "the parser's error
	// instead of partial success" must hold however many well-formed records come first
	if large && r.Intn(2) == 0 {
		brokenAt = n - 1 - r.Intn(3)
		if r.Intn(4) == 0 {
			brokenAt = r.Intn(n)
		}
	}
	eol := "\n"
	if r.Intn(4) == 0 {
		eol = "\r\n"
	}
	for i := 0; i < n; i++ {
		if r.Intn(8) == 0 {
			sb.WriteString(eol) // blank line
		}
		if r.Intn(7) == 0 {
			sb.WriteString("# a comment" + sep + " with sep" + eol)
		}
		w := width
		if ragged && r.Intn(2) == 0 {
			w = 1 + r.Intn(5)
		}
		for j := 0; j < w; j++ {
			if j > 0 {
				sb.WriteString(sep)
				if r.Intn(10) == 0 {
					sb.WriteString(" ")
				}
			}
			if i == longAt && j == 0 {
				sb.WriteString(render(r, longField(r), sep, false))
				continue
			}
			sb.WriteString(render(r, genField(r), sep, i == brokenAt && j == w-1))
		}
		if i < n-1 || r.Intn(4) != 0 {
			sb.WriteString(eol)
		}
	}
	if r.Intn(15) == 0 {
		sb.WriteString(eol + eol)
	}
	text := sb.String()
	// one text in 8 starts with a mark that is field text to a CSV parse (a byte order mark, mostly: spreadsheet
	// exports start with one), once or twice, in front of whatever the first field is (plain, quoted, a comment
	// line, a blank line, nothing at all)
	if r.Intn(8) == 0 {
		mark := leadingMarks[0].mark
		if r.Intn(3) == 0 {
			mark = leadingMarks[r.Intn(len(leadingMarks))].mark
		}
		if r.Intn(6) == 0 {
			mark += mark
		}
		if r.Intn(8) == 0 {
			mark += eol // the mark alone on the first line
		}
		text = mark + text
		if n == 0 {
			n = 1
		}
	}
	return textSpec{text: text, nrecs: n, broken: brokenAt >= 0}
}

// batchCounts are record counts at which a batching codec would change behaviour.
var batchCounts = []int{32, 64, 128, 256, 257, 300, 512, 513}

var fixedTexts = []string{
	"name,country,age\nJohn,US,19\nMike,US,20\n",
	"name;country;age\nJohn;US;19\nMike;US;20\n",
	"# heading line\nname,country,age\n#John's record\nJohn,US,19\n",
	"\"multi\nline header\",b\n1,2\n3,4\n",
	"a,b\n1,2,3\n",
	"a,b\n1,\"2\n",
	"a, b\n 1,\" 2\"\n",
	"",
	"\n\n",
	"one\n",
	"a,b",
	"\"a\"\"b\",\"c,d\"\r\ne,f\r\n",
	"h1,h2\n" + strings.Repeat("a field longer than any buffer ", 160) + ",b\nc,d\n",
	"h1,h2\n\"" + strings.Repeat("quoted, with \"\"quotes\"\" and\nline breaks; ", 120) + "\",b\nc,d\n",
	"name;country;age\n\"mike;jr\";US;20\n# note\nJohn;US;19\n",
	// texts that start with a byte order mark, as spreadsheet programs export them: the mark is text of the first field
	"\ufeffname,country,age\nJohn,US,19\nMike,US,20\n",
	"\ufeffname;country;age\nJohn;US;19\nMike;US;20\n",
	"\ufeff\"name\",\"country\"\n\"John\",\"US\"\n", // the mark before a quoted field: a bare quote in a non-quoted field
	"\ufeff\n\ufeffname,age\nJohn,19\n",             // the mark alone on the first line: one field, then two
	"\ufeff# heading line\nname,age\nJohn,19\n",     // the mark before a comment rune: not a comment line
	"\ufeff\ufeffa,b\n1,2\n",
	"name,age\n\ufeffJohn,19\nMike,\ufeff\n", // the mark elsewhere
	"\ufeff",
}

func genOpts(r *rand.Rand, nrecs int) (Opts, string) {
	var o Opts
	sep := ","
	switch r.Intn(10) {
	case 0, 1:
		o.Comma, sep = ";", ";"
	case 2:
		o.Comma, sep = "\t", "\t"
	case 3:
		o.Comma, sep = "|", "|"
	case 4:
		o.Comma = ";" // options name a separator the text does not use
	case 5:
		if r.Intn(6) == 0 {
			o.Comma = []string{"\"", "\n", "#", "\r", "\ufffd"}[r.Intn(5)] // invalid or clashing delimiter
		}
	}
	if r.Intn(3) == 0 {
		o.Comment = "#"
	}
	o.Lazy = r.Intn(4) == 0
	o.Trim = r.Intn(4) == 0
	switch r.Intn(8) {
	case 0:
		o.FPR = -1
	case 1:
		o.FPR = 1 + r.Intn(4)
	}
	o.Reuse = r.Intn(4) == 0
	switch r.Intn(8) {
	case 0, 1:
		o.WComma = ";"
	case 2:
		o.WComma = "\t"
	case 3:
		if r.Intn(6) == 0 {
			o.WComma = []string{"\"", "\n", "\r"}[r.Intn(3)]
		}
	}
	o.CRLF = r.Intn(4) == 0
	if r.Intn(2) == 0 {
		o.Skip = r.Intn(nrecs + 3)
	}
	o.Close = r.Intn(3) == 0
	o.Order = genOrder(r, o)
	return o, sep
}

// genOrder draws the order in which the option functions are handed to the codec: half of the option sets keep the
// canonical order; the others are a random permutation of the functions that carry a setting, to which a function with
// its zero value (an unset option, spelt out) is added now and then.
func genOrder(r *rand.Rand, o Opts) string {
	if r.Intn(2) == 0 {
		return ""
	}
	need := o.carries()
	var l []string
	for _, name := range optionFuncs {
		if need[name] || (name != "close" && r.Intn(5) == 0) {
			l = append(l, name)
		}
	}
	r.Shuffle(len(l), func(i, j int) { l[i], l[j] = l[j], l[i] })
	if strings.Join(l, ",") == strings.Join(Opts{Comma: o.Comma, Comment: o.Comment, Lazy: o.Lazy, Trim: o.Trim, FPR: o.FPR, Reuse: o.Reuse, WComma: o.WComma, CRLF: o.CRLF, Skip: o.Skip, Close: o.Close}.given(), ",") {
		return "" // the canonical order after all
	}
	return strings.Join(l, ",")
}

func genChunks(r *rand.Rand, zeros bool) []int {
	n := 1 + r.Intn(5)
	var out []int
	for i := 0; i < n; i++ {
		if zeros && r.Intn(2) == 0 {
			run := 1 + r.Intn(4)
			if r.Intn(6) == 0 {
				run = 45 + r.Intn(15)
			}
			for j := 0; j < run; j++ {
				out = append(out, 0)
			}
		}
		out = append(out, 1+r.Intn(11))
	}
	return out
}

func genReadScript(r *rand.Rand, total, faultPct int) Script {
	var s Script
	switch k := r.Intn(10); {
	case k < 3:
	case k < 5:
		s.Chunks = []int{1}
	case k < 8:
		s.Chunks = genChunks(r, false)
	default:
		s.Chunks = genChunks(r, true)
	}
	s.EOFData = r.Intn(10) < 3
	if r.Intn(100) < faultPct {
		s.Fault, s.ErrAt, s.ErrData = true, r.Intn(total+1), r.Intn(3) == 0
	}
	return s
}

func genWriteScript(r *rand.Rand, total, faultPct int) Script {
	var s Script
	if r.Intn(100) < faultPct {
		s.Fault, s.ErrAt, s.Sticky = true, r.Intn(total+1), r.Intn(2) == 0
	}
	return s
}

// oddTable is the table with records no parse yields put in: nil, empty, one empty field.
func oddTable(r *rand.Rand, recs [][]string) [][]string {
	out := copyRecs(recs)
	for k := 1 + r.Intn(3); k > 0; k-- {
		var odd []string
		switch r.Intn(4) {
		case 0:
			odd = []string{}
		case 1:
			odd = []string{""}
		case 2:
			odd = []string{"", ""}
		}
		at := r.Intn(len(out) + 1)
		out = append(out[:at], append([][]string{odd}, out[at:]...)...)
	}
	return out
}

// genGroup draws one text and one option set and spreads them over every kind.
func genGroup(r *rand.Rand, idx int) []*Case {
	var text string
	var o Opts
	nrecs := 3
	if idx < len(fixedTexts)*2 {
		text = fixedTexts[idx%len(fixedTexts)]
		o, _ = genOpts(r, 3)
		if idx < len(fixedTexts) {
			o = Opts{Skip: idx % 3, Reuse: idx%4 == 1}
			if strings.Contains(text, ";") {
				o.Comma = ";"
			}
			if strings.HasPrefix(text, "#") {
				o.Comment = "#"
			}
			if idx%2 == 1 {
				o.Order = "close,skip,writer,reader" // the canonical order reversed (zero-valued functions spelt out)
			}
		}
	} else {
		nrecsGuess := 3
		var sep string
		o, sep = genOpts(r, nrecsGuess)
		ts := genText(r, sep)
		text, nrecs = ts.text, ts.nrecs
		if o.Skip > ts.nrecs+2 {
			o.Skip = ts.nrecs + 2
		}
	}
	recs, perr := refParse(text, o, true)
	n := len(skipRecs(recs, o.Skip))
	if perr != nil {
		// pre-states are sized after the records written down, although the text does not parse
		n = nrecs - o.Skip
		if n < 0 {
			n = 0
		}
	}
	var out []*Case
	// one group in 20: every call of the group is made while two other goroutines use the same codec instance
	conc := 0
	if r.Intn(20) == 0 {
		conc = 3
	}
	// consumer: every documented kind, a pre-state each
	for _, kind := range append(append([]string{}, destRecordKinds...), destByteKinds...) {
		c := &Case{Dir: "consume", Kind: kind, Text: mon.Q(text), Opts: o, S: genReadScript(r, len(text), 6)}
		if r.Intn(5) == 0 {
			c.Warm = 1 + r.Intn(2)
		}
		if isIn(destTableKinds, kind) {
			switch r.Intn(9) {
			case 8:
				if n > 1 {
					c.PreLen = 1 + r.Intn(n-1) // shorter, not empty
				}
			case 0:
				c.PreLen = n + 1 + r.Intn(3) // longer
			case 1:
				c.PreLen = n // equal
			case 2:
				if n > 0 {
					c.PreLen = r.Intn(n) // shorter
				}
				c.PreCap = c.PreLen + r.Intn(4)
			case 3:
				c.PreLen, c.PreCap = n+1, n+1+r.Intn(8) // longer, spare capacity
			case 4:
				c.PreCap = 1 + r.Intn(2*n+2) // empty with capacity
			case 5:
				c.PreNil = true
			}
		} else if kind == "*csv.Writer" {
			c.PreNil = r.Intn(8) == 0
			// the caller's own separator on its writer object, no writer separator among the codec options
			if !c.PreNil {
				switch {
				case o.WComma != "" && r.Intn(2) == 0:
					c.Obj, c.Opts.WComma = &ObjOpts{Comma: o.WComma}, ""
				case o.WComma == "" && r.Intn(4) == 0:
					c.Obj = &ObjOpts{Comma: []string{";", "\t", "|"}[r.Intn(3)]}
				}
				// the caller's own UseCRLF on its writer object, the codec's writer options without it
				if conc == 0 && ((o.CRLF && r.Intn(2) == 0) || (!o.CRLF && r.Intn(8) == 0)) {
					if c.Obj == nil {
						c.Obj = &ObjOpts{}
					}
					c.Obj.CRLF, c.Opts.CRLF = true, false
				}
			}
		} else if strings.HasPrefix(kind, "*") {
			switch r.Intn(8) {
			case 0, 1:
				c.PreText = "old,content\nlonger,than,most,inputs,to,be,consumed,by,this,case\n"
			case 2:
				c.PreNil = true
			}
		}
		if kind == "*csv.Writer" || kind == "writer" {
			c.O = genWriteScript(r, len(text)+8, 6)
		}
		// fallible collaborators: the destination's own Write / Error / ReadFrom / UnmarshalBinary fails
		if r.Intn(12) == 0 {
			switch kind {
			case "csvwriter", "csvwriter-retaining":
				c.O = Script{Fault: true, ErrAt: r.Intn(n + 2), ErrData: r.Intn(2) == 0}
			case "readerfrom", "binunm":
				c.O = Script{Fault: true}
			}
		}
		if kind == "csvwriter-retaining" && o.Reuse {
			// a CSVWriter that keeps the slices it is handed although record reuse was requested is not
			// generated: record reuse MEANS that the slice handed to Write is only valid during the call
			// (csv.Reader.ReuseRecord; Write methods must not retain their argument). An earlier version of
			// the oracle flagged it on the unchanged tree: false alarm, see DESIGN 9.3.
			continue
		}
		// later calls, after which the judged destination is read again
		switch {
		case kind == "*[]byte" || kind == "*named-bytes":
			if r.Intn(2) == 0 {
				c.Post = 1 + r.Intn(2)
			}
		case r.Intn(6) == 0:
			c.Post = 1 + r.Intn(2)
		}
		// the reader: without Close, or one of the concrete standard readers
		switch r.Intn(12) {
		case 0:
			c.RK = "plain"
		case 1:
			c.RK, c.S = []string{"bytes.Buffer", "bytes.Reader", "strings.Reader"}[r.Intn(3)], Script{}
		}
		if !c.PreNil {
			c.Conc = conc
		}
		out = append(out, c)
	}
	// a few undocumented kinds
	for k := 0; k < 2; k++ {
		out = append(out, &Case{Dir: "consume", Kind: destOtherKinds[r.Intn(len(destOtherKinds))], Text: mon.Q(text), Opts: o})
	}
	// producer: every source kind
	for _, kind := range append(append([]string{}, srcTextKinds...), srcTableKinds...) {
		c := &Case{Dir: "produce", Kind: kind, Text: mon.Q(text), Opts: o, S: genWriteScript(r, len(text)+8, 6)}
		if r.Intn(5) == 0 {
			c.Warm = 1 + r.Intn(2)
		}
		if kind == "*csv.Reader" && (o.Comma != "" || o.Comment != "" || o.FPR != 0) && (r.Intn(2) == 0 || idx < len(fixedTexts)) {
			// the caller's own settings on its reader object; the codec options of the same names stay unset
			// (the reference parse is the group's: the same settings, wherever they were made)
			c.Obj = &ObjOpts{}
			if o.Comma != "" && r.Intn(4) != 0 {
				c.Obj.Comma, c.Opts.Comma = o.Comma, ""
			}
			if o.Comment != "" && r.Intn(4) != 0 {
				c.Obj.Comment, c.Opts.Comment = o.Comment, ""
			}
			if o.FPR != 0 && r.Intn(4) != 0 {
				c.Obj.FPR, c.Opts.FPR = o.FPR, 0
			}
		}
		if kind == "*csv.Reader" && conc == 0 {
			// the caller's own LazyQuotes / TrimLeadingSpace / ReuseRecord on its reader object, the codec's reader
			// options without them (one of them per case)
			var mine []string
			for _, b := range []struct {
				name string
				on   bool
			}{{"lazy", o.Lazy}, {"trim", o.Trim}, {"reuse", o.Reuse}} {
				if (b.on && r.Intn(2) == 0) || (!b.on && r.Intn(10) == 0) {
					mine = append(mine, b.name)
				}
			}
			if len(mine) > 0 {
				if c.Obj == nil {
					c.Obj = &ObjOpts{}
				}
				switch mine[r.Intn(len(mine))] {
				case "lazy":
					c.Obj.Lazy, c.Opts.Lazy = true, false
				case "trim":
					c.Obj.Trim, c.Opts.Trim = true, false
				case "reuse":
					c.Obj.Reuse, c.Opts.Reuse = true, false
				}
			}
		}
		switch kind {
		case "*csv.Reader", "reader", "readcloser", "writerto":
			c.O = genReadScript(r, len(text), 6)
		case "csvreader", "csvreader-reusing":
			if r.Intn(12) == 0 {
				c.O = Script{Fault: true, ErrAt: r.Intn(len(recs) + 1)} // the CSVReader's own Read fails
			}
		case "binm":
			if r.Intn(12) == 0 {
				c.O = Script{Fault: true} // MarshalBinary fails
			}
		}
		if isIn(srcTableKinds, kind) && perr == nil && r.Intn(8) == 0 {
			c.Table = oddTable(r, recs)
		}
		if r.Intn(6) == 0 {
			c.Post = 1 + r.Intn(2)
		}
		// the writer: the caller's own *bufio.Writer (4096 bytes: csv.NewWriter adopts it; 16 bytes: it does not)
		// over the scripted sink, or a *bytes.Buffer
		switch r.Intn(12) {
		case 0:
			c.WK = "bufio"
		case 1:
			c.WK = "bufio16"
		case 2:
			c.WK, c.S = "bytes.Buffer", Script{}
		}
		c.Conc = conc
		out = append(out, c)
	}
	// one group in 8: no reader, no writer, no data (an error is owed, not a panic); a typed-nil pointer source (probe)
	if r.Intn(8) == 0 {
		all := append(append([]string{}, destRecordKinds...), destByteKinds...)
		out = append(out,
			&Case{Dir: "consume", Kind: all[r.Intn(len(all))], RK: "nil", Text: mon.Q(text), Opts: o},
			&Case{Dir: "produce", Kind: srcTextKinds[r.Intn(len(srcTextKinds))], WK: "nil", Text: mon.Q(text), Opts: o},
			&Case{Dir: "produce", Kind: "nil", Text: mon.Q(text), Opts: o},
			&Case{Dir: "produce", Kind: srcNilKinds[1+r.Intn(len(srcNilKinds)-1)], Text: mon.Q(text), Opts: o},
		)
	}
	return out
}

func run(m *mon.M) {
	r := m.Rand("groups")
	groups := m.N(800, 6000)
	// the fixed texts are spread over the shards
	for g := 0; g < groups; g++ {
		idx := g*m.NShards + m.Shard
		for _, c := range genGroup(r, idx) {
			m.Begin(c)
			runCase(m, c)
		}
	}
	m.Note("groups", int64(groups))
}
