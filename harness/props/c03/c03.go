// Package c03 monitors parameter binding: every declared non-body parameter is bound to exactly the
// value its text denotes, or the request is refused with a 422 naming it; binding never panics.
package c03

import (
	"bytes"
	"encoding/base64"
	"encoding/json"
	"fmt"
	"io"
	"math"
	"math/rand"
	"mime/multipart"
	"net/http"
	"net/http/httptest"
	"net/url"
	"path"
	"reflect"
	"regexp"
	"strconv"
	"strings"
	"time"

	"github.com/go-openapi/runtime"
	"github.com/go-openapi/runtime/middleware"
	"github.com/go-openapi/runtime/middleware/untyped"
	"github.com/go-openapi/spec"
	"github.com/go-openapi/strfmt"

	"verif/gen"
	"verif/mon"
)

func init() {
	mon.Register(&mon.Property{
		ID:    "C03",
		Level: "exploration",
		Rule: "the declaration space {path, query, header, formData-urlencoded, formData-multipart} x {string(+date, date-time, uuid, byte), integer(none,int8..int64), number(none,float,double), boolean, arrays of those with csv/ssv/tsv/pipes/multi, file} x required x default x allowEmptyValue x one validation " +
			"is enumerated (thorough: completely; quick: a PRNG-chosen part); each declaration gets the boundary-literal pool of its type x presence shapes (absent, empty, once, repeated, header-name case). One operation per declaration, driven through the full untyped handler; " +
			"oracle = denotation function written from the statement. non-trivial = every judged request; distinct by (declaration, presence shape, literal)",
		Assumptions: []string{
			"texts outside the core literal grammar that Go's strconv nevertheless accepts (inf, NaN, hex floats, underscores) may be refused or bound to the strconv value",
			"date-time texts other than RFC 3339 and uuid texts other than the canonical 8-4-4-4-12 form may be refused or accepted",
			"array items are the separator-split texts with surrounding blanks trimmed and empty items dropped (documented collection-format behaviour); empty items of multi arrays are not judged",
			"a default that itself violates the declaration's validation is not generated; validations are applied to the text the client sent",
			"an empty text combined with a declared validation is not judged (it may be validated as the empty value or treated as absent); an empty occurrence of a multi array is not judged",
			"boolean: the library's documented true-words denote true; false,0,no,n,off,f,disabled,unchecked,unselected denote false; anything else is not a boolean literal",
		},
		MinNontrivial: 500,
		Run:           run,
		Replay:        replay,
	})
}

// Req is one request against declaration D.
type Req struct {
	D         int     `json:"d"`
	Absent    bool    `json:"absent,omitempty"`
	Texts     []mon.Q `json:"texts,omitempty"`
	HeaderKey string  `json:"headerKey,omitempty"`
	FileName  string  `json:"fileName,omitempty"`
	// Shadow: for formData parameters, a value of the same name carried in the URL query string
	// (another location: it must not be looked at)
	Shadow *mon.Q `json:"shadowQuery,omitempty"`
	// OtherKey: for query and formData parameters, the texts are sent under this key, which differs
	// from the declared name in letter case only: such a request does not carry the parameter
	OtherKey string `json:"otherKey,omitempty"`
}

// Case is a set of declarations (one operation each) and requests.
type Case struct {
	Decls []gen.Param `json:"decls"`
	Forms []string    `json:"forms"` // per decl: "", "urlencoded", "multipart"
	Reqs  []Req       `json:"reqs"`
}

// ---------------- expectation ----------------

type expectation struct {
	reject  bool
	either  bool     // not judged
	accepts []string // acceptable canonical values
	why     string
}

var (
	reInt   = regexp.MustCompile(`^[+-]?[0-9]+$`)
	reFloat = regexp.MustCompile(`^[+-]?([0-9]+(\.[0-9]*)?|\.[0-9]+)([eE][+-]?[0-9]+)?$`)
	reUUID  = regexp.MustCompile(`^[0-9a-fA-F]{8}-[0-9a-fA-F]{4}-[0-9a-fA-F]{4}-[0-9a-fA-F]{4}-[0-9a-fA-F]{12}$`)
)

var trueWords = map[string]bool{"true": true, "1": true, "yes": true, "ok": true, "y": true, "on": true, "selected": true, "checked": true, "t": true, "enabled": true}
var falseWords = map[string]bool{"false": true, "0": true, "no": true, "n": true, "off": true, "f": true, "disabled": true, "unchecked": true, "unselected": true}

func intBits(format string) int {
	switch format {
	case "int8":
		return 8
	case "int16":
		return 16
	case "int32":
		return 32
	}
	return 64
}

func canonInt(bits int, v int64) string { return fmt.Sprintf("int%d:%d", bits, v) }
func canonFloat(bits int, v float64) string {
	if bits == 32 {
		return fmt.Sprintf("float32:%08x", math.Float32bits(float32(v)))
	}
	return fmt.Sprintf("float64:%016x", math.Float64bits(v))
}

// scalar computes the denotation of one literal text for (type, format).
// ok=false: not a valid literal; either=true: outside the judged grammar.
func scalar(tpe, format, text string) (canon []string, ok bool, either bool) {
	switch tpe {
	case "string":
		switch format {
		case "date":
			t, err := time.Parse("2006-01-02", text)
			if err != nil {
				return nil, false, false
			}
			return []string{"date:" + t.Format("2006-01-02")}, true, false
		case "date-time":
			t, err := time.Parse(time.RFC3339Nano, text)
			if err != nil {
				if _, err2 := strfmt.ParseDateTime(text); err2 == nil {
					return nil, false, true // a non-RFC3339 layout the format registry knows: not judged
				}
				return nil, false, false
			}
			return []string{fmt.Sprintf("datetime:%d", t.UnixNano())}, true, false
		case "uuid":
			if reUUID.MatchString(text) {
				return []string{"uuid:" + text}, true, false
			}
			if strings.ContainsAny(text, "{}:") || len(text) == 32 {
				return nil, false, true
			}
			return nil, false, false
		case "byte":
			b, err := base64.StdEncoding.DecodeString(text)
			if err == nil {
				return []string{fmt.Sprintf("bytes:%x", b)}, true, false
			}
			if _, err := base64.URLEncoding.DecodeString(text); err == nil {
				return nil, false, true
			}
			if _, err := base64.RawStdEncoding.DecodeString(text); err == nil {
				return nil, false, true
			}
			return nil, false, false
		}
		return []string{"string:" + text}, true, false
	case "integer":
		bits := intBits(format)
		if !reInt.MatchString(text) {
			if _, err := strconv.ParseInt(text, 0, 64); err == nil {
				return nil, false, false // hex/underscore forms are not decimal literals: must be refused
			}
			return nil, false, false
		}
		v, err := strconv.ParseInt(text, 10, bits)
		if err != nil {
			return nil, false, false
		}
		return []string{canonInt(bits, v)}, true, false
	case "number":
		bits := 64
		if format == "float" {
			bits = 32
		}
		if !reFloat.MatchString(text) {
			if _, err := strconv.ParseFloat(text, 64); err == nil {
				return nil, false, true
			}
			return nil, false, false
		}
		v, err := strconv.ParseFloat(text, bits)
		if err != nil {
			return nil, false, false // out of range
		}
		return []string{canonFloat(bits, v)}, true, false
	case "boolean":
		l := strings.ToLower(text)
		if trueWords[l] {
			return []string{"bool:true"}, true, false
		}
		if falseWords[l] {
			return []string{"bool:false"}, true, false
		}
		return nil, false, false
	}
	return nil, false, true
}

// canonDefault renders a declared default (a JSON value) as the canonical value of the declared type.
func canonDefault(tpe, format string, def interface{}) (string, bool) {
	switch tpe {
	case "string":
		s, ok := def.(string)
		if !ok {
			return "", false
		}
		c, ok2, _ := scalar(tpe, format, s)
		if !ok2 {
			return "", false
		}
		return c[0], true
	case "integer":
		f, ok := def.(float64)
		if !ok {
			return "", false
		}
		return canonInt(intBits(format), int64(f)), true
	case "number":
		f, ok := def.(float64)
		if !ok {
			return "", false
		}
		if format == "float" {
			return canonFloat(32, f), true
		}
		return canonFloat(64, f), true
	case "boolean":
		b, ok := def.(bool)
		if !ok {
			return "", false
		}
		return fmt.Sprintf("bool:%v", b), true
	}
	return "", false
}

func zeroCanon(tpe, format string) string {
	switch tpe {
	case "string":
		switch format {
		case "date":
			return "date:0001-01-01" // the zero date; accepted spellings handled by canonOf
		case "date-time":
			return "datetime:zero"
		case "uuid":
			return "uuid:"
		case "byte":
			return "bytes:"
		}
		return "string:"
	case "integer":
		return canonInt(intBits(format), 0)
	case "number":
		if format == "float" {
			return canonFloat(32, 0)
		}
		return canonFloat(64, 0)
	case "boolean":
		return "bool:false"
	}
	return "?"
}

func sepOf(cf string) string {
	switch cf {
	case "ssv":
		return " "
	case "tsv":
		return "\t"
	case "pipes":
		return "|"
	}
	return ","
}

func validateScalar(d *gen.Param, tpe, text string, canon string) bool {
	switch tpe {
	case "integer", "number":
		var f float64
		if tpe == "integer" {
			v, _ := strconv.ParseInt(text, 10, 64)
			f = float64(v)
		} else {
			f, _ = strconv.ParseFloat(text, 64)
		}
		if d.Minimum != nil && f < *d.Minimum {
			return false
		}
		if d.Maximum != nil && f > *d.Maximum {
			return false
		}
	case "string":
		n := int64(len([]rune(text)))
		if d.MinLength != nil && n < *d.MinLength {
			return false
		}
		if d.MaxLength != nil && n > *d.MaxLength {
			return false
		}
	}
	if len(d.Enum) > 0 && tpe == "string" {
		ok := false
		for _, e := range d.Enum {
			if s, isS := e.(string); isS && s == text {
				ok = true
			}
		}
		return ok
	}
	return true
}

func hasValidation(d *gen.Param) bool {
	return d.Minimum != nil || d.Maximum != nil || d.MinLength != nil || d.MaxLength != nil || len(d.Enum) > 0 || d.MinItems != nil || d.MaxItems != nil
}

// gone: the request does not carry the parameter under its declared name.
func (rq *Req) gone() bool { return rq.Absent || rq.OtherKey != "" }

func expect(d *gen.Param, rq *Req) expectation {
	absent := rq.gone()
	texts := mon.SQ(rq.Texts)
	if d.Type == "file" {
		if absent {
			if d.Required {
				return expectation{reject: true, why: "required file missing"}
			}
			return expectation{accepts: []string{"nofile"}, why: "optional file absent"}
		}
		return expectation{accepts: []string{"file:" + path.Base(rq.FileName) + ":" + fmt.Sprintf("%x", texts[0])}, why: "file content, base file name"}
	}
	missing := func(emptyText bool) (expectation, bool) {
		if d.Required && d.Default == nil && (absent || !d.AllowEmptyValue) {
			return expectation{reject: true, why: "required and missing/empty"}, true
		}
		_ = emptyText
		return expectation{}, false
	}
	if d.Type == "array" {
		var items []string
		if !absent {
			if d.CollectionFormat == "multi" {
				items = texts
				for _, it := range items {
					if it == "" {
						return expectation{either: true, why: "empty item in multi array"}
					}
				}
			} else {
				last := texts[len(texts)-1]
				for _, s := range strings.Split(last, sepOf(d.CollectionFormat)) {
					if ts := strings.TrimSpace(s); ts != "" {
						items = append(items, ts)
					}
				}
				if last == "" {
					items = nil
				}
			}
		}
		if len(items) == 0 {
			if e, rej := missing(true); rej {
				return e
			}
			if !absent && hasValidation(d) {
				return expectation{either: true, why: "empty text with a declared validation"}
			}
			if d.Default != nil {
				dl, ok := d.Default.([]interface{})
				if !ok {
					return expectation{either: true, why: "non-array default"}
				}
				var cs []string
				for _, x := range dl {
					c, ok := canonDefault(d.ItemsType, d.ItemsFormat, x)
					if !ok {
						return expectation{either: true, why: "default item not of the item type"}
					}
					cs = append(cs, c)
				}
				return expectation{accepts: []string{"[" + strings.Join(cs, " ") + "]"}, why: "default array"}
			}
			if hasValidation(d) {
				return expectation{accepts: []string{"[]"}, why: "empty/absent array, zero value (validations apply to sent text only)"}
			}
			return expectation{accepts: []string{"[]"}, why: "zero array"}
		}
		var cs []string
		for _, it := range items {
			c, ok, either := scalar(d.ItemsType, d.ItemsFormat, it)
			if either {
				return expectation{either: true, why: "item outside judged grammar"}
			}
			if !ok {
				return expectation{reject: true, why: fmt.Sprintf("item %q is not a %s/%s literal", it, d.ItemsType, d.ItemsFormat)}
			}
			cs = append(cs, c[0])
		}
		if d.MinItems != nil && int64(len(items)) < *d.MinItems {
			return expectation{reject: true, why: "minItems"}
		}
		if d.MaxItems != nil && int64(len(items)) > *d.MaxItems {
			return expectation{reject: true, why: "maxItems"}
		}
		return expectation{accepts: []string{"[" + strings.Join(cs, " ") + "]"}, why: "split items"}
	}
	// scalar
	var text string
	if !absent {
		text = texts[len(texts)-1]
	}
	if absent || text == "" {
		if e, rej := missing(text == ""); rej {
			return e
		}
		if !absent && (hasValidation(d) || d.Format == "uuid") {
			return expectation{either: true, why: "empty text with a declared validation (or a validated format)"}
		}
		if ds, isStr := d.Default.(string); isStr && ds == "" && d.Required && !d.AllowEmptyValue {
			// the statement's two clauses meet: the default applies, and the value it yields is the empty
			// text a required parameter that does not allow empty values must not have. Not judged.
			return expectation{either: true, why: "required, empty values not allowed, declared default is the empty text"}
		}
		if d.Default != nil {
			c, ok := canonDefault(d.Type, d.Format, d.Default)
			if !ok {
				return expectation{either: true, why: "default not of the declared type"}
			}
			return expectation{accepts: []string{c}, why: "default"}
		}
		return expectation{accepts: []string{zeroCanon(d.Type, d.Format)}, why: "zero value"}
	}
	c, ok, either := scalar(d.Type, d.Format, text)
	if either {
		return expectation{either: true, why: "outside judged grammar"}
	}
	if !ok {
		return expectation{reject: true, why: fmt.Sprintf("%q is not a valid in-range %s/%s literal", text, d.Type, d.Format)}
	}
	if !validateScalar(d, d.Type, text, c[0]) {
		return expectation{reject: true, why: "validation fails"}
	}
	return expectation{accepts: c, why: "literal"}
}

// ---------------- observation ----------------

type fileCanon string

func canonOf(v interface{}) string {
	switch x := v.(type) {
	case nil:
		return "nil"
	case bool:
		return fmt.Sprintf("bool:%v", x)
	case int8:
		return canonInt(8, int64(x))
	case int16:
		return canonInt(16, int64(x))
	case int32:
		return canonInt(32, int64(x))
	case int64:
		return canonInt(64, x)
	case float32:
		return fmt.Sprintf("float32:%08x", math.Float32bits(x))
	case float64:
		return fmt.Sprintf("float64:%016x", math.Float64bits(x))
	case string:
		return "string:" + x
	case strfmt.Date:
		return "date:" + time.Time(x).Format("2006-01-02")
	case strfmt.DateTime:
		if time.Time(x).IsZero() || time.Time(x).Unix() == 0 {
			return "datetime:zero"
		}
		return fmt.Sprintf("datetime:%d", time.Time(x).UnixNano())
	case strfmt.UUID:
		return "uuid:" + string(x)
	case strfmt.Base64:
		return fmt.Sprintf("bytes:%x", []byte(x))
	case []byte:
		return fmt.Sprintf("bytes:%x", x)
	case fileCanon:
		return string(x)
	case runtime.File:
		if x.Data == nil {
			return "nofile"
		}
		b, _ := io.ReadAll(x.Data)
		name := ""
		if x.Header != nil {
			name = x.Header.Filename
		}
		return "file:" + name + ":" + fmt.Sprintf("%x", b)
	}
	rv := reflect.ValueOf(v)
	if rv.Kind() == reflect.Slice {
		var cs []string
		for i := 0; i < rv.Len(); i++ {
			cs = append(cs, canonOf(rv.Index(i).Interface()))
		}
		return "[" + strings.Join(cs, " ") + "]"
	}
	return fmt.Sprintf("other:%T:%v", v, v)
}

type sut struct {
	handler http.Handler
	ran     int
	got     map[string]interface{}
}

func (c *Case) desc() gen.Desc {
	d := gen.Desc{BasePath: "/", Produces: []string{"application/json"}}
	for i, p := range c.Decls {
		op := gen.Op{ID: fmt.Sprintf("op%d", i), Method: "POST", Template: fmt.Sprintf("/o%d", i), Params: []gen.Param{p}}
		if p.In == "path" {
			op.Template = fmt.Sprintf("/o%d/{%s}", i, p.Name)
		}
		switch c.Forms[i] {
		case "urlencoded":
			op.Consumes = []string{"application/x-www-form-urlencoded"}
		case "multipart":
			op.Consumes = []string{"multipart/form-data"}
		default:
			op.Consumes = []string{"application/json"}
		}
		d.Ops = append(d.Ops, op)
	}
	return d
}

func build(c *Case) (*sut, error) {
	d := c.desc()
	doc, err := d.Load()
	if err != nil {
		return nil, err
	}
	s := &sut{}
	api := untyped.NewAPI(doc)
	api.RegisterConsumer("application/x-www-form-urlencoded", runtime.DiscardConsumer)
	api.RegisterConsumer("multipart/form-data", runtime.DiscardConsumer)
	for i := range d.Ops {
		op := d.Ops[i]
		api.RegisterOperation(op.Method, op.Template, runtime.OperationHandlerFunc(func(params interface{}) (interface{}, error) {
			s.ran++
			s.got, _ = params.(map[string]interface{})
			for k, v := range s.got { // read uploaded files while the request is live
				if f, ok := v.(runtime.File); ok {
					s.got[k] = fileCanon(canonOf(f))
				}
			}
			return map[string]string{"ok": "1"}, nil
		}))
	}
	s.handler = middleware.NewContext(doc, api, nil).RoutesHandler(nil)
	return s, nil
}

func (c *Case) request(rq *Req) (*http.Request, bool) {
	d := &c.Decls[rq.D]
	texts := mon.SQ(rq.Texts)
	target := fmt.Sprintf("/o%d", rq.D)
	var body io.Reader
	ct := ""
	hdr := http.Header{}
	key := d.Name
	if rq.OtherKey != "" && (d.In == "query" || d.In == "formData") {
		key = rq.OtherKey
	}
	switch d.In {
	case "path":
		if rq.Absent || len(texts) != 1 || texts[0] == "" || texts[0] == "." || texts[0] == ".." {
			return nil, false
		}
		target += "/" + url.PathEscape(texts[0])
	case "query":
		if !rq.Absent {
			var parts []string
			for _, t := range texts {
				parts = append(parts, url.QueryEscape(key)+"="+url.QueryEscape(t))
			}
			target += "?" + strings.Join(parts, "&")
		}
	case "header":
		if !rq.Absent {
			key := rq.HeaderKey
			if key == "" {
				key = d.Name
			}
			for _, t := range texts {
				if t != strings.TrimSpace(t) || strings.ContainsAny(t, "\r\n\x00") {
					return nil, false
				}
				for i := 0; i < len(t); i++ {
					if t[i] < 0x20 && t[i] != '\t' || t[i] == 0x7f {
						return nil, false
					}
				}
				hdr.Add(key, t) // canonicalises the key like a real server does
			}
		}
	case "formData":
		if rq.Shadow != nil {
			target += "?" + url.QueryEscape(d.Name) + "=" + url.QueryEscape(string(*rq.Shadow))
		}
		if c.Forms[rq.D] == "multipart" {
			var buf bytes.Buffer
			w := multipart.NewWriter(&buf)
			_ = w.WriteField("unrelated", "1")
			if !rq.Absent {
				if d.Type == "file" {
					fw, _ := w.CreateFormFile(key, rq.FileName)
					_, _ = fw.Write([]byte(texts[0]))
				} else {
					for _, t := range texts {
						_ = w.WriteField(key, t)
					}
				}
			}
			w.Close()
			body = &buf
			ct = w.FormDataContentType()
		} else {
			vals := url.Values{"unrelated": {"1"}}
			if !rq.Absent {
				vals[key] = texts
			}
			body = strings.NewReader(vals.Encode())
			ct = "application/x-www-form-urlencoded"
		}
	}
	r := httptest.NewRequest("POST", target, body)
	for k, v := range hdr {
		r.Header[k] = v
	}
	if ct != "" {
		r.Header.Set("Content-Type", ct)
	}
	r.Header.Set("Accept", "application/json")
	return r, true
}

func declClass(d *gen.Param, form string) string {
	t := d.Type
	if d.Format != "" {
		t += "(" + d.Format + ")"
	}
	if d.Type == "array" {
		t = "array<" + d.ItemsType
		if d.ItemsFormat != "" {
			t += "(" + d.ItemsFormat + ")"
		}
		t += ">"
	}
	in := d.In
	if form != "" {
		in += "-" + form
	}
	return in + "/" + t
}

func presenceClass(d *gen.Param, rq *Req) string {
	if rq.Shadow != nil {
		r2 := *rq
		r2.Shadow = nil
		return presenceClass(d, &r2) + "+same-name-in-query"
	}
	switch {
	case rq.OtherKey != "":
		return "absent+differently-cased-key-present"
	case rq.Absent:
		return "absent"
	case len(rq.Texts) > 1:
		return "repeated"
	case len(rq.Texts) == 1 && rq.Texts[0] == "":
		return "empty"
	}
	return "once"
}

// featureOf classifies the INPUT (declaration + request) by the first applicable feature of an ordered
// list; it is used in signatures only, never in a verdict.
func featureOf(d *gen.Param, rq *Req, exp *expectation) string {
	tpe, format := d.Type, d.Format
	if tpe == "array" {
		tpe, format = d.ItemsType, d.ItemsFormat
	}
	lastText := ""
	if !rq.gone() && len(rq.Texts) > 0 {
		lastText = string(rq.Texts[len(rq.Texts)-1])
	}
	noText := rq.gone() || lastText == ""
	switch {
	case tpe == "boolean" && !noText && hasBoolJunk(d, rq):
		return "boolean-text-neither-true-nor-false-word"
	case rq.gone() && !d.Required && d.Default == nil && (hasValidation(d) || d.Format == "uuid"):
		return "optional-absent-with-validation"
	case d.Default != nil && d.Type == "array":
		return "array-default"
	case d.Default != nil && d.Type == "string" && d.Format != "":
		return "formatted-string-default"
	case tpe == "number" && format == "float" && !noText && float32Boundary(d, rq):
		return "float32-boundary-literal"
	case d.Type == "string" && d.Format == "byte" && strings.ContainsAny(lastText, "+/"):
		return "base64-std-alphabet"
	case tpe == "number" && format == "":
		return "number-without-format"
	case d.In == "header" && http.CanonicalHeaderKey(d.Name) != d.Name:
		return "non-canonical-declared-header-name"
	case d.Type == "string" && d.Format == "uuid":
		return "string-kinded-format"
	}
	return "plain"
}

func hasBoolJunk(d *gen.Param, rq *Req) bool {
	var items []string
	if d.Type == "array" {
		if d.CollectionFormat == "multi" {
			items = mon.SQ(rq.Texts)
		} else {
			for _, s := range strings.Split(string(rq.Texts[len(rq.Texts)-1]), sepOf(d.CollectionFormat)) {
				if ts := strings.TrimSpace(s); ts != "" {
					items = append(items, ts)
				}
			}
		}
	} else {
		items = []string{string(rq.Texts[len(rq.Texts)-1])}
	}
	for _, it := range items {
		l := strings.ToLower(it)
		if !trueWords[l] && !falseWords[l] {
			return true
		}
	}
	return false
}

// float32Boundary: a core-grammar literal whose float64 reading is not its float32 reading.
func float32Boundary(d *gen.Param, rq *Req) bool {
	var items []string
	if d.Type == "array" {
		if d.CollectionFormat == "multi" {
			items = mon.SQ(rq.Texts)
		} else {
			items = strings.Split(string(rq.Texts[len(rq.Texts)-1]), sepOf(d.CollectionFormat))
		}
	} else {
		items = []string{string(rq.Texts[len(rq.Texts)-1])}
	}
	for _, it := range items {
		it = strings.TrimSpace(it)
		if !reFloat.MatchString(it) {
			continue
		}
		v64, e64 := strconv.ParseFloat(it, 64)
		v32, e32 := strconv.ParseFloat(it, 32)
		if (e64 == nil) != (e32 == nil) {
			return true
		}
		if e64 == nil && (math.Abs(v64) > math.MaxFloat32 || float32(v64) != float32(v32)) {
			return true
		}
	}
	return false
}

func runCase(m *mon.M, c *Case) {
	s, err := build(c)
	if err != nil {
		m.Class("desc-rejected")
		m.Note("desc-rejected:"+firstWords(err.Error()), 1)
		return
	}
	for ri := range c.Reqs {
		rq := &c.Reqs[ri]
		d := &c.Decls[rq.D]
		one := &Case{Decls: []gen.Param{*d}, Forms: []string{c.Forms[rq.D]}, Reqs: []Req{{D: 0, Absent: rq.Absent, Texts: rq.Texts, HeaderKey: rq.HeaderKey, FileName: rq.FileName, Shadow: rq.Shadow, OtherKey: rq.OtherKey}}}
		req, ok := c.request(rq)
		if !ok {
			m.Class("undeliverable")
			continue
		}
		exp := expect(d, rq)
		dc := declClass(d, c.Forms[rq.D])
		pc := presenceClass(d, rq)
		feat := featureOf(d, rq, &exp)
		s.ran, s.got = 0, nil
		rec := httptest.NewRecorder()
		pv, st := mon.Catch(func() { s.handler.ServeHTTP(rec, req) })
		m.Eval(1)
		shadow := ""
		if rq.Shadow != nil {
			shadow = "|q=" + string(*rq.Shadow)
		}
		m.NT(declKey(d, c.Forms[rq.D]) + "|" + pc + "|" + strings.Join(mon.SQ(rq.Texts), "\x00") + shadow)
		descr := func() string {
			db, _ := json.Marshal(d)
			return fmt.Sprintf("decl=%s form=%q presence=%s texts=%q headerKey=%q -> status %d body %.140q handler=%d got=%s ; expected: %s", db, c.Forms[rq.D], pc, mon.SQ(rq.Texts), rq.HeaderKey, rec.Code, rec.Body.String(), s.ran, gotCanon(s, d), expString(&exp))
		}
		if pv != nil {
			m.Violate("panic/"+sigTail(feat, dc, ""), fmt.Sprintf("panic: %v ; %s\n%s", pv, descr(), st), one)
			continue
		}
		if exp.either {
			m.Class("not-judged")
			if rec.Code >= 500 {
				m.Violate("server-error/"+sigTail(feat, dc, ""), descr(), one)
			}
			continue
		}
		textClass := literalClass(d, rq)
		if exp.reject {
			if s.ran != 0 {
				m.Violate("accepted-invalid/"+sigTail(feat, dc, textClass), descr(), one)
				continue
			}
			if rec.Code != 422 {
				m.Violate(fmt.Sprintf("reject-status-%d/%s", rec.Code, sigTail(feat, dc, textClass)), descr(), one)
				continue
			}
			if !strings.Contains(rec.Body.String(), d.Name) {
				m.Violate("422-does-not-name-parameter/"+sigTail(feat, dc, textClass), descr(), one)
				continue
			}
			m.Class("rejected-422")
			structTarget(m, c, rq, d, &exp, one, dc, pc, feat)
			continue
		}
		if s.ran != 1 {
			m.Violate(fmt.Sprintf("refused-valid-status-%d/%s", rec.Code, sigTail(feat, dc, pc+"/"+textClass)), descr(), one)
			continue
		}
		got := gotCanon(s, d)
		okv := false
		for _, a := range exp.accepts {
			if a == got {
				okv = true
			}
		}
		if !okv {
			m.Violate("wrong-value/"+sigTail(feat, dc, pc+"/"+textClass), descr(), one)
			continue
		}
		m.Class("bound")
		structTarget(m, c, rq, d, &exp, one, dc, pc, feat)
	}
	if m.WantSample() {
		sc := Case{}
		if len(c.Decls) > 0 && len(c.Reqs) > 0 {
			rq := c.Reqs[len(c.Reqs)/2]
			sc = Case{Decls: []gen.Param{c.Decls[rq.D]}, Forms: []string{c.Forms[rq.D]}, Reqs: []Req{{Absent: rq.Absent, Texts: rq.Texts, HeaderKey: rq.HeaderKey, OtherKey: rq.OtherKey}}}
		}
		m.Sample(sc)
	}
}

// sigTail: a known input feature explains the failure by itself; otherwise the full declaration and
// text classes are kept so that unrelated failures get unrelated signatures.
func sigTail(feat, dc, rest string) string {
	if feat != "plain" {
		return feat
	}
	if rest == "" {
		return dc
	}
	return dc + "/" + rest
}

// goTypeFor is the Go type a generated struct field would have for the declaration.
func goTypeFor(tpe, format string) reflect.Type {
	switch tpe {
	case "string":
		switch format {
		case "date":
			return reflect.TypeOf(strfmt.Date{})
		case "date-time":
			return reflect.TypeOf(strfmt.DateTime{})
		case "uuid":
			return reflect.TypeOf(strfmt.UUID(""))
		case "byte":
			return reflect.TypeOf(strfmt.Base64{})
		}
		return reflect.TypeOf("")
	case "integer":
		switch format {
		case "int8":
			return reflect.TypeOf(int8(0))
		case "int16":
			return reflect.TypeOf(int16(0))
		case "int32":
			return reflect.TypeOf(int32(0))
		}
		return reflect.TypeOf(int64(0))
	case "number":
		if format == "float" {
			return reflect.TypeOf(float32(0))
		}
		return reflect.TypeOf(float64(0))
	case "boolean":
		return reflect.TypeOf(true)
	}
	return nil
}

// structTarget drives the second binding entry point: UntypedRequestBinder.Bind into a struct whose
// field has the declared Go type. It is only consulted for requests the map entry point handled as the
// oracle expects (so that one defect is not reported twice), and judges the same expectation.
func structTarget(m *mon.M, c *Case, rq *Req, d *gen.Param, exp *expectation, one *Case, dc, pc, feat string) {
	if d.Type == "file" || exp.either {
		return
	}
	var ft reflect.Type
	if d.Type == "array" {
		it := goTypeFor(d.ItemsType, d.ItemsFormat)
		if it == nil {
			return
		}
		ft = reflect.SliceOf(it)
	} else {
		ft = goTypeFor(d.Type, d.Format)
	}
	if ft == nil {
		return
	}
	pj, _ := json.Marshal(gen.ParamJSON(*d))
	var sp spec.Parameter
	if err := json.Unmarshal(pj, &sp); err != nil {
		return
	}
	st := reflect.StructOf([]reflect.StructField{{Name: "F", Type: ft}})
	target := reflect.New(st)
	binder := middleware.NewUntypedRequestBinder(map[string]spec.Parameter{"F": sp}, new(spec.Swagger), strfmt.Default)
	req, ok := c.request(rq)
	if !ok {
		return
	}
	var rp middleware.RouteParams
	if d.In == "path" {
		rp = middleware.RouteParams{{Name: d.Name, Value: string(rq.Texts[0])}}
	}
	var berr error
	pv, stk := mon.Catch(func() { berr = binder.Bind(req, rp, runtime.JSONConsumer(), target.Interface()) })
	m.Eval(1)
	descr := func() string {
		db, _ := json.Marshal(d)
		return fmt.Sprintf("struct target: decl=%s presence=%s texts=%q -> err=%v field=%s ; expected: %s", db, pc, mon.SQ(rq.Texts), berr, canonOf(target.Elem().Field(0).Interface()), expString(exp))
	}
	if pv != nil {
		m.Violate("struct-target/panic/"+sigTail(feat, dc, ""), fmt.Sprintf("panic: %v ; %s\n%s", pv, descr(), stk), one)
		return
	}
	if exp.reject {
		if berr == nil {
			m.Violate("struct-target/accepted-invalid/"+sigTail(feat, dc, literalClass(d, rq)), descr(), one)
			return
		}
		m.Class("struct-rejected")
		return
	}
	if berr != nil {
		m.Violate("struct-target/refused-valid/"+sigTail(feat, dc, pc+"/"+literalClass(d, rq)), descr(), one)
		return
	}
	got := canonOf(target.Elem().Field(0).Interface())
	if got == "nil" && d.Type == "array" {
		got = "[]"
	}
	for _, a := range exp.accepts {
		if a == got {
			m.Class("struct-bound")
			return
		}
	}
	m.Violate("struct-target/wrong-value/"+sigTail(feat, dc, pc+"/"+literalClass(d, rq)), descr(), one)
}

func firstWords(s string) string {
	if len(s) > 60 {
		s = s[:60]
	}
	return s
}

func gotCanon(s *sut, d *gen.Param) string {
	if s.got == nil {
		return "<none>"
	}
	v, ok := s.got[d.Name]
	if !ok {
		return "<unbound>"
	}
	c := canonOf(v)
	if c == "nil" && d.Type == "array" {
		return "[]"
	}
	if d.Type == "file" {
		return c
	}
	return c
}

func expString(e *expectation) string {
	switch {
	case e.either:
		return "not judged (" + e.why + ")"
	case e.reject:
		return "422 (" + e.why + ")"
	}
	return strings.Join(e.accepts, " or ") + " (" + e.why + ")"
}

// literalClass: input-only classification of the text, for signatures.
func literalClass(d *gen.Param, rq *Req) string {
	if rq.gone() || len(rq.Texts) == 0 {
		return "no-text"
	}
	t := string(rq.Texts[len(rq.Texts)-1])
	tpe, format := d.Type, d.Format
	if tpe == "array" {
		return "array-text"
	}
	switch tpe {
	case "boolean":
		l := strings.ToLower(t)
		switch {
		case trueWords[l]:
			return "true-word"
		case falseWords[l]:
			return "false-word"
		}
		return "neither-true-nor-false-word"
	case "integer":
		if reInt.MatchString(t) {
			if _, err := strconv.ParseInt(t, 10, intBits(format)); err != nil {
				return "decimal-out-of-range"
			}
			return "decimal-in-range"
		}
		return "not-decimal"
	case "number":
		if reFloat.MatchString(t) {
			if _, err := strconv.ParseFloat(t, 64); err != nil {
				return "number-out-of-range"
			}
			if format == "float" {
				if _, err := strconv.ParseFloat(t, 32); err != nil {
					return "number-out-of-float32-range"
				}
				v32, _ := strconv.ParseFloat(t, 32)
				v64, _ := strconv.ParseFloat(t, 64)
				if float32(v64) != float32(v32) {
					return "number-double-rounding"
				}
			}
			return "number-in-range"
		}
		return "not-a-number"
	case "string":
		if format == "byte" {
			if strings.ContainsAny(t, "+/") {
				return "base64-std-alphabet-only"
			}
			return "base64-text"
		}
		if format != "" {
			return format + "-text"
		}
	}
	return "text"
}

func declKey(d *gen.Param, form string) string {
	b, _ := json.Marshal(d)
	return form + string(b)
}

// ---------------- generation ----------------

func f64(v float64) *float64 { return &v }
func i64(v int64) *int64     { return &v }

type kind struct{ tpe, format string }

var scalarKinds = []kind{
	{"string", ""}, {"string", "date"}, {"string", "date-time"}, {"string", "uuid"}, {"string", "byte"},
	{"integer", ""}, {"integer", "int8"}, {"integer", "int16"}, {"integer", "int32"}, {"integer", "int64"},
	{"number", ""}, {"number", "float"}, {"number", "double"}, {"boolean", ""},
}
var itemKinds = []kind{{"string", ""}, {"integer", "int32"}, {"number", "double"}, {"boolean", ""}, {"string", "date"}, {"integer", ""}, {"number", ""}}
var collFormats = []string{"", "csv", "ssv", "tsv", "pipes", "multi"}

func defaultFor(k kind) interface{} {
	switch k.tpe {
	case "string":
		switch k.format {
		case "date":
			return "2019-03-04"
		case "date-time":
			return "2019-03-04T05:06:07Z"
		case "uuid":
			return "6ba7b810-9dad-11d1-80b4-00c04fd430c8"
		case "byte":
			return "aGVsbG8="
		}
		return "dflt"
	case "integer":
		return float64(42)
	case "number":
		return 2.5
	case "boolean":
		return true
	}
	return nil
}

// zeroDefaultFor: a declared default equal to the zero value of the kind (nil: none enumerated).
func zeroDefaultFor(k kind) interface{} {
	switch k.tpe {
	case "string":
		if k.format == "" {
			return ""
		}
	case "integer", "number":
		return float64(0)
	case "boolean":
		return false
	}
	return nil
}

var headerNames = []string{"X-Limit", "x-limit", "X-LIMIT", "X-Request-ID", "x_under", "Accept-Language"}

// allDecls enumerates the declaration space deterministically.
func allDecls() (decls []gen.Param, forms []string) {
	type loc struct{ in, form string }
	locs := []loc{{"path", ""}, {"query", ""}, {"header", ""}, {"formData", "urlencoded"}, {"formData", "multipart"}}
	n := 0
	add := func(p gen.Param, form string) {
		if p.In == "header" {
			p.Name = headerNames[n%len(headerNames)]
		} else {
			p.Name = fmt.Sprintf("p%d", n%7)
		}
		n++
		decls = append(decls, p)
		forms = append(forms, form)
	}
	for _, l := range locs {
		variants := func(base gen.Param, k kind, isArray bool) {
			if l.in == "path" {
				base.Required = true
				add(base, l.form)
				v := base
				applyValidation(&v, k, isArray)
				add(v, l.form)
				return
			}
			for _, req := range []bool{false, true} {
				for _, def := range []string{"", "set", "zero"} {
					if def == "zero" && zeroDefaultFor(k) == nil {
						continue
					}
					for _, ae := range []bool{false, true} {
						for _, val := range []bool{false, true} {
							if val && def == "zero" && k.tpe == "string" && !isArray {
								continue // "" would not satisfy the declared minLength: not a well-formed declaration
							}
							p := base
							p.Required = req
							p.AllowEmptyValue = ae
							switch {
							case def == "set" && isArray:
								p.Default = []interface{}{defaultFor(k), defaultFor(k)}
							case def == "set":
								p.Default = defaultFor(k)
							case def == "zero" && isArray:
								// a declared default that happens to be the zero value is still a declared default
								p.Default = []interface{}{zeroDefaultFor(k), zeroDefaultFor(k)}
							case def == "zero":
								p.Default = zeroDefaultFor(k)
							}
							if val {
								applyValidation(&p, k, isArray)
							}
							add(p, l.form)
						}
					}
				}
			}
		}
		for _, k := range scalarKinds {
			variants(gen.Param{In: l.in, Type: k.tpe, Format: k.format}, k, false)
		}
		for _, ik := range itemKinds {
			for _, cf := range collFormats {
				if cf == "multi" && !(l.in == "query" || l.in == "formData") {
					continue
				}
				variants(gen.Param{In: l.in, Type: "array", ItemsType: ik.tpe, ItemsFormat: ik.format, CollectionFormat: cf}, ik, true)
			}
		}
		if l.form == "multipart" {
			add(gen.Param{In: "formData", Type: "file"}, l.form)
			add(gen.Param{In: "formData", Type: "file", Required: true}, l.form)
		}
	}
	return decls, forms
}

func applyValidation(p *gen.Param, k kind, isArray bool) {
	if isArray {
		p.MinItems = i64(2)
		p.MaxItems = i64(3)
		return
	}
	switch k.tpe {
	case "integer":
		p.Minimum = f64(-100)
		p.Maximum = f64(100)
	case "number":
		p.Minimum = f64(-100.5)
		p.Maximum = f64(100.5)
	case "string":
		if k.format == "" {
			p.MinLength = i64(2)
			p.MaxLength = i64(6)
		}
	}
}

var intPool = []string{"0", "-0", "+7", "007", "-128", "127", "128", "-129", "32767", "32768", "-32768", "-32769", "2147483647", "2147483648", "-2147483648", "-2147483649",
	"9223372036854775807", "9223372036854775808", "-9223372036854775808", "-9223372036854775809", "0x10", "1_000", "1e3", "1.0", " 5", "5 ", "abc", "٣", "--5", "+", "-", "99", "-100", "101", "42"}
var floatPool = []string{"0", "-0", "1.5", ".5", "5.", "1e10", "1E-3", "+2.5", "3.4028235e38", "3.4028236e38", "3.5e38", "1e39", "-3.5e38", "1.7976931348623157e308", "1.8e308", "1e-400", "1e-46",
	"inf", "-Inf", "NaN", "0x1p-2", "1_0.5", "1,5", "abc", " 1", "1.000000059604644775390625", "1.000000059604644775390626", "16777217", "100.5", "100.6", "-100.5", "e5", ".", "1e", "--1"}
var boolPool = []string{"true", "false", "TRUE", "False", "1", "0", "yes", "no", "y", "n", "on", "off", "t", "f", "ok", "enabled", "disabled", "checked", "selected", "maybe", "2", "tru", " true", "nil", "unchecked"}
var stringPool = []string{"plain", "with space", "a,b", "é", "%41", "x", "abcdefgh", "ab", "a|b", "tab\there", "q&a=b", "+plus", "\"quoted\"", "\xff\xfe"}
var datePool = []string{"2020-02-29", "2021-02-29", "2020-1-1", "20200101", "2020-02-28T00:00:00Z", "junk", "0001-01-01", "9999-12-31", "2020-13-01"}
var dateTimePool = []string{"2020-01-02T03:04:05Z", "2020-01-02T03:04:05+01:00", "2020-01-02T03:04:05.123Z", "2020-01-02 03:04:05", "junk", "2020-01-02", "2020-01-02T25:00:00Z", "2020-01-02T03:04:05"}
var uuidPool = []string{"6ba7b810-9dad-11d1-80b4-00c04fd430c8", "6BA7B810-9DAD-11D1-80B4-00C04FD430C8", "not-a-uuid", "{6ba7b810-9dad-11d1-80b4-00c04fd430c8}", "6ba7b8109dad11d180b400c04fd430c8", "6ba7b810-9dad-11d1-80b4-00c04fd430c", "zzzzzzzz-9dad-11d1-80b4-00c04fd430c8"}
var bytePool = []string{"aGVsbG8=", "aGVsbG8", "+/8=", "-_8=", "!!!", "YQ==", "YWI=", "a", "++++", "AAAA"}

func poolFor(tpe, format string) []string {
	switch tpe {
	case "integer":
		return intPool
	case "number":
		return floatPool
	case "boolean":
		return boolPool
	case "string":
		switch format {
		case "date":
			return datePool
		case "date-time":
			return dateTimePool
		case "uuid":
			return uuidPool
		case "byte":
			return bytePool
		}
		return stringPool
	}
	return stringPool
}

func genReqs(r *rand.Rand, di int, d *gen.Param, full bool) []Req {
	out := genReqsPlain(r, di, d, full)
	if d.In == "query" || d.In == "formData" {
		// field names are case-sensitive in these locations: a value under "P3" is not parameter "p3"
		var other []string
		for _, k := range []string{strings.ToUpper(d.Name), strings.ToLower(d.Name), http.CanonicalHeaderKey(d.Name)} {
			if k != d.Name {
				other = append(other, k)
			}
		}
		n := len(out)
		for i := 0; i < n && len(other) > 0; i++ {
			if out[i].Absent || (!full && r.Intn(4) != 0) {
				continue
			}
			c := out[i]
			c.OtherKey = other[r.Intn(len(other))]
			out = append(out, c)
		}
	}
	if d.In == "formData" && d.Type != "file" {
		// the same requests with a same-named value in the URL query string
		n := len(out)
		for i := 0; i < n; i++ {
			if !full && r.Intn(3) != 0 {
				continue
			}
			pool := poolFor(d.Type, d.Format)
			if d.Type == "array" {
				pool = poolFor(d.ItemsType, d.ItemsFormat)
			}
			sh := mon.Q(pool[r.Intn(len(pool))])
			c := out[i]
			c.Shadow = &sh
			out = append(out, c)
		}
	}
	return out
}

func genReqsPlain(r *rand.Rand, di int, d *gen.Param, full bool) []Req {
	var out []Req
	hk := func() string {
		if d.In != "header" {
			return ""
		}
		switch r.Intn(4) {
		case 0:
			return strings.ToLower(d.Name)
		case 1:
			return strings.ToUpper(d.Name)
		case 2:
			return http.CanonicalHeaderKey(d.Name)
		}
		return d.Name
	}
	if d.Type == "file" {
		out = append(out, Req{D: di, Absent: true})
		for _, content := range []string{"", "hello", strings.Repeat("x", 70000), "\x00\x01\xff"} {
			out = append(out, Req{D: di, Texts: []mon.Q{mon.Q(content)}, FileName: []string{"a.txt", "dir/b.bin", "c \"q\".txt"}[r.Intn(3)]})
		}
		return out
	}
	out = append(out, Req{D: di, Absent: true})
	out = append(out, Req{D: di, Texts: []mon.Q{""}, HeaderKey: hk()})
	if d.Type == "array" {
		pool := poolFor(d.ItemsType, d.ItemsFormat)
		sep := sepOf(d.CollectionFormat)
		nl := 10
		if full {
			nl = 24
		}
		for i := 0; i < nl; i++ {
			n := 1 + r.Intn(4)
			var items []string
			for j := 0; j < n; j++ {
				it := pool[r.Intn(len(pool))]
				if r.Intn(3) != 0 { // bias towards valid items so that whole arrays are often valid
					it = validItem(r, d.ItemsType, d.ItemsFormat)
				}
				items = append(items, it)
			}
			if d.CollectionFormat == "multi" {
				out = append(out, Req{D: di, Texts: mon.QS(items), HeaderKey: hk()})
			} else {
				t := strings.Join(items, sep)
				switch r.Intn(8) {
				case 0:
					t = sep + t
				case 1:
					t = t + sep + sep + validItem(r, d.ItemsType, d.ItemsFormat)
				case 2:
					t = strings.Join(items, sep+" ")
				}
				if r.Intn(6) == 0 {
					out = append(out, Req{D: di, Texts: []mon.Q{"zzz", mon.Q(t)}, HeaderKey: hk()})
				} else {
					out = append(out, Req{D: di, Texts: []mon.Q{mon.Q(t)}, HeaderKey: hk()})
				}
			}
		}
		return out
	}
	pool := poolFor(d.Type, d.Format)
	for _, t := range pool {
		if !full && r.Intn(2) == 0 {
			continue
		}
		out = append(out, Req{D: di, Texts: []mon.Q{mon.Q(t)}, HeaderKey: hk()})
	}
	// repeated: the last occurrence counts
	for i := 0; i < 3; i++ {
		a, b := pool[r.Intn(len(pool))], pool[r.Intn(len(pool))]
		out = append(out, Req{D: di, Texts: []mon.Q{mon.Q(a), mon.Q(b)}, HeaderKey: hk()})
	}
	out = append(out, Req{D: di, Texts: []mon.Q{mon.Q(pool[0]), ""}, HeaderKey: hk()})
	// an empty occurrence first: the last one still counts (and is still validated)
	for i := 0; i < 3; i++ {
		out = append(out, Req{D: di, Texts: []mon.Q{"", mon.Q(pool[r.Intn(len(pool))])}, HeaderKey: hk()})
	}
	return out
}

func validItem(r *rand.Rand, tpe, format string) string {
	switch tpe {
	case "integer":
		return []string{"1", "-5", "42", "2147483647", "0"}[r.Intn(5)]
	case "number":
		return []string{"1.5", "-2", "1e3", "0.25"}[r.Intn(4)]
	case "boolean":
		return []string{"true", "false", "1", "no"}[r.Intn(4)]
	case "string":
		if format == "date" {
			return []string{"2020-02-29", "1999-12-31"}[r.Intn(2)]
		}
		return []string{"a", "bb", "c c", "é"}[r.Intn(4)]
	}
	return "x"
}

func run(m *mon.M) {
	decls, forms := allDecls()
	r := m.Rand("c03")
	// this shard's declarations
	var idx []int
	for i := range decls {
		if i%m.NShards == m.Shard {
			idx = append(idx, i)
		}
	}
	full := true // both tiers use every literal of the pools
	if m.Quick() {
		r.Shuffle(len(idx), func(i, j int) { idx[i], idx[j] = idx[j], idx[i] })
	}
	passes := m.N(2, 40) // the random parts (array texts, repeated pairs, header-name spellings) are re-drawn per pass
	if m.Shard == 0 {
		m.Note("declarations_in_space", int64(len(decls)))
	}
	const group = 24
	for pass := 0; pass < passes; pass++ {
		for g := 0; g < len(idx); g += group {
			end := g + group
			if end > len(idx) {
				end = len(idx)
			}
			c := &Case{}
			for k, di := range idx[g:end] {
				c.Decls = append(c.Decls, decls[di])
				c.Forms = append(c.Forms, forms[di])
				c.Reqs = append(c.Reqs, genReqs(r, k, &c.Decls[k], full)...)
			}
			m.Begin(c)
			runCase(m, c)
			if pass == 0 {
				m.Note("declarations_exercised", int64(len(c.Decls)))
			}
		}
	}
}

func replay(m *mon.M, raw json.RawMessage) {
	var c Case
	if err := json.Unmarshal(raw, &c); err != nil {
		m.Violate("bad-replay-case", err.Error(), nil)
		return
	}
	// JSON round trip turns integer-valued defaults into float64 already; nothing to fix up
	runCase(m, &c)
}
