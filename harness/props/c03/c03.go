// Package c03 monitors parameter binding: every declared non-body parameter is bound to exactly the
// value its text denotes, or the request is refused with a 422 naming it; binding never panics.
package c03

import (
	"bytes"
	"encoding/base64"
	"encoding/json"
	"fmt"
	"io"
	"math"
	"math/rand"
	"mime/multipart"
	"net/http"
	"net/http/httptest"
	"net/url"
	"path"
	"reflect"
	"regexp"
	"sort"
	"strconv"
	"strings"
	"time"

	"github.com/go-openapi/loads"
	"github.com/go-openapi/runtime"
	"github.com/go-openapi/runtime/middleware"
	"github.com/go-openapi/runtime/middleware/untyped"
	"github.com/go-openapi/spec"
	"github.com/go-openapi/strfmt"

	"verif/gen"
	"verif/mon"
)

func init() {
	mon.Register(&mon.Property{
		ID:    "C03",
		Level: "exploration",
		Rule: "the declaration space {path, query, header, formData-urlencoded, formData-multipart} x {string(+date, date-time, uuid, byte), integer(none,int8..int64), number(none,float,double), boolean, arrays of those with csv/ssv/tsv/pipes/multi, file} x required x default x allowEmptyValue x one validation " +
			"is enumerated (thorough: completely; quick: a PRNG-chosen part); each declaration gets the boundary-literal pool of its type x presence shapes (absent, empty, once, repeated, header-name case). One operation per declaration, driven through the full untyped handler; " +
			"oracle = denotation function written from the statement. non-trivial = every judged request; distinct by (declaration, presence shape, literal). " +
			"Added by the strengthening round: a second block of declarations with the other validations (enum on every kind incl. formatted strings and booleans, items.enum, items.maximum, uniqueItems, pattern, multipleOf with exclusive bounds; thorough: all, quick: a PRNG-chosen quarter per pass); " +
			"declarations placed on the path item or referenced from #/parameters; PUT/PATCH/GET/DELETE operations; form Content-Type spellings (parameters, letter case); " +
			"operations with 2-4 parameters in several locations (every value must bind, every offending parameter must be named); struct targets with pointer and unsigned fields; " +
			"one handler and one binder serve all requests of a declaration and the receiver overwrites the slices it was handed after recording them (a later request must still get the declared default). " +
			"Added by the second strengthening round: besides a fresh struct per request, one struct value per declaration (and field shape) is kept over all its requests and holds its owner's non-zero values before the first Bind (every accepted Bind must leave exactly that request's value in it); " +
			"string formats email, password, hostname, duration and one format the application registers itself (api.RegisterFormat; Go type and validator defined by the monitor); " +
			"an empty text with a declared default is judged (the default) whatever validation is declared; number texts outside the core grammar that strconv accepts must be refused with 422 or bound to the strconv value (bounds applied to it); " +
			"the texts of every query/header/form request are also handed to runtime.ReadSingleValue / runtime.ReadCollectionValue (last occurrence, items of the last occurrence; absent key; key present without values); " +
			"in operations with form and query parameters the form body carries a field named like the query parameter; twelve array-of-arrays declarations (no panic, no server error, 422 or the items of the items). " +
			"Added by the third strengthening round: form requests without any payload (no body; with and without the form Content-Type): every form parameter is absent, the other locations bind as usual; " +
			"form bodies of unknown length (no Content-Length, Transfer-Encoding chunked), also for operations that declare two and more form parameters (every one must bind); " +
			"file parameters of operations consuming application/x-www-form-urlencoded, and a text field named like a file parameter; " +
			"form bodies and Content-Types that cannot be parsed as the declared form (no panic, no server error, handler and binder alone); " +
			"query and form parameter names that are not identifiers (filter[status], $top, a b, a&b, ...); unsigned struct fields are handed literals beyond the unsigned type of their width (must be refused); " +
			"pattern declarations in every quick pass; the feature class of the known enum finding requires that a value is validated at all (the parameter is carried by the request, or required)",
		Assumptions: []string{
			"texts outside the core literal grammar that Go's strconv nevertheless accepts (inf, NaN, hex floats, underscores) may be refused or bound to the strconv value",
			"date-time texts other than RFC 3339 and uuid texts other than the canonical 8-4-4-4-12 form may be refused or accepted",
			"array items are the separator-split texts with surrounding blanks trimmed and empty items dropped (documented collection-format behaviour); empty items of multi arrays are not judged",
			"a default that itself violates the declaration's validation is not generated; validations are applied to the text the client sent",
			"an empty text combined with a declared validation (or a format that is validated: uuid, email, hostname, duration, the application's format) and NO declared default is not judged (it may be validated as the empty value or treated as absent); with a declared default the default is due; an empty occurrence of a multi array is not judged",
			"email, hostname and duration texts are judged when they are one beyond doubt (local@domain.tld of letters, digits and inner . _ + -; dot-separated LDH labels starting with a letter; <digits><ns|us|ms|s|m|h>) or none beyond doubt (no @ or nothing on one side of it; a blank or one of @/:?# in a host name; no digit in a duration); every other text may be refused or accepted",
			"an array whose items are arrays is outside 'array of those': binding must not panic or answer 5xx, and a handler that runs must have been handed the items of the items (items.collectionFormat, csv when none); a 422 is accepted for any of its requests",
			"what a refused Bind leaves in a struct its caller keeps is not judged",
			"boolean: the library's documented true-words denote true; false,0,no,n,off,f,disabled,unchecked,unselected denote false; anything else is not a boolean literal",
			"enum of a formatted string (date, date-time, uuid, byte): a text equal to a listed value is in the enum, a text denoting the same value in another spelling is not judged; validations of a float-format number are not judged when the 32-bit and the 64-bit reading of the text disagree about them",
			"a pointer-typed struct field may be left nil where the value-typed field would hold the zero value; an unsigned struct field is judged for unsigned decimal texts (and non-decimal texts) only",
			"two parameters of one operation never share a name (the map handed to the handler is keyed by name)",
			"a form request whose body or Content-Type cannot be parsed as the declared form carries no texts: only 'no panic, no server error' is judged for it",
			"a text field named like a file parameter is not an uploaded file: a required file is then missing (422); for an optional one the handler gets no file, or the request is refused with 422 naming it",
			"declarations that are not valid Swagger 2.0 although the loader accepts them (no type, an array without items, a default that is not of the declared type, collectionFormat multi in a header or a path) are outside 'any declaration the description language allows' and are not generated",
		},
		MinNontrivial: 500,
		Run:           run,
		Replay:        replay,
	})
}

// Req is one request against declaration D.
type Req struct {
	D         int     `json:"d"`
	Absent    bool    `json:"absent,omitempty"`
	Texts     []mon.Q `json:"texts,omitempty"`
	HeaderKey string  `json:"headerKey,omitempty"`
	FileName  string  `json:"fileName,omitempty"`
	// Shadow: for formData parameters, a value of the same name carried in the URL query string
	// (another location: it must not be looked at)
	Shadow *mon.Q `json:"shadowQuery,omitempty"`
	// OtherKey: for query and formData parameters, the texts are sent under this key, which differs
	// from the declared name in letter case only: such a request does not carry the parameter
	OtherKey string `json:"otherKey,omitempty"`
	// CT: spelling of the form Content-Type. "": the bare media type; "charset": "; charset=UTF-8" appended
	// (what browsers send); "case": the media type in mixed letter case; "both"
	CT string `json:"ct,omitempty"`
	// Field: an additional struct target whose field is "ptr" (*T, what generated servers declare for
	// optional parameters) or "uint" (unsigned integer of the declared width)
	Field string `json:"field,omitempty"`
	// BodyShadow: for query parameters of an operation that also declares form parameters, a field of the
	// same name carried in the form body (another location: it must not be looked at)
	BodyShadow *mon.Q `json:"shadowBody,omitempty"`
	// Chunked: the form body travels without an announced length (Transfer-Encoding: chunked, what net/http
	// clients send for every body that is not a buffer, this library's own multipart client included):
	// Request.ContentLength is -1 and there is no Content-Length header
	Chunked bool `json:"chunked,omitempty"`
	// NoPayload (formData, with Absent): the request has no body at all, which is what a client sends that was
	// given no form value. "bare": no Content-Type either; "content-type": the form's Content-Type and a
	// Content-Length of 0. No form parameter is sent by such a request.
	NoPayload string `json:"noPayload,omitempty"`
	// AsText (file parameters): Texts[0] travels as an ordinary text field under the parameter's name, not as
	// an uploaded file (the only way a urlencoded form can carry the name at all)
	AsText bool `json:"asTextField,omitempty"`
	// Malformed (formData): the body or its Content-Type is not a form the declared media type can parse:
	// "bad-escape" (urlencoded: an invalid %-escape), "truncated" (multipart: the closing boundary is missing),
	// "no-boundary" (multipart Content-Type without boundary), "json-content-type", "unparsable-content-type".
	// Nothing is promised about the value: binding must not panic and the answer must not be a server error.
	Malformed string `json:"malformed,omitempty"`
}

// Ext holds what gen.Param cannot express about a declaration (parallel to Case.Decls).
type Ext struct {
	ItemsEnum        []interface{} `json:"itemsEnum,omitempty"`
	ItemsMaximum     *float64      `json:"itemsMaximum,omitempty"`
	UniqueItems      bool          `json:"uniqueItems,omitempty"`
	MultipleOf       *float64      `json:"multipleOf,omitempty"`
	ExclusiveMinimum bool          `json:"exclusiveMinimum,omitempty"`
	ExclusiveMaximum bool          `json:"exclusiveMaximum,omitempty"`
	// Level: "" the operation's own parameter list; "pathitem": declared on the path item (shared by its
	// operations); "ref": declared under #/parameters and referenced from the operation
	Level string `json:"level,omitempty"`
	// Method of the operation ("" = POST)
	Method string `json:"method,omitempty"`
	// NestedCF: when set, the items are themselves arrays (of ItemsType/ItemsFormat) and this is the
	// collectionFormat declared on them ("": none declared, which means csv)
	NestedCF *string `json:"nestedCollectionFormat,omitempty"`
}

func (x *Ext) zero() bool { return reflect.DeepEqual(*x, Ext{}) }

// MReq is one request against an operation that declares several parameters.
type MReq struct {
	Op    int   `json:"op"`
	Parts []Req `json:"parts"` // one per declaration of Ops[Op], in that order (Req.D indexes Decls)
}

// Case is a set of declarations (one operation each, unless grouped by Ops) and requests.
type Case struct {
	Decls []gen.Param `json:"decls"`
	Forms []string    `json:"forms"` // per decl: "", "urlencoded", "multipart"
	Reqs  []Req       `json:"reqs"`
	Ext   []Ext       `json:"ext,omitempty"`
	// Mutate: whoever receives a bound slice (the handler, the owner of the struct target) overwrites its
	// elements in place after recording it, as a handler that sorts or normalises its input does
	Mutate bool `json:"mutate,omitempty"`
	// Ops: operations declaring several parameters (indices into Decls); declarations named here do not
	// get an operation of their own. MReqs are the requests against them.
	Ops   [][]int `json:"ops,omitempty"`
	MReqs []MReq  `json:"mreqs,omitempty"`
	// Reuse: besides a fresh struct per request, every request of a declaration is also bound into ONE struct
	// value that its owner keeps (a pooled parameter object, a long-lived field) and that held the owner's
	// own non-zero values before its first Bind: after each accepted Bind it must describe that request only
	Reuse bool `json:"reuse,omitempty"`
	// Helpers: the texts of every query, header and form request are also handed to the exported readers
	// runtime.ReadSingleValue and runtime.ReadCollectionValue (last occurrence; split items)
	Helpers bool `json:"helpers,omitempty"`
	// AReqs (two-application cases): the description is served by TWO applications alive in the same process
	// (two untyped.API values, each with its own format registry; see meaning), and these requests are sent, in
	// this order, to the application each one names. What a format name means is the business of the
	// application that binds the request, whatever another application bound before.
	AReqs []AReq `json:"areqs,omitempty"`
}

// AReq is one request of a two-application case.
type AReq struct {
	App int `json:"app"` // 0: the first application, 1: the second
	Req
}

// dcl is one declaration with everything that belongs to it.
type dcl struct {
	*gen.Param
	X    Ext
	Form string
}

func (c *Case) decl(i int) *dcl {
	d := &dcl{Param: &c.Decls[i], Form: c.Forms[i]}
	if i < len(c.Ext) {
		d.X = c.Ext[i]
	}
	return d
}

func (d *dcl) method() string {
	if d.X.Method == "" {
		return "POST"
	}
	return d.X.Method
}

// ---------------- expectation ----------------

type expectation struct {
	reject  bool
	either  bool     // not judged
	accepts []string // acceptable canonical values
	why     string
	// orRefuse (with either): the text is outside the core grammar but denotes a value for strconv: the
	// request is answered 422, or the handler runs with one of accepts (none listed: it must be 422)
	orRefuse bool
	class    string // of an orRefuse expectation, for signatures
}

var (
	reInt   = regexp.MustCompile(`^[+-]?[0-9]+$`)
	reFloat = regexp.MustCompile(`^[+-]?([0-9]+(\.[0-9]*)?|\.[0-9]+)([eE][+-]?[0-9]+)?$`)
	reUUID  = regexp.MustCompile(`^[0-9a-fA-F]{8}-[0-9a-fA-F]{4}-[0-9a-fA-F]{4}-[0-9a-fA-F]{4}-[0-9a-fA-F]{12}$`)
)

var trueWords = map[string]bool{"true": true, "1": true, "yes": true, "ok": true, "y": true, "on": true, "selected": true, "checked": true, "t": true, "enabled": true}
var falseWords = map[string]bool{"false": true, "0": true, "no": true, "n": true, "off": true, "f": true, "disabled": true, "unchecked": true, "unselected": true}

func intBits(format string) int {
	switch format {
	case "int8":
		return 8
	case "int16":
		return 16
	case "int32":
		return 32
	}
	return 64
}

func canonInt(bits int, v int64) string { return fmt.Sprintf("int%d:%d", bits, v) }
func canonFloat(bits int, v float64) string {
	if bits == 32 {
		return fmt.Sprintf("float32:%08x", math.Float32bits(float32(v)))
	}
	return fmt.Sprintf("float64:%016x", math.Float64bits(v))
}

// verifTag is the Go type of the format "x-verif-tag", which the application registers itself
// (api.RegisterFormat): the texts t followed by one to seven lower-case letters or digits; a text denotes itself.
type verifTag string

const tagFormat = "x-verif-tag"

var reTag = regexp.MustCompile(`^t[a-z0-9]{1,7}$`)

func (t verifTag) String() string                { return string(t) }
func (t verifTag) MarshalText() ([]byte, error)  { return []byte(t), nil }
func (t *verifTag) UnmarshalText(b []byte) error { *t = verifTag(b); return nil }
func isTag(s string) bool                        { return reTag.MatchString(s) }

// verifLabel is the Go type the SECOND application of a two-application case registers for its formats: the
// texts l-<one to six digits> in either letter case; a text denotes its upper-case spelling.
type verifLabel string

// labelFormat is the monitor's own name for "the text is judged as a verifLabel" (never declared as such).
const labelFormat = "x-verif-label"

// Format names of two-application cases (a fresh suffix follows the prefix): the name is registered by the
// first application only (as verifTag), by the second only (as verifLabel), by both (verifTag / verifLabel).
const (
	firstOnlyPrefix  = "x-verif-first-"
	secondOnlyPrefix = "x-verif-second-"
	bothPrefix       = "x-verif-both-"
)

var reLabel = regexp.MustCompile(`^[lL]-[0-9]{1,6}$`)

func (t verifLabel) String() string               { return string(t) }
func (t verifLabel) MarshalText() ([]byte, error) { return []byte(t), nil }
func (t *verifLabel) UnmarshalText(b []byte) error {
	if !reLabel.Match(b) {
		return fmt.Errorf("%q is not a label", b)
	}
	*t = verifLabel(strings.ToUpper(string(b)))
	return nil
}
func isLabel(s string) bool { return reLabel.MatchString(s) }

// meaning: what the format NAME of a declaration means to application app (0: the first, 1: the second) of a
// two-application case, as a format this monitor judges: a name the application's registry does not know
// denotes nothing beyond "string" (any text is a valid string and denotes itself).
func meaning(app int, format string) string {
	switch {
	case format == tagFormat, strings.HasPrefix(format, firstOnlyPrefix):
		if app == 0 {
			return tagFormat
		}
		return ""
	case strings.HasPrefix(format, secondOnlyPrefix):
		if app == 0 {
			return ""
		}
		return labelFormat
	case strings.HasPrefix(format, bothPrefix):
		if app == 0 {
			return tagFormat
		}
		return labelFormat
	}
	return format
}

// relation: how the two registries of a two-application case differ about a format name (for signatures).
func relation(app int, format string) string {
	here, there := meaning(app, format), meaning(1-app, format)
	switch {
	case here == there:
		return "format-means-the-same-to-both"
	case here == "":
		return "format-unknown-here-registered-by-the-other-application"
	case there == "":
		return "format-registered-here-unknown-to-the-other-application"
	}
	return "format-registered-with-another-type-by-the-other-application"
}

// registry: the registered formats of the struct-target binders (the default ones and the application's own)
var registry = func() strfmt.Registry {
	r := strfmt.NewFormats()
	var t verifTag
	r.Add(tagFormat, &t, isTag)
	return r
}()

var (
	// texts that are e-mail addresses / host names / durations beyond doubt; what is neither beyond doubt one
	// nor beyond doubt none is not judged
	reEmailSure    = regexp.MustCompile(`^[A-Za-z0-9]+([._+-][A-Za-z0-9]+)*@[A-Za-z0-9]+(-[A-Za-z0-9]+)*(\.[A-Za-z0-9]+(-[A-Za-z0-9]+)*)*\.[A-Za-z]{2,}$`)
	reHostSure     = regexp.MustCompile(`^[A-Za-z]([A-Za-z0-9-]{0,30}[A-Za-z0-9])?(\.[A-Za-z]([A-Za-z0-9-]{0,30}[A-Za-z0-9])?)*$`)
	reDurationSure = regexp.MustCompile(`^([0-9]{1,6})(ns|us|ms|s|m|h)$`)
)

var durationUnit = map[string]time.Duration{"ns": time.Nanosecond, "us": time.Microsecond, "ms": time.Millisecond, "s": time.Second, "m": time.Minute, "h": time.Hour}

// validatedFormat: string formats whose texts are checked after binding (an empty text is a text to them)
func validatedFormat(format string) bool {
	switch format {
	case "uuid", "email", "hostname", "duration", tagFormat, labelFormat:
		return true
	}
	return false
}

// scalar computes the denotation of one literal text for (type, format).
// ok=false: not a valid literal; either=true: outside the judged grammar.
func scalar(tpe, format, text string) (canon []string, ok bool, either bool) {
	switch tpe {
	case "string":
		switch format {
		case "date":
			t, err := time.Parse("2006-01-02", text)
			if err != nil {
				return nil, false, false
			}
			return []string{"date:" + t.Format("2006-01-02")}, true, false
		case "date-time":
			t, err := time.Parse(time.RFC3339Nano, text)
			if err != nil {
				if _, err2 := strfmt.ParseDateTime(text); err2 == nil {
					return nil, false, true // a non-RFC3339 layout the format registry knows: not judged
				}
				return nil, false, false
			}
			return []string{fmt.Sprintf("datetime:%d", t.UnixNano())}, true, false
		case "uuid":
			if reUUID.MatchString(text) {
				return []string{"uuid:" + text}, true, false
			}
			if strings.ContainsAny(text, "{}:") || len(text) == 32 {
				return nil, false, true
			}
			return nil, false, false
		case "byte":
			b, err := base64.StdEncoding.DecodeString(text)
			if err == nil {
				return []string{fmt.Sprintf("bytes:%x", b)}, true, false
			}
			if _, err := base64.URLEncoding.DecodeString(text); err == nil {
				return nil, false, true
			}
			if _, err := base64.RawStdEncoding.DecodeString(text); err == nil {
				return nil, false, true
			}
			return nil, false, false
		case "password":
			return []string{"password:" + text}, true, false
		case tagFormat:
			if isTag(text) {
				return []string{"tag:" + text}, true, false
			}
			return nil, false, false
		case labelFormat:
			if isLabel(text) {
				return []string{"label:" + strings.ToUpper(text)}, true, false
			}
			return nil, false, false
		case "email":
			switch at := strings.Count(text, "@"); {
			case reEmailSure.MatchString(text):
				return []string{"email:" + text}, true, false
			case at == 0, strings.HasPrefix(text, "@"), strings.HasSuffix(text, "@"):
				return nil, false, false
			}
			return nil, false, true
		case "hostname":
			switch {
			case reHostSure.MatchString(text) && len(text) < 100:
				return []string{"hostname:" + text}, true, false
			case strings.ContainsAny(text, " @/:?#"):
				return nil, false, false
			}
			return nil, false, true
		case "duration":
			if mm := reDurationSure.FindStringSubmatch(text); mm != nil {
				n, _ := strconv.ParseInt(mm[1], 10, 64)
				return []string{fmt.Sprintf("duration:%d", n*int64(durationUnit[mm[2]]))}, true, false
			}
			if !strings.ContainsAny(text, "0123456789") || text[0] == ':' || strings.Contains(text, "::") {
				return nil, false, false // no amount at all
			}
			return nil, false, true
		}
		return []string{"string:" + text}, true, false
	case "integer":
		bits := intBits(format)
		if !reInt.MatchString(text) {
			if _, err := strconv.ParseInt(text, 0, 64); err == nil {
				return nil, false, false // hex/underscore forms are not decimal literals: must be refused
			}
			return nil, false, false
		}
		v, err := strconv.ParseInt(text, 10, bits)
		if err != nil {
			return nil, false, false
		}
		return []string{canonInt(bits, v)}, true, false
	case "number":
		bits := 64
		if format == "float" {
			bits = 32
		}
		if !reFloat.MatchString(text) {
			if _, err := strconv.ParseFloat(text, 64); err == nil {
				return nil, false, true
			}
			return nil, false, false
		}
		v, err := strconv.ParseFloat(text, bits)
		if err != nil {
			return nil, false, false // out of range
		}
		return []string{canonFloat(bits, v)}, true, false
	case "boolean":
		l := strings.ToLower(text)
		if trueWords[l] {
			return []string{"bool:true"}, true, false
		}
		if falseWords[l] {
			return []string{"bool:false"}, true, false
		}
		return nil, false, false
	}
	return nil, false, true
}

// canonDefault renders a declared default (a JSON value) as the canonical value of the declared type.
func canonDefault(tpe, format string, def interface{}) (string, bool) {
	switch tpe {
	case "string":
		s, ok := def.(string)
		if !ok {
			return "", false
		}
		c, ok2, _ := scalar(tpe, format, s)
		if !ok2 {
			return "", false
		}
		return c[0], true
	case "integer":
		f, ok := def.(float64)
		if !ok {
			return "", false
		}
		return canonInt(intBits(format), int64(f)), true
	case "number":
		f, ok := def.(float64)
		if !ok {
			return "", false
		}
		if format == "float" {
			return canonFloat(32, f), true
		}
		return canonFloat(64, f), true
	case "boolean":
		b, ok := def.(bool)
		if !ok {
			return "", false
		}
		return fmt.Sprintf("bool:%v", b), true
	}
	return "", false
}

func zeroCanon(tpe, format string) string {
	switch tpe {
	case "string":
		switch format {
		case "date":
			return "date:0001-01-01" // the zero date; accepted spellings handled by canonOf
		case "date-time":
			return "datetime:zero"
		case "uuid":
			return "uuid:"
		case "byte":
			return "bytes:"
		case "email", "password", "hostname":
			return format + ":"
		case "duration":
			return "duration:0"
		case tagFormat:
			return "tag:"
		case labelFormat:
			return "label:"
		}
		return "string:"
	case "integer":
		return canonInt(intBits(format), 0)
	case "number":
		if format == "float" {
			return canonFloat(32, 0)
		}
		return canonFloat(64, 0)
	case "boolean":
		return "bool:false"
	}
	return "?"
}

// splitItems: the items of one text of a non-multi array.
func splitItems(text, cf string) []string {
	var items []string
	if text == "" {
		return nil
	}
	for _, s := range strings.Split(text, sepOf(cf)) {
		if ts := strings.TrimSpace(s); ts != "" {
			items = append(items, ts)
		}
	}
	return items
}

func sepOf(cf string) string {
	switch cf {
	case "ssv":
		return " "
	case "tsv":
		return "\t"
	case "pipes":
		return "|"
	}
	return ","
}

// valueKey: canonical forms that denote equal values get equal keys (minus zero equals zero).
func valueKey(canon string) string {
	switch canon {
	case "float64:8000000000000000":
		return "float64:0000000000000000"
	case "float32:80000000":
		return "float32:00000000"
	}
	return canon
}

// normNaN: every not-a-number bit pattern is the same value.
func normNaN(canon string) string {
	var b uint64
	if n, _ := fmt.Sscanf(canon, "float64:%016x", &b); n == 1 && math.IsNaN(math.Float64frombits(b)) {
		return "float64:NaN"
	}
	if n, _ := fmt.Sscanf(canon, "float32:%08x", &b); n == 1 && math.IsNaN(float64(math.Float32frombits(uint32(b)))) {
		return "float32:NaN"
	}
	return canon
}

// numValidations: the numeric validations of a declaration applied to one value.
func numValidations(d *dcl, f float64) bool {
	if d.Minimum != nil && (f < *d.Minimum || (d.X.ExclusiveMinimum && f == *d.Minimum)) {
		return false
	}
	if d.Maximum != nil && (f > *d.Maximum || (d.X.ExclusiveMaximum && f == *d.Maximum)) {
		return false
	}
	if d.X.MultipleOf != nil && math.Mod(f, *d.X.MultipleOf) != 0 {
		return false
	}
	return true
}

// inEnum: is the value the text denotes (canonical form canon) one of the listed values?
// either: the statement does not decide.
func inEnum(tpe, format, text, canon string, enum []interface{}) (in, either bool) {
	if tpe == "string" {
		for _, e := range enum {
			if s, ok := e.(string); ok && s == text {
				return true, false
			}
		}
		if format == "" {
			return false, false
		}
	}
	for _, e := range enum {
		if c, ok := canonDefault(tpe, format, e); ok && valueKey(c) == valueKey(canon) {
			in = true
		}
	}
	if tpe == "string" {
		return false, in // the same date / instant / uuid / bytes in another spelling
	}
	if tpe == "number" && format == "float" {
		// the value bound is the 32-bit reading; a validator may look at either
		in64 := false
		if v64, err := strconv.ParseFloat(text, 64); err == nil {
			for _, e := range enum {
				if f, ok := e.(float64); ok && f == v64 {
					in64 = true
				}
			}
		}
		if in64 != in {
			return false, true
		}
	}
	return in, false
}

// validateScalar applies the declared validations to the value one literal denotes.
func validateScalar(d *dcl, tpe, format, text string, canon string) (ok, either bool) {
	switch tpe {
	case "integer":
		v, _ := strconv.ParseInt(text, 10, 64)
		if !numValidations(d, float64(v)) {
			return false, false
		}
		if d.X.MultipleOf != nil && *d.X.MultipleOf == math.Trunc(*d.X.MultipleOf) && v%int64(*d.X.MultipleOf) != 0 {
			return false, false
		}
	case "number":
		f64, _ := strconv.ParseFloat(text, 64)
		ok64 := numValidations(d, f64)
		if format == "float" {
			f32, _ := strconv.ParseFloat(text, 32)
			if numValidations(d, f32) != ok64 {
				return false, true
			}
		}
		if !ok64 {
			return false, false
		}
	case "string":
		if format == "" {
			n := int64(len([]rune(text)))
			if d.MinLength != nil && n < *d.MinLength {
				return false, false
			}
			if d.MaxLength != nil && n > *d.MaxLength {
				return false, false
			}
			if d.Pattern != "" {
				if m, err := regexp.MatchString(d.Pattern, text); err != nil || !m {
					return false, err != nil
				}
			}
		}
	}
	if len(d.Enum) > 0 {
		return inEnum(tpe, format, text, canon, d.Enum)
	}
	return true, false
}

func hasValidation(d *dcl) bool {
	return d.Minimum != nil || d.Maximum != nil || d.MinLength != nil || d.MaxLength != nil || len(d.Enum) > 0 || d.MinItems != nil || d.MaxItems != nil ||
		d.Pattern != "" || len(d.X.ItemsEnum) > 0 || d.X.ItemsMaximum != nil || d.X.UniqueItems || d.X.MultipleOf != nil
}

// gone: the request does not carry the parameter under its declared name.
func (rq *Req) gone() bool { return rq.Absent || rq.OtherKey != "" }

func expect(d *dcl, rq *Req) expectation {
	absent := rq.gone()
	texts := mon.SQ(rq.Texts)
	if d.Type == "file" {
		if absent {
			if d.Required {
				return expectation{reject: true, why: "required file missing"}
			}
			return expectation{accepts: []string{"nofile"}, why: "optional file absent"}
		}
		if rq.AsText {
			// a text field is not an uploaded file: no file was sent (a required one is missing); refusing the
			// text as "not a file" is the other reading of the statement
			if d.Required {
				return expectation{reject: true, why: "required file missing (a text field of that name is not a file)"}
			}
			return expectation{either: true, orRefuse: true, class: "text-field-named-like-a-file-parameter", accepts: []string{"nofile"}, why: "a text field named like the optional file parameter: no file, or 422"}
		}
		return expectation{accepts: []string{"file:" + path.Base(rq.FileName) + ":" + fmt.Sprintf("%x", texts[0])}, why: "file content, base file name"}
	}
	missing := func(emptyText bool) (expectation, bool) {
		if d.Required && d.Default == nil && (absent || !d.AllowEmptyValue) {
			return expectation{reject: true, why: "required and missing/empty"}, true
		}
		_ = emptyText
		return expectation{}, false
	}
	if d.Type == "array" && d.X.NestedCF != nil {
		// an array of arrays is outside "array of those": the statement promises that binding does not panic
		// (and no server error); a handler that runs must be handed the items of the items, nothing else
		e := expectation{either: true, orRefuse: true, class: "array-of-arrays", why: "array of arrays: 422, or the items of the items"}
		var outer []string
		switch {
		case absent:
		case d.CollectionFormat == "multi":
			outer = texts
		default:
			outer = splitItems(texts[len(texts)-1], d.CollectionFormat)
		}
		if absent && d.Required {
			return e // nothing acceptable but the refusal
		}
		var rows []string
		for _, o := range outer {
			var cs []string
			for _, it := range splitItems(o, *d.X.NestedCF) {
				c, ok, either := scalar(d.ItemsType, d.ItemsFormat, it)
				if either {
					return expectation{either: true, why: "item outside judged grammar"}
				}
				if !ok {
					return e // an item that is no literal of the item type: the refusal only
				}
				cs = append(cs, c[0])
			}
			if len(cs) == 0 {
				return expectation{either: true, why: "empty inner array"}
			}
			rows = append(rows, "["+strings.Join(cs, " ")+"]")
		}
		e.accepts = []string{"[" + strings.Join(rows, " ") + "]"}
		return e
	}
	if d.Type == "array" {
		var items []string
		if !absent {
			if d.CollectionFormat == "multi" {
				items = texts
				for _, it := range items {
					if it == "" {
						return expectation{either: true, why: "empty item in multi array"}
					}
				}
			} else {
				last := texts[len(texts)-1]
				for _, s := range strings.Split(last, sepOf(d.CollectionFormat)) {
					if ts := strings.TrimSpace(s); ts != "" {
						items = append(items, ts)
					}
				}
				if last == "" {
					items = nil
				}
			}
		}
		if len(items) == 0 {
			if e, rej := missing(true); rej {
				return e
			}
			if !absent && hasValidation(d) && d.Default == nil {
				// (with a declared default the statement decides: "the declared default when absent or empty")
				return expectation{either: true, why: "empty text with a declared validation and no default"}
			}
			if d.Default != nil {
				dl, ok := d.Default.([]interface{})
				if !ok {
					return expectation{either: true, why: "non-array default"}
				}
				var cs []string
				for _, x := range dl {
					c, ok := canonDefault(d.ItemsType, d.ItemsFormat, x)
					if !ok {
						return expectation{either: true, why: "default item not of the item type"}
					}
					cs = append(cs, c)
				}
				return expectation{accepts: []string{"[" + strings.Join(cs, " ") + "]"}, why: "default array"}
			}
			if hasValidation(d) {
				return expectation{accepts: []string{"[]"}, why: "empty/absent array, zero value (validations apply to sent text only)"}
			}
			return expectation{accepts: []string{"[]"}, why: "zero array"}
		}
		var cs []string
		for _, it := range items {
			c, ok, either := scalar(d.ItemsType, d.ItemsFormat, it)
			if either {
				return expectation{either: true, why: "item outside judged grammar"}
			}
			if !ok {
				return expectation{reject: true, why: fmt.Sprintf("item %q is not a %s/%s literal", it, d.ItemsType, d.ItemsFormat)}
			}
			cs = append(cs, c[0])
		}
		if d.MinItems != nil && int64(len(items)) < *d.MinItems {
			return expectation{reject: true, why: "minItems"}
		}
		if d.MaxItems != nil && int64(len(items)) > *d.MaxItems {
			return expectation{reject: true, why: "maxItems"}
		}
		undecided := ""
		for i, it := range items {
			if len(d.X.ItemsEnum) > 0 {
				in, either := inEnum(d.ItemsType, d.ItemsFormat, it, cs[i], d.X.ItemsEnum)
				if either {
					undecided = "item equal to a listed value in another spelling"
				} else if !in {
					return expectation{reject: true, why: fmt.Sprintf("item %q is not in items.enum", it)}
				}
			}
			if d.X.ItemsMaximum != nil && (d.ItemsType == "integer" || d.ItemsType == "number") {
				if f, err := strconv.ParseFloat(it, 64); err == nil && f > *d.X.ItemsMaximum {
					return expectation{reject: true, why: fmt.Sprintf("item %q exceeds items.maximum", it)}
				}
			}
		}
		if d.X.UniqueItems {
			seen := map[string]bool{}
			for _, c := range cs {
				if seen[valueKey(c)] {
					return expectation{reject: true, why: "uniqueItems: two items denote the same value"}
				}
				seen[valueKey(c)] = true
			}
		}
		if undecided != "" {
			return expectation{either: true, why: undecided}
		}
		return expectation{accepts: []string{"[" + strings.Join(cs, " ") + "]"}, why: "split items"}
	}
	// scalar
	var text string
	if !absent {
		text = texts[len(texts)-1]
	}
	if absent || text == "" {
		if e, rej := missing(text == ""); rej {
			return e
		}
		if !absent && (hasValidation(d) || validatedFormat(d.Format)) && d.Default == nil {
			// (with a declared default the statement decides: "the declared default when absent or empty")
			return expectation{either: true, why: "empty text with a declared validation (or a validated format) and no default"}
		}
		if ds, isStr := d.Default.(string); isStr && ds == "" && d.Required && !d.AllowEmptyValue {
			// the statement's two clauses meet: the default applies, and the value it yields is the empty
			// text a required parameter that does not allow empty values must not have. Not judged.
			return expectation{either: true, why: "required, empty values not allowed, declared default is the empty text"}
		}
		if d.Default != nil {
			c, ok := canonDefault(d.Type, d.Format, d.Default)
			if !ok {
				return expectation{either: true, why: "default not of the declared type"}
			}
			return expectation{accepts: []string{c}, why: "default"}
		}
		return expectation{accepts: []string{zeroCanon(d.Type, d.Format)}, why: "zero value"}
	}
	c, ok, either := scalar(d.Type, d.Format, text)
	if either {
		e := expectation{either: true, why: "outside judged grammar"}
		if d.Type == "number" && len(d.Enum) == 0 && d.X.MultipleOf == nil {
			// "may be refused or bound to the strconv value": nothing else. The declared bounds apply to that value.
			bits := 64
			if d.Format == "float" {
				bits = 32
			}
			v, err := strconv.ParseFloat(text, bits)
			bounded := d.Minimum != nil || d.Maximum != nil
			switch {
			case err != nil, math.IsNaN(v) && bounded:
			case bounded && !numValidations(d, v):
				e.orRefuse, e.class, e.why = true, "number-text-outside-the-core-grammar", "outside the core grammar: 422 (the strconv value violates the declared bounds)"
			default:
				e.orRefuse, e.class, e.accepts, e.why = true, "number-text-outside-the-core-grammar", []string{normNaN(canonFloat(bits, v))}, "outside the core grammar: 422 or the strconv value"
			}
		}
		return e
	}
	if !ok {
		return expectation{reject: true, why: fmt.Sprintf("%q is not a valid in-range %s/%s literal", text, d.Type, d.Format)}
	}
	vok, veither := validateScalar(d, d.Type, d.Format, text, c[0])
	if veither {
		return expectation{either: true, why: "validation not decided by the statement for this text"}
	}
	if !vok {
		return expectation{reject: true, why: "validation fails"}
	}
	return expectation{accepts: c, why: "literal"}
}

// ---------------- observation ----------------

type fileCanon string

func canonOf(v interface{}) string {
	switch x := v.(type) {
	case nil:
		return "nil"
	case bool:
		return fmt.Sprintf("bool:%v", x)
	case int8:
		return canonInt(8, int64(x))
	case int16:
		return canonInt(16, int64(x))
	case int32:
		return canonInt(32, int64(x))
	case int64:
		return canonInt(64, x)
	case uint8:
		return canonInt(8, int64(x))
	case uint16:
		return canonInt(16, int64(x))
	case uint32:
		return canonInt(32, int64(x))
	case uint64:
		if x > math.MaxInt64 {
			return fmt.Sprintf("uint64:%d", x)
		}
		return canonInt(64, int64(x))
	case float32:
		return fmt.Sprintf("float32:%08x", math.Float32bits(x))
	case float64:
		return fmt.Sprintf("float64:%016x", math.Float64bits(x))
	case string:
		return "string:" + x
	case strfmt.Date:
		return "date:" + time.Time(x).Format("2006-01-02")
	case strfmt.DateTime:
		if time.Time(x).IsZero() || time.Time(x).Unix() == 0 {
			return "datetime:zero"
		}
		return fmt.Sprintf("datetime:%d", time.Time(x).UnixNano())
	case strfmt.UUID:
		return "uuid:" + string(x)
	case strfmt.Email:
		return "email:" + string(x)
	case strfmt.Password:
		return "password:" + string(x)
	case strfmt.Hostname:
		return "hostname:" + string(x)
	case strfmt.Duration:
		return fmt.Sprintf("duration:%d", int64(x))
	case verifTag:
		return "tag:" + string(x)
	case verifLabel:
		return "label:" + string(x)
	case strfmt.Base64:
		return fmt.Sprintf("bytes:%x", []byte(x))
	case []byte:
		return fmt.Sprintf("bytes:%x", x)
	case fileCanon:
		return string(x)
	case runtime.File:
		if x.Data == nil {
			return "nofile"
		}
		b, _ := io.ReadAll(x.Data)
		name := ""
		if x.Header != nil {
			name = x.Header.Filename
		}
		return "file:" + name + ":" + fmt.Sprintf("%x", b)
	}
	rv := reflect.ValueOf(v)
	if rv.Kind() == reflect.Slice {
		var cs []string
		for i := 0; i < rv.Len(); i++ {
			cs = append(cs, canonOf(rv.Index(i).Interface()))
		}
		return "[" + strings.Join(cs, " ") + "]"
	}
	return fmt.Sprintf("other:%T:%v", v, v)
}

// scramble overwrites, in place, the elements of a slice its owner was handed (what a handler does that
// sorts, normalises or rescales its input). Called only after the value has been recorded.
func scramble(v interface{}) {
	rv := reflect.ValueOf(v)
	if rv.Kind() != reflect.Slice {
		return
	}
	for i := 0; i < rv.Len(); i++ {
		e := rv.Index(i)
		if !e.CanSet() {
			return
		}
		switch e.Kind() { //nolint:exhaustive
		case reflect.String:
			e.SetString("overwritten-by-an-earlier-receiver")
		case reflect.Int, reflect.Int8, reflect.Int16, reflect.Int32, reflect.Int64:
			e.SetInt(^e.Int())
		case reflect.Uint8:
			e.SetUint(uint64(^uint8(e.Uint())))
		case reflect.Uint, reflect.Uint16, reflect.Uint32, reflect.Uint64:
			e.SetUint(e.Uint() ^ 1)
		case reflect.Float32, reflect.Float64:
			e.SetFloat(-e.Float() - 1)
		case reflect.Bool:
			e.SetBool(!e.Bool())
		default:
			e.Set(reflect.Zero(e.Type()))
		}
	}
}

type sut struct {
	peer      *sut // the second application of a two-application case
	handler   http.Handler
	mutate    bool
	ran       int
	scrambled int64             // handler runs after which the received slices were overwritten
	got       map[string]string // canonical form of every value handed to the handler, recorded inside the handler
	binders   map[string]*middleware.UntypedRequestBinder
	targets   map[string]reflect.Value // the kept struct targets (Case.Reuse), by declaration and field shape
}

// opPlan: the operations of a case: which declarations each one declares.
type opPlan struct {
	id, method, template string
	consumes             string
	decls                []int
}

func (c *Case) plan() []opPlan {
	var ops []opPlan
	grouped := map[int]bool{}
	for _, g := range c.Ops {
		for _, di := range g {
			grouped[di] = true
		}
	}
	consumesOf := func(form string) string {
		switch form {
		case "urlencoded":
			return "application/x-www-form-urlencoded"
		case "multipart":
			return "multipart/form-data"
		}
		return ""
	}
	for i := range c.Decls {
		if grouped[i] {
			continue
		}
		d := c.decl(i)
		op := opPlan{id: fmt.Sprintf("op%d", i), method: d.method(), template: fmt.Sprintf("/o%d", i), decls: []int{i}, consumes: consumesOf(d.Form)}
		if d.In == "path" {
			op.template = fmt.Sprintf("/o%d/{%s}", i, d.Name)
		}
		ops = append(ops, op)
	}
	for j, g := range c.Ops {
		op := opPlan{id: fmt.Sprintf("mop%d", j), method: "POST", template: fmt.Sprintf("/m%d", j), decls: g}
		for _, di := range g {
			d := c.decl(di)
			if d.In == "path" {
				op.template += "/{" + d.Name + "}"
			}
			if cs := consumesOf(d.Form); cs != "" {
				op.consumes = cs
			}
		}
		ops = append(ops, op)
	}
	for i := range ops {
		if ops[i].consumes == "" {
			ops[i].consumes = "application/json"
		}
	}
	return ops
}

// paramObj renders declaration i as its Swagger 2.0 parameter object, with the features gen.Param lacks.
func (c *Case) paramObj(i int) map[string]interface{} {
	d := c.decl(i)
	m := gen.ParamJSON(*d.Param)
	if it, ok := m["items"].(map[string]interface{}); ok {
		if len(d.X.ItemsEnum) > 0 {
			it["enum"] = d.X.ItemsEnum
		}
		if d.X.ItemsMaximum != nil {
			it["maximum"] = *d.X.ItemsMaximum
		}
	}
	if it, ok := m["items"].(map[string]interface{}); ok && d.X.NestedCF != nil {
		outer := map[string]interface{}{"type": "array", "items": it}
		if *d.X.NestedCF != "" {
			outer["collectionFormat"] = *d.X.NestedCF
		}
		m["items"] = outer
	}
	if d.X.UniqueItems {
		m["uniqueItems"] = true
	}
	if d.X.MultipleOf != nil {
		m["multipleOf"] = *d.X.MultipleOf
	}
	if d.X.ExclusiveMinimum {
		m["exclusiveMinimum"] = true
	}
	if d.X.ExclusiveMaximum {
		m["exclusiveMaximum"] = true
	}
	return m
}

// docJSON emits the description: gen.Desc gives the frame (one empty operation per plan entry); the
// parameters are placed here, on the operation, on its path item, or under #/parameters with a reference.
func (c *Case) docJSON() []byte {
	ops := c.plan()
	gd := gen.Desc{BasePath: "/", Produces: []string{"application/json"}}
	for _, op := range ops {
		gd.Ops = append(gd.Ops, gen.Op{ID: op.id, Method: op.method, Template: op.template, Consumes: []string{op.consumes}})
	}
	var doc map[string]interface{}
	if err := json.Unmarshal(gd.JSON(), &doc); err != nil {
		panic(err)
	}
	paths, _ := doc["paths"].(map[string]interface{})
	shared := map[string]interface{}{}
	for _, op := range ops {
		pi, _ := paths[op.template].(map[string]interface{})
		o, _ := pi[strings.ToLower(op.method)].(map[string]interface{})
		var own, onItem []interface{}
		for _, di := range op.decls {
			pm := c.paramObj(di)
			switch c.decl(di).X.Level {
			case "pathitem":
				onItem = append(onItem, pm)
			case "ref":
				key := fmt.Sprintf("shared%d", di)
				shared[key] = pm
				own = append(own, map[string]interface{}{"$ref": "#/parameters/" + key})
			default:
				own = append(own, pm)
			}
		}
		if len(own) > 0 {
			o["parameters"] = own
		}
		if len(onItem) > 0 {
			pi["parameters"] = onItem
		}
	}
	if len(shared) > 0 {
		doc["parameters"] = shared
	}
	b, err := json.Marshal(doc)
	if err != nil {
		panic(err)
	}
	return b
}

func build(c *Case) (*sut, error) {
	s, err := buildApp(c, 0)
	if err == nil && len(c.AReqs) > 0 {
		s.peer, err = buildApp(c, 1)
	}
	return s, err
}

// buildApp builds one application serving the case's description. Application 0 is the application of every
// case; application 1 exists in two-application cases only and has its own document and format registry.
func buildApp(c *Case, app int) (*sut, error) {
	doc, err := loads.Analyzed(json.RawMessage(c.docJSON()), "")
	if err != nil {
		return nil, err
	}
	s := &sut{mutate: c.Mutate, binders: map[string]*middleware.UntypedRequestBinder{}, targets: map[string]reflect.Value{}}
	api := untyped.NewAPI(doc)
	api.RegisterConsumer("application/x-www-form-urlencoded", runtime.DiscardConsumer)
	api.RegisterConsumer("multipart/form-data", runtime.DiscardConsumer)
	if app == 0 {
		var tg verifTag
		api.RegisterFormat(tagFormat, &tg, isTag) // the application's own format
	}
	if len(c.AReqs) > 0 {
		// every format name the declarations use is registered (or not) as meaning says
		seen := map[string]bool{tagFormat: true}
		for i := range c.Decls {
			for _, f := range []string{c.Decls[i].Format, c.Decls[i].ItemsFormat} {
				if seen[f] {
					continue
				}
				seen[f] = true
				if f == meaning(app, f) {
					continue // a built-in format, or none
				}
				switch meaning(app, f) {
				case tagFormat:
					var t verifTag
					api.RegisterFormat(f, &t, isTag)
				case labelFormat:
					var l verifLabel
					api.RegisterFormat(f, &l, isLabel)
				}
			}
		}
	}
	for _, op := range c.plan() {
		api.RegisterOperation(op.method, op.template, runtime.OperationHandlerFunc(func(params interface{}) (interface{}, error) {
			s.ran++
			got, _ := params.(map[string]interface{})
			s.got = map[string]string{}
			for k, v := range got { // record (and read uploaded files) while the request is live
				s.got[k] = canonOf(v)
			}
			if s.mutate {
				for _, v := range got {
					scramble(v)
				}
				s.scrambled++
			}
			return map[string]string{"ok": "1"}, nil
		}))
	}
	s.handler = middleware.NewContext(doc, api, nil).RoutesHandler(nil)
	return s, nil
}

// part: one parameter's share of a request.
type part struct {
	d  *dcl
	rq *Req
}

// assemble builds the HTTP request carrying every part.
func assemble(target, method string, parts []part) (*http.Request, bool) {
	var query []string
	hdr := http.Header{}
	form, ctSpelling := "", ""
	type field struct {
		key, val, fileName string
		file               bool
	}
	var fields []field
	chunked, malformed, noPayload := false, "", ""
	formParts, formAbsent := 0, 0
	for _, pt := range parts {
		d, rq := pt.d, pt.rq
		texts := mon.SQ(rq.Texts)
		key := d.Name
		if rq.OtherKey != "" && (d.In == "query" || d.In == "formData") {
			key = rq.OtherKey
		}
		switch d.In {
		case "path":
			if rq.Absent || len(texts) != 1 || texts[0] == "" || texts[0] == "." || texts[0] == ".." {
				return nil, false
			}
			target += "/" + url.PathEscape(texts[0])
		case "query":
			if !rq.Absent {
				for _, t := range texts {
					query = append(query, url.QueryEscape(key)+"="+url.QueryEscape(t))
				}
			}
			if rq.BodyShadow != nil {
				fields = append(fields, field{key: d.Name, val: string(*rq.BodyShadow)}) // only sent when the request has a form body
			}
		case "header":
			if !rq.Absent {
				key := rq.HeaderKey
				if key == "" {
					key = d.Name
				}
				for _, t := range texts {
					if t != strings.TrimSpace(t) || strings.ContainsAny(t, "\r\n\x00") {
						return nil, false
					}
					for i := 0; i < len(t); i++ {
						if t[i] < 0x20 && t[i] != '\t' || t[i] == 0x7f {
							return nil, false
						}
					}
					hdr.Add(key, t) // canonicalises the key like a real server does
				}
			}
		case "formData":
			form = d.Form
			if rq.CT != "" {
				ctSpelling = rq.CT
			}
			if rq.Shadow != nil {
				query = append(query, url.QueryEscape(d.Name)+"="+url.QueryEscape(string(*rq.Shadow)))
			}
			chunked = chunked || rq.Chunked
			if rq.Malformed != "" {
				malformed = rq.Malformed
			}
			if rq.NoPayload != "" {
				noPayload = rq.NoPayload
			}
			formParts++
			if rq.Absent {
				formAbsent++
			}
			if !rq.Absent {
				if d.Type == "file" && !rq.AsText {
					fields = append(fields, field{key: key, val: texts[0], fileName: rq.FileName, file: true})
				} else {
					for _, t := range texts {
						fields = append(fields, field{key: key, val: t})
					}
				}
			}
		}
	}
	var body io.Reader
	ct := ""
	switch form {
	case "multipart":
		var buf bytes.Buffer
		w := multipart.NewWriter(&buf)
		_ = w.WriteField("unrelated", "1")
		for _, f := range fields {
			if f.file {
				fw, _ := w.CreateFormFile(f.key, f.fileName)
				_, _ = fw.Write([]byte(f.val))
			} else {
				_ = w.WriteField(f.key, f.val)
			}
		}
		w.Close()
		if malformed == "truncated" {
			buf.Truncate(buf.Len() - len("\r\n--"+w.Boundary()+"--\r\n")) // the closing boundary never arrives
		}
		body = &buf
		ct = w.FormDataContentType()
		if ctSpelling == "case" || ctSpelling == "both" {
			ct = "Multipart/Form-Data" + strings.TrimPrefix(ct, "multipart/form-data")
		}
		if malformed == "no-boundary" {
			ct = "multipart/form-data"
		}
	case "urlencoded":
		vals := url.Values{"unrelated": {"1"}}
		for _, f := range fields {
			vals[f.key] = append(vals[f.key], f.val)
		}
		enc := vals.Encode()
		if malformed == "bad-escape" {
			enc = "broken=%zz&" + enc
		}
		body = strings.NewReader(enc)
		ct = "application/x-www-form-urlencoded"
		if ctSpelling == "case" || ctSpelling == "both" {
			ct = "Application/X-WWW-Form-UrlEncoded"
		}
	}
	if ct != "" && (ctSpelling == "charset" || ctSpelling == "both") {
		ct += "; charset=UTF-8"
	}
	switch malformed {
	case "json-content-type":
		ct = "application/json"
	case "unparsable-content-type":
		ct += "; charset"
	}
	if noPayload != "" {
		if form == "" || formAbsent != formParts {
			return nil, false // a request without payload carries no form parameter
		}
		body = nil
		if noPayload == "bare" {
			ct = ""
		}
	}
	if chunked && body != nil {
		body = unknownLength{body}
	}
	if len(query) > 0 {
		target += "?" + strings.Join(query, "&")
	}
	r := httptest.NewRequest(method, target, body)
	if chunked && body != nil {
		r.TransferEncoding = []string{"chunked"} // what a server hands to its handler for such a request
	}
	for k, v := range hdr {
		r.Header[k] = v
	}
	if ct != "" {
		r.Header.Set("Content-Type", ct)
	}
	r.Header.Set("Accept", "application/json")
	return r, true
}

// unknownLength hides the concrete reader type: no length can be announced for the body
// (Request.ContentLength is -1, there is no Content-Length header).
type unknownLength struct{ io.Reader }

func (c *Case) request(rq *Req) (*http.Request, bool) {
	d := c.decl(rq.D)
	return assemble(fmt.Sprintf("/o%d", rq.D), d.method(), []part{{d, rq}})
}

func valClass(d *dcl) string {
	switch {
	case len(d.Enum) > 0:
		return "+enum"
	case len(d.X.ItemsEnum) > 0:
		return "+items-enum"
	case d.X.ItemsMaximum != nil || d.X.UniqueItems:
		return "+items-maximum-uniqueItems"
	case d.Pattern != "":
		return "+pattern"
	case d.X.MultipleOf != nil:
		return "+multipleOf-exclusive-bounds"
	}
	return ""
}

func declClass(d *dcl) string {
	t := d.Type
	if d.Format != "" {
		t += "(" + d.Format + ")"
	}
	if d.Type == "array" {
		t = "array<" + d.ItemsType
		if d.ItemsFormat != "" {
			t += "(" + d.ItemsFormat + ")"
		}
		t += ">"
		if d.X.NestedCF != nil {
			t = "array<" + t + ">"
		}
	}
	in := d.In
	if d.Form != "" {
		in += "-" + d.Form
	}
	out := in + "/" + t + valClass(d)
	switch d.X.Level {
	case "pathitem":
		out += "@declared-on-path-item"
	case "ref":
		out += "@referenced-declaration"
	}
	if d.X.Method != "" && d.X.Method != "POST" {
		out += "[" + d.X.Method + "]"
	}
	return out
}

func presenceClass(d *dcl, rq *Req) string {
	if rq.NoPayload != "" && d.In == "formData" {
		return "absent+no-payload-" + rq.NoPayload
	}
	if rq.Chunked && d.In == "formData" {
		r2 := *rq
		r2.Chunked = false
		return presenceClass(d, &r2) + "+unknown-length"
	}
	if rq.AsText {
		r2 := *rq
		r2.AsText = false
		return presenceClass(d, &r2) + "+sent-as-text-field"
	}
	if rq.CT != "" && d.In == "formData" {
		r2 := *rq
		r2.CT = ""
		return presenceClass(d, &r2) + "+content-type-spelling-" + rq.CT
	}
	if rq.Shadow != nil {
		r2 := *rq
		r2.Shadow = nil
		return presenceClass(d, &r2) + "+same-name-in-query"
	}
	if rq.BodyShadow != nil {
		r2 := *rq
		r2.BodyShadow = nil
		return presenceClass(d, &r2) + "+same-name-in-form-body"
	}
	switch {
	case rq.OtherKey != "":
		return "absent+differently-cased-key-present"
	case rq.Absent:
		return "absent"
	case len(rq.Texts) > 1:
		return "repeated"
	case len(rq.Texts) == 1 && rq.Texts[0] == "":
		return "empty"
	}
	return "once"
}

// featureOf classifies the INPUT (declaration + request) by the first applicable feature of an ordered
// list; it is used in signatures only, never in a verdict.
func featureOf(d *dcl, rq *Req, exp *expectation) string {
	tpe, format := d.Type, d.Format
	if tpe == "array" {
		tpe, format = d.ItemsType, d.ItemsFormat
	}
	lastText := ""
	if !rq.gone() && len(rq.Texts) > 0 {
		lastText = string(rq.Texts[len(rq.Texts)-1])
	}
	noText := rq.gone() || lastText == ""
	switch {
	case d.X.NestedCF != nil:
		return "array-of-arrays"
	case d.Type == "file" && d.Form == "urlencoded":
		return "file-parameter-on-urlencoded-operation"
	case tpe == "boolean" && !noText && hasBoolJunk(d, rq):
		return boolJunkFeature
	case structTypedFormat(kind{tpe, format}) && ((d.Type != "array" && len(d.Enum) > 0) || (d.Type == "array" && len(d.X.ItemsEnum) > 0)) &&
		(!rq.gone() || d.Required):
		// known finding: the enum validator compares the strfmt value with the listed texts. That explains a
		// request only when a value IS validated: the request carries the parameter (a text, or the empty text
		// for which the declared default stands), or the parameter is required (its default is validated).
		// An optional parameter the request does not carry falls through to the ordinary classes below.
		return "enum-on-a-format-not-held-in-a-string"
	case rq.Chunked && d.In == "formData":
		// (after the classes of the known findings, which keep their signatures whatever the transfer encoding)
		return "form-body-of-unknown-length"
	case rq.gone() && !d.Required && d.Default == nil && d.Type == "string" && d.Format == "duration":
		return "optional-absent-duration"
	case rq.gone() && !d.Required && d.Default == nil && (hasValidation(d) || validatedFormat(d.Format)):
		return "optional-absent-with-validation"
	case d.Default != nil && d.Type == "array":
		return "array-default"
	case d.Default != nil && d.Type == "string" && d.Format != "":
		return "formatted-string-default"
	case tpe == "number" && format == "float" && !noText && float32Boundary(d, rq):
		return "float32-boundary-literal"
	case d.Type == "string" && d.Format == "byte" && strings.ContainsAny(lastText, "+/"):
		return "base64-std-alphabet"
	case tpe == "number" && format == "":
		return "number-without-format"
	case d.In == "header" && http.CanonicalHeaderKey(d.Name) != d.Name:
		return "non-canonical-declared-header-name"
	case d.Type == "string" && d.Format == "uuid":
		return "string-kinded-format"
	case d.Type == "string" && d.Format == "duration":
		return "integer-kinded-format"
	case d.Type == "string" && (validatedFormat(d.Format) || d.Format == "password"):
		return "string-kinded-format-" + d.Format
	}
	return "plain"
}

const boolJunkFeature = "boolean-text-neither-true-nor-false-word"

func hasBoolJunk(d *dcl, rq *Req) bool {
	var items []string
	if d.Type == "array" {
		if d.CollectionFormat == "multi" {
			items = mon.SQ(rq.Texts)
		} else {
			for _, s := range strings.Split(string(rq.Texts[len(rq.Texts)-1]), sepOf(d.CollectionFormat)) {
				if ts := strings.TrimSpace(s); ts != "" {
					items = append(items, ts)
				}
			}
		}
	} else {
		items = []string{string(rq.Texts[len(rq.Texts)-1])}
	}
	for _, it := range items {
		l := strings.ToLower(it)
		if !trueWords[l] && !falseWords[l] {
			return true
		}
	}
	return false
}

// float32Boundary: a core-grammar literal whose float64 reading is not its float32 reading.
func float32Boundary(d *dcl, rq *Req) bool {
	var items []string
	if d.Type == "array" {
		if d.CollectionFormat == "multi" {
			items = mon.SQ(rq.Texts)
		} else {
			items = strings.Split(string(rq.Texts[len(rq.Texts)-1]), sepOf(d.CollectionFormat))
		}
	} else {
		items = []string{string(rq.Texts[len(rq.Texts)-1])}
	}
	for _, it := range items {
		it = strings.TrimSpace(it)
		if !reFloat.MatchString(it) {
			continue
		}
		v64, e64 := strconv.ParseFloat(it, 64)
		v32, e32 := strconv.ParseFloat(it, 32)
		if (e64 == nil) != (e32 == nil) {
			return true
		}
		if e64 == nil && (math.Abs(v64) > math.MaxFloat32 || float32(v64) != float32(v32)) {
			return true
		}
	}
	return false
}

// sink is what runCase reports to: the monitor, or a silent probe used to find the smallest reproducing case.
type sink interface {
	Eval(int)
	NT(string)
	Class(string)
	Note(string, int64)
	Violate(sig, detail string, cas interface{})
}

type probe struct{ sigs map[string]bool }

func (p *probe) Eval(int)           {}
func (p *probe) NT(string)          {}
func (p *probe) Class(string)       {}
func (p *probe) Note(string, int64) {}
func (p *probe) Violate(sig, _ string, _ interface{}) {
	if p.sigs == nil {
		p.sigs = map[string]bool{}
	}
	p.sigs[sig] = true
}

// isolations bounds the extra builds spent on finding minimal cases (a broken tree can fail everywhere).
var isolations = 0

const maxIsolations = 400

// subset: the case made of declaration di alone and the given requests (in order).
func (c *Case) subset(di int, reqs []int) *Case {
	d := c.decl(di)
	o := &Case{Decls: []gen.Param{*d.Param}, Forms: []string{d.Form}, Mutate: c.Mutate, Reuse: c.Reuse, Helpers: c.Helpers}
	if !d.X.zero() {
		o.Ext = []Ext{d.X}
	}
	for _, ri := range reqs {
		r := c.Reqs[ri]
		r.D = 0
		o.Reqs = append(o.Reqs, r)
	}
	return o
}

func reproduces(c *Case, sig string) bool {
	p := &probe{}
	runCase(p, c, false)
	return p.sigs[sig] || p.sigs[historyPrefix+sig]
}

const historyPrefix = "only-after-an-earlier-request/"

// report files a violation observed at request ri with the smallest case that shows it: the request alone
// when that reproduces it; otherwise an earlier request of the same declaration plus this one (the
// operation kept state between requests), with a signature saying so.
func report(m sink, c *Case, ri int, isolate bool, sig, detail string) {
	di := c.Reqs[ri].D
	one := c.subset(di, []int{ri})
	var earlier []int
	for j := 0; j < ri; j++ {
		if c.Reqs[j].D == di {
			earlier = append(earlier, j)
		}
	}
	if !isolate || len(earlier) == 0 {
		m.Violate(sig, detail, one)
		return
	}
	all := c.subset(di, append(append([]int{}, earlier...), ri))
	if isolations >= maxIsolations {
		m.Violate(sig, detail, all) // not minimised: the whole history of the declaration in this case
		return
	}
	isolations++
	if reproduces(one, sig) {
		m.Violate(sig, detail, one)
		return
	}
	// candidates for a two-request witness: first the earlier requests that carried no text either (they
	// were handed a default too), then the others, most recent first
	var cands []int
	for _, j := range earlier {
		if r := &c.Reqs[j]; r.gone() || len(r.Texts) == 0 || r.Texts[len(r.Texts)-1] == "" {
			cands = append(cands, j)
		}
	}
	for k := len(earlier) - 1; k >= 0; k-- {
		if r := &c.Reqs[earlier[k]]; !(r.gone() || len(r.Texts) == 0 || r.Texts[len(r.Texts)-1] == "") {
			cands = append(cands, earlier[k])
		}
	}
	for tries, j := range cands {
		if tries >= 12 {
			break
		}
		pair := c.subset(di, []int{j, ri})
		if reproduces(pair, sig) {
			m.Violate(historyPrefix+sig, detail+fmt.Sprintf(" ; the request alone is handled as expected: it takes the earlier request %+v to the same operation", pair.Reqs[0]), pair)
			return
		}
	}
	m.Violate(historyPrefix+sig, detail+" ; the request alone is handled as expected: it takes the earlier requests to the same operation", all)
}

func runCase(m sink, c *Case, isolate bool) {
	s, err := build(c)
	if err != nil {
		m.Class("desc-rejected")
		m.Note("desc-rejected:"+firstWords(err.Error()), 1)
		return
	}
	for ri := range c.Reqs {
		rq := &c.Reqs[ri]
		d := c.decl(rq.D)
		if rq.Malformed != "" && d.In == "formData" {
			malformedForm(m, c, s, ri, d, rq, isolate)
			continue
		}
		req, ok := c.request(rq)
		if !ok {
			m.Class("undeliverable")
			continue
		}
		exp := expect(d, rq)
		dc := declClass(d)
		pc := presenceClass(d, rq)
		feat := featureOf(d, rq, &exp)
		s.ran, s.got = 0, nil
		rec := httptest.NewRecorder()
		pv, st := mon.Catch(func() { s.handler.ServeHTTP(rec, req) })
		m.Eval(1)
		shadow := ""
		if rq.Shadow != nil {
			shadow = "|q=" + string(*rq.Shadow)
		}
		m.NT(declKey(d) + "|" + pc + "|" + strings.Join(mon.SQ(rq.Texts), "\x00") + shadow)
		coverage(m, d, rq)
		readers(m, c, ri, d, rq, isolate)
		descr := func() string {
			db, _ := json.Marshal(c.paramObj(rq.D))
			return fmt.Sprintf("decl=%s form=%q level=%q method=%s presence=%s texts=%q headerKey=%q -> status %d body %.140q handler=%d got=%s ; expected: %s", db, d.Form, d.X.Level, d.method(), pc, mon.SQ(rq.Texts), rq.HeaderKey, rec.Code, rec.Body.String(), s.ran, gotCanon(s, d), expString(&exp))
		}
		if pv != nil {
			report(m, c, ri, isolate, "panic/"+sigTail(feat, dc, ""), fmt.Sprintf("panic: %v ; %s\n%s", pv, descr(), st))
			continue
		}
		if exp.either {
			m.Class("not-judged")
			switch {
			case rec.Code >= 500:
				report(m, c, ri, isolate, "server-error/"+sigTail(feat, dc, ""), descr())
			case !exp.orRefuse:
			case s.ran == 0 && rec.Code != 422:
				report(m, c, ri, isolate, fmt.Sprintf("reject-status-%d/%s/%s", rec.Code, exp.class, dc), descr())
			case s.ran == 0 && !names(rec.Body.String(), d.Name):
				report(m, c, ri, isolate, "422-does-not-name-parameter/"+exp.class+"/"+dc, descr())
			case s.ran == 0:
				m.Class(exp.class + ":refused-422")
			default:
				got, okv := normNaN(gotCanon(s, d)), false
				for _, a := range exp.accepts {
					okv = okv || a == got
				}
				if !okv {
					report(m, c, ri, isolate, "wrong-value/"+exp.class+"/"+dc, descr())
				} else {
					m.Class(exp.class + ":bound-to-the-value")
				}
			}
			continue
		}
		textClass := literalClass(d, rq)
		if exp.reject {
			if s.ran != 0 {
				report(m, c, ri, isolate, "accepted-invalid/"+sigTail(feat, dc, textClass), descr())
				continue
			}
			if rec.Code != 422 {
				report(m, c, ri, isolate, fmt.Sprintf("reject-status-%d/%s", rec.Code, sigTail(feat, dc, textClass)), descr())
				continue
			}
			if !names(rec.Body.String(), d.Name) {
				report(m, c, ri, isolate, "422-does-not-name-parameter/"+sigTail(feat, dc, textClass), descr())
				continue
			}
			m.Class("rejected-422")
			structTarget(m, c, s, ri, d, &exp, isolate, dc, pc, feat)
			continue
		}
		if s.ran != 1 {
			report(m, c, ri, isolate, fmt.Sprintf("refused-valid-status-%d/%s", rec.Code, sigTail(feat, dc, pc+"/"+textClass)), descr())
			continue
		}
		got := gotCanon(s, d)
		okv := false
		for _, a := range exp.accepts {
			if a == got {
				okv = true
			}
		}
		if !okv {
			report(m, c, ri, isolate, "wrong-value/"+sigTail(feat, dc, pc+"/"+textClass), descr())
			continue
		}
		m.Class("bound")
		structTarget(m, c, s, ri, d, &exp, isolate, dc, pc, feat)
	}
	for mi := range c.MReqs {
		runMulti(m, c, s, mi)
	}
	runApps(m, c, s)
	m.Note("handler_runs_followed_by_in_place_writes", s.scrambled)
	if mm, isMon := m.(*mon.M); isMon && mm.WantSample() {
		sc := Case{}
		if len(c.Decls) > 0 && len(c.Reqs) > 0 {
			rq := c.Reqs[len(c.Reqs)/2]
			sc = *c.subset(rq.D, []int{len(c.Reqs) / 2})
		} else if len(c.MReqs) > 0 {
			sc = *c.multiAlone(len(c.MReqs) / 2)
		}
		mm.Sample(sc)
	}
}

// viewFor: the declaration as application app reads it (its format names replaced by what they mean to it).
func viewFor(d *dcl, app int) *dcl {
	p := *d.Param
	p.Format, p.ItemsFormat = meaning(app, p.Format), meaning(app, p.ItemsFormat)
	return &dcl{Param: &p, X: d.X, Form: d.Form}
}

// runApps sends the requests of a two-application case, each to the application it names, and judges every
// answer by what the declaration means to THAT application (its own format registry). A violation is filed
// with the declaration alone and its requests up to the offending one (what was bound before, by whom, is
// part of the input).
func runApps(m sink, c *Case, s *sut) {
	if len(c.AReqs) == 0 || s.peer == nil {
		return
	}
	apps := []*sut{s, s.peer}
	boundBy := map[int]map[int]bool{} // declaration -> applications that were sent a request for it
	for ai := range c.AReqs {
		ar := &c.AReqs[ai]
		if ar.App < 0 || ar.App > 1 || ar.D < 0 || ar.D >= len(c.Decls) {
			continue
		}
		rq := &ar.Req
		d := c.decl(rq.D)
		req, ok := c.request(rq)
		if !ok {
			m.Class("undeliverable")
			continue
		}
		fname := d.Format
		if d.Type == "array" {
			fname = d.ItemsFormat
		}
		view := viewFor(d, ar.App)
		exp := expect(view, rq)
		history := "first-application-to-bind-the-format-name"
		if boundBy[rq.D] == nil {
			boundBy[rq.D] = map[int]bool{}
		}
		if boundBy[rq.D][1-ar.App] {
			history = "after-the-other-application-bound-the-format-name"
		}
		boundBy[rq.D][ar.App] = true
		shapeClass := "scalar"
		if d.Type == "array" {
			shapeClass = "array"
		}
		feat := "two-applications/" + relation(ar.App, fname) + "/" + d.In + "-" + shapeClass
		a := apps[ar.App]
		a.ran, a.got = 0, nil
		rec := httptest.NewRecorder()
		pv, st := mon.Catch(func() { a.handler.ServeHTTP(rec, req) })
		m.Eval(1)
		m.NT(fmt.Sprintf("two-applications|%d|%s|%s|%s|%s|%s", ar.App, relation(ar.App, fname), d.In, shapeClass, history, strings.Join(mon.SQ(rq.Texts), "\x00")))
		m.Class("two-applications:" + relation(ar.App, fname))
		m.Class("two-applications:" + history)
		file := func(sig, detail string) {
			o := c.subset(rq.D, nil)
			for j := 0; j <= ai; j++ {
				if c.AReqs[j].D == rq.D {
					r := c.AReqs[j]
					r.D = 0
					o.AReqs = append(o.AReqs, r)
				}
			}
			m.Violate(sig, detail, o)
		}
		descr := func() string {
			db, _ := json.Marshal(c.paramObj(rq.D))
			return fmt.Sprintf("application %d of two in one process (%s; to it the format means %q); %s; decl=%s form=%q texts=%q -> status %d body %.140q handler=%d got=%s ; expected: %s",
				ar.App, relation(ar.App, fname), meaning(ar.App, fname), history, db, d.Form, mon.SQ(rq.Texts), rec.Code, rec.Body.String(), a.ran, gotCanon(a, d), expString(&exp))
		}
		switch {
		case pv != nil:
			file("panic/"+feat, fmt.Sprintf("panic: %v ; %s\n%s", pv, descr(), st))
		case exp.either:
			m.Class("not-judged")
			if rec.Code >= 500 {
				file("server-error/"+feat, descr())
			}
		case exp.reject && a.ran != 0:
			file("accepted-invalid/"+feat, descr())
		case exp.reject && rec.Code != 422:
			file(fmt.Sprintf("reject-status-%d/%s", rec.Code, feat), descr())
		case exp.reject && !names(rec.Body.String(), d.Name):
			file("422-does-not-name-parameter/"+feat, descr())
		case exp.reject:
			m.Class("rejected-422")
		case a.ran != 1:
			file(fmt.Sprintf("refused-valid-status-%d/%s", rec.Code, feat), descr())
		default:
			got, okv := gotCanon(a, d), false
			for _, acc := range exp.accepts {
				okv = okv || acc == got
			}
			if !okv {
				file("wrong-value/"+feat, descr())
			} else {
				m.Class("bound")
			}
		}
	}
}

// An array whose ITEMS carry a string format held in a named string type (uuid, email, ..., or a format an application registers
// itself) was answered 422 "<name>.0 in <location> must be of type string" for valid items, in a single application too; once
// that was repaired (694d891) invalid items turned out to be accepted, because the dependency's validators do not check item
// formats (repaired by d0893b3). Both are pinned; such arrays are generated for two-application cases (true would leave them out).
const triagePendingRegisteredItems = false

// freshFormats counts the format names handed out to two-application cases: every declaration of such a case
// gets a name no earlier case of this process used, so that the order of its own requests decides who binds
// the name first.
var freshFormats = 0

// genApps draws a two-application case: string declarations (scalars and arrays, every location) whose format
// name means different things to the two applications, plus names that mean the same to both; for each
// declaration a run of requests to both applications, either of them first.
func genApps(r *rand.Rand) *Case {
	c := &Case{}
	type loc struct{ in, form string }
	locs := []loc{{"query", ""}, {"header", ""}, {"path", ""}, {"formData", "urlencoded"}, {"formData", "multipart"}}
	texts := []string{"t12ab", "tx", "l-12", "L-7", "l-000123", "spring sale", "T12", "l-", "x", "2021-02-03", "t-12"}
	k := 0
	for _, prefix := range []string{firstOnlyPrefix, secondOnlyPrefix, bothPrefix, tagFormat, "date", ""} {
		for _, l := range locs {
			if r.Intn(3) == 0 && prefix != firstOnlyPrefix && prefix != secondOnlyPrefix {
				continue
			}
			format := prefix
			if strings.HasSuffix(prefix, "-") {
				freshFormats++
				format = fmt.Sprintf("%s%d", prefix, freshFormats)
			}
			p := gen.Param{Name: fmt.Sprintf("p%d", k%7), In: l.in, Type: "string", Format: format, Required: l.in == "path" || r.Intn(4) == 0}
			if l.in == "header" {
				p.Name = "X-Ref"
			}
			isArray := r.Intn(3) == 0
			if isArray && triagePendingRegisteredItems && (meaning(0, format) != format || meaning(1, format) != format) {
				isArray = false
			}
			if isArray {
				p.Type, p.Format, p.ItemsType, p.ItemsFormat = "array", "", "string", format
				p.CollectionFormat = []string{"csv", "pipes", "ssv"}[r.Intn(3)]
			}
			c.Decls = append(c.Decls, p)
			c.Forms = append(c.Forms, l.form)
			d := c.decl(k)
			first := r.Intn(2)
			n := 5 + r.Intn(4)
			for j := 0; j < n; j++ {
				app := first
				if j > 0 && r.Intn(2) == 0 {
					app = 1 - first
				}
				if j == 1 {
					app = 1 - first // both applications are asked, in either order
				}
				text := texts[r.Intn(len(texts))]
				if isArray && r.Intn(2) == 0 {
					text += sepOf(d.CollectionFormat) + texts[r.Intn(len(texts))]
				}
				rq := Req{D: k, Texts: []mon.Q{mon.Q(text)}}
				if l.in != "path" && r.Intn(8) == 0 {
					rq = Req{D: k, Absent: true}
				}
				c.AReqs = append(c.AReqs, AReq{App: app, Req: rq})
			}
			k++
		}
	}
	return c
}

// readers hands the texts of one request to the exported readers of package runtime, the way a generated
// server does (runtime.Values of the query, the header or the parsed form): ReadSingleValue must give the
// last occurrence ("" when there is none), ReadCollectionValue the items of the last occurrence.
func readers(m sink, c *Case, ri int, d *dcl, rq *Req, isolate bool) {
	if !c.Helpers || d.In == "path" || d.Type == "file" {
		return
	}
	texts := mon.SQ(rq.Texts)
	shapes := []string{"as-sent"}
	if rq.gone() {
		shapes = append(shapes, "key-present-without-values")
	}
	for _, shape := range shapes {
		vals := runtime.Values{"unrelated": {"1", "2"}}
		switch {
		case shape == "key-present-without-values":
			vals[d.Name] = []string{}
		case rq.OtherKey != "":
			vals[rq.OtherKey] = append([]string{}, texts...)
		case !rq.Absent:
			vals[d.Name] = append([]string{}, texts...)
		}
		want := ""
		if !rq.gone() && len(texts) > 0 {
			want = texts[len(texts)-1]
		}
		var got string
		pv, stk := mon.Catch(func() { got = runtime.ReadSingleValue(vals, d.Name) })
		m.Eval(1)
		pc := presenceClass(d, &Req{Absent: rq.Absent, Texts: rq.Texts, OtherKey: rq.OtherKey})
		if shape != "as-sent" {
			pc = shape
		}
		descr := func(fn string, g, w interface{}) string {
			return fmt.Sprintf("%s(%q, %q) -> %q ; expected %q", fn, map[string][]string(vals), d.Name, g, w)
		}
		switch {
		case pv != nil:
			report(m, c, ri, isolate, "readers/panic/ReadSingleValue/"+pc, fmt.Sprintf("panic: %v ; %s\n%s", pv, descr("ReadSingleValue", "<panic>", want), stk))
		case got != want:
			report(m, c, ri, isolate, "readers/wrong-value/ReadSingleValue/"+pc, descr("ReadSingleValue", got, want))
		default:
			m.Class("readers:single-value-as-expected")
		}
		if d.Type != "array" || d.CollectionFormat == "multi" {
			continue
		}
		wantItems := splitItems(want, d.CollectionFormat)
		var gotItems []string
		pv, stk = mon.Catch(func() { gotItems = runtime.ReadCollectionValue(vals, d.Name, d.CollectionFormat) })
		m.Eval(1)
		cf := d.CollectionFormat
		if cf == "" {
			cf = "no-collection-format"
		}
		switch {
		case pv != nil:
			report(m, c, ri, isolate, "readers/panic/ReadCollectionValue/"+cf+"/"+pc, fmt.Sprintf("panic: %v ; %s\n%s", pv, descr("ReadCollectionValue", "<panic>", wantItems), stk))
		case len(gotItems) != len(wantItems) || (len(wantItems) > 0 && !reflect.DeepEqual(gotItems, wantItems)):
			report(m, c, ri, isolate, "readers/wrong-items/ReadCollectionValue/"+cf+"/"+pc, descr("ReadCollectionValue", gotItems, wantItems))
		default:
			m.Class("readers:collection-as-expected")
		}
	}
}

// coverage counts the request under the input shapes added by the strengthening round (evidence only).
func coverage(m sink, d *dcl, rq *Req) {
	if rq.CT != "" && d.In == "formData" {
		m.Class("shape:form-content-type-spelling-" + rq.CT)
	}
	if d.X.Level != "" {
		m.Class("shape:declared-" + d.X.Level)
	}
	if d.method() != "POST" {
		m.Class("shape:method-" + d.method())
	}
	if v := valClass(d); v != "" {
		m.Class("shape:validation" + v)
	}
	if d.In == "formData" {
		switch {
		case rq.NoPayload != "":
			m.Class("shape:form-no-payload-" + rq.NoPayload)
		case rq.Chunked:
			m.Class("shape:form-unknown-length")
		}
		if d.Type == "file" && d.Form == "urlencoded" {
			m.Class("shape:file-parameter-on-urlencoded-operation")
		}
	}
	if (d.In == "query" || d.In == "formData") && !reIdent.MatchString(d.Name) {
		m.Class("shape:parameter-name-not-an-identifier")
	}
}

var reIdent = regexp.MustCompile(`^[A-Za-z0-9_-]+$`)

// names: does the answer name the parameter? The answer is JSON: a name is looked for in the body as sent and
// in its decoded message (the encoder writes & < > as \u0026 ...).
func names(body, name string) bool {
	if strings.Contains(body, name) {
		return true
	}
	var doc struct {
		Message string `json:"message"`
	}
	if json.Unmarshal([]byte(body), &doc) == nil && strings.Contains(doc.Message, name) {
		return true
	}
	return false
}

// binderFor: the struct-target binder of declaration di and field shape (one per case, like the binder of a route).
func (s *sut) binderFor(c *Case, di int, shape string) *middleware.UntypedRequestBinder {
	bk := fmt.Sprintf("%d/%s", di, shape)
	binder := s.binders[bk]
	if binder == nil {
		pj, _ := json.Marshal(c.paramObj(di))
		var sp spec.Parameter
		if err := json.Unmarshal(pj, &sp); err != nil {
			return nil
		}
		binder = middleware.NewUntypedRequestBinder(map[string]spec.Parameter{"F": sp}, new(spec.Swagger), registry)
		s.binders[bk] = binder
	}
	return binder
}

// malformedForm sends a form request whose body or Content-Type cannot be parsed as the declared form. The
// statement gives such a request no texts, so no value is judged: binding must not panic and the answer must
// not be a server error, through the handler and through the binder alone.
func malformedForm(m sink, c *Case, s *sut, ri int, d *dcl, rq *Req, isolate bool) {
	req, ok := c.request(rq)
	if !ok {
		m.Class("undeliverable")
		return
	}
	tail := rq.Malformed + "/" + d.In + "-" + d.Form
	if d.Type == "file" {
		tail += "/file"
	}
	s.ran, s.got = 0, nil
	rec := httptest.NewRecorder()
	pv, st := mon.Catch(func() { s.handler.ServeHTTP(rec, req) })
	m.Eval(1)
	m.NT(declKey(d) + "|malformed-form|" + rq.Malformed)
	m.Class("shape:malformed-form-" + rq.Malformed)
	descr := func() string {
		db, _ := json.Marshal(c.paramObj(rq.D))
		return fmt.Sprintf("decl=%s form=%q method=%s malformed form request (%s) texts=%q -> status %d body %.140q handler=%d ; expected: no panic, no server error", db, d.Form, d.method(), rq.Malformed, mon.SQ(rq.Texts), rec.Code, rec.Body.String(), s.ran)
	}
	switch {
	case pv != nil:
		report(m, c, ri, isolate, "panic/malformed-form/"+tail, fmt.Sprintf("panic: %v ; %s\n%s", pv, descr(), st))
		return
	case rec.Code >= 500:
		report(m, c, ri, isolate, "server-error/malformed-form/"+tail, descr())
		return
	}
	m.Class(fmt.Sprintf("malformed-form:answered-%dxx", rec.Code/100))
	ft := fieldType(d, "")
	if d.Type == "file" {
		ft = reflect.TypeOf(runtime.File{})
	}
	if ft == nil {
		return
	}
	binder := s.binderFor(c, rq.D, "")
	if binder == nil {
		return
	}
	if req, ok = c.request(rq); !ok {
		return
	}
	target := reflect.New(reflect.StructOf([]reflect.StructField{{Name: "F", Type: ft}}))
	var berr error
	pv, st = mon.Catch(func() { berr = binder.Bind(req, nil, runtime.JSONConsumer(), target.Interface()) })
	m.Eval(1)
	code := 0
	if ce, isCoded := berr.(interface{ Code() int32 }); isCoded {
		code = int(ce.Code())
	}
	switch {
	case pv != nil:
		report(m, c, ri, isolate, "struct-target/panic/malformed-form/"+tail, fmt.Sprintf("panic: %v ; struct target: %s\n%s", pv, descr(), st))
	case code >= 500 && code < 600:
		report(m, c, ri, isolate, "struct-target/server-error/malformed-form/"+tail, fmt.Sprintf("struct target: err=%v (code %d) ; %s", berr, code, descr()))
	case berr != nil:
		m.Class("malformed-form:binder-refused")
	default:
		m.Class("malformed-form:binder-accepted")
	}
}

// sigTail: a known input feature explains the failure by itself; otherwise the full declaration and
// text classes are kept so that unrelated failures get unrelated signatures.
func sigTail(feat, dc, rest string) string {
	if feat != "plain" {
		return feat
	}
	if rest == "" {
		return dc
	}
	return dc + "/" + rest
}

// ---------------- operations with several parameters ----------------

// multiAlone: the case made of the operation of MReqs[mi] alone and that one request.
func (c *Case) multiAlone(mi int) *Case {
	mr := c.MReqs[mi]
	o := &Case{Mutate: c.Mutate, Reuse: c.Reuse, Helpers: c.Helpers}
	var g []int
	anyExt := false
	for k, di := range c.Ops[mr.Op] {
		d := c.decl(di)
		o.Decls = append(o.Decls, *d.Param)
		o.Forms = append(o.Forms, d.Form)
		o.Ext = append(o.Ext, d.X)
		anyExt = anyExt || !d.X.zero()
		g = append(g, k)
	}
	if !anyExt {
		o.Ext = nil
	}
	o.Ops = [][]int{g}
	nm := MReq{Op: 0}
	for k, p := range mr.Parts {
		p.D = k
		nm.Parts = append(nm.Parts, p)
	}
	o.MReqs = []MReq{nm}
	return o
}

func runMulti(m sink, c *Case, s *sut, mi int) {
	mr := &c.MReqs[mi]
	if mr.Op < 0 || mr.Op >= len(c.Ops) || len(mr.Parts) != len(c.Ops[mr.Op]) {
		m.Class("malformed-multi-request")
		return
	}
	var parts []part
	var locs []string
	for k := range mr.Parts {
		rq := &mr.Parts[k]
		rq.D = c.Ops[mr.Op][k]
		d := c.decl(rq.D)
		parts = append(parts, part{d, rq})
		l := d.In
		if d.Form != "" {
			l += "-" + d.Form
		}
		locs = append(locs, l)
	}
	sort.Strings(locs)
	shape := strings.Join(locs, "+")
	req, ok := assemble(fmt.Sprintf("/m%d", mr.Op), "POST", parts)
	if !ok {
		m.Class("undeliverable")
		return
	}
	exps := make([]expectation, len(parts))
	either := false
	var rejected []int
	var fp []string
	for k, pt := range parts {
		exps[k] = expect(pt.d, pt.rq)
		either = either || exps[k].either
		if exps[k].reject {
			rejected = append(rejected, k)
		}
		fp = append(fp, declKey(pt.d)+"|"+presenceClass(pt.d, pt.rq)+"|"+strings.Join(mon.SQ(pt.rq.Texts), "\x00"))
		if pt.rq.BodyShadow != nil {
			fp[len(fp)-1] += "|b=" + string(*pt.rq.BodyShadow)
			m.Class("shape:query-parameter-with-same-name-in-form-body")
		}
	}
	one := c.multiAlone(mi)
	nForm, unknownLen, noPayload := 0, false, false
	for _, pt := range parts {
		if pt.d.In == "formData" {
			nForm++
			unknownLen = unknownLen || pt.rq.Chunked
			noPayload = noPayload || pt.rq.NoPayload != ""
		}
	}
	if nForm >= 2 {
		m.Class("shape:several-form-parameters-in-one-operation")
		if unknownLen {
			m.Class("shape:several-form-parameters+unknown-length")
		}
	}
	if noPayload {
		m.Class("shape:several-parameters+form-no-payload")
	}
	s.ran, s.got = 0, nil
	rec := httptest.NewRecorder()
	pv, st := mon.Catch(func() { s.handler.ServeHTTP(rec, req) })
	m.Eval(1)
	m.NT("multi|" + strings.Join(fp, "||"))
	descr := func() string {
		var sb strings.Builder
		for k, pt := range parts {
			db, _ := json.Marshal(c.paramObj(pt.rq.D))
			fmt.Fprintf(&sb, "[%d] decl=%s form=%q presence=%s texts=%q headerKey=%q got=%s expected: %s ; ", k, db, pt.d.Form, presenceClass(pt.d, pt.rq), mon.SQ(pt.rq.Texts), pt.rq.HeaderKey, gotCanon(s, pt.d), expString(&exps[k]))
		}
		return fmt.Sprintf("one operation, %d parameters (%s): %s-> status %d body %.300q handler=%d", len(parts), shape, sb.String(), rec.Code, rec.Body.String(), s.ran)
	}
	tail := func(k int, withPresence bool) string {
		pt := parts[k]
		rest := literalClass(pt.d, pt.rq)
		if withPresence {
			rest = presenceClass(pt.d, pt.rq) + "/" + rest
		}
		return sigTail(featureOf(pt.d, pt.rq, &exps[k]), declClass(pt.d), rest)
	}
	if pv != nil {
		m.Violate("several-parameters/panic/"+shape, fmt.Sprintf("panic: %v ; %s\n%s", pv, descr(), st), one)
		return
	}
	if either {
		m.Class("multi-not-judged")
		if rec.Code >= 500 {
			m.Violate("several-parameters/server-error/"+shape, descr(), one)
		}
		return
	}
	if len(rejected) > 0 {
		// offenders explained by the known boolean finding (junk text binds false) are set apart: an operation
		// that runs although only such parts offend is that finding, under its own signature
		var real []int
		for _, k := range rejected {
			if featureOf(parts[k].d, parts[k].rq, &exps[k]) != boolJunkFeature {
				real = append(real, k)
			}
		}
		if s.ran != 0 {
			if len(real) == 0 {
				m.Violate("accepted-invalid/"+boolJunkFeature, descr(), one)
				return
			}
			m.Violate("several-parameters/accepted-invalid/"+tail(real[0], false), descr(), one)
			return
		}
		k0 := rejected[0]
		if len(real) > 0 {
			k0 = real[0]
		}
		allRejected := rejected
		rejected = real
		if rec.Code != 422 {
			m.Violate(fmt.Sprintf("several-parameters/reject-status-%d/%s", rec.Code, tail(k0, false)), descr(), one)
			return
		}
		named := 0
		for _, k := range allRejected {
			if names(rec.Body.String(), parts[k].d.Name) {
				named++
			}
		}
		for _, k := range rejected {
			if !names(rec.Body.String(), parts[k].d.Name) {
				kind := "the-only-offending-parameter"
				if len(allRejected) > 1 {
					kind = "one-of-several-offending-parameters"
					// "the answer is 422 naming the parameter": with several offending parameters the HTTP answer
					// names one of them (go-openapi/errors.ServeError serves the first member of a composite
					// error, that package's documented policy); naming every offender is not promised. The
					// struct target, whose error is not cut down, must name each (structTargetMulti).
					if named > 0 {
						continue
					}
				}
				m.Violate("several-parameters/422-does-not-name-parameter/"+kind+"/"+tail(k, false), descr(), one)
				return
			}
		}
		m.Class("multi-rejected-422")
		structTargetMulti(m, c, mi, parts, exps, one, shape)
		return
	}
	if s.ran != 1 {
		m.Violate(fmt.Sprintf("several-parameters/refused-valid-status-%d/%s", rec.Code, shape), descr(), one)
		return
	}
	for k, pt := range parts {
		got := gotCanon(s, pt.d)
		okv := false
		for _, a := range exps[k].accepts {
			okv = okv || a == got
		}
		if !okv {
			m.Violate("several-parameters/wrong-value/"+tail(k, true), descr(), one)
			return
		}
	}
	m.Class("multi-bound")
	structTargetMulti(m, c, mi, parts, exps, one, shape)
}

// structTargetMulti binds the same request into a struct with one value-typed field per parameter.
func structTargetMulti(m sink, c *Case, mi int, parts []part, exps []expectation, one *Case, shape string) {
	var fields []reflect.StructField
	params := map[string]spec.Parameter{}
	var rp middleware.RouteParams
	for k, pt := range parts {
		ft := fieldType(pt.d, "")
		if ft == nil {
			return
		}
		fn := fmt.Sprintf("F%d", k)
		fields = append(fields, reflect.StructField{Name: fn, Type: ft})
		pj, _ := json.Marshal(c.paramObj(pt.rq.D))
		var sp spec.Parameter
		if err := json.Unmarshal(pj, &sp); err != nil {
			return
		}
		params[fn] = sp
		if pt.d.In == "path" {
			rp = append(rp, middleware.RouteParam{Name: pt.d.Name, Value: string(pt.rq.Texts[0])})
		}
	}
	target := reflect.New(reflect.StructOf(fields))
	binder := middleware.NewUntypedRequestBinder(params, new(spec.Swagger), registry)
	req, ok := assemble(fmt.Sprintf("/m%d", c.MReqs[mi].Op), "POST", parts)
	if !ok {
		return
	}
	var berr error
	pv, stk := mon.Catch(func() { berr = binder.Bind(req, rp, runtime.JSONConsumer(), target.Interface()) })
	m.Eval(1)
	descr := func() string {
		var sb strings.Builder
		for k, pt := range parts {
			db, _ := json.Marshal(c.paramObj(pt.rq.D))
			fmt.Fprintf(&sb, "[%d] decl=%s presence=%s texts=%q field=%s expected: %s ; ", k, db, presenceClass(pt.d, pt.rq), mon.SQ(pt.rq.Texts), canonOf(target.Elem().Field(k).Interface()), expString(&exps[k]))
		}
		return fmt.Sprintf("struct target, %d parameters (%s): %s-> err=%v", len(parts), shape, sb.String(), berr)
	}
	if pv != nil {
		m.Violate("struct-target/several-parameters/panic/"+shape, fmt.Sprintf("panic: %v ; %s\n%s", pv, descr(), stk), one)
		return
	}
	anyReject := false
	for k := range exps {
		anyReject = anyReject || exps[k].reject
	}
	if anyReject {
		if berr == nil {
			onlyKnown := true
			for k, pt := range parts {
				if exps[k].reject && featureOf(pt.d, pt.rq, &exps[k]) != boolJunkFeature {
					onlyKnown = false
				}
			}
			if onlyKnown {
				m.Class("multi-struct-known-boolean-finding")
				return
			}
			m.Violate("struct-target/several-parameters/accepted-invalid/"+shape, descr(), one)
			return
		}
		for k, pt := range parts {
			if featureOf(pt.d, pt.rq, &exps[k]) == boolJunkFeature {
				continue // the known boolean finding
			}
			if exps[k].reject && !strings.Contains(berr.Error(), pt.d.Name) && !strings.Contains(berr.Error(), fmt.Sprintf("F%d", k)) {
				m.Violate("struct-target/several-parameters/error-does-not-name-parameter/"+shape, descr(), one)
				return
			}
		}
		m.Class("multi-struct-rejected")
		return
	}
	if berr != nil {
		m.Violate("struct-target/several-parameters/refused-valid/"+shape, descr(), one)
		return
	}
	for k, pt := range parts {
		got := canonOf(target.Elem().Field(k).Interface())
		if got == "nil" && pt.d.Type == "array" {
			got = "[]"
		}
		okv := false
		for _, a := range exps[k].accepts {
			okv = okv || a == got
		}
		if !okv {
			m.Violate("struct-target/several-parameters/wrong-value/"+sigTail(featureOf(pt.d, pt.rq, &exps[k]), declClass(pt.d), presenceClass(pt.d, pt.rq)+"/"+literalClass(pt.d, pt.rq)), descr(), one)
			return
		}
	}
	m.Class("multi-struct-bound")
}

// ---------------- struct target ----------------

// goTypeFor is the Go type a generated struct field would have for the declaration.
func goTypeFor(tpe, format string) reflect.Type {
	switch tpe {
	case "string":
		switch format {
		case "date":
			return reflect.TypeOf(strfmt.Date{})
		case "date-time":
			return reflect.TypeOf(strfmt.DateTime{})
		case "uuid":
			return reflect.TypeOf(strfmt.UUID(""))
		case "byte":
			return reflect.TypeOf(strfmt.Base64{})
		case "email":
			return reflect.TypeOf(strfmt.Email(""))
		case "password":
			return reflect.TypeOf(strfmt.Password(""))
		case "hostname":
			return reflect.TypeOf(strfmt.Hostname(""))
		case "duration":
			return reflect.TypeOf(strfmt.Duration(0))
		case tagFormat:
			return reflect.TypeOf(verifTag(""))
		}
		return reflect.TypeOf("")
	case "integer":
		switch format {
		case "int8":
			return reflect.TypeOf(int8(0))
		case "int16":
			return reflect.TypeOf(int16(0))
		case "int32":
			return reflect.TypeOf(int32(0))
		}
		return reflect.TypeOf(int64(0))
	case "number":
		if format == "float" {
			return reflect.TypeOf(float32(0))
		}
		return reflect.TypeOf(float64(0))
	case "boolean":
		return reflect.TypeOf(true)
	}
	return nil
}

// fieldType: the struct field type for a declaration; shape "" (value), "ptr", "uint".
func fieldType(d *dcl, shape string) reflect.Type {
	if d.Type == "file" || d.X.NestedCF != nil {
		return nil
	}
	if d.Type == "array" {
		it := goTypeFor(d.ItemsType, d.ItemsFormat)
		if it == nil || shape != "" {
			return nil
		}
		return reflect.SliceOf(it)
	}
	ft := goTypeFor(d.Type, d.Format)
	if ft == nil {
		return nil
	}
	switch shape {
	case "ptr":
		return reflect.PtrTo(ft)
	case "uint":
		if d.Type != "integer" {
			return nil
		}
		switch intBits(d.Format) {
		case 8:
			return reflect.TypeOf(uint8(0))
		case 16:
			return reflect.TypeOf(uint16(0))
		case 32:
			return reflect.TypeOf(uint32(0))
		}
		return reflect.TypeOf(uint64(0))
	}
	return ft
}

var reUnsigned = regexp.MustCompile(`^[0-9]+$`)

// beyondUnsigned: a decimal literal that an unsigned integer of the given width cannot hold either
// (a negative number, or a magnitude of 2^bits and more).
func beyondUnsigned(text string, bits int) bool {
	if strings.HasPrefix(text, "-") {
		return strings.Trim(text, "-0") != ""
	}
	_, err := strconv.ParseUint(strings.TrimPrefix(text, "+"), 10, bits)
	return err != nil
}

// pointerFieldShape classifies (from the input only) the request shapes whose handling depends on the
// struct field being a pointer; "" for every other request.
func pointerFieldShape(d *dcl, rq *Req) string {
	noText := rq.gone() || len(rq.Texts) == 0 || rq.Texts[len(rq.Texts)-1] == ""
	switch {
	case d.Format == "byte":
		return "byte-format"
	case noText && d.Default != nil:
		return "default-declared-and-nothing-sent"
	case noText && !rq.gone():
		return "empty-text-sent-and-no-default"
	case !noText && (hasValidation(d) || validatedFormat(d.Format)):
		return "validation-declared-and-text-sent" // uuid, email, ...: the format itself is checked by the validator
	}
	return ""
}

// structTarget drives the second binding entry point: UntypedRequestBinder.Bind into a struct whose
// field has the declared Go type. It is only consulted for requests the map entry point handled as the
// oracle expects (so that one defect is not reported twice), and judges the same expectation. One binder
// per declaration and field shape serves every request of the case, like the binder of a route does.
func structTarget(m sink, c *Case, s *sut, ri int, d *dcl, exp *expectation, isolate bool, dc, pc, feat string) {
	rq := &c.Reqs[ri]
	if d.Type == "file" || exp.either {
		return
	}
	structTargetShape(m, c, s, ri, d, exp, isolate, dc, pc, feat, "")
	if rq.Field != "" {
		structTargetShape(m, c, s, ri, d, exp, isolate, dc, pc, feat, rq.Field)
	}
}

func structTargetShape(m sink, c *Case, s *sut, ri int, d *dcl, exp *expectation, isolate bool, dc, pc, feat, shape string) {
	rq := &c.Reqs[ri]
	ft := fieldType(d, shape)
	if ft == nil {
		return
	}
	lc := literalClass(d, rq)
	if shape == "uint" {
		// judged for unsigned decimal texts that the declared type accepts, and for texts that are no decimal literal
		last := ""
		if !rq.gone() && len(rq.Texts) > 0 {
			last = string(rq.Texts[len(rq.Texts)-1])
		}
		switch {
		case exp.reject && lc == "not-decimal":
		case exp.reject && lc == "no-text":
		case exp.reject && lc == "decimal-out-of-range" && beyondUnsigned(last, intBits(d.Format)):
			// outside the declared format AND outside the unsigned type of that width: refused under every reading
		case !exp.reject && (last == "" || reUnsigned.MatchString(last)):
			if def, isNum := d.Default.(float64); isNum && def < 0 {
				return
			}
		default:
			return
		}
	}
	binder := s.binderFor(c, rq.D, shape)
	if binder == nil {
		return
	}
	st := reflect.StructOf([]reflect.StructField{{Name: "F", Type: ft}})
	target := reflect.New(st)
	req, ok := c.request(rq)
	if !ok {
		return
	}
	var rp middleware.RouteParams
	if d.In == "path" {
		rp = middleware.RouteParams{{Name: d.Name, Value: string(rq.Texts[0])}}
	}
	var berr error
	pv, stk := mon.Catch(func() { berr = binder.Bind(req, rp, runtime.JSONConsumer(), target.Interface()) })
	m.Eval(1)
	// record before the owner of the struct writes to what it was handed
	got := "<panic>"
	if pv == nil {
		fv := target.Elem().Field(0)
		if shape == "ptr" {
			if fv.IsNil() {
				got = "nil-pointer"
			} else {
				got = canonOf(fv.Elem().Interface())
			}
		} else {
			got = canonOf(fv.Interface())
		}
		if got == "nil" && d.Type == "array" {
			got = "[]"
		}
		if c.Mutate && berr == nil && shape == "" {
			scramble(fv.Interface())
		}
		if shape != "" {
			m.Class("shape:struct-field-" + shape)
		}
	}
	prefix := "struct-target/"
	switch shape {
	case "ptr":
		prefix = "struct-target/pointer-field/"
		if ps := pointerFieldShape(d, rq); ps != "" {
			// the field shape and this feature explain the failure by themselves
			feat = ps
		}
	case "uint":
		prefix = "struct-target/unsigned-field/"
	}
	descr := func() string {
		db, _ := json.Marshal(c.paramObj(rq.D))
		return fmt.Sprintf("struct target (field %s): decl=%s presence=%s texts=%q -> err=%v field=%s ; expected: %s", ft, db, pc, mon.SQ(rq.Texts), berr, got, expString(exp))
	}
	if pv != nil {
		report(m, c, ri, isolate, prefix+"panic/"+sigTail(feat, dc, ""), fmt.Sprintf("panic: %v ; %s\n%s", pv, descr(), stk))
		return
	}
	if exp.reject {
		if berr == nil {
			report(m, c, ri, isolate, prefix+"accepted-invalid/"+sigTail(feat, dc, lc), descr())
			return
		}
		m.Class("struct-rejected")
		reusedTarget(m, c, s, ri, d, exp, isolate, dc, pc, feat, shape, ft, binder, prefix)
		return
	}
	if berr != nil {
		report(m, c, ri, isolate, prefix+"refused-valid/"+sigTail(feat, dc, pc+"/"+lc), descr())
		return
	}
	for _, a := range exp.accepts {
		if a == got {
			m.Class("struct-bound")
			reusedTarget(m, c, s, ri, d, exp, isolate, dc, pc, feat, shape, ft, binder, prefix)
			return
		}
		if got == "nil-pointer" && exp.why == "zero value" && a == zeroCanon(d.Type, d.Format) {
			m.Class("struct-bound") // nothing sent, nothing declared: the pointer may stay nil
			reusedTarget(m, c, s, ri, d, exp, isolate, dc, pc, feat, shape, ft, binder, prefix)
			return
		}
	}
	report(m, c, ri, isolate, prefix+"wrong-value/"+sigTail(feat, dc, pc+"/"+lc), descr())
}

// presetValue: a non-zero value of a struct field type, what the owner of a kept struct left in it.
func presetValue(t reflect.Type) reflect.Value {
	v := reflect.New(t).Elem()
	switch t {
	case reflect.TypeOf(strfmt.Date{}):
		v.Set(reflect.ValueOf(strfmt.Date(time.Date(2001, 2, 3, 0, 0, 0, 0, time.UTC))))
		return v
	case reflect.TypeOf(strfmt.DateTime{}):
		v.Set(reflect.ValueOf(strfmt.DateTime(time.Date(2001, 2, 3, 4, 5, 6, 0, time.UTC))))
		return v
	}
	switch t.Kind() { //nolint:exhaustive
	case reflect.String:
		v.SetString("left-by-the-owner-of-the-struct")
	case reflect.Int, reflect.Int8, reflect.Int16, reflect.Int32, reflect.Int64:
		v.SetInt(77)
	case reflect.Uint, reflect.Uint8, reflect.Uint16, reflect.Uint32, reflect.Uint64:
		v.SetUint(77)
	case reflect.Float32, reflect.Float64:
		v.SetFloat(7.75)
	case reflect.Bool:
		v.SetBool(true)
	case reflect.Slice:
		sl := reflect.MakeSlice(t, 2, 2)
		sl.Index(0).Set(presetValue(t.Elem()))
		sl.Index(1).Set(presetValue(t.Elem()))
		v.Set(sl)
	case reflect.Ptr:
		p := reflect.New(t.Elem())
		p.Elem().Set(presetValue(t.Elem()))
		v.Set(p)
	}
	return v
}

// reusedTarget binds the request once more, into the struct value that is kept for the declaration (and
// field shape) over the whole case. It held non-zero values of its owner before the first Bind and holds
// what earlier requests left afterwards; a Bind that succeeds must leave in it exactly the value the
// statement gives for THIS request (the zero value for an absent optional parameter without default).
// Only consulted for requests whose fresh struct target was judged as expected.
func reusedTarget(m sink, c *Case, s *sut, ri int, d *dcl, exp *expectation, isolate bool, dc, pc, feat, shape string, ft reflect.Type, binder *middleware.UntypedRequestBinder, prefix string) {
	if !c.Reuse {
		return
	}
	rq := &c.Reqs[ri]
	tk := fmt.Sprintf("%d/%s", rq.D, shape)
	target, have := s.targets[tk]
	if !have {
		target = reflect.New(reflect.StructOf([]reflect.StructField{{Name: "F", Type: ft}}))
		target.Elem().Field(0).Set(presetValue(ft))
		s.targets[tk] = target
	}
	req, ok := c.request(rq)
	if !ok {
		return
	}
	var rp middleware.RouteParams
	if d.In == "path" {
		rp = middleware.RouteParams{{Name: d.Name, Value: string(rq.Texts[0])}}
	}
	fv := target.Elem().Field(0)
	read := func() string {
		g := ""
		if shape == "ptr" {
			if fv.IsNil() {
				return "nil-pointer"
			}
			g = canonOf(fv.Elem().Interface())
		} else {
			g = canonOf(fv.Interface())
		}
		if g == "nil" && d.Type == "array" {
			g = "[]"
		}
		return g
	}
	before := read()
	var berr error
	pv, stk := mon.Catch(func() { berr = binder.Bind(req, rp, runtime.JSONConsumer(), target.Interface()) })
	m.Eval(1)
	m.Class("shape:struct-target-kept-across-requests")
	prefix += "kept-struct/"
	lc := literalClass(d, rq)
	got := "<panic>"
	if pv == nil {
		got = read()
	}
	descr := func() string {
		db, _ := json.Marshal(c.paramObj(rq.D))
		return fmt.Sprintf("struct target kept by its owner across requests (field %s, holding %s before this Bind): decl=%s presence=%s texts=%q -> err=%v field=%s ; expected: %s", ft, before, db, pc, mon.SQ(rq.Texts), berr, got, expString(exp))
	}
	if pv != nil {
		report(m, c, ri, isolate, prefix+"panic/"+sigTail(feat, dc, ""), fmt.Sprintf("panic: %v ; %s\n%s", pv, descr(), stk))
		return
	}
	if exp.reject {
		if berr == nil {
			report(m, c, ri, isolate, prefix+"accepted-invalid/"+sigTail(feat, dc, lc), descr())
		}
		return // what a refused Bind leaves in the struct is not judged
	}
	if berr != nil {
		report(m, c, ri, isolate, prefix+"refused-valid/"+sigTail(feat, dc, pc+"/"+lc), descr())
		return
	}
	if c.Mutate && shape == "" {
		defer scramble(fv.Interface())
	}
	for _, a := range exp.accepts {
		if a == got || (got == "nil-pointer" && exp.why == "zero value" && a == zeroCanon(d.Type, d.Format)) {
			m.Class("kept-struct-bound")
			return
		}
	}
	report(m, c, ri, isolate, prefix+"wrong-value/"+sigTail(feat, dc, pc+"/"+lc), descr())
}

func firstWords(s string) string {
	if len(s) > 60 {
		s = s[:60]
	}
	return s
}

func gotCanon(s *sut, d *dcl) string {
	if s.got == nil {
		return "<none>"
	}
	c, ok := s.got[d.Name]
	if !ok {
		return "<unbound>"
	}
	if c == "nil" && d.Type == "array" {
		return "[]"
	}
	return c
}

func expString(e *expectation) string {
	switch {
	case e.either && e.orRefuse:
		return "422 or " + strings.Join(e.accepts, " or ") + " (" + e.why + ")"
	case e.either:
		return "not judged (" + e.why + ")"
	case e.reject:
		return "422 (" + e.why + ")"
	}
	return strings.Join(e.accepts, " or ") + " (" + e.why + ")"
}

// literalClass: input-only classification of the text, for signatures.
func literalClass(d *dcl, rq *Req) string {
	if rq.gone() || len(rq.Texts) == 0 {
		return "no-text"
	}
	t := string(rq.Texts[len(rq.Texts)-1])
	tpe, format := d.Type, d.Format
	if tpe == "array" {
		return "array-text"
	}
	switch tpe {
	case "boolean":
		l := strings.ToLower(t)
		switch {
		case trueWords[l]:
			return "true-word"
		case falseWords[l]:
			return "false-word"
		}
		return "neither-true-nor-false-word"
	case "integer":
		if reInt.MatchString(t) {
			if _, err := strconv.ParseInt(t, 10, intBits(format)); err != nil {
				return "decimal-out-of-range"
			}
			return "decimal-in-range"
		}
		return "not-decimal"
	case "number":
		if reFloat.MatchString(t) {
			if _, err := strconv.ParseFloat(t, 64); err != nil {
				return "number-out-of-range"
			}
			if format == "float" {
				if _, err := strconv.ParseFloat(t, 32); err != nil {
					return "number-out-of-float32-range"
				}
				v32, _ := strconv.ParseFloat(t, 32)
				v64, _ := strconv.ParseFloat(t, 64)
				if float32(v64) != float32(v32) {
					return "number-double-rounding"
				}
			}
			return "number-in-range"
		}
		return "not-a-number"
	case "string":
		if format == "byte" {
			if strings.ContainsAny(t, "+/") {
				return "base64-std-alphabet-only"
			}
			return "base64-text"
		}
		if format != "" {
			return format + "-text"
		}
	}
	return "text"
}

func declKey(d *dcl) string {
	b, _ := json.Marshal(d.Param)
	if d.X.zero() {
		return d.Form + string(b)
	}
	x, _ := json.Marshal(d.X)
	return d.Form + string(b) + string(x)
}

// ---------------- generation ----------------

func f64(v float64) *float64 { return &v }
func i64(v int64) *int64     { return &v }

type kind struct{ tpe, format string }

var scalarKinds = []kind{
	{"string", ""}, {"string", "date"}, {"string", "date-time"}, {"string", "uuid"}, {"string", "byte"},
	{"integer", ""}, {"integer", "int8"}, {"integer", "int16"}, {"integer", "int32"}, {"integer", "int64"},
	{"number", ""}, {"number", "float"}, {"number", "double"}, {"boolean", ""},
	// other registered formats: three held in a named string type, one (duration) in an integer-kinded type
	// bound through its TextUnmarshaler, and one the application registers itself
	{"string", "email"}, {"string", "password"}, {"string", "hostname"}, {"string", "duration"}, {"string", tagFormat},
}
var itemKinds = []kind{{"string", ""}, {"integer", "int32"}, {"number", "double"}, {"boolean", ""}, {"string", "date"}, {"integer", ""}, {"number", ""}}
var collFormats = []string{"", "csv", "ssv", "tsv", "pipes", "multi"}

func defaultFor(k kind) interface{} {
	switch k.tpe {
	case "string":
		switch k.format {
		case "date":
			return "2019-03-04"
		case "date-time":
			return "2019-03-04T05:06:07Z"
		case "uuid":
			return "6ba7b810-9dad-11d1-80b4-00c04fd430c8"
		case "byte":
			return "aGVsbG8="
		case "email":
			return "dflt@example.com"
		case "hostname":
			return "dflt.example.com"
		case "duration":
			return "90s"
		case tagFormat:
			return "tdflt"
		}
		return "dflt"
	case "integer":
		return float64(42)
	case "number":
		return 2.5
	case "boolean":
		return true
	}
	return nil
}

// zeroDefaultFor: a declared default equal to the zero value of the kind (nil: none enumerated).
func zeroDefaultFor(k kind) interface{} {
	switch k.tpe {
	case "string":
		if k.format == "" {
			return ""
		}
	case "integer", "number":
		return float64(0)
	case "boolean":
		return false
	}
	return nil
}

var headerNames = []string{"X-Limit", "x-limit", "X-LIMIT", "X-Request-ID", "x_under", "Accept-Language"}

// allDecls enumerates the declaration space deterministically.
func allDecls() (decls []gen.Param, forms []string) {
	type loc struct{ in, form string }
	locs := []loc{{"path", ""}, {"query", ""}, {"header", ""}, {"formData", "urlencoded"}, {"formData", "multipart"}}
	n := 0
	add := func(p gen.Param, form string) {
		if p.In == "header" {
			p.Name = headerNames[n%len(headerNames)]
		} else {
			p.Name = fmt.Sprintf("p%d", n%7)
		}
		n++
		decls = append(decls, p)
		forms = append(forms, form)
	}
	for _, l := range locs {
		variants := func(base gen.Param, k kind, isArray bool) {
			if l.in == "path" {
				base.Required = true
				add(base, l.form)
				v := base
				applyValidation(&v, k, isArray)
				add(v, l.form)
				return
			}
			for _, req := range []bool{false, true} {
				for _, def := range []string{"", "set", "zero"} {
					if def == "zero" && zeroDefaultFor(k) == nil {
						continue
					}
					for _, ae := range []bool{false, true} {
						for _, val := range []bool{false, true} {
							if val && def == "zero" && k.tpe == "string" && !isArray {
								continue // "" would not satisfy the declared minLength: not a well-formed declaration
							}
							p := base
							p.Required = req
							p.AllowEmptyValue = ae
							switch {
							case def == "set" && isArray:
								p.Default = []interface{}{defaultFor(k), defaultFor(k)}
							case def == "set":
								p.Default = defaultFor(k)
							case def == "zero" && isArray:
								// a declared default that happens to be the zero value is still a declared default
								p.Default = []interface{}{zeroDefaultFor(k), zeroDefaultFor(k)}
							case def == "zero":
								p.Default = zeroDefaultFor(k)
							}
							if val {
								applyValidation(&p, k, isArray)
							}
							add(p, l.form)
						}
					}
				}
			}
		}
		for _, k := range scalarKinds {
			variants(gen.Param{In: l.in, Type: k.tpe, Format: k.format}, k, false)
		}
		for _, ik := range itemKinds {
			for _, cf := range collFormats {
				if cf == "multi" && !(l.in == "query" || l.in == "formData") {
					continue
				}
				variants(gen.Param{In: l.in, Type: "array", ItemsType: ik.tpe, ItemsFormat: ik.format, CollectionFormat: cf}, ik, true)
			}
		}
		if l.form == "multipart" {
			add(gen.Param{In: "formData", Type: "file"}, l.form)
			add(gen.Param{In: "formData", Type: "file", Required: true}, l.form)
		}
	}
	return decls, forms
}

func applyValidation(p *gen.Param, k kind, isArray bool) {
	if isArray {
		p.MinItems = i64(2)
		p.MaxItems = i64(3)
		return
	}
	switch k.tpe {
	case "integer":
		p.Minimum = f64(-100)
		p.Maximum = f64(100)
	case "number":
		p.Minimum = f64(-100.5)
		p.Maximum = f64(100.5)
	case "string":
		if k.format == "" {
			p.MinLength = i64(2)
			p.MaxLength = i64(6)
		}
	}
}

var intPool = []string{"0", "-0", "+7", "007", "-128", "127", "128", "-129", "32767", "32768", "-32768", "-32769", "2147483647", "2147483648", "-2147483648", "-2147483649",
	"9223372036854775807", "9223372036854775808", "-9223372036854775808", "-9223372036854775809", "0x10", "1_000", "1e3", "1.0", " 5", "5 ", "abc", "٣", "--5", "+", "-", "99", "-100", "101", "42", "98", "-98", "91", "-7", "14",
	// beyond the unsigned type of each width too (an unsigned struct field must refuse them as well)
	"256", "65536", "4294967296", "18446744073709551616"}
var floatPool = []string{"0", "-0", "1.5", ".5", "5.", "1e10", "1E-3", "+2.5", "3.4028235e38", "3.4028236e38", "3.5e38", "1e39", "-3.5e38", "1.7976931348623157e308", "1.8e308", "1e-400", "1e-46",
	"inf", "-Inf", "NaN", "0x1p-2", "1_0.5", "1,5", "abc", " 1", "1.000000059604644775390625", "1.000000059604644775390626", "16777217", "100.5", "100.6", "-100.5", "e5", ".", "1e", "--1", "100.25", "0.3", "-2", "2.50"}
var boolPool = []string{"true", "false", "TRUE", "False", "1", "0", "yes", "no", "y", "n", "on", "off", "t", "f", "ok", "enabled", "disabled", "checked", "selected", "maybe", "2", "tru", " true", "nil", "unchecked"}
var stringPool = []string{"plain", "with space", "a,b", "é", "%41", "x", "abcdefgh", "ab", "a|b", "tab\there", "q&a=b", "+plus", "\"quoted\"", "\xff\xfe", "dflt", "Plain", "plain\nx"}
var datePool = []string{"2019-03-04", "2020-02-29", "2021-02-29", "2020-1-1", "20200101", "2020-02-28T00:00:00Z", "junk", "0001-01-01", "9999-12-31", "2020-13-01"}
var dateTimePool = []string{"2019-03-04T05:06:07Z", "2019-03-04T06:06:07+01:00", "2020-01-02T03:04:05Z", "2020-01-02T03:04:05+01:00", "2020-01-02T03:04:05.123Z", "2020-01-02 03:04:05", "junk", "2020-01-02", "2020-01-02T25:00:00Z", "2020-01-02T03:04:05"}
var uuidPool = []string{"6ba7b811-9dad-11d1-80b4-00c04fd430c8", "6ba7b810-9dad-11d1-80b4-00c04fd430c8", "6BA7B810-9DAD-11D1-80B4-00C04FD430C8", "not-a-uuid", "{6ba7b810-9dad-11d1-80b4-00c04fd430c8}", "6ba7b8109dad11d180b400c04fd430c8", "6ba7b810-9dad-11d1-80b4-00c04fd430c", "zzzzzzzz-9dad-11d1-80b4-00c04fd430c8"}
var emailPool = []string{"a@b.co", "dflt@example.com", "user.name+tag@mail.example.org", "junk", "a@", "@b.co", "a@b", "Name <a@b.co>", "a@@b.co", "A@B.CO"}
var hostnamePool = []string{"example.com", "dflt.example.com", "localhost", "a-b.example.org", "exa mple.com", "a@b.co", "host/path", "-bad-.com", "a..b", "under_score.com", "xn--bcher-kva.example"}
var durationPool = []string{"90s", "30s", "0s", "1h", "15m", "250ms", "1h30m", "3 days", "2w", "1.5h", "-5s", "junk", "h", "12:30", "30"}
var passwordPool = []string{"secret", "", "with space", "p@ss,word|1", "\xff\xfe", "dflt"}
var tagPool = []string{"tdflt", "t1", "tabcdefg", "tabcdefgh", "t", "x1", "T1", "t-1", "junk"}
var bytePool = []string{"aGVsbG8=", "aGVsbG8", "+/8=", "-_8=", "!!!", "YQ==", "YWI=", "a", "++++", "AAAA"}

func poolFor(tpe, format string) []string {
	switch tpe {
	case "integer":
		return intPool
	case "number":
		return floatPool
	case "boolean":
		return boolPool
	case "string":
		switch format {
		case "date":
			return datePool
		case "date-time":
			return dateTimePool
		case "uuid":
			return uuidPool
		case "byte":
			return bytePool
		case "email":
			return emailPool
		case "hostname":
			return hostnamePool
		case "duration":
			return durationPool
		case "password":
			return passwordPool
		case tagFormat:
			return tagPool
		}
		return stringPool
	}
	return stringPool
}

// triagePending: request shapes left out of the generator while an alarm is being triaged. None at present.
//
// (Round 3: a REQUIRED file parameter of an operation that consumes application/x-www-form-urlencoded, called with a
// urlencoded body - which cannot carry a file - was answered 400 "request Content-Type isn't multipart/form-data" instead of
// the 422 "required" the statement gives for a required parameter that is missing; sig
// reject-status-400/file-parameter-on-urlencoded-operation. Repaired in the library by 441dcd1 and pinned.)
func triagePending(*dcl, *Req) bool { return false }

func genReqs(r *rand.Rand, di int, d *dcl, full bool) []Req {
	all := genReqsUnfiltered(r, di, d, full)
	out := all[:0]
	for i := range all {
		if !triagePending(d, &all[i]) {
			out = append(out, all[i])
		}
	}
	return out
}

func genReqsUnfiltered(r *rand.Rand, di int, d *dcl, full bool) []Req {
	out := genReqsPlain(r, di, d, full)
	if d.In == "query" || d.In == "formData" {
		// field names are case-sensitive in these locations: a value under "P3" is not parameter "p3"
		var other []string
		for _, k := range []string{strings.ToUpper(d.Name), strings.ToLower(d.Name), http.CanonicalHeaderKey(d.Name)} {
			if k != d.Name {
				other = append(other, k)
			}
		}
		n := len(out)
		for i := 0; i < n && len(other) > 0; i++ {
			if out[i].Absent || (!full && r.Intn(4) != 0) {
				continue
			}
			c := out[i]
			c.OtherKey = other[r.Intn(len(other))]
			out = append(out, c)
		}
	}
	if d.In == "formData" && d.Type != "file" {
		// the same requests with a same-named value in the URL query string
		n := len(out)
		for i := 0; i < n; i++ {
			if !full && r.Intn(3) != 0 {
				continue
			}
			pool := poolFor(d.Type, d.Format)
			if d.Type == "array" {
				pool = poolFor(d.ItemsType, d.ItemsFormat)
			}
			sh := mon.Q(pool[r.Intn(len(pool))])
			c := out[i]
			c.Shadow = &sh
			out = append(out, c)
		}
	}
	if d.In == "formData" {
		// no payload at all (what a client sends that was given no form value): no form parameter is sent
		out = append(out, Req{D: di, Absent: true, NoPayload: "bare"}, Req{D: di, Absent: true, NoPayload: "content-type"})
		// a body or a Content-Type that is no form: no panic, no server error
		kinds := []string{"bad-escape", "json-content-type", "unparsable-content-type"}
		if d.Form == "multipart" {
			kinds = []string{"truncated", "no-boundary", "json-content-type", "unparsable-content-type"}
		}
		for _, k := range kinds {
			if !full && r.Intn(2) == 0 {
				continue
			}
			mr := Req{D: di, Texts: []mon.Q{"1"}, Malformed: k}
			if d.Type == "file" {
				mr.FileName = "a.txt"
			}
			out = append(out, mr)
		}
	}
	if d.Default != nil && d.In != "path" {
		// after everything else (and after the receivers have written to what they were handed): the
		// parameter is omitted once more and the declared default is due again
		out = append(out, Req{D: di, Absent: true})
	}
	for i := range out {
		if out[i].Malformed != "" || out[i].NoPayload != "" {
			continue
		}
		if d.In == "formData" && r.Intn(6) == 0 {
			out[i].Chunked = true // the length of the body is not announced
		}
		if d.In == "formData" && r.Intn(3) == 0 {
			// what browsers and other clients send: media type parameters, another letter case
			out[i].CT = []string{"charset", "charset", "case", "both"}[r.Intn(4)]
		}
		if d.Type != "array" && d.Type != "file" {
			switch k := r.Intn(12); {
			case k < 3:
				// Four shapes are not driven into a pointer-typed field (default declared and nothing sent;
				// empty text and no default; format byte; a validation declared and text sent): the reflective
				// binder mishandles them there (panics, validations skipped -- DESIGN 9.3, "observed outside
				// the property"). The Go type of a caller's struct field is not in C03's quantifier
				// (declarations x requests; "the handler receives" is the map target), so these are reported,
				// not judged.
				if pointerFieldShape(d, &out[i]) != "" {
					break
				}
				out[i].Field = "ptr"
			case k < 5 && d.Type == "integer":
				out[i].Field = "uint"
			}
		}
	}
	return out
}

func genReqsPlain(r *rand.Rand, di int, d *dcl, full bool) []Req {
	var out []Req
	hk := func() string {
		if d.In != "header" {
			return ""
		}
		switch r.Intn(4) {
		case 0:
			return strings.ToLower(d.Name)
		case 1:
			return strings.ToUpper(d.Name)
		case 2:
			return http.CanonicalHeaderKey(d.Name)
		}
		return d.Name
	}
	if d.Type == "file" {
		out = append(out, Req{D: di, Absent: true})
		// a text field named like the file parameter (all a urlencoded form can carry)
		out = append(out, Req{D: di, Texts: []mon.Q{"hello"}, AsText: true}, Req{D: di, Texts: []mon.Q{""}, AsText: true})
		if d.Form != "multipart" {
			return out
		}
		for _, content := range []string{"", "hello", strings.Repeat("x", 70000), "\x00\x01\xff"} {
			out = append(out, Req{D: di, Texts: []mon.Q{mon.Q(content)}, FileName: []string{"a.txt", "dir/b.bin", "c \"q\".txt"}[r.Intn(3)]})
		}
		return out
	}
	out = append(out, Req{D: di, Absent: true})
	out = append(out, Req{D: di, Texts: []mon.Q{""}, HeaderKey: hk()})
	if d.Type == "array" && d.X.NestedCF != nil {
		pool := poolFor(d.ItemsType, d.ItemsFormat)
		osep, isep := sepOf(d.CollectionFormat), sepOf(*d.X.NestedCF)
		for i := 0; i < 10; i++ {
			var rows []string
			for j := 1 + r.Intn(3); j > 0; j-- {
				var its []string
				for k := 1 + r.Intn(3); k > 0; k-- {
					if r.Intn(5) == 0 {
						its = append(its, pool[r.Intn(len(pool))])
					} else {
						its = append(its, validItem(r, d.ItemsType, d.ItemsFormat))
					}
				}
				rows = append(rows, strings.Join(its, isep))
			}
			if d.CollectionFormat == "multi" {
				out = append(out, Req{D: di, Texts: mon.QS(rows), HeaderKey: hk()})
			} else {
				out = append(out, Req{D: di, Texts: []mon.Q{mon.Q(strings.Join(rows, osep))}, HeaderKey: hk()})
			}
		}
		return out
	}
	if d.Type == "array" {
		pool := poolFor(d.ItemsType, d.ItemsFormat)
		sep := sepOf(d.CollectionFormat)
		nl := 10
		if full {
			nl = 24
		}
		for i := 0; i < nl; i++ {
			n := 1 + r.Intn(4)
			var items []string
			for j := 0; j < n; j++ {
				it := pool[r.Intn(len(pool))]
				if r.Intn(3) != 0 { // bias towards valid items so that whole arrays are often valid
					it = validItem(r, d.ItemsType, d.ItemsFormat)
				}
				items = append(items, it)
			}
			if d.CollectionFormat == "multi" {
				out = append(out, Req{D: di, Texts: mon.QS(items), HeaderKey: hk()})
			} else {
				t := strings.Join(items, sep)
				switch r.Intn(8) {
				case 0:
					t = sep + t
				case 1:
					t = t + sep + sep + validItem(r, d.ItemsType, d.ItemsFormat)
				case 2:
					t = strings.Join(items, sep+" ")
				}
				if r.Intn(6) == 0 {
					out = append(out, Req{D: di, Texts: []mon.Q{"zzz", mon.Q(t)}, HeaderKey: hk()})
				} else {
					out = append(out, Req{D: di, Texts: []mon.Q{mon.Q(t)}, HeaderKey: hk()})
				}
			}
		}
		return out
	}
	pool := poolFor(d.Type, d.Format)
	for _, t := range pool {
		if !full && r.Intn(2) == 0 {
			continue
		}
		out = append(out, Req{D: di, Texts: []mon.Q{mon.Q(t)}, HeaderKey: hk()})
	}
	// repeated: the last occurrence counts
	for i := 0; i < 3; i++ {
		a, b := pool[r.Intn(len(pool))], pool[r.Intn(len(pool))]
		out = append(out, Req{D: di, Texts: []mon.Q{mon.Q(a), mon.Q(b)}, HeaderKey: hk()})
	}
	out = append(out, Req{D: di, Texts: []mon.Q{mon.Q(pool[0]), ""}, HeaderKey: hk()})
	// an empty occurrence first: the last one still counts (and is still validated)
	for i := 0; i < 3; i++ {
		out = append(out, Req{D: di, Texts: []mon.Q{"", mon.Q(pool[r.Intn(len(pool))])}, HeaderKey: hk()})
	}
	return out
}

func validItem(r *rand.Rand, tpe, format string) string {
	switch tpe {
	case "integer":
		return []string{"1", "-5", "42", "2147483647", "0"}[r.Intn(5)]
	case "number":
		return []string{"1.5", "-2", "1e3", "0.25"}[r.Intn(4)]
	case "boolean":
		return []string{"true", "false", "1", "no"}[r.Intn(4)]
	case "string":
		if format == "date" {
			return []string{"2020-02-29", "1999-12-31"}[r.Intn(2)]
		}
		return []string{"a", "bb", "c c", "é"}[r.Intn(4)]
	}
	return "x"
}

// ---------------- the second block of declarations: the other validations ----------------

// enumFor: the listed values of an enum for a kind. The declared default (defaultFor) is always listed.
func enumFor(k kind) []interface{} {
	switch k.tpe {
	case "string":
		switch k.format {
		case "date":
			return []interface{}{"2019-03-04", "2020-02-29"}
		case "date-time":
			return []interface{}{"2019-03-04T05:06:07Z", "2020-01-02T03:04:05Z"}
		case "uuid":
			return []interface{}{"6ba7b810-9dad-11d1-80b4-00c04fd430c8", "6ba7b811-9dad-11d1-80b4-00c04fd430c8"}
		case "byte":
			return []interface{}{"aGVsbG8=", "YQ=="}
		case "email":
			return []interface{}{"dflt@example.com", "a@b.co"}
		case "hostname":
			return []interface{}{"dflt.example.com", "localhost"}
		case tagFormat:
			return []interface{}{"tdflt", "t1"}
		}
		return []interface{}{"dflt", "plain", "ab", "a", "bb"}
	case "integer":
		return []interface{}{float64(42), float64(7), float64(-128), float64(1), float64(-5)}
	case "number":
		return []interface{}{2.5, 1.5, -100.5, float64(0), float64(-2)} // all exactly representable at 32 bits
	case "boolean":
		return []interface{}{true}
	}
	return nil
}

// structTypedFormat: string formats whose Go value is not a string (strfmt.Date, strfmt.DateTime, strfmt.Base64).
func structTypedFormat(k kind) bool {
	return k.tpe == "string" && (k.format == "date" || k.format == "date-time" || k.format == "byte")
}

// secondDefaultFor: another valid value of the kind, different from defaultFor (uniqueItems defaults).
func secondDefaultFor(k kind) interface{} {
	switch k.tpe {
	case "string":
		if k.format == "date" {
			return "2020-02-29"
		}
		return "a"
	case "integer":
		return float64(1)
	case "number":
		return 1.5
	case "boolean":
		return false
	}
	return nil
}

// extraDecls enumerates the declarations that carry the validations allDecls does not: enum on every kind
// (formatted strings and booleans included), pattern, multipleOf with exclusive bounds, and for arrays
// items.enum, items.maximum and uniqueItems.
func extraDecls() (decls []gen.Param, forms []string, exts []Ext) {
	type loc struct{ in, form string }
	locs := []loc{{"path", ""}, {"query", ""}, {"header", ""}, {"formData", "urlencoded"}, {"formData", "multipart"}}
	n := 3
	add := func(p gen.Param, x Ext, form string) {
		if p.In == "header" {
			p.Name = headerNames[n%len(headerNames)]
		} else {
			p.Name = fmt.Sprintf("p%d", n%7)
		}
		n++
		decls = append(decls, p)
		forms = append(forms, form)
		exts = append(exts, x)
	}
	for _, l := range locs {
		scalarVariants := func(k kind, val string) {
			base := gen.Param{In: l.in, Type: k.tpe, Format: k.format}
			var x Ext
			switch val {
			case "enum":
				// (an enum on a date, date-time or byte parameter refuses every listed value on the unchanged
				// tree: known finding, feature class enum-on-a-format-not-held-in-a-string)
				if k.format == "duration" {
					return // the value is not held in a string: the class of the known enum finding, not widened here
				}
				base.Enum = enumFor(k)
			case "other":
				switch k.tpe {
				case "integer":
					base.Minimum, base.Maximum = f64(-98), f64(98)
					x.ExclusiveMinimum, x.ExclusiveMaximum = true, true
					x.MultipleOf = f64(7)
				case "number":
					base.Minimum, base.Maximum = f64(-100.5), f64(100.5)
					x.ExclusiveMinimum, x.ExclusiveMaximum = true, true
					x.MultipleOf = f64(0.25)
				case "string":
					if k.format != "" {
						return
					}
					base.Pattern = "^[a-z]+$"
				default:
					return
				}
			}
			if l.in == "path" {
				base.Required = true
				add(base, x, l.form)
				return
			}
			for _, req := range []bool{false, true} {
				for _, def := range []bool{false, true} {
					for _, ae := range []bool{false, true} {
						p := base
						p.Required, p.AllowEmptyValue = req, ae
						if def {
							p.Default = defaultFor(k)
						}
						add(p, x, l.form)
					}
				}
			}
		}
		for _, k := range scalarKinds {
			scalarVariants(k, "enum")
			scalarVariants(k, "other")
		}
		for _, ik := range itemKinds {
			for _, cf := range collFormats {
				if cf == "multi" && !(l.in == "query" || l.in == "formData") {
					continue
				}
				for _, val := range []string{"items-enum", "items-maximum-unique"} {
					base := gen.Param{In: l.in, Type: "array", ItemsType: ik.tpe, ItemsFormat: ik.format, CollectionFormat: cf}
					var x Ext
					def := []interface{}{defaultFor(ik), defaultFor(ik)}
					if val == "items-enum" {
						x.ItemsEnum = enumFor(ik)
					} else {
						x.UniqueItems = true
						if ik.tpe == "integer" || ik.tpe == "number" {
							x.ItemsMaximum = f64(100)
						}
						def = []interface{}{defaultFor(ik), secondDefaultFor(ik)}
					}
					if l.in == "path" {
						base.Required = true
						add(base, x, l.form)
						continue
					}
					for _, req := range []bool{false, true} {
						for _, withDef := range []bool{false, true} {
							p := base
							p.Required = req
							p.AllowEmptyValue = req && !withDef // the combination in which allowEmptyValue decides
							if withDef {
								p.Default = def
							}
							add(p, x, l.form)
						}
					}
				}
			}
		}
	}
	// arrays of arrays (items: {type: array, collectionFormat, items}): the description language allows them
	sp := func(v string) *string { return &v }
	for _, nd := range []struct {
		in, form, cf, icf string
		ik                kind
		required          bool
	}{
		{"query", "", "pipes", "csv", kind{"integer", "int32"}, false},
		{"query", "", "pipes", "", kind{"string", ""}, true},
		{"query", "", "multi", "csv", kind{"integer", ""}, false},
		{"query", "", "csv", "ssv", kind{"number", "double"}, false},
		{"query", "", "csv", "csv", kind{"string", ""}, false},
		{"header", "", "pipes", "csv", kind{"integer", "int32"}, false},
		{"header", "", "", "pipes", kind{"boolean", ""}, true},
		{"path", "", "pipes", "csv", kind{"integer", "int64"}, true},
		{"formData", "urlencoded", "multi", "pipes", kind{"string", "date"}, false},
		{"formData", "urlencoded", "tsv", "csv", kind{"integer", "int32"}, false},
		{"formData", "multipart", "pipes", "ssv", kind{"string", ""}, false},
		{"formData", "multipart", "ssv", "", kind{"number", ""}, true},
	} {
		add(gen.Param{In: nd.in, Type: "array", ItemsType: nd.ik.tpe, ItemsFormat: nd.ik.format, CollectionFormat: nd.cf, Required: nd.required}, Ext{NestedCF: sp(nd.icf)}, nd.form)
	}
	// a file parameter of an operation that consumes application/x-www-form-urlencoded (the description
	// language allows both form media types for it): such a form cannot carry a file, so none is ever sent
	add(gen.Param{In: "formData", Type: "file"}, Ext{}, "urlencoded")
	add(gen.Param{In: "formData", Type: "file", Required: true}, Ext{}, "urlencoded")
	return decls, forms, exts
}

// placement draws where and under which method a declaration is published (both orthogonal to its value).
func placement(r *rand.Rand, p *gen.Param, x Ext) Ext {
	switch r.Intn(10) {
	case 0:
		x.Level = "pathitem"
	case 1:
		x.Level = "ref"
	}
	if p.In == "formData" {
		switch r.Intn(5) {
		case 0:
			x.Method = "PUT"
		case 1:
			x.Method = "PATCH"
		}
	} else {
		switch r.Intn(10) {
		case 0:
			x.Method = "GET"
		case 1:
			x.Method = "PUT"
		case 2:
			x.Method = "DELETE"
		}
	}
	return x
}

// ---------------- operations with several parameters: generation ----------------

// names a query or form parameter may have that are not identifiers (they are escaped on the wire)
var oddNames = []string{"filter[status]", "$top", "page.size", "a b", "é", "a+b", "id[]", "a=b", "a&b", "x%41y", "Content-Type"}
var oddNameTails = []string{"[status]", ".size", " b", "é", "+b", "[]", "=b", "&b", "$", "%41"}

var multiHeaderNames = []string{"X-Zz%dk", "x-zz%dk", "X-ZZ%dK", "Zz%dk-Id"}

// genMulti builds one case of nOps operations, each declaring 2-4 of the given declarations (renamed so
// that no two share a name), and nReq requests per operation.
func genMulti(r *rand.Rand, decls []gen.Param, forms []string, exts []Ext, idx []int, nOps, nReq int) *Case {
	c := &Case{Mutate: true, Reuse: true}
	for o := 0; o < nOps; o++ {
		want := 2 + r.Intn(3)
		form := ""
		var g []int
		// every other operation starts from one of the two combinations the single-parameter cases cannot reach
		var need []string
		switch o % 4 {
		case 0:
			need = []string{"query", "header"}
		case 1:
			need = []string{"formData", "query"}
		case 2:
			need = []string{"formData", "formData"} // two form parameters share one body (parsed once, by the first binder)
		}
		for tries := 0; len(g) < want && tries < 200; tries++ {
			di := idx[r.Intn(len(idx))]
			p := decls[di]
			if len(need) > 0 && p.In != need[0] {
				continue
			}
			if ik := (kind{p.ItemsType, p.ItemsFormat}); (p.Type != "array" && len(p.Enum) > 0 && structTypedFormat(kind{p.Type, p.Format})) ||
				(p.Type == "array" && di < len(exts) && len(exts[di].ItemsEnum) > 0 && structTypedFormat(ik)) {
				continue // the declarations of the known finding get operations of their own only
			}
			if di < len(exts) && exts[di].NestedCF != nil {
				continue // arrays of arrays get operations of their own only
			}
			if p.In == "formData" {
				if form != "" && forms[di] != form {
					continue
				}
				form = forms[di]
			}
			if len(need) > 0 {
				need = need[1:]
			}
			pos := len(g)
			if p.In == "header" {
				p.Name = fmt.Sprintf(multiHeaderNames[r.Intn(len(multiHeaderNames))], pos)
			} else {
				p.Name = fmt.Sprintf("zz%dk", pos)
				if (p.In == "query" || p.In == "formData") && r.Intn(8) == 0 {
					p.Name += oddNameTails[r.Intn(len(oddNameTails))]
				}
			}
			x := exts[di]
			x = placement(r, &p, x)
			x.Method = ""
			g = append(g, len(c.Decls))
			c.Decls = append(c.Decls, p)
			c.Forms = append(c.Forms, forms[di])
			c.Ext = append(c.Ext, x)
		}
		c.Ops = append(c.Ops, g)
		// candidate requests per part, split into those the declaration accepts and the rest
		type cand struct{ ok, other []Req }
		cands := make([]cand, len(g))
		for k, di := range g {
			d := c.decl(di)
			for _, rq := range genReqsPlain(r, di, d, true) {
				if d.In == "path" && (rq.Absent || len(rq.Texts) != 1 || rq.Texts[0] == "") {
					continue
				}
				if triagePending(d, &rq) {
					continue
				}
				e := expect(d, &rq)
				if !e.either && !e.reject {
					cands[k].ok = append(cands[k].ok, rq)
				} else {
					cands[k].other = append(cands[k].other, rq)
				}
			}
		}
		for q := 0; q < nReq; q++ {
			mr := MReq{Op: o}
			mode := r.Intn(10) // 0-5: every part valid; 6-7: one part drawn freely; 8-9: every part drawn freely
			free := r.Intn(len(g))
			for k := range g {
				cd := cands[k]
				pickFree := mode >= 8 || (mode >= 6 && k == free)
				var rq Req
				switch {
				case (pickFree && len(cd.other) > 0 && r.Intn(4) != 0) || len(cd.ok) == 0:
					if len(cd.other) == 0 {
						rq = Req{D: g[k], Absent: true}
					} else {
						rq = cd.other[r.Intn(len(cd.other))]
					}
				default:
					rq = cd.ok[r.Intn(len(cd.ok))]
				}
				if form != "" && q%3 == 2 {
					rq.CT = "charset"
				}
				if dk := c.decl(g[k]); form != "" && dk.In == "query" && r.Intn(4) == 0 {
					// the form body carries a field named like the query parameter, with another text
					pool := poolFor(dk.Type, dk.Format)
					if dk.Type == "array" {
						pool = poolFor(dk.ItemsType, dk.ItemsFormat)
					}
					for tries := 0; tries < 4 && rq.BodyShadow == nil; tries++ {
						sh := mon.Q(pool[r.Intn(len(pool))])
						if n := len(rq.Texts); sh != "" && (rq.gone() || n == 0 || rq.Texts[n-1] != sh) {
							rq.BodyShadow = &sh
						}
					}
				}
				mr.Parts = append(mr.Parts, rq)
			}
			if form != "" {
				switch k := r.Intn(12); {
				case k < 3:
					// the length of the form body is not announced
					for k := range mr.Parts {
						if c.decl(g[k]).In == "formData" {
							mr.Parts[k].Chunked = true
						}
					}
				case k == 3:
					// no payload at all: no form parameter is sent; the other locations bind as usual
					np := []string{"bare", "content-type"}[r.Intn(2)]
					for k := range mr.Parts {
						if c.decl(g[k]).In == "formData" {
							mr.Parts[k] = Req{D: g[k], Absent: true, NoPayload: np}
						} else {
							mr.Parts[k].BodyShadow = nil
						}
					}
				}
			}
			c.MReqs = append(c.MReqs, mr)
		}
	}
	return c
}

func run(m *mon.M) {
	decls, forms := allDecls()
	nBase := len(decls)
	exts := make([]Ext, nBase)
	xd, xf, xx := extraDecls()
	decls, forms, exts = append(decls, xd...), append(forms, xf...), append(exts, xx...)
	r := m.Rand("c03")
	// this shard's declarations: the first block (as before) and the second block (the other validations)
	var idx, idx2 []int
	for i := range decls {
		if i%m.NShards == m.Shard {
			if i < nBase {
				idx = append(idx, i)
			} else {
				idx2 = append(idx2, i)
			}
		}
	}
	full := true // both tiers use every literal of the pools
	if m.Quick() {
		r.Shuffle(len(idx), func(i, j int) { idx[i], idx[j] = idx[j], idx[i] })
	}
	passes := m.N(2, 40) // the random parts (array texts, repeated pairs, header-name spellings) are re-drawn per pass
	if m.Shard == 0 {
		m.Note("declarations_in_space", int64(len(decls)))
		m.Note("declarations_in_first_block", int64(nBase))
	}
	const group = 24
	sweep := func(ids []int, note string) {
		for g := 0; g < len(ids); g += group {
			end := g + group
			if end > len(ids) {
				end = len(ids)
			}
			c := &Case{Mutate: true, Reuse: true, Helpers: true}
			for k, di := range ids[g:end] {
				c.Decls = append(c.Decls, decls[di])
				if in := decls[di].In; (in == "query" || in == "formData") && r.Intn(8) == 0 {
					c.Decls[k].Name = oddNames[r.Intn(len(oddNames))] // a name that is not an identifier
				}
				c.Forms = append(c.Forms, forms[di])
				c.Ext = append(c.Ext, placement(r, &decls[di], exts[di]))
				c.Reqs = append(c.Reqs, genReqs(r, k, c.decl(k), full)...)
			}
			m.Begin(c)
			runCase(m, c, true)
			if note != "" {
				m.Note(note, int64(len(c.Decls)))
			}
		}
	}
	all := append(append([]int{}, idx...), idx2...)
	for pass := 0; pass < passes; pass++ {
		note := ""
		if pass == 0 {
			note = "declarations_exercised"
		}
		sweep(idx, note)
		// the second block: thorough enumerates it on every second pass; quick takes a PRNG-chosen quarter per pass
		var part []int
		switch {
		case m.Quick():
			for _, di := range idx2 {
				if r.Intn(4) == 0 || exts[di].NestedCF != nil || decls[di].Pattern != "" || decls[di].Type == "file" { // (the few arrays of arrays, pattern and urlencoded-file declarations: in every pass)
					part = append(part, di)
				}
			}
		case pass%2 == 0:
			part = idx2
		}
		note2 := ""
		if pass == 0 || m.Quick() {
			note2 = "second_block_declaration_sweeps"
		}
		sweep(part, note2)
		// operations with several parameters, drawn from both blocks
		for k := m.N(12, 8); k > 0; k-- {
			c := genMulti(r, decls, forms, exts, all, group, 8)
			m.Begin(c)
			runCase(m, c, true)
			m.Note("operations_with_several_parameters", int64(len(c.Ops)))
		}
		// two applications in one process, each with its own format registry
		for k := m.N(3, 2); k > 0; k-- {
			c := genApps(r)
			m.Begin(c)
			runCase(m, c, true)
			m.Note("two_application_requests", int64(len(c.AReqs)))
		}
	}
}

func replay(m *mon.M, raw json.RawMessage) {
	var c Case
	if err := json.Unmarshal(raw, &c); err != nil {
		m.Violate("bad-replay-case", err.Error(), nil)
		return
	}
	if len(c.Forms) < len(c.Decls) {
		c.Forms = append(c.Forms, make([]string, len(c.Decls)-len(c.Forms))...)
	}
	// JSON round trip turns integer-valued defaults into float64 already; nothing to fix up
	runCase(m, &c, true)
}
