package c09

import (
	"net/http"
	"os"
	"reflect"
	"sort"
	"strings"

	"github.com/go-openapi/spec"

	rt "github.com/go-openapi/runtime"

	"github.com/go-openapi/runtime/middleware"
)

// Binding into a parameter struct made UntypedRequestBinder.Bind write `binder.Name = fieldName` on the parameter binders of the
// UntypedRequestBinder (middleware/request.go), which an application builds once per operation and uses for every request to it
// (the route's own binder cannot bind into a struct: it names its parameters "<in>#<GoName>"). Two requests bound into structs
// at the same time — or one into a struct and one into a map, which reads the name for its error messages — were a data race
// (race:...UntypedRequestBinder.Bind|...UntypedRequestBinder.Bind). Repaired in the library by 674919d (the name is set on a copy)
// and pinned; struct targets are part of the concurrent runs. VERIF_C09_STRUCT=0 takes them out again (diagnostic only).
var structTargetsUnderConcurrency = envStructTargets()

// genParams is the parameter object of the generated-server flows (what NewXxxParams() returns in generated
// code): it binds with the binder of the matched route and the consumer the Context selected, into a map or —
// for the requests that ask for it (X-Bind: struct) — into a struct with one field per parameter.
type genParams struct {
	s     *server
	bound map[string]interface{}
}

func (g *genParams) BindRequest(r *http.Request, route *middleware.MatchedRoute) error {
	if r.Header.Get("X-Bind") == "struct" {
		st := g.s.structFor(route)
		target := reflect.New(st.tpe)
		err := st.binder.Bind(r, route.Params, route.Consumer, target.Interface())
		g.bound = make(map[string]interface{}, len(st.fields))
		for i, f := range st.fields {
			g.bound[st.params[i]] = target.Elem().FieldByName(f).Interface()
		}
		return err
	}
	g.bound = map[string]interface{}{}
	return route.Binder.Bind(r, route.Params, route.Consumer, g.bound)
}

// paramStruct: the struct type a generated server would declare for the parameters of one operation.
type paramStruct struct {
	tpe    reflect.Type
	fields []string // field names
	params []string // the parameter each field holds
	// the binder of the operation's struct targets: the route's own binder keys its parameters by
	// "<in>#<GoName>", which names no struct field, so an application that binds into structs builds a binder
	// keyed by its field names — once per operation, used by every request to it
	binder *middleware.UntypedRequestBinder
}

// fieldName: the exported field that holds a parameter (id -> Id, X-H -> XH).
func fieldName(param string) string {
	b := []byte(strings.ReplaceAll(param, "-", ""))
	if len(b) > 0 && b[0] >= 'a' && b[0] <= 'z' {
		b[0] -= 'a' - 'A'
	}
	return string(b)
}

// structFor builds (once per operation) the parameter struct — one exported field per declared parameter, typed
// by its declaration — and the binder for it.
func (s *server) structFor(route *middleware.MatchedRoute) *paramStruct {
	key := route.PathPattern + " " + route.Operation.ID
	if v, ok := s.structTypes.Load(key); ok {
		return v.(*paramStruct)
	}
	ps := &paramStruct{}
	decl := map[string]spec.Parameter{}
	for _, p := range route.Binder.Parameters {
		decl[fieldName(p.Name)] = p
		ps.fields = append(ps.fields, fieldName(p.Name))
	}
	sort.Strings(ps.fields)
	ps.binder = middleware.NewUntypedRequestBinder(decl, route.Binder.Spec, route.Binder.Formats)
	var sf []reflect.StructField
	for _, fn := range ps.fields {
		p := decl[fn]
		var t reflect.Type
		switch {
		case p.In == "body":
			t = reflect.TypeOf(map[string]interface{}{})
		case p.Type == "file":
			t = reflect.TypeOf(rt.File{})
		case p.Type == "array" && p.Items != nil && p.Items.Type == "integer":
			t = reflect.TypeOf([]int32{})
		case p.Type == "array":
			t = reflect.TypeOf([]string{})
		case p.Type == "integer":
			t = reflect.TypeOf(int32(0))
		default:
			t = reflect.TypeOf("")
		}
		sf = append(sf, reflect.StructField{Name: fn, Type: t})
		ps.params = append(ps.params, p.Name)
	}
	ps.tpe = reflect.StructOf(sf)
	v, _ := s.structTypes.LoadOrStore(key, ps)
	return v.(*paramStruct)
}

func envStructTargets() bool { return os.Getenv("VERIF_C09_STRUCT") != "0" }
