// Package c09 monitors per-request isolation under concurrency (correlation tokens + race detector +
// hook scheduler) and the memoisation of the per-request stages (history monitor).
package c09

import (
	"bytes"
	"encoding/json"
	"fmt"
	"io"
	"math/rand"
	"net/http"
	"net/http/httptest"
	"net/url"
	"runtime"
	"sort"
	"strings"
	"sync"
	"sync/atomic"
	"time"

	oerrors "github.com/go-openapi/errors"
	rt "github.com/go-openapi/runtime"
	"github.com/go-openapi/runtime/middleware"
	"github.com/go-openapi/runtime/middleware/untyped"
	"github.com/go-openapi/runtime/security"
	"github.com/go-openapi/runtime/verifhook"

	"verif/gen"
	"verif/mon"
)

func init() {
	mon.Register(&mon.Property{
		ID:    "C09",
		Level: "exploration",
		Race:  true,
		Rule: "(a) runs of N=8..64 goroutines sending requests to one server (13 operations: path/query/header/array/body parameters, two path parameters in one segment, typed array parameters with declared defaults that most requests leave out, OR and AND security requirements, an operation whose two alternatives have different scopes and can be satisfied at once, two produces, a Responder result, a 204 and a HEAD operation, two operations bound from a form body — urlencoded or multipart with a file, the multipart-only one requiring its file —, consumers that stamp their media type; handlers that normalise the slices they are handed in place), each request carrying a unique token in every position; the same registrations are served by two handler instances, middleware.NewContext over the untyped API and middleware.NewRoutableContext over a RoutableAPI whose operation handlers run RouteInfo, Authorize, BindValidRequest, handler, Respond (APIHandler), each request going to one of them; a quarter of the requests are driven accessor by accessor (RouteInfo, Authorize, BindAndValidate on the first — or, for half of them, BindValidRequest with a binder of its own, then Respond, on the second) and read back the stored principal, scopes and matched route; a fifth are served inside a wrapping middleware that asks RouteInfo first, serves the request value it was returned and reads the route again (and asks again) when the handler has returned, or (half of them) authenticates in front of the handler: it takes the route from RouteInfo or from a LookupRoute of its own, asks Authorize and lets the handler serve the request value Authorize returned, two thirds of the X-Key credentials being one-time keys (accepted by their authenticator once: a request admitted in front must not be answered 401 inside); about a quarter of the requests must be refused (unacceptable Accept, non-admitted or malformed Content-Type, missing/ill-typed required query parameter, rejected credential, no credentials, a principal the authorizer refuses, unknown path, undeclared method), each judged by its expected status and by the operation handler not having run for its token; some served requests are answered by the handler's own error; a served request is served by the handler of its own operation; a quarter of the requests (half of the form requests) meet, when the untyped handler serves them, a Builder middleware that asks BindAndValidate and hands the request value it was returned on to the operation (judged by the answer and by the validation count), and every direct flow on the untyped Context asks BindAndValidate a second time on the returned request value (same outcome, same values); per run, route lookups that found a route <= requests that have one, request validations <= requests bound through BindAndValidate, and no request reaches a Builder middleware or a generated handler without its matched route; " +
			"GOMAXPROCS in {1,2,4,16}; a PRNG-driven hook callback yields/sleeps at the inter-stage suspension points and records the hook trace; built with -race. " +
			"(b) random sequences (<=18, with repetition) over RouteInfo/ContentType/ResponseFormat/Authorize/BindAndValidate/ResetAuth/Respond (and BindValidRequest into a parameter struct for body-less requests) on one request (its own token per sequence; key / one-time key / bearer / both / bad / nil-principal / refused-by-the-authorizer / no credentials; binding outcomes valid, 415, and invalid for validation reasons only), on either Context, threading the returned request, judged by a 5-flag reference state machine over authenticator/consumer/lookup/validation/body-read counters; the first answer of each stage is judged against the request's own values (ContentType: media type and charset, both compared on every later ask; RouteInfo: pattern, operation, parameters, compared on every later ask), the Content-Type header is rewritten after its first parse and the first BindAndValidate after it must judge the body by the parsed value, Respond after a successful negotiation must answer in that format whatever list it is handed, a third of the sequences end with the whole handler serving the threaded request value (no lookup, no authenticator call after a principal, no second consumer run or validation after a binding; the route reads the same afterwards) followed by the askers again, the MatchedRoute value handed to Authorize/BindAndValidate/BindValidRequest/Respond next to the threaded request value is, for a quarter of these calls, another one of the same request than the earlier calls were handed (a fresh LookupRoute, MatchedRouteFrom or RouteInfo on the threaded request value), a quarter of the sequences never ask RouteInfo first (LookupRoute instead), an eighth are an authentication middleware in front of the handler (route by either way, Authorize, then the whole handler serves the returned request value: no authenticator call, no 401 for a one-time key), a fifth of the sequences are about the form operations (form content type mostly, the required field or file left out for some; a memoised binding reads the body no more, whoever asks — BindAndValidate or the handler; the Content-Type header of a form request is not rewritten), a third of the handler steps run behind the validating Builder middleware (one validation per request inside the handler), and a third of the sequences are preceded by the same request asked once and another client's request to the same operation (the grant must not change). " +
			"non-trivial = (a) a run in which >= 2 requests were in flight at once (measured), distinct by hook-trace hash; (b) a sequence with >= 1 repeated accessor, distinct by (request shape, sequence); a worker in which fewer than half of the concurrent runs overlapped counts none of its sequences",
		Assumptions: []string{
			"isolation is judged by token equality on everything observable: MatchedRoute params seen by a Builder wrapper, the principal shown to the authorizer, bound values, selected producer/content type echoed in the response",
			"an anonymous admission (nil principal) and a failed stage are not memoisable and may be recomputed",
			"which of two alternatives a request satisfies at once admits it is not stated; that it is the same one for every such request to one handler instance, whatever was served before, is (derived from that request alone)",
			"the race detector only reports races on accesses that executed",
			"an operation handler (and a caller of BindAndValidate / BindValidRequest) owns the values it is handed and may modify them in place; a request that leaves a parameter out is bound to the declared default, in the declared order",
			"binding into a parameter struct uses an UntypedRequestBinder the application builds once per operation and shares between its requests (the route's own binder names its parameters <in>#<GoName> and cannot bind into a struct); such bindings are part of the concurrent runs",
			"a 204 or HEAD answer is judged by its status, by the handler that ran for its token and by its Content-Type if it has one; the number of route lookups below the number of routed requests is recorded, not judged",
		},
		MinNontrivial: 500,
		QuickShards:   4,
		ThorShards:    16,
		Run:           run,
		Replay:        replay,
	})
}

// ---------- shared API ----------

func apiDesc() gen.Desc {
	str := func(name, in string) gen.Param { return gen.Param{Name: name, In: in, Type: "string"} }
	req := func(name, in string) gen.Param { return gen.Param{Name: name, In: in, Type: "string", Required: true} }
	pathP := func(name string) gen.Param { return gen.Param{Name: name, In: "path", Type: "string", Required: true} }
	d := gen.Desc{
		BasePath: "/api",
		Consumes: []string{"application/json"},
		Produces: []string{"application/json", "text/plain"},
		SecDefs: map[string]gen.SecDef{
			"key": {Type: "apiKey", Name: "X-Key", In: "header"},
			"tok": {Type: "apiKey", Name: "tok", In: "query"},
			"oa":  {Type: "oauth2", Scopes: map[string]string{"read": "r", "write": "w"}},
		},
		Ops: []gen.Op{
			{ID: "getA", Method: "GET", Template: "/a/{id}", Params: []gen.Param{pathP("id"), req("q", "query"), str("X-H", "header")},
				Security: []gen.SecReq{{"key": {}}, {"tok": {}}}},
			{ID: "postA", Method: "POST", Template: "/a/{id}", Params: []gen.Param{pathP("id"), {Name: "body", In: "body", Required: true}},
				Security: []gen.SecReq{{"key": {}, "tok": {}}}},
			{ID: "putB", Method: "PUT", Template: "/b/{x}/c/{y}", Params: []gen.Param{pathP("x"), pathP("y"),
				{Name: "arr", In: "query", Type: "array", ItemsType: "string", CollectionFormat: "csv"}}},
			{ID: "delA", Method: "DELETE", Template: "/a/{id}", Params: []gen.Param{pathP("id")}, Security: []gen.SecReq{{"tok": {}}}},
			{ID: "getB", Method: "GET", Template: "/b/{x}", Params: []gen.Param{pathP("x"), str("q", "query")}, Security: []gen.SecReq{{"key": {}}, {}}},
			// admitted only through a wildcard consumes entry: the consumer comes from the API-wide registrations
			// no path parameter at all: nothing route-specific distinguishes two requests to it
			{ID: "postE", Method: "POST", Template: "/e", Params: []gen.Param{{Name: "body", In: "body", Required: true}}, Security: []gen.SecReq{{"key": {}}}},
			{ID: "postW", Method: "POST", Template: "/w/{id}", Params: []gen.Param{pathP("id"), {Name: "body", In: "body", Required: true}},
				Consumes: []string{"text/*"}},
			// two alternatives with different scopes: a request may satisfy both at once
			{ID: "getS", Method: "GET", Template: "/s/{id}", Params: []gen.Param{pathP("id"), req("q", "query")},
				Security: []gen.SecReq{{"key": {}}, {"oa": {"read"}}}},
			// a binding outcome that is invalid for validation reasons only (required/typed query parameter) next to a body
			{ID: "postV", Method: "POST", Template: "/v/{id}", Params: []gen.Param{pathP("id"),
				{Name: "n", In: "query", Type: "integer", Format: "int32", Required: true}, {Name: "body", In: "body", Required: true}}},
			// two path parameters inside one path segment
			{ID: "getC", Method: "GET", Template: "/c/{a}.{b}", Params: []gen.Param{pathP("a"), pathP("b"), req("q", "query")}},
			// typed array parameters with declared defaults: a request that omits them is bound to the declared
			// values, whatever the handlers of other requests did with the values THEY were handed
			{ID: "getD", Method: "GET", Template: "/d/{id}", Params: []gen.Param{pathP("id"),
				{Name: "tags", In: "query", Type: "array", ItemsType: "string", Default: declTags()},
				{Name: "sizes", In: "query", Type: "array", ItemsType: "integer", ItemsFormat: "int32", Default: declSizes()},
				{Name: "X-L", In: "header", Type: "array", ItemsType: "string", CollectionFormat: "csv", Default: declLabels()}}},
			// answers without a body: 204, HEAD
			{ID: "delN", Method: "DELETE", Template: "/n/{id}", Params: []gen.Param{pathP("id")}, SuccessCode: 204},
			{ID: "headH", Method: "HEAD", Template: "/h/{id}", Params: []gen.Param{pathP("id"), str("q", "query")}},
			// bound from a form body, urlencoded or multipart (with an optional file): no consumer decodes it, the
			// form is parsed off the request value the binding works on
			{ID: "postF", Method: "POST", Template: "/f/{id}", Consumes: []string{formURLEncoded, formMultipart},
				Params: []gen.Param{pathP("id"), req("name", "formData"),
					{Name: "age", In: "formData", Type: "integer", Format: "int32"},
					{Name: "doc", In: "formData", Type: "file"}}},
			// multipart only, the file is required
			{ID: "postU", Method: "POST", Template: "/u/{id}", Consumes: []string{formMultipart},
				Params: []gen.Param{pathP("id"), str("name", "formData"),
					{Name: "doc", In: "formData", Type: "file", Required: true}}},
		},
	}
	return d
}

// the declared defaults of getD's array parameters (fresh values on every call: nothing of the harness is
// shared with the description handed to the library)
func declTags() []interface{}   { return []interface{}{"zebra", "Apple"} }
func declSizes() []interface{}  { return []interface{}{30, 10, 20} }
func declLabels() []interface{} { return []interface{}{"m", "K", "b"} }

const (
	formURLEncoded = "application/x-www-form-urlencoded"
	formMultipart  = "multipart/form-data"
	// the boundary of every multipart body the harness sends
	formBoundary = "c09XXboundary"
)

// isFormOp: the operations bound from a form body.
func isFormOp(op string) bool { return op == "postF" || op == "postU" }

// formBody renders the form of one request: name (left out when name is ""), age (left out when < 0) and — in a
// multipart form — the file doc (left out when file is "").
func formBody(kind, name string, age int, file string) string {
	if kind != "multipart" {
		q := url.Values{}
		if name != "" {
			q.Set("name", name)
		}
		if age >= 0 {
			q.Set("age", fmt.Sprint(age))
		}
		return q.Encode()
	}
	var sb strings.Builder
	part := func(disp, val string) {
		sb.WriteString("--" + formBoundary + "\r\nContent-Disposition: form-data; " + disp + "\r\n\r\n" + val + "\r\n")
	}
	if name != "" {
		part(`name="name"`, name)
	}
	if file != "" {
		sb.WriteString("--" + formBoundary + "\r\nContent-Disposition: form-data; name=\"doc\"; filename=\"doc.txt\"\r\nContent-Type: text/plain\r\n\r\n" + file + "\r\n")
	}
	if age >= 0 {
		part(`name="age"`, fmt.Sprint(age))
	}
	sb.WriteString("--" + formBoundary + "--\r\n")
	return sb.String()
}

// formContentType: the Content-Type header of a form of that kind.
func formContentType(kind string) string {
	if kind == "multipart" {
		return formMultipart + "; boundary=" + formBoundary
	}
	return formURLEncoded
}

// fileText reads an uploaded file from its start (whoever was handed the bound values before may have read it).
func fileText(f rt.File) string {
	if f.Data == nil {
		return ""
	}
	if _, err := f.Data.Seek(0, io.SeekStart); err != nil {
		return "<seek: " + err.Error() + ">"
	}
	b, err := io.ReadAll(f.Data)
	if err != nil {
		return "<read: " + err.Error() + ">"
	}
	return string(b)
}

// boundText renders bound values for comparison: an uploaded file by its name, size and content, everything else
// as fmt prints it (maps in key order).
func boundText(bound interface{}) string {
	bm, ok := bound.(map[string]interface{})
	if !ok {
		return fmt.Sprint(bound)
	}
	hasFile := false
	for _, v := range bm {
		if _, isFile := v.(rt.File); isFile {
			hasFile = true
		}
	}
	if !hasFile {
		return fmt.Sprint(bound)
	}
	cp := make(map[string]interface{}, len(bm))
	for k, v := range bm {
		if f, isFile := v.(rt.File); isFile {
			if f.Header != nil {
				cp[k] = fmt.Sprintf("file(%q, %d bytes, %q)", f.Header.Filename, f.Header.Size, fileText(f))
			} else {
				cp[k] = fmt.Sprintf("file(no header, %q)", fileText(f))
			}
			continue
		}
		cp[k] = v
	}
	return fmt.Sprint(cp)
}

const (
	declTagsText   = "zebra,Apple"
	declSizesText  = "30,10,20"
	declLabelsText = "m,K,b"
)

type crosstalk struct {
	mu   sync.Mutex
	list []string
}

func (c *crosstalk) add(s string) {
	c.mu.Lock()
	if len(c.list) < 50 {
		c.list = append(c.list, s)
	}
	c.mu.Unlock()
}

type server struct {
	// the untyped entry point: middleware.NewContext over the untyped.API
	ctx     *middleware.Context
	handler http.Handler
	// the entry point of generated servers: middleware.NewRoutableContext over a RoutableAPI whose operation
	// handlers run RouteInfo -> Authorize -> BindValidRequest -> handler -> Respond (same registrations)
	gapi     *gen.GeneratedAPI
	gctx     *middleware.Context
	ghandler http.Handler

	xt *crosstalk
	// requests to a declared path and method that reached a Builder middleware without a matched route
	unrouted *crosstalk
	// reflect-built parameter structs, per operation
	structTypes sync.Map

	authCalls int64
	consumed  int64
	lookups   int64

	// which credential admitted the requests that carried a key AND a bearer token, per operation:
	// nothing but the request decides, so they all agree
	bothMu sync.Mutex
	both   map[string]string
	hist   []string

	// tokens of the requests whose operation handler ran -> the operation whose handler it was
	ran sync.Map

	// one-time keys (suffix ~once: a nonce, a one-time password) that have been presented to their authenticator:
	// each is accepted the first time it is consulted about and rejected ever after
	usedOnce sync.Map
}

// noteRan records, from the parameters an operation handler was given, whose request it is serving.
func (s *server) noteRan(op string, params interface{}) {
	pm, _ := params.(map[string]interface{})
	for _, v := range pm {
		switch x := v.(type) {
		case string:
			s.ran.Store(tokenOf(x), op)
		case []string:
			for _, e := range x {
				if strings.IndexByte(e, '~') > 0 {
					s.ran.Store(tokenOf(e), op)
				}
			}
		case map[string]interface{}:
			if t, ok := x["t"].(string); ok {
				s.ran.Store(t, op)
			}
		}
	}
}

// noteBoth records which of its two credentials identified a request satisfying two alternatives at once.
// (instance: the handler instance — each of the two Contexts has its own router, and the order in which a
// router consults the schemes of one alternative is fixed per router, not per description)
func (s *server) noteBoth(instance, op, token, which string) {
	s.bothMu.Lock()
	defer s.bothMu.Unlock()
	if s.both == nil {
		s.both = map[string]string{}
	}
	if prev, ok := s.both[instance+op]; !ok {
		s.both[instance+op] = which
	} else if prev != which && len(s.hist) < 20 {
		s.hist = append(s.hist, fmt.Sprintf("%s: request of token %q carrying both credentials was identified by %q, an earlier one by %q", op, token, which, prev))
	}
}

func unusable(cred string) bool {
	return strings.HasSuffix(cred, "~bad") || strings.HasSuffix(cred, "~zero")
}

func suffixOf(s string) string { return s[strings.LastIndexByte(s, '~')+1:] }

func tokenOf(s string) string {
	if i := strings.IndexByte(s, '~'); i >= 0 {
		return s[:i]
	}
	return s
}

func buildServer() (*server, error) {
	d := apiDesc()
	doc, err := d.Load()
	if err != nil {
		return nil, err
	}
	s := &server{xt: &crosstalk{}, unrouted: &crosstalk{}}
	api := untyped.NewAPI(doc)
	// every consumer stamps the media type it is registered for into what it decodes
	for _, mt := range []string{"application/json", "text/plain", "text/x-a", "text/x-b", "text/x-c"} {
		mt := mt
		api.RegisterConsumer(mt, rt.ConsumerFunc(func(r io.Reader, v interface{}) error {
			atomic.AddInt64(&s.consumed, 1)
			if err := rt.JSONConsumer().Consume(r, v); err != nil {
				return err
			}
			switch p := v.(type) {
			case *map[string]interface{}:
				if p != nil && *p != nil {
					(*p)["via"] = mt
				}
			case *interface{}:
				if mm, ok := (*p).(map[string]interface{}); ok {
					mm["via"] = mt
				}
			}
			return nil
		}))
	}
	// a form body is parsed by the binding itself: the consumers registered for the form media types decode nothing
	// (they are counted like the others: a run of one of them reads the body)
	for _, mt := range []string{formURLEncoded, formMultipart} {
		api.RegisterConsumer(mt, rt.ConsumerFunc(func(r io.Reader, v interface{}) error {
			atomic.AddInt64(&s.consumed, 1)
			return rt.DiscardConsumer.Consume(r, v)
		}))
	}
	api.RegisterProducer("application/json", rt.ProducerFunc(func(w io.Writer, v interface{}) error {
		b, err := json.Marshal(map[string]interface{}{"tag": "json", "v": v})
		if err != nil {
			return err
		}
		_, err = w.Write(b)
		return err
	}))
	api.RegisterProducer("text/plain", rt.ProducerFunc(func(w io.Writer, v interface{}) error {
		b, err := json.Marshal(map[string]interface{}{"tag": "text", "v": v})
		if err != nil {
			return err
		}
		_, err = w.Write(b)
		return err
	}))
	api.RegisterAuth("key", security.APIKeyAuth("X-Key", "header", func(tok string) (interface{}, error) {
		atomic.AddInt64(&s.authCalls, 1)
		runtime.Gosched()
		if strings.HasSuffix(tok, "~bad") {
			return nil, oerrors.New(401, "bad key %s", tok)
		}
		if strings.HasSuffix(tok, "~zero") {
			return "", nil // a principal that happens to be the zero value of its type is still a principal
		}
		if strings.HasSuffix(tok, "~once") {
			// accepted once: an authenticator consulted again about a request it has admitted refuses it
			if _, used := s.usedOnce.LoadOrStore(tok, true); used {
				return nil, oerrors.New(401, "one-time key %s already used", tok)
			}
		}
		return "P:" + tok, nil
	}))
	api.RegisterAuth("tok", security.APIKeyAuth("tok", "query", func(tok string) (interface{}, error) {
		atomic.AddInt64(&s.authCalls, 1)
		runtime.Gosched()
		if strings.HasSuffix(tok, "~bad") {
			return nil, oerrors.New(401, "bad tok %s", tok)
		}
		return "P:" + tok, nil
	}))
	api.RegisterAuth("oa", security.BearerAuth("oa", func(tok string, scopes []string) (interface{}, error) {
		atomic.AddInt64(&s.authCalls, 1)
		runtime.Gosched()
		if strings.HasSuffix(tok, "~bad") {
			return nil, oerrors.New(401, "bad bearer %s", tok)
		}
		return "P:" + tok, nil
	}))
	api.RegisterAuthorizer(rt.AuthorizerFunc(func(r *http.Request, p interface{}) error {
		want := r.Header.Get("X-Token")
		if ps, ok := p.(string); ok && ps != "" {
			if tokenOf(strings.TrimPrefix(ps, "P:")) != want {
				s.xt.add(fmt.Sprintf("authorizer: request of token %q shown principal %q", want, ps))
			}
			if k, b := r.Header.Get("X-Key"), r.Header.Get("Authorization"); k != "" && b != "" && !unusable(k) && !unusable(b) {
				if mr := middleware.MatchedRouteFrom(r); mr != nil && mr.Operation != nil {
					s.noteBoth(fmt.Sprintf("%p ", mr.Binder), mr.Operation.ID, want, suffixOf(ps))
				}
			}
		}
		if mr := middleware.MatchedRouteFrom(r); mr != nil {
			for _, p := range mr.Params {
				if tokenOf(p.Value) != want {
					s.xt.add(fmt.Sprintf("authorizer: request of token %q carries matched-route param %s=%q", want, p.Name, p.Value))
				}
			}
		}
		// the application refuses some principals: nothing but this request's own principal decides
		if ps, ok := p.(string); ok && strings.HasSuffix(ps, "~deny") {
			return oerrors.New(http.StatusForbidden, "principal %s may not do this", ps)
		}
		return nil
	}))
	for i := range d.Ops {
		op := d.Ops[i]
		api.RegisterOperation(op.Method, op.Template, rt.OperationHandlerFunc(func(params interface{}) (interface{}, error) {
			runtime.Gosched()
			pm, _ := params.(map[string]interface{})
			return s.operate(op.ID, pm)
		}))
	}
	// validating: the Context whose BindAndValidate the middleware asks for the requests marked X-Validate (an audit
	// log, a quota by parameter, ...) before it hands the request value it was returned on to the operation, which is
	// a later asker of the binding; nil: the middleware never validates (the operations of the generated-server
	// Context bind with BindValidRequest, which keeps no result)
	mkBuilder := func(validating func() *middleware.Context) middleware.Builder {
		return func(next http.Handler) http.Handler {
			return builderHandler(s, validating, next)
		}
	}
	s.ctx = middleware.NewContext(doc, api, nil)
	s.handler = s.ctx.RoutesHandler(mkBuilder(func() *middleware.Context { return s.ctx }))

	// the same registrations behind the constructor generated servers use
	s.gapi = gen.NewGeneratedAPI(api)
	for i := range d.Ops {
		op := d.Ops[i]
		s.gapi.Operation(op.Method, op.Template, gen.GeneratedOp{
			Authorized: len(op.Security) > 0,
			NewBinder:  func() middleware.RequestBinder { return &genParams{s: s} },
			Handle: func(r *http.Request, params middleware.RequestBinder, principal interface{}) interface{} {
				runtime.Gosched()
				s.checkGenerated(r, principal)
				gp, _ := params.(*genParams)
				res, err := s.operate(op.ID, gp.bound)
				if err != nil {
					return err
				}
				return res
			},
		})
	}
	s.gctx = middleware.NewRoutableContext(doc, s.gapi, nil)
	s.gapi.SetContext(s.gctx)
	s.ghandler = s.gctx.APIHandler(mkBuilder(nil))
	return s, nil
}

// builderHandler is the middleware installed through the Builder of RoutesHandler / APIHandler: it runs for routed
// requests only, between the router and the operation.
func builderHandler(s *server, validating func() *middleware.Context, next http.Handler) http.Handler {
	return http.HandlerFunc(func(w http.ResponseWriter, r *http.Request) {
		want := r.Header.Get("X-Token")
		mr := middleware.MatchedRouteFrom(r)
		if mr == nil && want != "" {
			// a Builder middleware runs for routed requests only, inside the router: the request it is handed
			// is the one the route lookup returned
			s.unrouted.add(fmt.Sprintf("builder: %s %s (token %q) carries no matched route", r.Method, r.URL.RequestURI(), want))
		}
		if mr != nil && want != "" {
			for _, p := range mr.Params {
				if tokenOf(p.Value) != want {
					s.xt.add(fmt.Sprintf("builder: request of token %q has matched-route param %s=%q", want, p.Name, p.Value))
				}
			}
			if !strings.HasPrefix(r.URL.Path, strings.SplitN(mr.PathPattern, "{", 2)[0]) {
				s.xt.add(fmt.Sprintf("builder: request %q matched pattern %q", r.URL.Path, mr.PathPattern))
			}
			// (a request whose route an accessor sequence has already asked about says so: X-Asked)
			if (mr.Consumer != nil || mr.Authenticator != nil) && r.Header.Get("X-Asked") == "" {
				s.xt.add(fmt.Sprintf("builder: fresh matched route of %q already has consumer/authenticator set", r.URL.Path))
			}
		}
		if mr != nil && validating != nil && r.Header.Get("X-Validate") != "" {
			// whatever the outcome, it is the operation that answers: the middleware only looks
			if _, r2, _ := validating().BindAndValidate(r, mr); r2 != nil {
				r = r2
			}
		}
		next.ServeHTTP(w, r)
	})
}

// operate is the application's handler of every operation: it reports the values it was handed, as they were
// when it got them, then normalises its slices in place (the bound values are its own), and fails on request.
func (s *server) operate(opID string, pm map[string]interface{}) (interface{}, error) {
	s.noteRan(opID, pm)
	seen := takeAndNormalise(pm)
	for _, v := range pm {
		if sv, ok := v.(string); ok && strings.HasSuffix(sv, "~fail") {
			return nil, oerrors.New(http.StatusTeapot, "handler of %s fails for %s", opID, tokenOf(sv))
		}
	}
	res := map[string]interface{}{"op": opID, "bound": seen}
	if opID == "delA" {
		return middleware.ResponderFunc(func(rw http.ResponseWriter, pr rt.Producer) {
			rw.WriteHeader(200)
			_ = pr.Produce(rw, res)
		}), nil
	}
	return res, nil
}

// takeAndNormalise returns a copy of the bound values as they are, then lower-cases and sorts the slices in
// place, as a handler that normalises its input does.
func takeAndNormalise(pm map[string]interface{}) map[string]interface{} {
	seen := make(map[string]interface{}, len(pm))
	for k, v := range pm {
		switch x := v.(type) {
		case []string:
			seen[k] = append([]string{}, x...)
			for i := range x {
				x[i] = strings.ToLower(x[i])
			}
			sort.Strings(x)
		case []int32:
			seen[k] = append([]int32{}, x...)
			sort.Slice(x, func(i, j int) bool { return x[i] < x[j] })
		case rt.File:
			// an uploaded file is reported by its content
			seen[k] = fileText(x)
		default:
			seen[k] = v
		}
	}
	return seen
}

// checkGenerated: what the handler of a generated server is shown belongs to the request it serves.
func (s *server) checkGenerated(r *http.Request, principal interface{}) {
	want := r.Header.Get("X-Token")
	if ps, ok := principal.(string); ok && ps != "" && tokenOf(strings.TrimPrefix(ps, "P:")) != want {
		s.xt.add(fmt.Sprintf("generated handler: request of token %q handed principal %q", want, ps))
	}
	if principal != nil {
		if sp := middleware.SecurityPrincipalFrom(r); sp != principal {
			s.xt.add(fmt.Sprintf("generated handler: request of token %q handed principal %v, its request value carries %v", want, principal, sp))
		}
	}
	mr := middleware.MatchedRouteFrom(r)
	if mr == nil {
		s.unrouted.add(fmt.Sprintf("generated handler: %s %s (token %q) carries no matched route", r.Method, r.URL.RequestURI(), want))
		return
	}
	for _, p := range mr.Params {
		if tokenOf(p.Value) != want {
			s.xt.add(fmt.Sprintf("generated handler: request of token %q has matched-route param %s=%q", want, p.Name, p.Value))
		}
	}
}

// ---------- (a) concurrent isolation ----------

// RunCfg is a replayable run configuration (the schedule itself is not replayable; the run is repeated).
type RunCfg struct {
	Kind       string   `json:"kind"` // "concurrent" | "sequence"
	Seed       int64    `json:"seed"`
	Goroutines int      `json:"goroutines,omitempty"`
	PerG       int      `json:"perGoroutine,omitempty"`
	MaxProcs   int      `json:"gomaxprocs,omitempty"`
	Repeat     int      `json:"repeat,omitempty"`
	Seq        *SeqCase `json:"seq,omitempty"`
}

type reqSpec struct {
	op      string
	token   string
	accept  string
	req     *http.Request
	expect  map[string]string // bound name -> expected canonical text
	expBody string
	// wantStatus: 0 = 200
	wantStatus int
	ct         string   // media type of the body sent ("" = no body)
	creds      []string // credentials carried
	bearer     string   // the bearer token among them
	direct     bool     // driven accessor by accessor (RouteInfo, Authorize, BindAndValidate), as generated servers do
	// refuse: the class of refusal this request must meet ("" = it is served): accept | ct | ctbad | query | cred | path | method | nocred
	refuse string
	// wantAny: the statuses a refusal of that class may answer with
	wantAny []int
	// generated: the direct flow binds with BindValidRequest and a binder of its own and answers with Respond,
	// on the Context generated servers build (NewRoutableContext)
	generated bool
	// routable: a request served by the whole handler goes through the handler of the generated-server Context
	routable bool
	// wrapped: a middleware around the whole handler asks RouteInfo first, serves the request value it was
	// returned, and looks at the route again once the handler has returned
	wrapped bool
	// structTarget: the binder of the generated-server flows binds into a parameter struct
	structTarget bool
	// fail: the operation handler answers this request with an error of its own (418)
	fail bool
	// once: the X-Key credential of this request (if it has one that is to be accepted) is a one-time key
	once bool
	// front: (wrapped) the wrapping middleware authenticates: it gets the route (frontLookup: by LookupRoute, a
	// MatchedRoute value of its own; otherwise from RouteInfo), asks Authorize, and lets the handler serve the
	// request value Authorize returned
	front, frontLookup bool
}

// refusalStatus: what a refused request of each class is answered with. A malformed Content-Type is refused
// either as unparsable (400) or as not admitted (415): this property does not say which.
var refusalStatus = map[string][]int{
	"accept": {406},
	"ct":     {415},
	"ctbad":  {400, 415},
	"query":  {422},
	"cred":   {401},
	"deny":   {403},
	"nocred": {401},
	"path":   {404},
	"method": {405},
}

func mkRequest(r *rand.Rand, token string) *reqSpec {
	ops := []string{"getA", "postA", "putB", "delA", "getB", "postW", "postE", "postE", "getS", "getS", "postV",
		"getC", "getC", "getD", "getD", "getD", "delN", "headH", "postF", "postF", "postU"}
	op := ops[r.Intn(len(ops))]
	acc := []string{"application/json", "text/plain"}[r.Intn(2)]
	rs := &reqSpec{op: op, token: token, accept: acc, expect: map[string]string{}}
	v := func(s string) string { return token + "~" + s }
	// (decided by the token, not by the PRNG: the draws of a run configuration stay what they were)
	th := mon.Hash64("front|" + token)
	rs.once = th%3 != 0
	// about a quarter of the requests are refusals of one class each, interleaved with served requests to
	// the same routes
	if r.Intn(4) == 0 {
		rs.refuse = []string{"accept", "ct", "ctbad", "query", "query", "cred", "path", "method", "deny"}[r.Intn(9)]
		hasBody := op == "postA" || op == "postE" || op == "postW" || op == "postV" || isFormOp(op)
		hasCred := op == "getA" || op == "postA" || op == "delA" || op == "getB" || op == "postE"
		// (the refusal class "query" of a form operation: the required form field / file is left out)
		hasReqQuery := op == "postV" || op == "getA" || op == "getS" || op == "getC" || isFormOp(op)
		switch {
		case (rs.refuse == "ct" || rs.refuse == "ctbad") && !hasBody,
			rs.refuse == "query" && !hasReqQuery,
			(rs.refuse == "cred" || rs.refuse == "deny") && !hasCred:
			rs.refuse = ""
		}
	}
	// a served request whose handler fails
	if rs.refuse == "" && (op == "getA" || op == "getB" || op == "getS" || op == "getC") && r.Intn(8) == 0 {
		rs.fail = true
	}
	// a credential its scheme rejects / a credential of a principal the application's authorizer refuses
	c := func(s string) string {
		switch rs.refuse {
		case "cred":
			return token + "~" + s + "~bad"
		case "deny":
			return token + "~" + s + "~deny"
		}
		if rs.once && s == "k" {
			return token + "~" + s + "~once"
		}
		return token + "~" + s
	}
	// every credential of a conjunction is a refused principal's (whichever one is shown to the authorizer)
	dn := func(s string) string {
		if rs.refuse == "deny" {
			return token + "~" + s + "~deny"
		}
		return token + "~" + s
	}
	// the required query parameter q: left out by the refusal class "query", marked when the handler is to fail
	qv := v("q")
	if rs.fail {
		qv = v("q") + "~fail"
	}
	withQ := func(q url.Values) url.Values {
		if rs.refuse != "query" {
			q.Set("q", qv)
			rs.expect["q"] = qv
		}
		return q
	}
	var req *http.Request
	switch op {
	case "getA":
		q := withQ(url.Values{})
		if r.Intn(2) == 0 {
			q.Set("tok", c("tk"))
			rs.creds = []string{c("tk")}
		}
		req = httptest.NewRequest("GET", "/api/a/"+url.PathEscape(v("id"))+"?"+q.Encode(), nil)
		if q.Get("tok") == "" {
			req.Header.Set("X-Key", c("k"))
			rs.creds = []string{c("k")}
		}
		req.Header.Set("X-H", v("h"))
		rs.expect["id"], rs.expect["X-H"] = v("id"), v("h")
	case "postA":
		body := fmt.Sprintf(`{"t":%q}`, token)
		req = httptest.NewRequest("POST", "/api/a/"+url.PathEscape(v("id"))+"?tok="+url.QueryEscape(dn("tk")), strings.NewReader(body))
		req.Header.Set("Content-Type", "application/json")
		req.Header.Set("X-Key", c("k")) // refused even when the other scheme of the AND accepts
		rs.creds = []string{c("k"), dn("tk")}
		rs.expect["id"] = v("id")
		rs.expBody = token
		rs.ct = "application/json"
	case "getS":
		req = httptest.NewRequest("GET", "/api/s/"+url.PathEscape(v("id"))+"?"+withQ(url.Values{}).Encode(), nil)
		which := r.Intn(3)
		if which != 1 {
			req.Header.Set("X-Key", v("k"))
			rs.creds = append(rs.creds, v("k"))
		}
		if which != 0 {
			req.Header.Set("Authorization", "Bearer "+v("b"))
			rs.creds = append(rs.creds, v("b"))
			rs.bearer = v("b")
		}
		rs.expect["id"] = v("id")
	case "postE":
		body := fmt.Sprintf(`{"t":%q}`, token)
		req = httptest.NewRequest("POST", "/api/e", strings.NewReader(body))
		req.Header.Set("Content-Type", "application/json")
		if rs.refuse == "" && r.Intn(3) == 0 {
			rs.wantStatus = 401 // no credentials: whatever earlier requests to this route presented
			rs.refuse = "nocred"
		} else {
			req.Header.Set("X-Key", c("k"))
			rs.creds = []string{c("k")}
			rs.expBody = token
		}
		rs.ct = "application/json"
	case "postW":
		body := fmt.Sprintf(`{"t":%q}`, token)
		req = httptest.NewRequest("POST", "/api/w/"+url.PathEscape(v("id")), strings.NewReader(body))
		rs.ct = []string{"text/plain", "text/x-a", "text/x-b", "text/x-c"}[r.Intn(4)]
		req.Header.Set("Content-Type", rs.ct)
		rs.expect["id"] = v("id")
		rs.expBody = token
	case "putB":
		req = httptest.NewRequest("PUT", "/api/b/"+url.PathEscape(v("x"))+"/c/"+url.PathEscape(v("y"))+"?arr="+url.QueryEscape(v("1")+","+v("2")), nil)
		rs.expect["x"], rs.expect["y"] = v("x"), v("y")
		rs.expect["arr"] = v("1") + "," + v("2")
	case "delA":
		req = httptest.NewRequest("DELETE", "/api/a/"+url.PathEscape(v("id"))+"?tok="+url.QueryEscape(c("tk")), nil)
		rs.creds = []string{c("tk")}
		rs.expect["id"] = v("id")
	case "getB":
		req = httptest.NewRequest("GET", "/api/b/"+url.PathEscape(v("x"))+"?q="+url.QueryEscape(qv), nil)
		if rs.refuse == "cred" || rs.refuse == "deny" || r.Intn(2) == 0 {
			// a rejected credential is not made good by the anonymous alternative
			req.Header.Set("X-Key", c("k"))
			rs.creds = []string{c("k")}
		}
		rs.expect["x"], rs.expect["q"] = v("x"), qv
	case "postV":
		body := fmt.Sprintf(`{"t":%q}`, token)
		target := "/api/v/" + url.PathEscape(v("id"))
		switch {
		case rs.refuse != "query":
			target += "?n=7"
			rs.expect["n"] = "7"
		case r.Intn(2) == 0:
			target += "?n=many"
		}
		req = httptest.NewRequest("POST", target, strings.NewReader(body))
		req.Header.Set("Content-Type", "application/json")
		rs.expect["id"] = v("id")
		rs.expBody = token
		rs.ct = "application/json"
	case "getC":
		// two parameters in one path segment
		req = httptest.NewRequest("GET", "/api/c/"+url.PathEscape(v("a"))+"."+url.PathEscape(v("b"))+"?"+withQ(url.Values{}).Encode(), nil)
		rs.expect["a"], rs.expect["b"] = v("a"), v("b")
	case "getD":
		// array parameters with declared defaults, sent by some requests and left out by most
		q := url.Values{}
		rs.expect["tags"], rs.expect["sizes"], rs.expect["X-L"] = declTagsText, declSizesText, declLabelsText
		if r.Intn(3) == 0 {
			q.Set("tags", v("2")+","+v("1"))
			rs.expect["tags"] = v("2") + "," + v("1")
		}
		if r.Intn(3) == 0 {
			a, b := r.Intn(1000), r.Intn(1000)
			q.Set("sizes", fmt.Sprintf("%d,%d", a, b))
			rs.expect["sizes"] = fmt.Sprintf("%d,%d", a, b)
		}
		target := "/api/d/" + url.PathEscape(v("id"))
		if len(q) > 0 {
			target += "?" + q.Encode()
		}
		req = httptest.NewRequest("GET", target, nil)
		if r.Intn(3) == 0 {
			req.Header.Set("X-L", v("l2")+","+v("l1"))
			rs.expect["X-L"] = v("l2") + "," + v("l1")
		}
		rs.expect["id"] = v("id")
	case "postF", "postU":
		// a form body: urlencoded or multipart (postU: multipart only), the multipart ones with a file
		kind := "multipart"
		if op == "postF" && r.Intn(2) == 0 {
			kind = "urlencoded"
		}
		name, age, file := v("name"), r.Intn(1000), ""
		if kind == "multipart" && (op == "postU" || r.Intn(3) != 0) {
			file = "file of " + v("doc")
		}
		if r.Intn(4) == 0 || op == "postU" {
			age = -1 // optional, left out
		}
		if rs.refuse == "query" {
			if op == "postU" {
				file = ""
			} else {
				name = ""
			}
		}
		req = httptest.NewRequest("POST", "/api/"+map[string]string{"postF": "f", "postU": "u"}[op]+"/"+url.PathEscape(v("id")), strings.NewReader(formBody(kind, name, age, file)))
		rs.ct = formContentType(kind)
		req.Header.Set("Content-Type", rs.ct)
		rs.expect["id"] = v("id")
		if name != "" {
			rs.expect["name"] = name
		}
		if file != "" {
			rs.expect["doc"] = file
		}
		if op == "postF" && age >= 0 {
			rs.expect["age"] = fmt.Sprint(age) // (what an optional parameter without a default is bound to when left out is not judged)
		}
	case "delN":
		req = httptest.NewRequest("DELETE", "/api/n/"+url.PathEscape(v("id")), nil)
		rs.expect["id"] = v("id")
	case "headH":
		req = httptest.NewRequest("HEAD", "/api/h/"+url.PathEscape(v("id"))+"?q="+url.QueryEscape(v("q")), nil)
		rs.expect["id"], rs.expect["q"] = v("id"), v("q")
	}
	req.Header.Set("X-Token", token)
	// half of the form requests and a quarter of the others meet, when the untyped handler serves them, a validating
	// middleware in front of their operation (decided by the token)
	if vh := (th >> 24) % 4; vh == 0 || (vh == 1 && isFormOp(op)) {
		req.Header.Set("X-Validate", "1")
	}
	// the same negotiated type asked in several spellings, some sharing their first header line with a
	// request that negotiates the other type
	other := map[string]string{"application/json": "text/plain", "text/plain": "application/json"}[acc]
	switch r.Intn(4) {
	case 0:
		req.Header["Accept"] = []string{other + ";q=0.5", acc}
	case 1:
		req.Header.Set("Accept", acc+";q=0.5")
	case 2:
		req.Header["Accept"] = []string{acc + ";q=0.5", other + ";q=0.1"}
	default:
		req.Header.Set("Accept", acc)
	}
	switch rs.refuse {
	case "accept":
		req.Header["Accept"] = []string{"image/png"} // nothing the operation produces
	case "ct":
		if op == "postW" {
			req.Header.Set("Content-Type", "image/png") // postW admits text/* (and the API-wide application/json)
		} else {
			req.Header.Set("Content-Type", "text/plain")
		}
	case "ctbad":
		req.Header.Set("Content-Type", "bogus/")
	case "path":
		req.URL.Path, req.URL.RawPath = "/api/zz/"+token, ""
	case "method":
		req.Method = "PATCH" // declared for no path
	}
	if rs.refuse != "" {
		rs.wantAny = refusalStatus[rs.refuse]
	}
	rs.req = req
	rs.direct = r.Intn(4) == 0
	rs.generated = r.Intn(2) == 0
	rs.routable = r.Intn(2) == 0
	rs.wrapped = !rs.direct && r.Intn(4) == 0
	rs.front = rs.wrapped && (th>>8)%2 == 0
	rs.frontLookup = (th>>16)%3 != 0
	rs.structTarget = structTargetsUnderConcurrency && r.Intn(2) == 0
	if rs.structTarget {
		req.Header.Set("X-Bind", "struct")
	}
	return rs
}

func judgeResponse(rs *reqSpec, rec *httptest.ResponseRecorder) string {
	if rs.refuse != "" && rs.refuse != "nocred" {
		for _, st := range rs.wantAny {
			if rec.Code == st {
				return ""
			}
		}
		return fmt.Sprintf("status %d, a refusal of class %q answers %v; body %.120q", rec.Code, rs.refuse, rs.wantAny, rec.Body.String())
	}
	if rs.wantStatus != 0 {
		if rec.Code != rs.wantStatus {
			return fmt.Sprintf("status %d, expected %d (the request carries no credentials); body %.120q", rec.Code, rs.wantStatus, rec.Body.String())
		}
		return ""
	}
	if rs.fail {
		// the handler's own error, about this request
		if rec.Code != http.StatusTeapot || !strings.Contains(rec.Body.String(), "fails for "+rs.token) {
			return fmt.Sprintf("status %d body %.120q, the handler answered this request with its error 418 naming %q", rec.Code, rec.Body.String(), rs.token)
		}
		return ""
	}
	switch rs.op {
	case "delN", "headH":
		// answered without a body: what there is to see is the status and the negotiated type
		want := 200
		if rs.op == "delN" {
			want = 204
		}
		if rec.Code != want {
			return fmt.Sprintf("status %d, expected %d; body %.120q", rec.Code, want, rec.Body.String())
		}
		if ct := rec.Header().Get("Content-Type"); ct != "" && ct != rs.accept {
			return fmt.Sprintf("content type %q, asked %q", ct, rs.accept)
		}
		return ""
	}
	if rec.Code != 200 {
		return fmt.Sprintf("status %d body %.120q", rec.Code, rec.Body.String())
	}
	ct := rec.Header().Get("Content-Type")
	if ct != rs.accept {
		return fmt.Sprintf("content type %q, asked %q", ct, rs.accept)
	}
	var out struct {
		Tag string `json:"tag"`
		V   struct {
			Op    string                 `json:"op"`
			Bound map[string]interface{} `json:"bound"`
		} `json:"v"`
	}
	if err := json.Unmarshal(rec.Body.Bytes(), &out); err != nil {
		return fmt.Sprintf("unparsable body %.120q: %v", rec.Body.String(), err)
	}
	wantTag := "json"
	if rs.accept == "text/plain" {
		wantTag = "text"
	}
	if out.Tag != wantTag {
		return fmt.Sprintf("producer %q wrote the body, negotiated %q", out.Tag, rs.accept)
	}
	if out.V.Op != rs.op {
		return fmt.Sprintf("handler of %q answered a request to %q", out.V.Op, rs.op)
	}
	return judgeBound(rs, out.V.Bound)
}

// judgeBound: every bound value is the one this request sent, and the body was decoded by the consumer
// registered for this request's media type.
func judgeBound(rs *reqSpec, bound map[string]interface{}) string {
	for k, want := range rs.expect {
		got := bound[k]
		gs := ""
		switch x := got.(type) {
		case string:
			gs = x
		case []string:
			gs = strings.Join(x, ",")
		case []int32:
			var l []string
			for _, e := range x {
				l = append(l, fmt.Sprint(e))
			}
			gs = strings.Join(l, ",")
		case []interface{}:
			var l []string
			for _, e := range x {
				l = append(l, fmt.Sprint(e))
			}
			gs = strings.Join(l, ",")
		case rt.File:
			gs = fileText(x)
		default:
			gs = fmt.Sprint(got)
		}
		if gs != want {
			if rs.op == "getD" && (want == declTagsText || want == declSizesText || want == declLabelsText) {
				// the request leaves the parameter out: it is bound to the declared default
				return sigMark("bound-default-differs/array-parameter") + fmt.Sprintf("bound %s=%q for a request that leaves it out, the declared default is %q", k, gs, want)
			}
			return fmt.Sprintf("bound %s=%q, sent %q", k, gs, want)
		}
	}
	if rs.expBody != "" {
		b, _ := bound["body"].(map[string]interface{})
		if fmt.Sprint(b["t"]) != rs.expBody {
			return fmt.Sprintf("bound body %v, sent token %q", bound["body"], rs.expBody)
		}
		if via := fmt.Sprint(b["via"]); via != rs.ct {
			return fmt.Sprintf("body sent as %q was decoded by the consumer registered for %q", rs.ct, via)
		}
	}
	return ""
}

// scopesFor: the scopes of the alternative of op that the credential behind the principal satisfies.
func scopesFor(op string, principal interface{}, bearer string) string {
	if op == "getS" && bearer != "" && principal == "P:"+bearer {
		return "read"
	}
	return ""
}

// binderFunc is a RequestBinder of the embedding program (what a generated parameter struct is).
type binderFunc func(*http.Request, *middleware.MatchedRoute) error

func (f binderFunc) BindRequest(r *http.Request, route *middleware.MatchedRoute) error {
	return f(r, route)
}

// directFlow drives one request the way a generated server does: RouteInfo, Authorize, then either
// BindAndValidate (on the untyped Context) or (generated) BindValidRequest with a binder of its own followed by
// Respond (on the Context built by NewRoutableContext), reading back what each stage stored in the request it
// returned. A request that must be refused is refused by the stage its class names.
func (s *server) directFlow(rs *reqSpec) string {
	ctx := s.ctx
	if rs.generated {
		ctx = s.gctx
	}
	rr, r1, ok := ctx.RouteInfo(rs.req)
	if rs.refuse == "path" || rs.refuse == "method" {
		if ok || rr != nil {
			return fmt.Sprintf("RouteInfo found a route for %s %s, declared for nothing", rs.req.Method, rs.req.URL.Path)
		}
		return ""
	}
	if !ok || rr == nil || r1 == nil {
		return "RouteInfo found no route"
	}
	if msg := judgeRoute(rs, rr); msg != "" {
		return msg
	}
	if mr := middleware.MatchedRouteFrom(r1); mr != rr {
		return "the request RouteInfo returned does not carry the matched route it returned"
	}
	cur := r1
	p, r2, err := ctx.Authorize(cur, rr)
	if rs.refuse == "nocred" || rs.refuse == "cred" || rs.refuse == "deny" {
		if err == nil {
			return fmt.Sprintf("Authorize admitted (principal %v) a request whose credentials are %v", p, rs.creds)
		}
		// a refusal is no result to reuse: asked again, the same request is refused again
		if p2, _, err2 := ctx.Authorize(cur, rr); err2 == nil {
			return fmt.Sprintf("a second Authorize admitted (principal %v) the request the first refused (%v)", p2, err)
		}
		return ""
	}
	if err != nil {
		return fmt.Sprintf("Authorize: %v", err)
	}
	if len(rs.creds) == 0 {
		if p != nil {
			return fmt.Sprintf("Authorize returned principal %v for a request that carries no credentials", p)
		}
	} else {
		okp := false
		for _, c := range rs.creds {
			if p == "P:"+c {
				okp = true
			}
		}
		if !okp {
			return fmt.Sprintf("Authorize returned principal %v, credentials carried %v", p, rs.creds)
		}
		if r2 == nil {
			return "Authorize returned no request with a principal"
		}
		if sp := middleware.SecurityPrincipalFrom(r2); sp != p {
			return fmt.Sprintf("principal stored in the request %v, returned %v", sp, p)
		}
		got := append([]string(nil), middleware.SecurityScopesFrom(r2)...)
		sort.Strings(got)
		if g, w := strings.Join(got, ","), scopesFor(rs.op, p, rs.bearer); g != w {
			return fmt.Sprintf("scopes stored in the request [%s], the alternative satisfied by %v has [%s]", g, p, w)
		}
	}
	if r2 != nil {
		cur = r2
	}
	var bm map[string]interface{}
	if rs.generated {
		// the binder decodes with the consumer the Context selected for this request, into a map or into a
		// parameter struct of its own
		gp := &genParams{s: s}
		err = ctx.BindValidRequest(cur, rr, gp)
		bm = gp.bound
	} else {
		var bound interface{}
		var r3 *http.Request
		bound, r3, err = ctx.BindAndValidate(cur, rr)
		bm, _ = bound.(map[string]interface{})
		// a later asker holding the request value the binding returned (the operation behind a validating
		// middleware) is told the same outcome, valid or not
		if r3 != nil {
			es, bs := errText(err), boundText(bound)
			bound2, _, err2 := ctx.BindAndValidate(r3, rr)
			if es2, bs2 := errText(err2), boundText(bound2); es2 != es || bs2 != bs {
				return sigMark("binding-memo-differs/direct-flow") + fmt.Sprintf("BindAndValidate on the request value the first BindAndValidate returned: (%.200s, %.200q), first (%.200s, %.200q)", bs2, es2, bs, es)
			}
		}
	}
	switch rs.refuse {
	case "accept", "ct", "ctbad", "query":
		if err == nil {
			return fmt.Sprintf("binding (generated=%v) found nothing wrong with a request of refusal class %q", rs.generated, rs.refuse)
		}
		return ""
	}
	if err != nil {
		return fmt.Sprintf("binding (generated=%v struct=%v): %v", rs.generated, rs.structTarget, err)
	}
	msg := judgeBound(rs, bm)
	// the bound values are the caller's own: it normalises them in place, as a handler may
	seen := takeAndNormalise(bm)
	if msg != "" || !rs.generated {
		return msg
	}
	rec := httptest.NewRecorder()
	var data interface{} = map[string]interface{}{"op": rs.op, "bound": seen}
	switch {
	case rs.fail:
		data = oerrors.New(http.StatusTeapot, "handler of %s fails for %s", rs.op, rs.token)
	case rs.op == "delA":
		res := data
		data = middleware.ResponderFunc(func(rw http.ResponseWriter, pr rt.Producer) {
			rw.WriteHeader(200)
			_ = pr.Produce(rw, res)
		})
	}
	ctx.Respond(rec, cur, rr.Produces, rr, data)
	return judgeResponse(rs, rec)
}

func errText(err error) string {
	if err == nil {
		return ""
	}
	return err.Error()
}

// judgeRoute: the matched route is the one of this request's operation, with this request's path values.
func judgeRoute(rs *reqSpec, rr *middleware.MatchedRoute) string {
	if rr.Operation == nil || rr.Operation.ID != rs.op {
		return fmt.Sprintf("RouteInfo matched %q for a request to %q", rr.PathPattern, rs.op)
	}
	for _, p := range rr.Params {
		if tokenOf(p.Value) != rs.token {
			return fmt.Sprintf("matched-route param %s=%q in a request of token %q", p.Name, p.Value, rs.token)
		}
		if want, ok := rs.expect[p.Name]; ok && p.Value != want {
			return fmt.Sprintf("matched-route param %s=%q, the path carries %q", p.Name, p.Value, want)
		}
	}
	return ""
}

// routeSnap is what an asker can read off a matched route that no later stage of the same request changes.
func routeSnap(rr *middleware.MatchedRoute) string {
	if rr == nil {
		return "<nil>"
	}
	op := "<nil>"
	if rr.Operation != nil {
		op = rr.Operation.ID
	}
	var sb strings.Builder
	fmt.Fprintf(&sb, "pattern=%q operation=%s params=[", rr.PathPattern, op)
	for _, p := range rr.Params {
		fmt.Fprintf(&sb, "%s=%q ", p.Name, p.Value)
	}
	fmt.Fprintf(&sb, "] consumes=%v produces=%v binder=%v", rr.Consumes, rr.Produces, rr.Binder != nil)
	return sb.String()
}

// wrappedFlow is a middleware around the whole handler (access log, metrics, audit): it asks RouteInfo, lets
// the handler serve the request value RouteInfo returned, and looks at the route again when the handler has
// returned. It is an earlier asker that still holds the request value: the route it reads, and the route a new
// RouteInfo on that request value answers, are the ones of its own request.
func (s *server) wrappedFlow(rs *reqSpec, rec *httptest.ResponseRecorder) string {
	ctx, h := s.ctx, s.handler
	if rs.routable {
		ctx, h = s.gctx, s.ghandler
	}
	if rs.front && rs.frontLookup {
		// (it never asks RouteInfo: the request value it hands on carries no route, the router looks it up once)
		return s.frontFlow(rs, rec, ctx, h, nil, rs.req)
	}
	rr, r1, ok := ctx.RouteInfo(rs.req)
	if rs.refuse == "path" || rs.refuse == "method" {
		if ok || rr != nil {
			return fmt.Sprintf("RouteInfo found a route for %s %s, declared for nothing", rs.req.Method, rs.req.URL.Path)
		}
		h.ServeHTTP(rec, rs.req)
		return ""
	}
	if !ok || rr == nil || r1 == nil {
		return "RouteInfo found no route"
	}
	if msg := judgeRoute(rs, rr); msg != "" {
		return msg
	}
	if rs.front {
		return s.frontFlow(rs, rec, ctx, h, rr, r1)
	}
	before := routeSnap(rr)
	h.ServeHTTP(rec, r1)
	if after := routeSnap(rr); after != before {
		return keptRoute + fmt.Sprintf("the route RouteInfo answered before the handler ran read {%s}; after the handler returned it reads {%s}", before, after)
	}
	rr2, _, ok2 := ctx.RouteInfo(r1)
	if !ok2 || rr2 == nil {
		return keptRoute + "RouteInfo on the request value the first RouteInfo returned finds no route after the handler returned"
	}
	if rr2 != rr {
		return keptRoute + "RouteInfo on the request value the first RouteInfo returned answers another MatchedRoute after the handler returned"
	}
	if again := routeSnap(rr2); again != before {
		return keptRoute + fmt.Sprintf("RouteInfo asked again after the handler returned answers {%s}, first {%s}", again, before)
	}
	return ""
}

// frontFlow is an authentication middleware in front of the whole handler: it asks Authorize with the route it
// got (rr/r1: from RouteInfo; frontLookup: it looks the route up itself and holds the request value as it came)
// and lets the handler serve the request value Authorize returned. The handler's own security stage is a later
// asker holding that request value: a request admitted in front (its key may be accepted once only) is not
// turned away inside.
func (s *server) frontFlow(rs *reqSpec, rec *httptest.ResponseRecorder, ctx *middleware.Context, h http.Handler, rr *middleware.MatchedRoute, r1 *http.Request) string {
	cur := r1
	if rs.frontLookup {
		own, ok := ctx.LookupRoute(cur)
		if rs.refuse == "path" || rs.refuse == "method" {
			if ok || own != nil {
				return fmt.Sprintf("LookupRoute found a route for %s %s, declared for nothing", cur.Method, cur.URL.Path)
			}
			h.ServeHTTP(rec, cur)
			return ""
		}
		if !ok || own == nil {
			return "LookupRoute found no route"
		}
		if msg := judgeRoute(rs, own); msg != "" {
			return "LookupRoute: " + msg
		}
		rr = own
	}
	cur.Header.Set("X-Asked", "1") // (the route the handler finds may have been written to by this asker)
	p, r2, err := ctx.Authorize(cur, rr)
	if err == nil && r2 != nil {
		cur = r2
	}
	h.ServeHTTP(rec, cur)
	if err == nil && p != nil && rec.Code == http.StatusUnauthorized {
		return sigMark("authenticated-request-answered-401/front-middleware-then-handler") + fmt.Sprintf("Authorize in front of the handler admitted the request (principal %v); the handler, serving the request value Authorize returned, answered 401 %.100q", p, rec.Body.String())
	}
	return ""
}

// sigMark prefixes a message that has a signature of its own; splitSig takes it off again.
func sigMark(sig string) string { return "\x01" + sig + "\x01" }

func splitSig(msg string) (sig, rest string) {
	if strings.HasPrefix(msg, "\x01") {
		if j := strings.IndexByte(msg[1:], 1); j >= 0 {
			return msg[1 : 1+j], msg[2+j:]
		}
	}
	return "", msg
}

// keptRoute marks the messages of the earlier asker that kept a route across the handler.
var keptRoute = sigMark("matched-route-not-kept/earlier-asker-across-the-handler")

type hookSched struct {
	mu    sync.Mutex
	trace []string
	state uint64
	// route lookups that found a route / request validations, over the run
	lookups, validations int64
}

func (h *hookSched) at(point string) {
	switch point {
	case "mw.route.found":
		atomic.AddInt64(&h.lookups, 1)
	case "mw.validate.afterContentType":
		atomic.AddInt64(&h.validations, 1)
	}
	h.mu.Lock()
	h.state = h.state*6364136223846793005 + 1442695040888963407
	d := h.state >> 59 // 0..31
	if len(h.trace) < 20000 {
		h.trace = append(h.trace, point)
	}
	h.mu.Unlock()
	switch {
	case d < 12:
	case d < 24:
		runtime.Gosched()
	case d < 30:
		for i := 0; i < 3; i++ {
			runtime.Gosched()
		}
	default:
		time.Sleep(time.Duration(10+d) * time.Microsecond)
	}
}

// runConcurrent reports whether requests overlapped (in every repetition).
func runConcurrent(m *mon.M, cfg *RunCfg) bool {
	rep := cfg.Repeat
	if rep <= 0 {
		rep = 1
	}
	all := true
	for k := 0; k < rep; k++ {
		all = runConcurrentOnce(m, cfg, int64(k)) && all
	}
	return all
}

func runConcurrentOnce(m *mon.M, cfg *RunCfg, salt int64) (overlap bool) {
	s, err := buildServer()
	if err != nil {
		m.Violate("harness-build-failed", err.Error(), cfg)
		return false
	}
	prev := runtime.GOMAXPROCS(cfg.MaxProcs)
	defer runtime.GOMAXPROCS(prev)
	hs := &hookSched{state: uint64(cfg.Seed*31 + salt + 7)}
	verifhook.Set(hs.at)
	defer verifhook.Set(nil)

	var inflight, maxInflight int64
	var wg sync.WaitGroup
	var mu sync.Mutex
	var bad []string
	badOwn := map[string][]string{}
	badRefusal := map[string][]string{}
	nByClass := map[string]int64{}
	var served int64
	// requests that have a route (each is looked up exactly once, whoever asks first) / requests whose flow
	// asks BindAndValidate (each is validated at most once)
	var routed, validating int64
	start := make(chan struct{})
	for g := 0; g < cfg.Goroutines; g++ {
		wg.Add(1)
		go func(g int) {
			defer wg.Done()
			r := rand.New(rand.NewSource(cfg.Seed*1000003 + int64(g)*7919 + salt))
			<-start
			for i := 0; i < cfg.PerG; i++ {
				token := fmt.Sprintf("t%dx%dy%d", g, i, salt)
				rs := mkRequest(r, token)
				rec := httptest.NewRecorder()
				n := atomic.AddInt64(&inflight, 1)
				for {
					mx := atomic.LoadInt64(&maxInflight)
					if n <= mx || atomic.CompareAndSwapInt64(&maxInflight, mx, n) {
						break
					}
				}
				if rs.refuse != "path" && rs.refuse != "method" {
					atomic.AddInt64(&routed, 1)
					if (rs.direct && !rs.generated) || (!rs.direct && !rs.routable) {
						atomic.AddInt64(&validating, 1)
					}
				}
				var msg string
				pv, st := mon.Catch(func() {
					switch {
					case rs.direct:
						msg = s.directFlow(rs)
					case rs.wrapped:
						msg = s.wrappedFlow(rs, rec)
					case rs.routable:
						s.ghandler.ServeHTTP(rec, rs.req)
					default:
						s.handler.ServeHTTP(rec, rs.req)
					}
				})
				atomic.AddInt64(&inflight, -1)
				atomic.AddInt64(&served, 1)
				if pv != nil {
					msg = fmt.Sprintf("panic: %v\n%s", pv, st)
				} else if !rs.direct && msg == "" {
					msg = judgeResponse(rs, rec)
				}
				if msg == "" && rs.refuse != "" {
					if _, ran := s.ran.Load(token); ran {
						msg = fmt.Sprintf("the operation handler ran for a request that must be refused (class %q)", rs.refuse)
					}
				}
				if msg == "" && rs.refuse == "" && !rs.direct {
					// a request that is served is served by the handler of its own operation
					if op, _ := s.ran.Load(token); op != rs.op {
						msg = fmt.Sprintf("the request was answered %d but the handler that ran for its token is %v, not the one of %s", rec.Code, op, rs.op)
					}
				}
				mu.Lock()
				nByClass[rs.refuse]++
				if rs.fail {
					nByClass["handler-error"]++
				}
				if rs.refuse == "" && (rs.op == "delN" || rs.op == "headH") {
					nByClass["no-body-answer"]++
				}
				if rs.wrapped && rs.front && !rs.direct {
					nByClass["authenticated-in-front-of-the-handler"]++
				}
				if isFormOp(rs.op) && rs.refuse == "" {
					nByClass["form-binding"]++
				}
				if !rs.direct && !rs.routable && rs.req.Header.Get("X-Validate") != "" && rs.refuse != "path" && rs.refuse != "method" {
					nByClass["validated-in-front-of-the-operation"]++
				}
				if msg != "" {
					flow := "served"
					switch {
					case rs.direct && rs.generated:
						flow = "direct/generated"
					case rs.direct:
						flow = "direct/untyped"
					case rs.wrapped:
						flow = "wrapped"
					}
					own, text := splitSig(msg)
					line := fmt.Sprintf("[%s %s token=%s flow=%s routable=%v struct=%v] %s", rs.req.Method, rs.req.URL.RequestURI(), token, flow, rs.routable || (rs.direct && rs.generated), rs.structTarget, text)
					if own != "" {
						if len(badOwn[own]) < 10 {
							badOwn[own] = append(badOwn[own], line)
						}
					} else if rs.refuse != "" && rs.refuse != "nocred" && pv == nil {
						if len(badRefusal[rs.refuse]) < 10 {
							badRefusal[rs.refuse] = append(badRefusal[rs.refuse], line)
						}
					} else if len(bad) < 20 {
						bad = append(bad, line)
					}
				}
				mu.Unlock()
			}
		}(g)
	}
	close(start)
	wg.Wait()
	m.Eval(int(served))
	hs.mu.Lock()
	th := fmt.Sprintf("%x", mon.Hash64(strings.Join(hs.trace, ",")))
	ntrace := len(hs.trace)
	hs.mu.Unlock()
	if maxInflight >= 2 {
		m.NT("run|" + th)
	}
	m.SetAdd("gomaxprocs", fmt.Sprint(cfg.MaxProcs))
	m.SetAdd("distinct-hook-interleavings", th)
	m.Note("hook_events", int64(ntrace))
	m.Note("concurrent_runs", 1)
	m.Note("requests_served_concurrently", served)
	if maxInflight > 1 {
		m.Note("runs_with_overlap", 1)
	}
	m.Class(fmt.Sprintf("max-inflight-%s", bucket(maxInflight)))
	one := *cfg
	one.Repeat = 20
	if len(bad) > 0 {
		m.Violate("cross-talk-or-wrong-response", strings.Join(bad, "\n"), &one)
	}
	for sig, l := range badOwn {
		m.Violate(sig, strings.Join(l, "\n"), &one)
	}
	// every request that has a route is looked up once, by whoever asks first (the wrapping middleware, the
	// router, the first accessor of a direct flow); every later asker is served from the request value
	if lk := atomic.LoadInt64(&hs.lookups); lk > routed {
		m.Violate("route-looked-up-again/concurrent-run", fmt.Sprintf("%d route lookups found a route in a run of %d requests that have one: a later asker looked the route up again", lk, routed), &one)
	} else if lk < routed {
		m.Class("fewer-lookups-than-routed-requests")
	}
	if nv := atomic.LoadInt64(&hs.validations); nv > validating {
		m.Violate("request-validated-again/concurrent-run", fmt.Sprintf("%d request validations in a run in which %d requests are bound through BindAndValidate, once each", nv, validating), &one)
	}
	m.Note("route_lookups", atomic.LoadInt64(&hs.lookups))
	m.Note("routed_requests", routed)
	s.unrouted.mu.Lock()
	if len(s.unrouted.list) > 0 {
		m.Violate("builder-did-not-see-matched-route", strings.Join(s.unrouted.list, "\n"), &one)
	}
	s.unrouted.mu.Unlock()
	for class, l := range badRefusal {
		m.Violate("refusal-under-concurrency/"+class, strings.Join(l, "\n"), &one)
	}
	for class, n := range nByClass {
		switch class {
		case "":
		case "handler-error", "no-body-answer", "authenticated-in-front-of-the-handler", "form-binding", "validated-in-front-of-the-operation":
			m.Note("concurrent_"+class, n)
		default:
			m.Note("concurrent_refusals_"+class, n)
		}
	}
	s.xt.mu.Lock()
	if len(s.xt.list) > 0 {
		m.Violate("in-pipeline-cross-talk", strings.Join(s.xt.list, "\n"), &one)
	}
	s.xt.mu.Unlock()
	s.bothMu.Lock()
	if len(s.hist) > 0 {
		m.Violate("admitting-alternative-depends-on-other-requests/two-alternatives-satisfied", strings.Join(s.hist, "\n"), &one)
	}
	s.bothMu.Unlock()
	if m.WantSample() {
		m.Sample(map[string]interface{}{"cfg": cfg, "served": served, "max_inflight": maxInflight, "hook_events": ntrace, "trace_hash": th})
	}
	return maxInflight >= 2
}

func bucket(n int64) string {
	switch {
	case n <= 1:
		return "1"
	case n <= 3:
		return "2-3"
	case n <= 8:
		return "4-8"
	case n <= 16:
		return "9-16"
	}
	return "17+"
}

// ---------- (b) memoisation history ----------

// SeqCase is one request shape plus an accessor sequence.
type SeqCase struct {
	Op     string   `json:"op"`     // getA | postA | getB
	Cred   string   `json:"cred"`   // good | bad | none
	CT     string   `json:"ct"`     // content type header ("" = none)
	Accept string   `json:"accept"` // Accept header
	Body   bool     `json:"body"`
	Steps  []string `json:"steps"` // R C F A B X(resetAuth) P(Respond) G(BindValidRequest into a struct) S(serve through the handler)
	// and the steps that only change which MatchedRoute VALUE the later A / B / G / P hand in, next to the threaded
	// request value: L (a fresh one from LookupRoute on the threaded request; as the first step: the asker never
	// asked RouteInfo, as an authentication middleware in front of the handler), M (MatchedRouteFrom on the
	// threaded request). Cred "once": a key its authenticator accepts once only.
	// Escaped: the request path carries percent-escapes
	Escaped bool `json:"escapedPath,omitempty"`
	// Token: the client's token, carried by every value of the request ("" = "seq")
	Token string `json:"token,omitempty"`
	// N: postV's required integer query parameter: "" = valid | missing | bad
	N string `json:"n,omitempty"`
	// Before: the request is first asked once on its own, then another client sends a request with this
	// credential kind to the same operation, then the sequence runs: it must be granted the same
	Before string `json:"before,omitempty"`
	// RewriteCT: after the first successful ContentType the Content-Type header is replaced by another valid one
	RewriteCT bool `json:"rewriteCT,omitempty"`
	// Routable: the accessors are those of the Context generated servers build (NewRoutableContext over a
	// RoutableAPI), and step S serves through its handler
	Routable bool `json:"routable,omitempty"`
	// StructBind: step G binds into a parameter struct
	StructBind bool `json:"structBind,omitempty"`
	// Form (postF, postU): the body is a form of this kind: urlencoded | multipart (with a file); FormLacks: the
	// required form field (postU: the required file) is left out
	Form      string `json:"form,omitempty"`
	FormLacks bool   `json:"formLacks,omitempty"`
	// ValidateInFront: when step S serves the request, a middleware between the router and the operation asks
	// BindAndValidate and hands the request value it was returned on to the operation
	ValidateInFront bool `json:"validateInFront,omitempty"`

	// quiet: the sequence is judged but not counted as non-trivial (see run)
	quiet bool
}

type countingBody struct {
	r          io.Reader
	reads      int
	eofSeen    bool
	readsAfter int
	closed     int
}

func (c *countingBody) Read(p []byte) (int, error) {
	if c.eofSeen || c.closed > 0 {
		c.readsAfter++
	}
	c.reads++
	n, err := c.r.Read(p)
	if err == io.EOF {
		c.eofSeen = true
	}
	return n, err
}
func (c *countingBody) Close() error { c.closed++; return nil }

// seqRequest builds the request of a sequence case for one client (token) and credential kind, and lists the
// principals its credentials can yield.
func seqRequest(sc *SeqCase, token, cred string, withBody bool) (*http.Request, *countingBody, []interface{}) {
	esc := ""
	if sc.Escaped {
		esc = "%20%C3%A9" // the path needs escaping: memoisation must not depend on how the path is spelled
	}
	v := func(x string) string { return token + "~" + x }
	var req *http.Request
	var cb *countingBody
	var cands []interface{}
	target := ""
	method := "GET"
	switch sc.Op {
	case "postA":
		method = "POST"
		target = "/api/a/" + v("id") + esc + "?tok=" + v("tk")
		if cred == "bad" {
			target = "/api/a/" + v("id") + esc + "?tok=" + v("tk") + "~bad"
		}
		if cred == "none" {
			target = "/api/a/" + v("id") + esc
		}
		if cred != "bad" && cred != "none" {
			cands = append(cands, "P:"+v("tk"))
		}
	case "getB":
		target = "/api/b/" + v("x") + esc + "?q=" + v("q")
	case "getS":
		target = "/api/s/" + v("id") + esc + "?q=" + v("q")
	case "postV":
		method = "POST"
		target = "/api/v/" + v("id") + esc
		switch sc.N {
		case "missing":
		case "bad":
			target += "?n=many"
		default:
			target += "?n=7"
		}
	case "postF", "postU":
		method = "POST"
		target = "/api/" + map[string]string{"postF": "f", "postU": "u"}[sc.Op] + "/" + v("id") + esc
	default:
		target = "/api/a/" + v("id") + esc + "?q=" + v("q")
	}
	if withBody && isFormOp(sc.Op) {
		name, file := v("name"), "file of "+v("doc")
		if sc.FormLacks && sc.Op == "postF" {
			name = ""
		}
		if sc.FormLacks && sc.Op == "postU" {
			file = ""
		}
		text := formBody(sc.Form, name, 36, file)
		cb = &countingBody{r: strings.NewReader(text)}
		req = httptest.NewRequest(method, target, cb)
		req.ContentLength = int64(len(text)) // (a form comes with its length; the JSON bodies come without)
	} else if withBody {
		cb = &countingBody{r: strings.NewReader(fmt.Sprintf(`{"t":%q}`, token))}
		req = httptest.NewRequest(method, target, cb)
		req.ContentLength = -1 // unknown length: the body itself is probed
	} else {
		req = httptest.NewRequest(method, target, nil)
	}
	switch cred {
	case "good":
		req.Header.Set("X-Key", v("k"))
		cands = append(cands, "P:"+v("k"))
	case "bad":
		req.Header.Set("X-Key", v("k")+"~bad")
	case "zero":
		req.Header.Set("X-Key", v("k")+"~zero")
		cands = append(cands, "")
	case "deny":
		// a principal the application's authorizer refuses
		req.Header.Set("X-Key", v("k")+"~deny")
		cands = append(cands, "P:"+v("k")+"~deny")
	case "once":
		// a key its authenticator accepts the first time it is consulted about it, and never again
		req.Header.Set("X-Key", v("k")+"~once")
		cands = append(cands, "P:"+v("k")+"~once")
	case "bearer":
		req.Header.Set("Authorization", "Bearer "+v("b"))
		cands = append(cands, "P:"+v("b"))
	case "both":
		req.Header.Set("X-Key", v("k"))
		req.Header.Set("Authorization", "Bearer "+v("b"))
		cands = append(cands, "P:"+v("k"), "P:"+v("b"))
	}
	if sc.CT != "" {
		req.Header.Set("Content-Type", sc.CT)
	}
	if sc.Accept != "" {
		req.Header.Set("Accept", sc.Accept)
	}
	req.Header.Set("X-Token", token)
	return req, cb, cands
}

// ctParsed: what the Content-Type headers of the sequence generator say (media type, charset).
var ctParsed = map[string][2]string{
	"application/json":                           {"application/json", ""},
	"application/json; charset=utf-8":            {"application/json", "utf-8"},
	"text/plain":                                 {"text/plain", ""},
	"text/plain;charset=ISO-8859-1":              {"text/plain", "ISO-8859-1"},
	"Application/JSON; Charset=\"utf-16\"; q=1":  {"application/json", "utf-16"},
	formURLEncoded:                               {formURLEncoded, ""},
	formMultipart + "; boundary=" + formBoundary: {formMultipart, ""},
}

func scopeString(r *http.Request) string {
	if r == nil {
		return ""
	}
	l := append([]string(nil), middleware.SecurityScopesFrom(r)...)
	sort.Strings(l)
	return strings.Join(l, ",")
}

// authOutcome is what one asker learns from Authorize.
type authOutcome struct {
	refused   bool
	principal interface{}
	scopes    string
}

func (a authOutcome) String() string {
	if a.refused {
		return "refused"
	}
	return fmt.Sprintf("principal %v scopes [%s]", a.principal, a.scopes)
}

// authorizeOnce sends one fresh request through RouteInfo and Authorize.
func authorizeOnce(ctx *middleware.Context, req *http.Request) (out authOutcome, ok bool) {
	pv, _ := mon.Catch(func() {
		rr, r1, found := ctx.RouteInfo(req)
		if !found {
			return
		}
		p, r2, err := ctx.Authorize(r1, rr)
		out = authOutcome{refused: err != nil, principal: p, scopes: scopeString(r2)}
		ok = true
	})
	return out, ok && pv == nil
}

func runSequence(m *mon.M, s *server, sc *SeqCase, cfg *RunCfg) {
	token := sc.Token
	if token == "" {
		token = "seq"
	}
	req, cb, cands := seqRequest(sc, token, sc.Cred, sc.Body)
	ctx, handler := s.ctx, s.handler
	if sc.Routable {
		ctx, handler = s.gctx, s.ghandler
	}
	if sc.StructBind {
		req.Header.Set("X-Bind", "struct")
	}
	bearer := ""
	if sc.Cred == "bearer" || sc.Cred == "both" {
		bearer = token + "~b"
	}
	fail := func(sig, detail string) {
		one := &RunCfg{Kind: "sequence", Seq: sc}
		m.Violate(sig, fmt.Sprintf("%s ; case op=%s cred=%s ct=%q accept=%q body=%v n=%q before=%q routable=%v steps=%v", detail, sc.Op, sc.Cred, sc.CT, sc.Accept, sc.Body, sc.N, sc.Before, sc.Routable, sc.Steps), one)
	}

	// what this request is granted when nothing precedes it here, then another client's request to the same
	// operation: the sequence below must be granted the same, whatever was served in between
	var probe authOutcome
	probed := false
	if sc.Before != "" && sc.Cred != "once" { // (asking a one-time key's request beforehand would spend the key)
		pr, _, _ := seqRequest(sc, token, sc.Cred, false)
		probe, probed = authorizeOnce(ctx, pr)
		other, _, _ := seqRequest(sc, "other", sc.Before, false)
		authorizeOnce(ctx, other)
	}

	var lookups, validations int64
	verifhook.Set(func(p string) {
		switch p {
		case "mw.route.found":
			atomic.AddInt64(&lookups, 1)
		case "mw.validate.afterContentType":
			atomic.AddInt64(&validations, 1)
		}
	})
	defer verifhook.Set(nil)
	atomic.StoreInt64(&s.authCalls, 0)
	atomic.StoreInt64(&s.consumed, 0)

	cur := req
	// route: the MatchedRoute value the asker hands in next to the request value (the one RouteInfo answered, or
	// another one of the same request: L, M); infoRoute: the one the first RouteInfo answered, kept with the request
	var route, infoRoute *middleware.MatchedRoute
	// reference flags
	var routeMemo, ctMemo, fmtMemo, authMemo, bindMemo bool
	var memoCT, memoCS, memoFmt string
	var memoPrincipal interface{}
	var memoScopes string
	var memoBindErr string
	var memoBound string
	ctRewritten := false
	// what the matched route read when it was first answered; served: the handler has served the request value
	var routeFirst string
	served := false
	// freshRoute: some step handed in a MatchedRoute value obtained by a lookup of the asker's own
	freshRoute := false
	// frontFlow: the handler served a request value that carried a principal and no route (authenticated in front of it)
	frontFlow := false
	// formBound: a first BindAndValidate bound a form, validly
	formBound := false
	// ctBeforeBind: ContentType had answered on the threaded request value before the first BindAndValidate
	ctBeforeBind := false
	for i, st := range sc.Steps {
		before := struct{ l, a, c, v int64 }{atomic.LoadInt64(&lookups), atomic.LoadInt64(&s.authCalls), atomic.LoadInt64(&s.consumed), atomic.LoadInt64(&validations)}
		readsBefore := 0
		if cb != nil {
			readsBefore = cb.reads
		}
		var stepErr interface{}
		switch st {
		case "R":
			stepErr, _ = mon.Catch(func() {
				rr, r2, ok := ctx.RouteInfo(cur)
				if routeMemo && (!ok || rr == nil) {
					fail("route-memo-lost", fmt.Sprintf("step %d RouteInfo finds no route on the request value that carries one", i))
				}
				if ok {
					if routeMemo {
						if atomic.LoadInt64(&lookups) != before.l {
							fail("route-recomputed", fmt.Sprintf("step %d RouteInfo looked the route up again", i))
						}
						if rr != infoRoute {
							fail("route-memo-differs", fmt.Sprintf("step %d RouteInfo returned a different MatchedRoute", i))
						} else if now := routeSnap(rr); now != routeFirst {
							// what a later asker is handed is the route of this request, as it was found
							fail("route-memo-differs/content", fmt.Sprintf("step %d RouteInfo answers {%s}, the first asker was answered {%s}", i, now, routeFirst))
						}
					} else if rr != nil {
						routeFirst = routeSnap(rr)
						// first answer: the route of this request, with this request's path values
						if rr.Operation == nil || rr.Operation.ID != sc.Op {
							fail("route-of-another-request", fmt.Sprintf("step %d RouteInfo matched %q", i, rr.PathPattern))
						}
						for _, p := range rr.Params {
							if !strings.HasPrefix(p.Value, token+"~") {
								fail("route-of-another-request", fmt.Sprintf("step %d matched-route param %s=%q in the request of token %q", i, p.Name, p.Value, token))
							}
						}
					}
					route = rr
					if !routeMemo {
						infoRoute = rr
					}
					routeMemo = true
					if r2 != nil {
						cur = r2
					}
				}
			})
		case "L":
			// another MatchedRoute value of the same request: an asker that looks the route up itself (LookupRoute
			// is no memoising accessor: it always looks up, and stores nothing) and hands that value in from now on.
			// What the request value carries is untouched: every stage that has a result on it stays a memo hit.
			stepErr, _ = mon.Catch(func() {
				rr, ok := ctx.LookupRoute(cur)
				if !ok || rr == nil {
					if routeMemo {
						fail("lookup-finds-no-route/request-that-carries-one", fmt.Sprintf("step %d LookupRoute finds no route for the request RouteInfo found one for", i))
					}
					return
				}
				if rr.Operation == nil || rr.Operation.ID != sc.Op {
					fail("route-of-another-request/lookup", fmt.Sprintf("step %d LookupRoute matched %q", i, rr.PathPattern))
				}
				for _, p := range rr.Params {
					if !strings.HasPrefix(p.Value, token+"~") {
						fail("route-of-another-request/lookup", fmt.Sprintf("step %d looked-up route param %s=%q in the request of token %q", i, p.Name, p.Value, token))
					}
				}
				if now := routeSnap(rr); routeMemo && now != routeFirst {
					// both are derived from this request alone
					fail("lookup-differs-from-route-info", fmt.Sprintf("step %d LookupRoute answers {%s}, RouteInfo answered {%s} for the same request", i, now, routeFirst))
				}
				route = rr
				freshRoute = true
			})
		case "M":
			stepErr, _ = mon.Catch(func() {
				mr := middleware.MatchedRouteFrom(cur)
				if routeMemo && mr != infoRoute {
					fail("route-memo-differs/matched-route-from", fmt.Sprintf("step %d MatchedRouteFrom on the threaded request value does not answer the MatchedRoute RouteInfo answered (nil: %v)", i, mr == nil))
				}
				if mr != nil {
					route = mr
				}
			})
		case "C":
			stepErr, _ = mon.Catch(func() {
				mt, cs, r2, err := ctx.ContentType(cur)
				if err == nil {
					if ctMemo {
						if mt != memoCT {
							fail("content-type-memo-differs", fmt.Sprintf("step %d ContentType %q, first %q", i, mt, memoCT))
						} else if cs != memoCS {
							// what later askers are handed is the result the stage produced: all of it
							fail("content-type-memo-differs/charset", fmt.Sprintf("step %d ContentType (%q, charset %q), the first asker was told (%q, charset %q)", i, mt, cs, memoCT, memoCS))
						}
					} else if want, known := ctParsed[sc.CT]; known && (mt != want[0] || !strings.EqualFold(cs, want[1])) {
						// first answer: parsed from this request's header
						fail("content-type-first-answer-wrong", fmt.Sprintf("step %d ContentType (%q, charset %q) for the header %q", i, mt, cs, sc.CT))
					}
					if !ctMemo {
						ctMemo, memoCT, memoCS = true, mt, cs
					}
					if r2 != nil {
						cur = r2
					}
					if !ctRewritten && sc.RewriteCT {
						// a later asker holding the returned request is served the parsed value, not a new parse:
						// the header is rewritten (as a middleware may) to make a new parse visible
						ctRewritten = true
						if mt == "text/plain" {
							cur.Header.Set("Content-Type", "application/json")
						} else {
							cur.Header.Set("Content-Type", "text/plain; charset=koi8-r")
						}
					}
				}
			})
		case "F":
			stepErr, _ = mon.Catch(func() {
				offers := []string{"application/json", "text/plain"}
				switch {
				case i%3 == 1:
					offers = []string{"text/plain", "application/json"} // a later asker may offer differently: the memo wins
				case i%3 == 2 && fmtMemo:
					// ... even when it does not offer the negotiated format at all
					if memoFmt == "application/json" {
						offers = []string{"text/plain"}
					} else {
						offers = []string{"application/json"}
					}
				}
				f, r2 := ctx.ResponseFormat(cur, offers)
				if fmtMemo && f != memoFmt {
					fail("format-renegotiated", fmt.Sprintf("step %d ResponseFormat %q, first successful negotiation gave %q", i, f, memoFmt))
				}
				if f != "" {
					fmtMemo, memoFmt = true, f
				}
				if r2 != nil {
					cur = r2
				}
			})
		case "A":
			if route == nil || served {
				continue
			}
			stepErr, _ = mon.Catch(func() {
				p, r2, err := ctx.Authorize(cur, route)
				calls := atomic.LoadInt64(&s.authCalls) - before.a
				if authMemo {
					if calls != 0 {
						fail("authenticator-consulted-again", fmt.Sprintf("step %d Authorize consulted an authenticator %d more time(s) although a principal was memoised", i, calls))
					}
					if err != nil || p != memoPrincipal {
						fail("principal-memo-differs", fmt.Sprintf("step %d Authorize returned (%v, %v), memoised principal %v", i, p, err, memoPrincipal))
					} else if now := scopeString(r2); now != memoScopes {
						fail("scopes-memo-differ", fmt.Sprintf("step %d Authorize left scopes [%s], first [%s]", i, now, memoScopes))
					}
				} else if route.HasAuth() {
					got := authOutcome{refused: err != nil, principal: p, scopes: scopeString(r2)}
					if sc.Cred == "deny" && err == nil && (sc.Op == "getA" || sc.Op == "getB" || sc.Op == "getS") {
						// the only credential of the request identifies a principal the authorizer refuses
						fail("refused-principal-admitted", fmt.Sprintf("step %d Authorize admitted principal %v, which the application's authorizer refuses", i, p))
					}
					// computed from this request: its own credentials identify it, the stored principal is the
					// returned one, the scopes are those of the alternative its credential satisfies
					if err == nil && p != nil {
						okp := false
						for _, c := range cands {
							if p == c {
								okp = true
							}
						}
						switch {
						case !okp:
							fail("principal-of-another-request", fmt.Sprintf("step %d Authorize returned principal %v, the request's credentials yield %v", i, p, cands))
						case r2 == nil || middleware.SecurityPrincipalFrom(r2) != p:
							fail("stored-principal-differs", fmt.Sprintf("step %d Authorize returned principal %v, the returned request carries %v", i, p, middleware.SecurityPrincipalFrom(r2)))
						case got.scopes != scopesFor(sc.Op, p, bearer):
							fail("scopes-not-of-admitting-alternative", fmt.Sprintf("step %d Authorize stored scopes [%s], the alternative satisfied by %v has [%s]", i, got.scopes, p, scopesFor(sc.Op, p, bearer)))
						}
					}
					if probed {
						probed = false
						if got.refused != probe.refused || got.principal != probe.principal || got.scopes != probe.scopes {
							fail("grant-depends-on-earlier-requests/cred-"+sc.Cred+"-after-"+sc.Before,
								fmt.Sprintf("step %d Authorize: %v; the same request asked before another client's %q request: %v", i, got, sc.Before, probe))
						}
					}
				}
				if err == nil && p != nil {
					authMemo, memoPrincipal, memoScopes = true, p, scopeString(r2)
				}
				if r2 != nil {
					cur = r2
				}
			})
		case "X":
			if served {
				continue
			}
			stepErr, _ = mon.Catch(func() {
				cur = ctx.ResetAuth(cur)
				authMemo, memoPrincipal = false, nil
			})
		case "P":
			// Respond is a later asker of the format: it answers in the format a successful negotiation on this
			// request value produced, whatever the list it is called with
			if route == nil {
				continue
			}
			stepErr, _ = mon.Catch(func() {
				produces := append([]string(nil), route.Produces...)
				if fmtMemo && i%2 == 0 {
					if memoFmt == "application/json" {
						produces = []string{"text/plain"}
					} else {
						produces = []string{"application/json"}
					}
				}
				rec := httptest.NewRecorder()
				ctx.Respond(rec, cur, produces, route, map[string]interface{}{"t": token})
				if got := rec.Header().Get("Content-Type"); fmtMemo && got != memoFmt {
					fail("respond-renegotiated-format", fmt.Sprintf("step %d Respond (produces %v) answered with Content-Type %q, the successful negotiation on this request value gave %q", i, produces, got, memoFmt))
				}
				if atomic.LoadInt64(&lookups) != before.l || atomic.LoadInt64(&s.authCalls) != before.a || atomic.LoadInt64(&s.consumed) != before.c {
					fail("respond-recomputed-a-stage", fmt.Sprintf("step %d Respond looked a route up, consulted an authenticator or ran a consumer", i))
				}
			})
		case "G":
			// the parameter object of a generated server binds into a struct (no body: BindValidRequest keeps no result)
			if route == nil || served || sc.Body || !sc.StructBind {
				continue
			}
			stepErr, _ = mon.Catch(func() {
				gp := &genParams{s: s}
				if err := ctx.BindValidRequest(cur, route, gp); err == nil {
					for _, k := range []string{"id", "x", "q"} {
						if sv, ok := gp.bound[k].(string); ok && !strings.HasPrefix(sv, token+"~") {
							fail("bound-values-of-another-request/struct-target", fmt.Sprintf("step %d bound %s=%q in the request of token %q", i, k, sv, token))
						}
					}
				}
			})
		case "S":
			// the whole handler serves the request value the accessors have been threading: every stage that has
			// a result on it is a memo hit inside, and the route the earlier askers hold is still theirs afterwards
			if route == nil || served || (sc.Routable && bindMemo) {
				continue
			}
			stepErr, _ = mon.Catch(func() {
				cur.Header.Set("X-Asked", "1")
				if sc.ValidateInFront {
					cur.Header.Set("X-Validate", "1")
				}
				rec := httptest.NewRecorder()
				handler.ServeHTTP(rec, cur)
				served = true
				if !sc.Routable && atomic.LoadInt64(&validations)-before.v > 1 {
					// whoever asks first inside the handler (a validating middleware, the operation), every later one
					// holds the request value the first was returned
					fail("binding-recomputed/inside-the-handler", fmt.Sprintf("step %d the handler validated one request %d times (validating middleware in front of the operation: %v); answered %d %.100q", i, atomic.LoadInt64(&validations)-before.v, sc.ValidateInFront, rec.Code, rec.Body.String()))
				}
				if routeMemo && atomic.LoadInt64(&lookups) != before.l {
					fail("route-recomputed/by-the-handler", fmt.Sprintf("step %d the handler looked the route up again for a request value that carries it", i))
				}
				if !routeMemo && atomic.LoadInt64(&lookups)-before.l > 1 {
					// the request value carried no route: the router looks it up, every later stage of the handler is
					// a later asker of the request value the router was returned
					fail("route-recomputed/inside-the-handler", fmt.Sprintf("step %d the handler looked the route up %d times for one request", i, atomic.LoadInt64(&lookups)-before.l))
				}
				if authMemo && atomic.LoadInt64(&s.authCalls) != before.a {
					fail("authenticator-consulted-again/by-the-handler", fmt.Sprintf("step %d the handler consulted an authenticator although the request value carries a principal", i))
				}
				if authMemo && !routeMemo {
					frontFlow = true
				}
				if authMemo && rec.Code == http.StatusUnauthorized {
					// what a second consultation costs: the request Authorize had just admitted is turned away (its
					// key is accepted once)
					fail("authenticated-request-answered-401/by-the-handler", fmt.Sprintf("step %d the handler answered 401 %.100q to the request value Authorize returned with principal %v", i, rec.Body.String(), memoPrincipal))
				}
				if bindMemo && !sc.Routable {
					if atomic.LoadInt64(&s.consumed) != before.c {
						fail("body-consumed-again/by-the-handler", fmt.Sprintf("step %d the handler ran the consumer again", i))
					}
					if atomic.LoadInt64(&validations) != before.v {
						fail("binding-recomputed/by-the-handler", fmt.Sprintf("step %d the handler validated the request again", i))
					}
					if cb != nil && cb.reads != readsBefore {
						fail("body-read-again/by-the-handler", fmt.Sprintf("step %d the handler read the body (%d Read calls) of a request value that carries the outcome of its binding", i, cb.reads-readsBefore))
					}
				}
				if now := routeSnap(infoRoute); infoRoute != nil && now != routeFirst {
					fail("matched-route-not-kept/after-the-handler", fmt.Sprintf("step %d after the handler returned, the route the first RouteInfo answered reads {%s}; it read {%s}", i, now, routeFirst))
				}
			})
		case "B":
			if route == nil || served {
				continue
			}
			stepErr, _ = mon.Catch(func() {
				bound, r2, err := ctx.BindAndValidate(cur, route)
				es := ""
				if err != nil {
					es = err.Error()
				}
				bs := boundText(bound)
				if !bindMemo {
					ctBeforeBind = ctMemo
				}
				if bindMemo {
					if atomic.LoadInt64(&s.consumed) != before.c {
						fail("body-consumed-again", fmt.Sprintf("step %d BindAndValidate ran the consumer again", i))
					}
					if cb != nil && cb.reads != readsBefore {
						// (a form body is read by the binding itself, no consumer runs)
						fail("body-read-again", fmt.Sprintf("step %d BindAndValidate read the body again (%d Read calls) although the request value carries the outcome of its binding", i, cb.reads-readsBefore))
					}
					if atomic.LoadInt64(&validations) != before.v {
						fail("binding-recomputed", fmt.Sprintf("step %d BindAndValidate validated the request again (first outcome: %q)", i, memoBindErr))
					}
					if es != memoBindErr || bs != memoBound {
						fail("binding-memo-differs", fmt.Sprintf("step %d BindAndValidate (%s, %q), first (%s, %q)", i, bs, es, memoBound, memoBindErr))
					}
				}
				if !bindMemo && ctMemo && sc.Body && (sc.Op == "postA" || sc.Op == "postV") && sc.N == "" && sc.Accept != "image/png" {
					// the first binding after the content type was parsed is a later asker of that stage: it is
					// served the parsed value (the header may have been rewritten since), so the JSON body of
					// this otherwise valid request is admitted iff the parsed media type is the one the
					// operation consumes
					admitted := memoCT == "application/json"
					switch {
					case admitted && err != nil:
						fail("binding-ignores-parsed-content-type/admitted", fmt.Sprintf("step %d first BindAndValidate: %q, although ContentType had answered %q", i, es, memoCT))
					case !admitted && err == nil:
						fail("binding-ignores-parsed-content-type/not-admitted", fmt.Sprintf("step %d first BindAndValidate bound %s, although ContentType had answered %q, which the operation does not consume", i, bs, memoCT))
					case !admitted && atomic.LoadInt64(&s.consumed) != before.c:
						fail("binding-ignores-parsed-content-type/not-admitted-consumed", fmt.Sprintf("step %d first BindAndValidate ran a consumer, although ContentType had answered %q, which the operation does not consume", i, memoCT))
					}
				}
				if bm, ok := bound.(map[string]interface{}); ok && err == nil && !bindMemo {
					// first outcome, valid: the values are this request's
					for _, k := range []string{"id", "x", "q"} {
						if sv, ok := bm[k].(string); ok && !strings.HasPrefix(sv, token+"~") {
							fail("bound-values-of-another-request", fmt.Sprintf("step %d bound %s=%q in the request of token %q", i, k, sv, token))
						}
					}
					if body, ok := bm["body"].(map[string]interface{}); ok && sc.Body && fmt.Sprint(body["t"]) != token {
						fail("bound-values-of-another-request", fmt.Sprintf("step %d bound body %v in the request of token %q", i, body, token))
					}
					if isFormOp(sc.Op) && sc.Body {
						// the form fields this request sent (and its file, in a multipart form)
						formBound = true
						if sv, ok := bm["name"].(string); ok && sv != "" && sv != token+"~name" {
							fail("bound-values-of-another-request/form", fmt.Sprintf("step %d bound name=%q in the request of token %q", i, sv, token))
						}
						if f, ok := bm["doc"].(rt.File); ok && f.Data != nil {
							if txt := fileText(f); txt != "file of "+token+"~doc" {
								fail("bound-values-of-another-request/form", fmt.Sprintf("step %d bound file %q in the request of token %q", i, txt, token))
							}
						}
					}
				}
				bindMemo, memoBindErr, memoBound = true, es, bs
				if r2 != nil {
					cur = r2
				}
			})
		}
		if stepErr != nil {
			fail("accessor-panic/"+st, fmt.Sprintf("step %d %s panicked: %v", i, st, stepErr))
			return
		}
	}
	if atomic.LoadInt64(&s.consumed) > 1 {
		fail("body-consumed-more-than-once", fmt.Sprintf("consumer ran %d times", s.consumed))
	}
	if cb != nil && cb.readsAfter > 0 && atomic.LoadInt64(&s.consumed) > 0 {
		// a single consumer may legitimately poll EOF twice; more than a couple of reads after the end means a second pass.
		// (The bound 3 is how often bufio + encoding/json ask again after EOF with the Go 1.23 toolchain; a second run of
		// a consumer is judged on its own above (body-consumed-more-than-once), so a toolchain that polls more often would
		// show here first, as an alarm to be re-triaged, not as a missed defect.)
		if cb.readsAfter > 3 {
			fail("body-read-after-end", fmt.Sprintf("%d reads after end-of-stream", cb.readsAfter))
		}
	}
	m.Eval(1)
	rep := false
	seen := map[string]bool{}
	for _, st := range sc.Steps {
		if seen[st] {
			rep = true
		}
		seen[st] = true
	}
	if rep && !sc.quiet {
		fp := fmt.Sprintf("seq|%s|%s|%s|%s|%v|%v|%s|%s|%s|%v|%v|%v", sc.Op, sc.Cred, sc.CT, sc.Accept, sc.Body, sc.Escaped, strings.Join(sc.Steps, ""), sc.N, sc.Before, sc.RewriteCT, sc.Routable, sc.StructBind)
		if sc.Form != "" || sc.ValidateInFront {
			fp += fmt.Sprintf("|%s|%v|%v", sc.Form, sc.FormLacks, sc.ValidateInFront)
		}
		m.NT(fp)
	}
	m.Class("sequence")
	if sc.Routable {
		m.Class("sequence-on-routable-context")
	}
	if served {
		m.Class("sequence-served-by-the-handler")
	}
	if freshRoute {
		m.Class("sequence-with-a-route-value-of-the-asker's-own-lookup")
	}
	if len(sc.Steps) > 0 && sc.Steps[0] == "L" {
		m.Class("sequence-of-an-asker-that-never-asked-RouteInfo-first")
	}
	if frontFlow {
		m.Class("sequence-authenticated-in-front-of-the-handler")
		if sc.Cred == "once" {
			m.Class("sequence-authenticated-in-front-of-the-handler/one-time-key")
		}
	}
	if sc.Before != "" {
		m.Class("sequence-after-other-client")
	}
	if formBound {
		m.Class("sequence-with-a-valid-form-binding/" + sc.Form)
		if !ctBeforeBind {
			m.Class("sequence-with-a-valid-form-binding/content-type-not-asked-before")
		}
	}
	if served && sc.ValidateInFront && !sc.Routable {
		m.Class("sequence-served-behind-a-validating-middleware")
	}
	if m.WantSample() {
		m.Sample(sc)
	}
}

func genSeq(r *rand.Rand) *SeqCase {
	sc := &SeqCase{
		Op:   []string{"getA", "postA", "getB", "postA", "getS", "postV", "getS", "postV"}[r.Intn(8)],
		Cred: []string{"good", "good", "bad", "none", "zero", "bearer", "both", "deny", "once", "once"}[r.Intn(10)],
		CT: []string{"application/json", "application/json; charset=utf-8", "", "text/plain", "bogus/",
			"text/plain;charset=ISO-8859-1", "application/json; charset=utf-8", "Application/JSON; Charset=\"utf-16\"; q=1"}[r.Intn(8)],
		Accept: []string{"application/json", "text/plain", "", "image/png", "text/plain;q=0.5, application/json;q=0.4"}[r.Intn(5)],
	}
	// a fifth of the sequences are about an operation bound from a form body
	form := r.Intn(5) == 0
	if form {
		sc.Op = []string{"postF", "postF", "postU"}[r.Intn(3)]
		sc.Form = "multipart"
		if sc.Op == "postF" && r.Intn(2) == 0 {
			sc.Form = "urlencoded"
		}
		// mostly the header of the form it sends (the others: an outcome that is not valid)
		if r.Intn(6) != 0 {
			sc.CT = formContentType(sc.Form)
		}
		if r.Intn(3) != 0 {
			sc.Accept = []string{"application/json", "text/plain", ""}[r.Intn(3)]
		}
		sc.FormLacks = r.Intn(6) == 0
	}
	sc.Body = (sc.Op == "postA" || sc.Op == "postV") && r.Intn(4) != 0 || form && r.Intn(8) != 0
	sc.ValidateInFront = r.Intn(3) == 0
	sc.Escaped = r.Intn(3) == 0
	if sc.Op == "postV" {
		sc.N = []string{"", "missing", "bad"}[r.Intn(3)]
		if sc.N != "" && r.Intn(2) == 0 {
			sc.CT = "application/json" // nothing but the parameter is wrong
		}
	}
	if sc.Op != "postV" && r.Intn(3) == 0 {
		sc.Before = []string{"good", "bearer", "both", "bad"}[r.Intn(4)]
		if sc.Op == "getS" && r.Intn(2) == 0 {
			sc.Cred, sc.Before = "both", []string{"bearer", "good"}[r.Intn(2)]
		}
	}
	if sc.Cred == "once" {
		sc.Before = "" // asking the request beforehand would spend its key
	}
	// (a form is parsed by net/http off the header of the request value, boundary and all: rewriting the header of
	// a form request is no dimension of these sequences)
	sc.RewriteCT = r.Intn(2) == 0 && !form
	sc.Routable = r.Intn(2) == 0
	if r.Intn(8) == 0 {
		// an authentication middleware in front of the whole handler: it gets the route (by a lookup of its own,
		// from RouteInfo, or from the request value RouteInfo returned), asks Authorize, and lets the handler serve
		// the request value Authorize returned; some ask other stages as well, before or after
		if r.Intn(3) != 0 && sc.Op != "postV" {
			sc.Cred = []string{"once", "once", "good", "both"}[r.Intn(4)]
			sc.Before = ""
		}
		sc.Steps = append(sc.Steps, []string{"L", "L", "R", "R L", "R M", "L R"}[r.Intn(6)])
		sc.Steps = strings.Fields(strings.Join(sc.Steps, " "))
		for k := r.Intn(3); k > 0; k-- {
			sc.Steps = append(sc.Steps, string("CFA"[r.Intn(3)]))
		}
		sc.Steps = append(sc.Steps, "A")
		if r.Intn(3) == 0 {
			sc.Steps = append(sc.Steps, []string{"L", "A", "F", "B"}[r.Intn(4)])
		}
		sc.Steps = append(sc.Steps, "S")
		if r.Intn(2) == 0 {
			sc.Steps = append(sc.Steps, "R", "P")
		}
		return sc
	}
	n := 2 + r.Intn(11)
	steps := "RCFABXP"
	if sc.Routable && !sc.Body && r.Intn(2) == 0 {
		sc.StructBind = true
		steps += "G"
	}
	// a quarter of the askers never ask RouteInfo first: they look the route up themselves
	if r.Intn(4) == 0 {
		sc.Steps = append(sc.Steps, "L")
	} else {
		sc.Steps = append(sc.Steps, "R")
	}
	extra := 0
	for len(sc.Steps) < n+extra {
		c := steps[r.Intn(len(steps))]
		if c == 'X' && r.Intn(2) == 0 {
			c = 'A'
		}
		if strings.IndexByte("ABPG", c) >= 0 && extra < 3 && r.Intn(4) == 0 {
			// the asker hands in another MatchedRoute value of the same request than the one the earlier calls were
			// handed (and wrote to): a fresh lookup, or what the threaded request value carries
			sc.Steps = append(sc.Steps, []string{"L", "L", "M", "R"}[r.Intn(4)])
			extra++
		}
		sc.Steps = append(sc.Steps, string(c))
	}
	// a third of the sequences end with the handler serving the threaded request value, then the askers again
	if r.Intn(3) == 0 {
		sc.Steps = append(sc.Steps, "S", "R")
		if r.Intn(2) == 0 {
			sc.Steps = append(sc.Steps, "P")
		}
	}
	return sc
}

// ---------- driver ----------

func run(m *mon.M) {
	r := m.Rand("c09")
	nruns := m.N(20, 300)
	procs := []int{1, 2, 4, 16}
	overlapped := 0
	t0 := time.Now()
	for i := 0; i < nruns; i++ {
		cfg := &RunCfg{Kind: "concurrent", Seed: r.Int63n(1 << 40), Goroutines: []int{8, 16, 32, 64}[r.Intn(4)], PerG: m.N(25, 40), MaxProcs: procs[(i+m.Shard)%len(procs)]}
		m.Begin(cfg)
		if runConcurrent(m, cfg) {
			overlapped++
		}
	}
	// the coverage floor of the concurrent half is its own: a worker in which fewer than half of the runs had two
	// requests in flight at once contributes no non-trivial sequence either, so that a run without overlap ends
	// below the floor (INCONCLUSIVE) instead of being carried by the sequences
	m.Note("ms_concurrent_runs", time.Since(t0).Milliseconds()) // evidence only
	t0 = time.Now()
	vacuous := 2*overlapped < nruns
	if vacuous {
		m.Note("workers_without_overlap", 1)
	}
	s, err := buildServer()
	if err != nil {
		m.Violate("harness-build-failed", err.Error(), nil)
		return
	}
	nseq := m.N(2500, 100000)
	for i := 0; i < nseq; i++ {
		sc := genSeq(r)
		sc.Token = fmt.Sprintf("s%d", i)
		if i%500 == 0 {
			m.Begin(&RunCfg{Kind: "sequence", Seq: sc})
		}
		sc.quiet = vacuous
		runSequence(m, s, sc, nil)
	}
	m.Note("ms_sequences", time.Since(t0).Milliseconds())
	s.xt.mu.Lock()
	if len(s.xt.list) > 0 {
		m.Violate("in-pipeline-cross-talk/sequences", strings.Join(s.xt.list, "\n"), nil)
	}
	s.xt.mu.Unlock()
	s.unrouted.mu.Lock()
	if len(s.unrouted.list) > 0 {
		m.Violate("builder-did-not-see-matched-route/sequences", strings.Join(s.unrouted.list, "\n"), nil)
	}
	s.unrouted.mu.Unlock()
	s.bothMu.Lock()
	if len(s.hist) > 0 {
		m.Violate("admitting-alternative-depends-on-other-requests/sequences", strings.Join(s.hist, "\n"), nil)
	}
	s.bothMu.Unlock()
}

func replay(m *mon.M, raw json.RawMessage) {
	var cfg RunCfg
	if err := json.Unmarshal(raw, &cfg); err != nil {
		m.Violate("bad-replay-case", err.Error(), nil)
		return
	}
	if cfg.Kind == "sequence" && cfg.Seq != nil {
		s, err := buildServer()
		if err != nil {
			m.Violate("harness-build-failed", err.Error(), nil)
			return
		}
		runSequence(m, s, cfg.Seq, &cfg)
		one := &RunCfg{Kind: "sequence", Seq: cfg.Seq}
		if len(s.xt.list) > 0 {
			m.Violate("in-pipeline-cross-talk/sequences", strings.Join(s.xt.list, "\n"), one)
		}
		if len(s.unrouted.list) > 0 {
			m.Violate("builder-did-not-see-matched-route/sequences", strings.Join(s.unrouted.list, "\n"), one)
		}
		return
	}
	runConcurrent(m, &cfg)
}

var _ = bytes.NewReader
var _ = sort.Strings
