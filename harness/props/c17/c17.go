// Package c17 monitors runtime.HasBody and the body object it installs on the request:
// an online trace checker that steps a byte-queue reference model alongside the real
// request body over operation sequences (HasBody, Read(n), Close) on scripted streams.
package c17

import (
	"context"
	"encoding/json"
	"errors"
	"fmt"
	"hash/fnv"
	"io"
	"math/rand"
	"net"
	"net/http"
	"os"
	goruntime "runtime"
	"strconv"
	"strings"

	"github.com/go-openapi/runtime"

	"verif/mon"
)

func init() {
	mon.Register(&mon.Property{
		ID:    "C17",
		Level: "exploration",
		Rule: "seeded cases = (body bytes 0..3*4096+1 biased to buffer boundaries; one case in 250 has a body of 32 KiB+1 .. 70 KiB, handed out whole or in pieces of 1000..40000 bytes) x (scripted underlying stream, one in 8 also an io.WriterTo: per-call chunk sizes incl. runs of <=50 zero-length reads, data+EOF or data+error in one call, " +
			"scripted error before/after any byte - its VALUE drawn from a vocabulary: the harness's sentinel, io.ErrUnexpectedEOF, errors wrapping io.ErrUnexpectedEOF / io.EOF, an error whose text is 'EOF', io.ErrClosedPipe, os.ErrClosed, net.ErrClosed, http.ErrBodyReadAfterClose, io.ErrNoProgress, io.ErrShortBuffer, context.Canceled, and time-outs (context.DeadlineExceeded, os.ErrDeadlineExceeded, a net.Error with Timeout() true bare / wrapped / inside a *net.OpError) and net.Errors that are not time-outs -, optional Close error; or nil Body; or http.NoBody) x (Content-Length: positive with/without header, header \"0\" or another spelling of zero (\"00\", \" 0\", \"000\") with field 0, absent (0, no header), -1) x " +
			"(method POST, or GET/HEAD/DELETE/OPTIONS/PUT/PATCH/TRACE, lower- or mixed-case, or empty; TransferEncoding nil or [chunked] when no length is declared: the expected answer depends on neither) x " +
			"(operation sequence of 1..12 ops over HasBody, Read(n) n in {0,1,7,4096,10000}, Close, and W = drain with io.Copy into a plain io.Writer (uses the body's WriteTo if it has one)), followed by a fixed tail: drain to the terminal condition, Close, reads after close with an empty buffer, with 7 bytes and with an empty buffer again, second Close. " +
			"Every operation is executed on the real request and on a byte-queue model written from the statement; each result is compared as it happens; after every HasBody, Read and copy made while the body is open the underlying stream must not have been closed (a close before the caller's Close is not 'closing the body'). " +
			"HISTORIES over several requests: one draw in 12 is a history (a batch counts requests): 0..3 earlier requests each run to its end (ops, drain, Close) before the next begins - half of them with no length declared on a stream that yields nothing (empty, or failing before the first byte), the others as any single case -, then 2..3 requests (three in four with no length declared on a non-empty stream) whose steps (each operation, then the fixed tail as one step) are interleaved at random on one goroutine; one history in four interleaves all of its requests. Every request has its own stream and is judged against its own byte-queue model exactly as a single case is; a finding the request also raises when run alone is reported as a single-request finding, the others carry /requests-overlapping (another request of the history was under way during the life of the request) or /requests-in-sequence; bytes that are a stretch of another request's body are named read-/copy-bytes-of-another-request. " +
			"non-trivial = no length declared (the peeking path is taken), non-empty scripted stream, and the sequence has >=1 HasBody followed by >=1 Read(n>0); " +
			"a history counts as one more non-trivial case when >=2 of its non-trivial requests were under way (probed, read, not closed) at the same time; " +
			"distinct by (body length, stream script, Content-Length class, operation sequence), histories by their requests and interleaving",
		Assumptions: []string{
			"underlying streams never return (0,nil) more than 50 times in a row (bufio gives up with io.ErrNoProgress after 100 consecutive empty reads; streams beyond that documented limit are not judged)",
			"underlying streams are sticky: once the terminal condition (EOF or the scripted error) was returned it is returned again by every later read, as net/http request bodies do; after Close they fail every read",
			"whatever error value a stream fails with, it is a terminal condition and not a byte: with no length declared HasBody is true exactly when a byte precedes it in what is still undelivered (a time-out is no exception: 'at least one byte can be read' is false when the next read yields no byte), and the reader of the body must get that very value (errors.Is) after the last byte; only io.EOF itself is a clean end",
			"ContentLength field and Content-Length header are coherent, as net/http produces them (positive field with or without header; header \"0\" - or \"00\", \" 0\", \"000\", which net/http also accepts and keeps verbatim - with field 0: a declared zero length; no header with field 0 or -1)",
			"the answer of HasBody after Close is not judged (the statement is silent); reads must still fail and the stream must not be closed again",
			"the value returned by Close is not judged; while the body is open a Read with an empty buffer may return (0,nil) at any time (io.Reader allows it); on an object on which Close was called it must fail like any other read (the quantifier names buffer size 0 and the statement says reads after close fail); an empty read on an object that HasBody installed after the caller had already closed the body is not judged (Close was never called on that object, and a read that asks for nothing need not consult the stream)",
			"Close calls the caller makes on the bare stream before any HasBody (nothing of the library in between) are not attributed to the library: the object installed by HasBody must close the stream exactly once more",
			"a request that came with a body stream and has request.Body == nil after HasBody is a violation (body-dropped): the stream is no longer intact for the caller; for requests that came with a nil Body nothing is read or closed",
			"io.Copy from the body must deliver exactly the undelivered bytes and return nil for a stream that ends with io.EOF, the scripted error otherwise; after Close it must deliver nothing and must not end cleanly while bytes are undelivered",
			"a Read that returns (0,nil) for a non-empty buffer is tolerated (io.Reader allows it) as long as the terminal condition arrives within the bounded drain",
			"STRICTER THAN THE STATEMENT (the monitor's reading, signature suffix /stricter-than-statement): the underlying stream must not be closed before the caller closes the body. The statement only says that closing the body closes the underlying stream exactly once; a library that closes the stream itself when it meets the end and does not forward the later Close would still satisfy that clause. The check is kept because a stream closed under an open body fails the reads the caller still makes; triage such an alarm as a reading, not as a clause",
			"the requests of a history are independent of each other (own stream, own request object): what the statement promises for a request is promised whatever other requests are under way or were handled before; their operations are interleaved on one goroutine, no real concurrency is used",
			"the minimiser of a history runs two garbage collections before each trial, which empties every sync.Pool: state the library keeps between requests is then that of a fresh process, so that a minimised history replays alone; a history that raises its signature only on top of state left by earlier cases of the batch is recorded as found and says so (at most 600 trials per process, then histories are recorded as found)",
			"one stream in 8 also implements io.WriterTo (as io.NopCloser over a *bytes.Reader does), handing out the same scripted bytes and terminal condition: io.Copy from a body that forwards WriteTo must deliver what Read would",
		},
		MinNontrivial: 2000,
		Run:           run,
		Replay:        replay,
	})
}

// ---- case ----

// Script describes the behaviour of the underlying stream, one entry per non-empty Read call.
type Script struct {
	// Chunks[i] is the maximum number of bytes handed out by the i-th Read call; 0 means that the
	// call returns (0, nil). After the list is exhausted every call hands out Tail bytes (0 = as
	// many as fit).
	Chunks []int `json:"chunks,omitempty"`
	Tail   int   `json:"tail,omitempty"`
	// ErrAt >= 0: the stream fails with the scripted error once ErrAt bytes were delivered (bytes
	// beyond are never seen); -1: the stream ends with io.EOF after the whole body.
	ErrAt int `json:"err_at"`
	// TermWithData: the terminal condition accompanies the last bytes in the same call.
	TermWithData bool `json:"term_with_data,omitempty"`
	// CloseErr: Close returns an error.
	CloseErr bool `json:"close_err,omitempty"`
	// Err names the error VALUE the stream fails with (ErrAt >= 0), see termValues: "" is the harness's own
	// sentinel, the others are values real request bodies end with (a truncated body, a closed pipe, a cancelled
	// context, a read deadline ...). Whatever the value, it is a terminal condition that is not a byte: the answer
	// of HasBody does not depend on it, and the very value must come back to the reader of the body.
	Err string `json:"err,omitempty"`
}

// Regen identifies a generated batch (crash witness of a hot loop batch).
type Regen struct {
	Seed  int64 `json:"seed"`
	Shard int   `json:"shard"`
	Batch int   `json:"batch"`
	Count int   `json:"count"`
}

// Case is one request, one stream script and one operation sequence.
type Case struct {
	Regen         *Regen   `json:"regen,omitempty"`
	BodyKind      string   `json:"body_kind"` // stream | stream-wt (the stream is an io.WriterTo too) | nil | nobody
	Body          mon.Q    `json:"body"`
	Stream        Script   `json:"stream"`
	ContentLength int64    `json:"content_length"`
	CLHeader      *string  `json:"cl_header"` // nil: no Content-Length header
	Ops           []string `json:"ops"`       // "H" | "C" | "R<n>" | "W" (drain with io.Copy)
	// Method: nil means POST (all cases recorded before the field existed); otherwise the request
	// method verbatim (may be empty or lower-case). TransferEncoding is copied to the request.
	Method           *string  `json:"method,omitempty"`
	TransferEncoding []string `json:"transfer_encoding,omitempty"`
	// History: a history over several requests (BodyKind "history"; the other fields are unused).
	History *History `json:"history,omitempty"`
}

// History is a set of single-request cases whose operations are interleaved step by step on one
// goroutine. A request comes into being with its first step; its steps are its Ops in order and then
// its fixed tail (drain, close, read after close, close again) as one more step. Order[k] names the
// request that makes the k-th step of the history (entries for a request that has no step left are
// ignored); once Order is used up the requests still under way are run to their end in index order.
// Every request is judged against its own byte-queue model, exactly as if it were alone.
type History struct {
	Reqs  []Case `json:"reqs"`
	Order []int  `json:"order"`
}

// ---- scripted stream ----

var (
	errScripted     = errors.New("scripted stream failure")
	errStreamClosed = errors.New("scripted stream: read after close")
	errCloseFailed  = errors.New("scripted close failure")
)

// timeoutErr is a net.Error whose Timeout() is true (what a connection reports once its read deadline has passed);
// tempErr one whose Timeout() is false.
type timeoutErr struct{}

func (timeoutErr) Error() string   { return "scripted stream: i/o timeout" }
func (timeoutErr) Timeout() bool   { return true }
func (timeoutErr) Temporary() bool { return true }

type tempErr struct{}

func (tempErr) Error() string   { return "scripted stream: temporarily unavailable" }
func (tempErr) Timeout() bool   { return false }
func (tempErr) Temporary() bool { return true }

// termValue is one error value a scripted stream can fail with, and the class it adds to a signature.
type termValue struct {
	err   error
	class string
}

// termValues: the vocabulary of Script.Err. None of the values IS io.EOF (only io.EOF itself is a clean end of a
// stream); each one is reported by the sticky stream at its ErrAt offset and again by every later read.
var termValues = map[string]termValue{
	"":                       {errScripted, ""},
	"unexpected-eof":         {io.ErrUnexpectedEOF, "eof-like-error"}, // net/http: a body shorter than its Content-Length
	"wrapped-unexpected-eof": {fmt.Errorf("scripted stream: body cut short: %w", io.ErrUnexpectedEOF), "eof-like-error"},
	"wrapped-eof":            {fmt.Errorf("scripted stream: connection lost: %w", io.EOF), "eof-like-error"},
	"eof-text":               {errors.New("EOF"), "eof-like-error"}, // reads like io.EOF, is another value
	"closed-pipe":            {io.ErrClosedPipe, "closed-error"},
	"os-closed":              {os.ErrClosed, "closed-error"},
	"net-closed":             {net.ErrClosed, "closed-error"},
	"body-read-after-close":  {http.ErrBodyReadAfterClose, "closed-error"},
	"no-progress":            {io.ErrNoProgress, "io-error"},
	"short-buffer":           {io.ErrShortBuffer, "io-error"},
	"ctx-canceled":           {context.Canceled, "cancel-error"},
	"ctx-deadline":           {context.DeadlineExceeded, "timeout-error"},
	"os-deadline":            {os.ErrDeadlineExceeded, "timeout-error"},
	"net-timeout":            {timeoutErr{}, "timeout-error"},
	"wrapped-net-timeout":    {fmt.Errorf("scripted stream: read tcp: %w", timeoutErr{}), "timeout-error"},
	"net-op-timeout":         {&net.OpError{Op: "read", Net: "tcp", Err: os.ErrDeadlineExceeded}, "timeout-error"},
	"net-temporary":          {tempErr{}, "temporary-error"},
	"net-op-temporary":       {&net.OpError{Op: "read", Net: "tcp", Err: tempErr{}}, "temporary-error"},
}

// termNames: the names of termValues but "", in a fixed order (generation must not depend on map order).
var termNames = []string{"unexpected-eof", "wrapped-unexpected-eof", "wrapped-eof", "eof-text", "closed-pipe", "os-closed", "net-closed",
	"body-read-after-close", "no-progress", "short-buffer", "ctx-canceled", "ctx-deadline", "os-deadline", "net-timeout", "wrapped-net-timeout",
	"net-op-timeout", "net-temporary", "net-op-temporary"}

// termOf is the error value of a script that fails (an unknown name in a replay file: the sentinel).
func termOf(sc *Script) termValue {
	if v, ok := termValues[sc.Err]; ok {
		return v
	}
	return termValues[""]
}

type stream struct {
	data     []byte // the bytes that can ever be delivered
	term     error
	sc       *Script
	step     int
	off      int
	termSeen bool
	closes   int
	// observations
	reads, readsAfterClose int
}

func (s *stream) Read(p []byte) (int, error) {
	if s.closes > 0 {
		s.readsAfterClose++
		return 0, errStreamClosed
	}
	if len(p) == 0 {
		return 0, nil
	}
	s.reads++
	if s.termSeen {
		return 0, s.term
	}
	chunk := s.sc.Tail
	if s.step < len(s.sc.Chunks) {
		chunk = s.sc.Chunks[s.step]
		s.step++
		if chunk == 0 {
			return 0, nil
		}
	}
	if s.off >= len(s.data) {
		s.termSeen = true
		return 0, s.term
	}
	n := len(s.data) - s.off
	if chunk > 0 && chunk < n {
		n = chunk
	}
	if len(p) < n {
		n = len(p)
	}
	copy(p, s.data[s.off:s.off+n])
	s.off += n
	if s.off == len(s.data) && s.sc.TermWithData {
		s.termSeen = true
		return n, s.term
	}
	return n, nil
}

func (s *stream) Close() error {
	s.closes++
	if s.sc.CloseErr {
		return errCloseFailed
	}
	return nil
}

// wtStream is the scripted stream with a WriteTo of its own (what io.NopCloser gives over a *bytes.Reader): it
// writes what Read would deliver, by the same script, and ends with nil for io.EOF or with the scripted error.
type wtStream struct {
	*stream
	writeTos int
	buf      [512]byte
}

func (s *wtStream) WriteTo(w io.Writer) (int64, error) {
	s.writeTos++
	var total int64
	for guard := 0; guard < 1<<20; guard++ {
		n, err := s.stream.Read(s.buf[:])
		if n > 0 {
			k, werr := w.Write(s.buf[:n])
			total += int64(k)
			if werr != nil {
				return total, werr
			}
		}
		if err == io.EOF {
			return total, nil
		}
		if err != nil {
			return total, err
		}
	}
	return total, io.ErrNoProgress
}

// ---- execution + oracle ----

type finding struct{ sig, detail string }

type info struct {
	nontrivial bool
	classes    []string
}

var scratch = make([]byte, 10000)
var copyBuf = make([]byte, 32*1024)
var copySink = make([]byte, 0, 16*1024)

func clClass(c *Case) string {
	switch {
	case c.ContentLength > 0:
		return "cl-positive"
	case c.CLHeader != nil:
		return "cl-header-" + strings.ReplaceAll(strconv.Quote(*c.CLHeader), " ", `\x20`) // no blank in a signature
	case c.ContentLength < 0:
		return "cl-minus1"
	default:
		return "cl-absent"
	}
}

// reqClass names what distinguishes the request from the plain POST of the first version of this
// monitor: the method and the transfer encoding. The statement makes the answer depend on neither.
// It is empty for a plain POST, so that the signatures of earlier witnesses keep their spelling.
func reqClass(c *Case) string {
	s := ""
	if c.Method != nil && *c.Method != http.MethodPost {
		switch m := *c.Method; {
		case m == "":
			s += "/method-empty"
		case m != strings.ToUpper(m):
			s += "/method-lower-case"
		default:
			s += "/method-" + m
		}
	}
	if len(c.TransferEncoding) > 0 {
		s += "/te-" + strings.Join(c.TransferEncoding, "+")
	}
	return s
}

func kindClass(c *Case) string {
	switch c.BodyKind {
	case "nil":
		return "nil-body"
	case "nobody":
		return "http-nobody"
	default:
		return "stream"
	}
}

// runner is one request under way: the real request and its byte-queue model, stepped together one
// operation at a time, so that the operations of several requests can be interleaved (histories).
type runner struct {
	step    func(op string) bool     // executes one operation; false: the case is malformed
	tail    func()                   // the fixed tail: drain, close, read after close, close again
	finish  func() ([]finding, info) // findings so far and the classes of the request
	found   func() []finding         // findings so far
	state   func() runnerState       // a view of the model for the history bookkeeping
	body    []byte                   // every byte the stream can ever deliver
	foreign func(got []byte) bool    // histories: do these bytes belong to another request of the history?
}

type runnerState struct {
	peekPath   bool // a scripted stream with no length declared: HasBody has to look at the stream
	empty      bool // the stream delivers no byte at all
	probed     bool // HasBody was called at least once
	closed     bool
	nontrivial bool
}

// exec runs the case on the real code and the model. It has no side effects outside its return
// values (and whatever state the library keeps between requests), so that the minimiser can call it
// freely.
func exec(c *Case) ([]finding, info) {
	if c.History != nil {
		hfs, inf, _ := execHistory(c.History)
		fs := make([]finding, len(hfs))
		for i, f := range hfs {
			fs[i] = finding{f.sig, f.detail}
		}
		return fs, inf
	}
	r := start(c)
	for _, op := range c.Ops {
		if !r.step(op) {
			break
		}
	}
	r.tail()
	return r.finish()
}

// start builds the request of a single-request case and its model; nothing of the library has run
// when it returns.
func start(c *Case) *runner {
	var fs []finding
	var inf info
	run := &runner{}
	bad := false
	kind := kindClass(c)
	clc := clClass(c)
	add := func(sig, format string, a ...interface{}) {
		fs = append(fs, finding{sig, fmt.Sprintf(format, a...)})
	}
	cls := func(k string) { inf.classes = append(inf.classes, k) }

	// model
	var rest []byte
	var term error = io.EOF
	termFeat := ""
	var st *stream
	var wt *wtStream
	var bare io.ReadCloser // the body the request came with
	rqc := reqClass(c)
	method := http.MethodPost
	if c.Method != nil {
		method = *c.Method
	}
	req := &http.Request{Method: method, Header: http.Header{}, ContentLength: c.ContentLength}
	if len(c.TransferEncoding) > 0 {
		req.TransferEncoding = append([]string(nil), c.TransferEncoding...)
	}
	if c.CLHeader != nil {
		req.Header.Set("Content-Length", *c.CLHeader)
	}
	switch c.BodyKind {
	case "nil":
	case "nobody":
		req.Body = http.NoBody
	default:
		body := []byte(c.Body)
		if c.Stream.ErrAt >= 0 && c.Stream.ErrAt <= len(body) {
			body = body[:c.Stream.ErrAt]
			tv := termOf(&c.Stream)
			term = tv.err
			if tv.class != "" {
				// the class of the error value the stream ends with: a feature of the signatures that are about
				// the terminal condition ("" for io.EOF and the sentinel: earlier witnesses keep their spelling)
				termFeat = "/term-" + tv.class
				cls("terminal-value/" + c.Stream.Err)
			}
		}
		rest = body
		sc := c.Stream
		st = &stream{data: body, term: term, sc: &sc}
		req.Body = st
		if c.BodyKind == "stream-wt" {
			wt = &wtStream{stream: st}
			req.Body = wt
			cls("underlying-stream-implements-writeto")
		}
		bare = req.Body
	}
	total := len(rest)
	declaredPositive := c.ContentLength > 0
	declared := declaredPositive || c.CLHeader != nil
	closed := false
	directCloses, wrappedCloses := 0, 0 // Close calls that hit the scripted stream itself / an object installed by HasBody
	var lastHas *bool
	sawHas, sawReadAfterHas := false, false
	trace := &strings.Builder{}
	stop := false // stop stepping after a byte-level discrepancy: the model is out of sync

	termName := func() string {
		if term == io.EOF {
			return "eof"
		}
		return "scripted-error"
	}

	doHas := func() {
		var ans bool
		pv, stk := mon.Catch(func() { ans = runtime.HasBody(req) })
		if pv != nil {
			add("panic/hasbody/"+kind, "HasBody panicked after [%s]: %v\n%s", trace, pv, stk)
			fmt.Fprintf(trace, " H=panic")
			return
		}
		fmt.Fprintf(trace, " H=%v", ans)
		sawHas = true
		if st != nil && req.Body == nil {
			// "leaves the body stream intact": the request had a body stream and has none now; its
			// bytes, its terminal condition and its Close are out of the caller's reach.
			add("body-dropped/"+clc+rqc, "HasBody = %v and left request.Body nil although the request came with a body stream (%d byte(s) undelivered, terminal %s, closed %d time(s)); method %q, ContentLength=%d header=%s; trace [%s]",
				ans, len(rest), termName(), st.closes, method, c.ContentLength, hdr(c), trace)
			stop = true
			return
		}
		if closed {
			cls("hasbody-after-close")
			return
		}
		want := declaredPositive || (!declared && len(rest) > 0)
		// a probe that has to look at the stream and finds the terminal condition next: the value of that
		// condition is a feature of the input ("at least one byte can be read" holds for none of them)
		atTerm := ""
		if !declared && len(rest) == 0 && termFeat != "" {
			atTerm = "/probe-meets" + termFeat
		}
		if ans != want {
			add(fmt.Sprintf("hasbody-%v-want-%v/%s/%s%s%s", ans, want, clc, kind, rqc, atTerm),
				"HasBody = %v, expected %v: method %q, TransferEncoding %q, ContentLength=%d header=%s, %d byte(s) still readable from the body (then: %v); trace [%s]",
				ans, want, method, c.TransferEncoding, c.ContentLength, hdr(c), len(rest), term, trace)
		}
		if lastHas != nil && *lastHas != ans {
			add("hasbody-unstable/"+clc+"/"+kind+rqc+atTerm, "two consecutive HasBody calls answered %v then %v (method %q, TransferEncoding %q); trace [%s]", *lastHas, ans, method, c.TransferEncoding, trace)
		}
		a := ans
		lastHas = &a
		if ans {
			cls("hasbody-true")
		} else {
			cls("hasbody-false")
		}
	}

	// the body objects on which Close was called (the bare stream, http.NoBody or an object installed by
	// HasBody: all comparable values)
	var closedObjs []io.ReadCloser
	closedItself := func(b io.ReadCloser) bool {
		for _, o := range closedObjs {
			if o == b {
				return true
			}
		}
		return false
	}
	doRead := func(n int) (terminal bool) {
		if req.Body == nil {
			cls("read-skipped-nil-body")
			return true
		}
		buf := scratch[:n]
		var k int
		var err error
		pv, stk := mon.Catch(func() { k, err = req.Body.Read(buf) })
		if pv != nil {
			add("panic/read/"+kind, "Read(%d) panicked after [%s]: %v\n%s", n, trace, pv, stk)
			fmt.Fprintf(trace, " R%d=panic", n)
			return true
		}
		fmt.Fprintf(trace, " R%d=(%d,%v)", n, k, err)
		if k < 0 || k > n {
			add("read-count-out-of-range/"+kind, "Read(%d) returned n=%d; trace [%s]", n, k, trace)
			stop = true
			return true
		}
		if closed {
			switch {
			case k > 0:
				add("read-after-close-returned-data/"+clc+"/"+kind, "Read(%d) after Close returned %d byte(s) %q; trace [%s]", n, k, clip(buf[:k]), trace)
			case err == nil && n > 0:
				add("read-after-close-nil-error/"+clc+"/"+kind, "Read(%d) after Close returned (0, nil); trace [%s]", n, trace)
			case err == nil && !closedItself(req.Body):
				// the object read from was installed by HasBody AFTER the caller had closed the body:
				// Close was never called on it, and an empty read that asks its stream for nothing
				// cannot learn that the stream is closed; only reads that ask for bytes are judged here
				cls("zero-length-read-on-a-body-installed-after-close-not-judged")
			case err == nil:
				// the quantifier names "Read (any buffer size incl. 0)" and the statement says reads
				// after close FAIL: a read with an empty buffer on a closed body is a read after close
				// (a caller that probes the body with an empty read takes a closed body for an open one)
				add("zero-length-read-after-close-nil-error/"+clc+"/"+kind, "Read(0) after Close returned (0, nil): a read after close must fail, whatever the size of its buffer; trace [%s]", trace)
			case err == io.EOF && (len(rest) > 0 || term != io.EOF):
				add("read-after-close-clean-eof/"+clc+"/"+kind,
					"Read(%d) after Close returned io.EOF (a clean end of stream) although %d body byte(s) were never delivered and the stream's terminal condition is %s; trace [%s]",
					n, len(rest), termName(), trace)
			}
			return true
		}
		if n > 0 {
			lastHas = nil
			if sawHas {
				sawReadAfterHas = true
			}
		}
		// bytes
		if k > 0 && run.foreign != nil && (k > len(rest) || string(buf[:k]) != string(rest[:k])) && run.foreign(buf[:k]) {
			// histories: the bytes are not the next bytes of this request but a stretch of the body of
			// another request of the history
			add("read-bytes-of-another-request/"+clc, "Read(%d) at body offset %d returned %q, a stretch of the body of ANOTHER request of the history; this request's next bytes are %q (%d undelivered); trace [%s]",
				n, total-len(rest), clip(buf[:k]), clip(rest[:minInt(k, len(rest))]), len(rest), trace)
			stop = true
			return true
		}
		if k > len(rest) {
			add("read-fabricated-bytes/"+clc, "Read(%d) returned %d byte(s) but only %d remain in the stream; got %q; trace [%s]", n, k, len(rest), clip(buf[:k]), trace)
			stop = true
			return true
		}
		if string(buf[:k]) != string(rest[:k]) {
			sig := "read-bytes-corrupt/" + clc
			for j := 1; j <= 4096 && j+k <= len(rest); j++ {
				if string(buf[:k]) == string(rest[j:j+k]) {
					sig = "read-bytes-lost/" + clc
					break
				}
			}
			pos := total - len(rest)
			add(sig, "Read(%d) at body offset %d returned %q, expected %q; trace [%s]", n, pos, clip(buf[:k]), clip(rest[:k]), trace)
			stop = true
			return true
		}
		rest = rest[k:]
		if err == nil {
			return false
		}
		// terminal condition
		if len(rest) > 0 {
			switch {
			case err == io.EOF:
				add("early-eof/"+clc, "Read(%d) returned io.EOF with %d body byte(s) still undelivered; trace [%s]", n, len(rest), trace)
			case errors.Is(err, term):
				add("early-error/"+clc, "Read(%d) returned the scripted error with %d byte(s) preceding it still undelivered; trace [%s]", n, len(rest), trace)
			default:
				add("foreign-error/"+clc, "Read(%d) returned %v with %d body byte(s) still undelivered (stream terminal: %s); trace [%s]", n, err, len(rest), termName(), trace)
			}
			stop = true
			return true
		}
		cls("terminal-delivered/" + termName())
		ok := err == io.EOF
		if term != io.EOF {
			ok = errors.Is(err, term)
		}
		if !ok {
			add("wrong-terminal/want-"+termName()+"/"+clc+"/"+kind+termFeat, "after the last body byte Read(%d) returned %v, expected %v; trace [%s]", n, err, term, trace)
		}
		return true
	}

	// doCopy drains the body the way most handlers do: io.Copy, which uses the body's WriteTo when it
	// has one (the writer below has no ReadFrom, so nothing else is tried before the plain Read loop).
	doCopy := func() {
		if req.Body == nil {
			cls("copy-skipped-nil-body")
			return
		}
		sink := plainWriter{b: copySink[:0]}
		var k int64
		var err error
		// io.CopyBuffer is io.Copy with a caller-supplied buffer for the plain Read loop (same
		// WriteTo-first rule); the buffer has io.Copy's size
		pv, stk := mon.Catch(func() { k, err = io.CopyBuffer(&sink, req.Body, copyBuf) })
		if pv != nil {
			add("panic/copy/"+kind, "io.Copy from the body panicked after [%s]: %v\n%s", trace, pv, stk)
			fmt.Fprintf(trace, " W=panic")
			stop = true
			return
		}
		got := sink.b
		fmt.Fprintf(trace, " W=(%d,%v)", k, err)
		if _, ok := req.Body.(io.WriterTo); ok {
			cls("copy-via-writeto")
		} else {
			cls("copy-via-read")
		}
		if k != int64(len(got)) {
			add("copy-count-mismatch/"+kind, "io.Copy from the body reported %d byte(s) but wrote %d; trace [%s]", k, len(got), trace)
			stop = true
			return
		}
		if closed {
			switch {
			case len(got) > 0:
				add("copy-after-close-returned-data/"+clc+"/"+kind, "io.Copy from the body after Close delivered %d byte(s) %q; trace [%s]", len(got), clip(got), trace)
			case err == nil && (len(rest) > 0 || term != io.EOF):
				// io.Copy returns nil only when the source reported io.EOF
				add("copy-after-close-clean-eof/"+clc+"/"+kind,
					"io.Copy from the body after Close ended cleanly (the body reported io.EOF) although %d body byte(s) were never delivered and the stream's terminal condition is %s; trace [%s]",
					len(rest), termName(), trace)
			}
			return
		}
		lastHas = nil
		if sawHas {
			sawReadAfterHas = true
		}
		if string(got) != string(rest) {
			sig := "copy-bytes-corrupt/" + clc
			switch {
			case len(got) > 0 && run.foreign != nil && !strings.HasPrefix(string(rest), string(got)) && run.foreign(got):
				sig = "copy-bytes-of-another-request/" + clc
			case len(got) > len(rest):
				sig = "copy-fabricated-bytes/" + clc
			case len(got) < len(rest) && string(got) == string(rest[:len(got)]):
				sig = "copy-truncated/" + clc
			case len(got) < len(rest) && string(got) == string(rest[len(rest)-len(got):]):
				sig = "copy-bytes-lost/" + clc
			}
			add(sig, "io.Copy from the body at body offset %d delivered %d byte(s) %q, expected the %d remaining byte(s) %q (then %s), copy error %v; trace [%s]",
				total-len(rest), len(got), clip(got), len(rest), clip(rest), termName(), err, trace)
			stop = true
			return
		}
		rest = rest[len(rest):]
		cls("terminal-delivered/" + termName())
		ok := err == nil // io.Copy turns the source's io.EOF into nil
		if term != io.EOF {
			ok = errors.Is(err, term)
		}
		if !ok {
			add("copy-wrong-terminal/want-"+termName()+"/"+clc+"/"+kind+termFeat, "io.Copy from the body delivered every byte and then returned %v, expected %s; trace [%s]", err, wantCopyErr(term), trace)
		}
	}

	// The harness's own Close calls on the bare scripted stream (no object installed by HasBody in
	// between) are counted apart: the object installed by HasBody must add exactly one more.
	countClose := func() {
		if st == nil {
			return
		}
		if req.Body == bare {
			directCloses++
		} else {
			wrappedCloses++
		}
	}
	checkCloses := func() {
		if st == nil || wrappedCloses == 0 {
			return
		}
		switch got := st.closes - directCloses; {
		case got == 0:
			add("close-not-forwarded/"+clc, "after Close on the request body the underlying stream was not closed (%d close(s) seen, %d of them made directly by the caller before HasBody); trace [%s]", st.closes, directCloses, trace)
		case got > 1:
			add("close-forwarded-more-than-once/"+clc, "after %d Close call(s) on the request body the underlying stream was closed %d times; trace [%s]", wrappedCloses, got, trace)
		}
	}

	// "closing the body closes the underlying stream": the stream is the caller's until the caller
	// closes the body; a close made while the body is still open (by HasBody, a Read or a copy) is not
	// the close the statement speaks of, and the caller's later Close could not be forwarded "once"
	earlyReported := false
	checkEarlyClose := func(after string) {
		if st == nil || closed || earlyReported {
			return
		}
		if got := st.closes - directCloses; got > 0 {
			earlyReported = true
			// the monitor's reading, not a clause of the statement (see the assumptions): the suffix says so
			add("underlying-closed-before-body-close/"+clc+"/stricter-than-statement", "after %s the underlying stream had been closed %d time(s) although Close was never called on the request body (monitor's reading: the statement only demands one close of the stream once the body is closed); trace [%s]", after, got, trace)
		}
	}

	doClose := func() {
		if req.Body == nil {
			cls("close-skipped-nil-body")
			return
		}
		var err error
		countClose()
		closedObjs = append(closedObjs, req.Body)
		pv, stk := mon.Catch(func() { err = req.Body.Close() })
		closed = true
		lastHas = nil
		if pv != nil {
			add("panic/close/"+kind, "Close panicked after [%s]: %v\n%s", trace, pv, stk)
			fmt.Fprintf(trace, " C=panic")
			return
		}
		fmt.Fprintf(trace, " C=%v", err)
		checkCloses()
	}

	run.step = func(op string) bool {
		if bad {
			return false
		}
		if stop {
			return true
		}
		switch {
		case op == "H":
			doHas()
			checkEarlyClose("HasBody")
		case op == "C":
			doClose()
		case op == "W":
			doCopy()
			checkEarlyClose("io.Copy from the body")
		case strings.HasPrefix(op, "R"):
			n, err := strconv.Atoi(op[1:])
			if err != nil || n < 0 || n > len(scratch) {
				add("bad-case", "bad op %q", op)
				bad = true
				return false
			}
			doRead(n)
			checkEarlyClose("Read")
		default:
			add("bad-case", "bad op %q", op)
			bad = true
			return false
		}
		return true
	}

	// fixed tail: drain, close, read after close, close again.
	run.tail = func() {
		if bad || stop {
			return
		}
		fmt.Fprintf(trace, " |")
		if !closed && req.Body != nil {
			zeros := 0
			for _, ch := range c.Stream.Chunks {
				if ch == 0 {
					zeros++
				}
			}
			bound := len(rest) + zeros + len(c.Stream.Chunks) + 64
			done := false
			for i := 0; i < bound && !stop; i++ {
				t := doRead(4096)
				checkEarlyClose("Read")
				if t {
					done = true
					break
				}
			}
			if !done && !stop {
				add("no-terminal-condition/"+clc, "draining the body with %d reads of 4096 never produced a terminal condition; %d byte(s) undelivered; trace [%s]", bound, len(rest), clipS(trace.String()))
			}
		}
		if !stop && req.Body != nil {
			doClose()
			doRead(0) // a read after close fails for any buffer size, the empty one included
			doRead(7)
			doRead(0)
			doClose()
		}
	}

	finished := false
	run.finish = func() ([]finding, info) {
		if bad || finished {
			return fs, inf
		}
		finished = true
		if st != nil {
			if st.readsAfterClose > 0 {
				cls("underlying-read-after-close")
			}
			if wt != nil && wt.writeTos > 0 {
				cls("underlying-writeto-called")
			}
		}
		if !declared {
			cls("path-peek/" + kind)
		} else {
			cls("path-declared/" + kind)
		}
		inf.nontrivial = !declared && st != nil && total > 0 && sawReadAfterHas
		return fs, inf
	}
	run.found = func() []finding { return fs }
	run.state = func() runnerState {
		return runnerState{
			peekPath:   !declared && st != nil,
			empty:      total == 0,
			probed:     sawHas,
			closed:     closed,
			nontrivial: !declared && st != nil && total > 0 && sawReadAfterHas,
		}
	}
	if st != nil {
		run.body = st.data
	}
	return run
}

// hfinding is a finding made on one request of a history.
type hfinding struct {
	finding
	base string // the signature the finding has on a single request
	req  int
}

type histInfo struct {
	nontrivial bool   // >= 2 non-trivial requests were under way at the same time
	reqNT      []bool // the requests that are non-trivial by the single-request rule
	bad        bool
}

const (
	sufOverlap = "/requests-overlapping"
	sufInSeq   = "/requests-in-sequence"
)

// execHistory steps the requests of a history in the given interleaving. The signature of a finding
// is the single-request signature followed by /requests-overlapping when another request of the history
// was under way (begun and not yet through its tail) at some moment of the life of the request the
// finding is about, /requests-in-sequence otherwise.
func execHistory(h *History) (out []hfinding, inf info, hi histInfo) {
	n := len(h.Reqs)
	if n == 0 || n > 64 {
		hi.bad = true
		return []hfinding{{finding: finding{"bad-case", "a history needs 1..64 requests"}, base: "bad-case"}}, inf, hi
	}
	const (
		fresh = iota
		alive
		done
	)
	rs := make([]*runner, n)
	state := make([]int, n)
	next := make([]int, n)
	overlapped := make([]bool, n)
	maxAlive, maxAlivePeek, maxAliveNT := 0, 0, 0
	emptyProbedClosed := 0 // requests through their tail that had no declared length, an empty stream and were probed
	afterEmpty := false
	cls := func(k string) { inf.classes = append(inf.classes, k) }

	census := func() {
		a, p, nt := 0, 0, 0
		for j := range rs {
			if state[j] != alive {
				continue
			}
			a++
			s := rs[j].state()
			if s.peekPath && s.probed && !s.closed {
				p++
			}
			if s.nontrivial && !s.closed {
				nt++
			}
		}
		if a > maxAlive {
			maxAlive = a
		}
		if p > maxAlivePeek {
			maxAlivePeek = p
		}
		if nt > maxAliveNT {
			maxAliveNT = nt
		}
		if p >= 2 && emptyProbedClosed > 0 {
			afterEmpty = true
		}
	}

	stepReq := func(i int) {
		if state[i] == done {
			return
		}
		if state[i] == fresh {
			i := i
			rs[i] = start(&h.Reqs[i])
			rs[i].foreign = func(got []byte) bool {
				for j, o := range rs {
					if j == i || o == nil || len(o.body) == 0 {
						continue
					}
					if (len(got) >= 4 || len(got) == len(o.body)) && strings.Contains(string(o.body), string(got)) {
						return true
					}
				}
				return false
			}
			state[i] = alive
			for j := range rs {
				if j != i && state[j] == alive {
					overlapped[i], overlapped[j] = true, true
				}
			}
		}
		r := rs[i]
		before := len(r.found())
		if next[i] < len(h.Reqs[i].Ops) {
			if !r.step(h.Reqs[i].Ops[next[i]]) {
				hi.bad = true
			}
			next[i]++
			census()
		} else {
			r.tail()
			state[i] = done
			if s := r.state(); s.peekPath && s.empty && s.probed {
				emptyProbedClosed++
			}
		}
		if fs := r.found(); len(fs) > before {
			suf := sufInSeq
			if overlapped[i] {
				suf = sufOverlap
			}
			for _, f := range fs[before:] {
				sig := f.sig + suf
				if f.sig == "bad-case" {
					sig = f.sig
				}
				out = append(out, hfinding{finding: finding{sig, fmt.Sprintf("request %d of a history of %d: %s", i, n, f.detail)}, base: f.sig, req: i})
			}
		}
	}

	for _, i := range h.Order {
		if i < 0 || i >= n {
			hi.bad = true
			return append(out, hfinding{finding: finding{"bad-case", fmt.Sprintf("order entry %d out of range", i)}, base: "bad-case"}), inf, hi
		}
		if hi.bad {
			return out, inf, hi
		}
		stepReq(i)
	}
	for i := 0; i < n && !hi.bad; i++ {
		for state[i] != done && !hi.bad {
			stepReq(i)
		}
	}
	if hi.bad {
		return out, inf, hi
	}
	for i := range rs {
		_, ri := rs[i].finish()
		inf.classes = append(inf.classes, ri.classes...)
		hi.reqNT = append(hi.reqNT, ri.nontrivial)
	}
	cls("history/requests-" + strconv.Itoa(minInt(n, 8)))
	cls("history/max-requests-under-way-" + strconv.Itoa(minInt(maxAlive, 4)))
	cls("history/max-probed-open-peek-requests-under-way-" + strconv.Itoa(minInt(maxAlivePeek, 4)))
	if afterEmpty {
		cls("history/two-probed-peek-requests-under-way-after-an-empty-one-was-probed-and-closed")
	}
	hi.nontrivial = maxAliveNT >= 2
	inf.nontrivial = hi.nontrivial
	return out, inf, hi
}

// clearPools brings whatever the library keeps in sync.Pools between requests to the state of a fresh
// process (two collections empty every sync.Pool: the first moves the items to the victim cache, the
// second drops them). Used before each trial of the minimiser of a history, so that a minimised
// history does not lean on what earlier cases of the run left behind and replays alone.
func clearPools() {
	goruntime.GC()
	goruntime.GC()
}

// plainWriter is an io.Writer and nothing else (no ReadFrom), so that io.Copy's choice depends on
// the source alone.
type plainWriter struct{ b []byte }

func (w *plainWriter) Write(p []byte) (int, error) {
	w.b = append(w.b, p...)
	return len(p), nil
}

func minInt(a, b int) int {
	if a < b {
		return a
	}
	return b
}

func wantCopyErr(term error) string {
	if term == io.EOF {
		return "nil (a clean end of stream)"
	}
	return term.Error()
}

func hdr(c *Case) string {
	if c.CLHeader == nil {
		return "<none>"
	}
	return strconv.Quote(*c.CLHeader)
}

func clip(b []byte) string {
	if len(b) > 48 {
		return string(b[:24]) + "…" + string(b[len(b)-16:]) + fmt.Sprintf("(%d bytes)", len(b))
	}
	return string(b)
}

func clipS(s string) string {
	if len(s) > 1200 {
		return s[:600] + " … " + s[len(s)-500:]
	}
	return s
}

func hasSig(c *Case, sig string) bool {
	if c.History != nil {
		clearPools()
	}
	fs, _ := exec(c)
	for _, f := range fs {
		if f.sig == sig {
			return true
		}
	}
	return false
}

func clone(c *Case) *Case {
	d := *c
	d.Regen = nil
	d.Ops = append([]string(nil), c.Ops...)
	d.Stream.Chunks = append([]int(nil), c.Stream.Chunks...)
	if c.CLHeader != nil {
		h := *c.CLHeader
		d.CLHeader = &h
	}
	if c.Method != nil {
		mth := *c.Method
		d.Method = &mth
	}
	d.TransferEncoding = append([]string(nil), c.TransferEncoding...)
	if c.History != nil {
		h := &History{Order: append([]int(nil), c.History.Order...)}
		for i := range c.History.Reqs {
			h.Reqs = append(h.Reqs, *clone(&c.History.Reqs[i]))
		}
		d.History = h
	}
	return &d
}

// dropReq removes request i of a history and renumbers the interleaving.
func dropReq(h *History, i int) {
	h.Reqs = append(h.Reqs[:i:i], h.Reqs[i+1:]...)
	var o []int
	for _, j := range h.Order {
		switch {
		case j < i:
			o = append(o, j)
		case j > i:
			o = append(o, j-1)
		}
	}
	h.Order = o
}

// dropLastStep removes the last entry of the interleaving that names request i (after one of its
// operations was removed, so that the other steps keep their places).
func dropLastStep(h *History, i int) {
	for k := len(h.Order) - 1; k >= 0; k-- {
		if h.Order[k] == i {
			h.Order = append(h.Order[:k:k], h.Order[k+1:]...)
			return
		}
	}
}

// Every trial of the history minimiser costs two garbage collections; a process spends at most
// maxHistTrials of them (a tree that breaks the property in many ways must not run into the watchdog).
const maxHistTrials = 600

var histTrials int

// minimiseHistory greedily shrinks a violating history while the same signature keeps firing; every
// trial starts from emptied sync.Pools (see clearPools). ok is false when the history as found does not
// raise the signature from that state: it leans on what earlier cases of the run left in the library.
func minimiseHistory(c *Case, sig string) (res *Case, ok bool) {
	cur := clone(c)
	histTrials++
	if !hasSig(cur, sig) {
		return cur, false
	}
	try := func(mut func(d *Case)) bool {
		if histTrials >= maxHistTrials {
			return false // the budget of the process is used up: what was reached so far still reproduces
		}
		histTrials++
		d := clone(cur)
		mut(d)
		if hasSig(d, sig) {
			cur = d
			return true
		}
		return false
	}
	for i := len(cur.History.Reqs) - 1; i >= 0; i-- {
		i := i
		if len(cur.History.Reqs) > 1 && i < len(cur.History.Reqs) {
			try(func(d *Case) { dropReq(d.History, i) })
		}
	}
	for i := range cur.History.Reqs {
		i := i
		for k := len(cur.History.Reqs[i].Ops) - 1; k >= 0; k-- {
			k := k
			try(func(d *Case) {
				q := &d.History.Reqs[i]
				q.Ops = append(q.Ops[:k:k], q.Ops[k+1:]...)
				dropLastStep(d.History, i)
			})
		}
	}
	// trailing entries of the interleaving (the requests are run to their end anyway)
	for len(cur.History.Order) > 0 {
		if !try(func(d *Case) { d.History.Order = d.History.Order[:len(d.History.Order)-1] }) {
			break
		}
	}
	for i := range cur.History.Reqs {
		i := i
		q := func(d *Case) *Case { return &d.History.Reqs[i] }
		try(func(d *Case) { q(d).Method = nil })
		try(func(d *Case) { q(d).TransferEncoding = nil })
		if cur.History.Reqs[i].BodyKind == "stream-wt" {
			try(func(d *Case) { q(d).BodyKind = "stream" })
		}
		try(func(d *Case) { q(d).Stream.Chunks = nil })
		try(func(d *Case) { q(d).Stream.Tail = 0 })
		try(func(d *Case) { q(d).Stream.CloseErr = false })
		try(func(d *Case) { q(d).Stream.TermWithData = false })
		try(func(d *Case) { q(d).Stream.ErrAt = -1 })
		for _, l := range []int{0, 1, 2, 3, 8, 64, 4095, 4096, 4097, 8193} {
			l := l
			if l < len(cur.History.Reqs[i].Body) {
				if try(func(d *Case) {
					q(d).Body = q(d).Body[:l]
					if q(d).Stream.ErrAt > l {
						q(d).Stream.ErrAt = l
					}
				}) {
					break
				}
			}
		}
	}
	return cur, true
}

// minimise greedily shrinks a violating case while the same signature keeps firing.
func minimise(c *Case, sig string) *Case {
	cur := clone(c)
	try := func(mut func(d *Case)) bool {
		d := clone(cur)
		mut(d)
		if hasSig(d, sig) {
			cur = d
			return true
		}
		return false
	}
	// operations
	for i := len(cur.Ops) - 1; i >= 0; i-- {
		i := i
		if i < len(cur.Ops) {
			try(func(d *Case) { d.Ops = append(d.Ops[:i:i], d.Ops[i+1:]...) })
		}
	}
	// request shape (a signature that names the method or the transfer encoding keeps them)
	try(func(d *Case) { d.Method = nil })
	try(func(d *Case) { d.TransferEncoding = nil })
	if cur.BodyKind == "stream-wt" {
		try(func(d *Case) { d.BodyKind = "stream" })
	}
	// stream script
	try(func(d *Case) { d.Stream.Chunks = nil })
	try(func(d *Case) { d.Stream.Tail = 0 })
	try(func(d *Case) { d.Stream.CloseErr = false })
	try(func(d *Case) { d.Stream.TermWithData = false })
	try(func(d *Case) { d.Stream.ErrAt = -1 })
	try(func(d *Case) { d.Stream.Err = "" })
	for i := len(cur.Stream.Chunks) - 1; i >= 0 && len(cur.Stream.Chunks) <= 80; i-- {
		i := i
		if i < len(cur.Stream.Chunks) {
			try(func(d *Case) { d.Stream.Chunks = append(d.Stream.Chunks[:i:i], d.Stream.Chunks[i+1:]...) })
		}
	}
	// body length
	for _, l := range []int{0, 1, 2, 3, 8, 64, 4095, 4096, 4097, 8193} {
		l := l
		if l < len(cur.Body) {
			if try(func(d *Case) {
				d.Body = d.Body[:l]
				if d.Stream.ErrAt > l {
					d.Stream.ErrAt = l
				}
			}) {
				break
			}
		}
	}
	return cur
}

func fingerprint(c *Case) string {
	h := fnv.New64a()
	if c.History != nil {
		fmt.Fprint(h, "history|")
		for i := range c.History.Reqs {
			fmt.Fprint(h, fingerprint(&c.History.Reqs[i]), "|")
		}
		fmt.Fprint(h, c.History.Order)
		return strconv.FormatUint(h.Sum64(), 16)
	}
	if c.BodyKind == "stream-wt" {
		fmt.Fprint(h, "wt|")
	}
	if c.Stream.ErrAt >= 0 && c.Stream.Err != "" {
		fmt.Fprint(h, "err=", c.Stream.Err, "|")
	}
	fmt.Fprintf(h, "%d|%v|%d|%d|%v|%v|%s|%s", len(c.Body), c.Stream.Chunks, c.Stream.Tail, c.Stream.ErrAt, c.Stream.TermWithData, c.Stream.CloseErr, clClass(c), strings.Join(c.Ops, ","))
	return strconv.FormatUint(h.Sum64(), 16)
}

var minimised = map[string]int{}

func runCase(m *mon.M, c *Case) {
	if c.Regen != nil {
		runBatch(m, c.Regen)
		return
	}
	if c.History != nil {
		runHistory(m, c)
		return
	}
	fs, inf := exec(c)
	m.Eval(1)
	for _, k := range inf.classes {
		m.Class(k)
	}
	if inf.nontrivial {
		m.NT(fingerprint(c))
	}
	report(m, c, fs)
	if m.WantSample() {
		s := sampleOf(c)
		m.Sample(map[string]interface{}{"case": s, "nontrivial": inf.nontrivial, "findings": len(fs)})
	}
}

// sampleOf trims a case for the evidence file.
func sampleOf(c *Case) *Case {
	s := clone(c)
	if len(s.Body) > 40 {
		s.Body = mon.Q(string(s.Body[:40]) + fmt.Sprintf("...(%d bytes in all)", len(c.Body)))
	}
	if len(s.Stream.Chunks) > 30 {
		s.Stream.Chunks = s.Stream.Chunks[:30]
	}
	if s.History != nil {
		for i := range s.History.Reqs {
			s.History.Reqs[i] = *sampleOf(&s.History.Reqs[i])
		}
	}
	return s
}

// runHistory executes a history. A finding that the request raises on its own as well (same
// signature, the request run alone) is reported as a finding of that single request: the history adds
// nothing to it.
func runHistory(m *mon.M, c *Case) {
	hfs, inf, hi := execHistory(c.History)
	m.Eval(len(c.History.Reqs))
	for _, k := range inf.classes {
		m.Class(k)
	}
	if hi.nontrivial {
		m.NT(fingerprint(c))
	}
	for i, nt := range hi.reqNT {
		if nt {
			m.NT(fingerprint(&c.History.Reqs[i]))
		}
	}
	var fs []finding
	alone := map[int][]finding{}
	reported := map[int]bool{}
	for _, f := range hfs {
		if f.base == "bad-case" {
			fs = append(fs, f.finding)
			continue
		}
		q := &c.History.Reqs[f.req]
		afs, ok := alone[f.req]
		if !ok {
			afs, _ = exec(q)
			alone[f.req] = afs
		}
		single := false
		for _, af := range afs {
			if af.sig == f.base {
				single = true
			}
		}
		if single {
			if !reported[f.req] {
				reported[f.req] = true
				report(m, q, afs)
			}
			continue
		}
		fs = append(fs, f.finding)
	}
	report(m, c, fs)
	if m.WantSample() {
		m.Sample(map[string]interface{}{"case": sampleOf(c), "nontrivial": hi.nontrivial, "findings": len(hfs)})
	}
}

// report raises the findings of a case, the first few of each signature minimised.
func report(m *mon.M, c *Case, fs []finding) {
	seen := map[string]bool{}
	for _, f := range fs {
		if seen[f.sig] {
			continue
		}
		seen[f.sig] = true
		minimised[f.sig]++
		if minimised[f.sig] <= 5 {
			var mc *Case
			if c.History != nil {
				var ok bool
				if histTrials >= maxHistTrials {
					m.Violate(f.sig, f.detail+" [history recorded as found: the minimiser's budget of this process is used up]", clone(c))
					continue
				}
				if mc, ok = minimiseHistory(c, f.sig); !ok {
					m.Violate(f.sig, f.detail+" [NOT reproduced when the history was run again from emptied sync.Pools: it leans on state the library kept from earlier cases of the batch; the history is recorded as found]", mc)
					continue
				}
			} else {
				mc = minimise(c, f.sig)
			}
			detail := f.detail
			if mc.History != nil {
				clearPools()
			}
			if mfs, _ := exec(mc); len(mfs) > 0 {
				for _, mf := range mfs {
					if mf.sig == f.sig {
						detail = mf.detail
						break
					}
				}
			}
			m.Violate(f.sig, detail, mc)
		} else {
			m.Violate(f.sig, f.detail, nil) // counted; the harness keeps only the first few witnesses per sig
		}
	}
}

// ---- generation ----

var boundaryLens = []int{0, 1, 2, 3, 7, 8, 15, 16, 17, 4095, 4096, 4097, 8191, 8192, 8193, 12287, 12288, 12289}

// bigLens: beyond the 32 KiB buffer of io.Copy and the 64 KiB thresholds; a drain takes several rounds
var bigLens = []int{32*1024 + 1, 33*1024 + 7, 64*1024 - 1, 64 * 1024, 64*1024 + 1, 70 * 1024}
var chunkSizes = []int{1, 1, 2, 3, 5, 7, 100, 1000, 4095, 4096, 4097, 5000, 20000}
var readSizes = []int{0, 1, 7, 4096, 10000}

const alphabet = "abcdefghijklmnopqrstuvwxyzABCDEFGHIJKLMNOPQRSTUVWXYZ0123456789-_"

func genBody(r *rand.Rand, n int) []byte {
	b := make([]byte, n)
	_, _ = r.Read(b)
	if r.Intn(10) != 0 {
		for i := range b {
			b[i] = alphabet[b[i]&63]
		}
	}
	return b
}

func genCase(r *rand.Rand) *Case {
	c := &Case{BodyKind: "stream"}
	switch k := r.Intn(20); {
	case k == 0:
		c.BodyKind = "nil"
	case k == 1:
		c.BodyKind = "nobody"
	}
	n := 0
	if c.BodyKind == "stream" {
		switch k := r.Intn(10); {
		case k < 4:
			n = boundaryLens[r.Intn(len(boundaryLens))]
		case k < 8:
			n = r.Intn(65)
		default:
			n = r.Intn(3*4096 + 2)
		}
		big := r.Intn(250) == 0
		if big {
			n = bigLens[r.Intn(len(bigLens))]
		}
		c.Body = mon.Q(genBody(r, n))
		// stream script
		sc := &c.Stream
		sc.ErrAt = -1
		defer func() {
			// a multi-buffer body is not handed out a few bytes at a time (tens of thousands of reads say
			// nothing new); now and then in pieces larger than any buffer on the way
			if big && sc.Tail > 0 && sc.Tail < 100 {
				sc.Tail = 1000
			}
			if big && sc.Tail == 20000 {
				sc.Tail = 40000
			}
		}()
		switch k := r.Intn(20); {
		case k < 3: // hand out whatever is asked
		case k < 5:
			sc.Tail = 1
		case k < 8:
			sc.Tail = chunkSizes[r.Intn(len(chunkSizes))]
		case k < 10: // leading run of zero-length reads
			z := 1 + r.Intn(50)
			sc.Chunks = make([]int, z)
			if r.Intn(2) == 0 {
				sc.Tail = chunkSizes[r.Intn(len(chunkSizes))]
			}
		default:
			l := 1 + r.Intn(20)
			for i := 0; i < l; i++ {
				if r.Intn(5) == 0 {
					z := 1 + r.Intn(50)
					if r.Intn(3) > 0 {
						z = 1 + r.Intn(3)
					}
					for j := 0; j < z; j++ {
						sc.Chunks = append(sc.Chunks, 0)
					}
					sc.Chunks = append(sc.Chunks, chunkSizes[r.Intn(len(chunkSizes))]) // a run is always followed by progress
				} else {
					sc.Chunks = append(sc.Chunks, chunkSizes[r.Intn(len(chunkSizes))])
				}
			}
			if r.Intn(2) == 0 {
				sc.Tail = chunkSizes[r.Intn(len(chunkSizes))]
			}
		}
		if r.Intn(10) < 3 {
			switch r.Intn(5) {
			case 0:
				sc.ErrAt = 0
			case 1:
				sc.ErrAt = n
			case 2:
				if n > 0 {
					sc.ErrAt = 1
				} else {
					sc.ErrAt = 0
				}
			case 3:
				if n > 0 {
					sc.ErrAt = n - 1
				} else {
					sc.ErrAt = 0
				}
			default:
				sc.ErrAt = r.Intn(n + 1)
			}
		}
		sc.TermWithData = r.Intn(2) == 0
		sc.CloseErr = r.Intn(5) == 0
	} else {
		c.Stream.ErrAt = -1
	}
	// Content-Length
	switch k := r.Intn(20); {
	case k < 9: // absent
	case k < 13:
		c.ContentLength = -1
	case k < 16:
		z := "0"
		if r.Intn(3) == 0 {
			// other spellings of a declared zero length that net/http accepts (it keeps the header
			// text and sets the field to 0)
			z = zeroSpellings[r.Intn(len(zeroSpellings))]
		}
		c.CLHeader = &z
	default:
		c.ContentLength = int64(n)
		if n == 0 || r.Intn(8) == 0 {
			c.ContentLength = int64(1 + r.Intn(20000))
		}
		if r.Intn(10) < 7 {
			s := strconv.FormatInt(c.ContentLength, 10)
			c.CLHeader = &s
		}
	}
	// operations
	l := 1 + r.Intn(12)
	for i := 0; i < l; i++ {
		switch k := r.Intn(20); {
		case i == 0 && k < 14, i > 0 && k < 5:
			c.Ops = append(c.Ops, "H")
		case k < 7:
			c.Ops = append(c.Ops, "C")
		case k == 7:
			c.Ops = append(c.Ops, "W")
		default:
			c.Ops = append(c.Ops, "R"+strconv.Itoa(readSizes[r.Intn(len(readSizes))]))
		}
	}
	// request shape: the statement makes the answer depend on neither the method nor the transfer
	// encoding
	if r.Intn(5) < 2 {
		mth := methods[r.Intn(len(methods))]
		c.Method = &mth
	}
	if c.ContentLength <= 0 && c.CLHeader == nil && r.Intn(4) == 0 {
		// chunked: net/http declares no length then (field -1 on the server side, 0 on a request
		// built by hand)
		c.TransferEncoding = []string{"chunked"}
	}
	// one stream in 8 has a WriteTo of its own
	if c.BodyKind == "stream" && r.Intn(8) == 0 {
		c.BodyKind = "stream-wt"
	}
	return c
}

// genHistory: 0..3 earlier requests, each run to its end (probed, read, closed) before the next one
// begins - half of them without declared length on a stream that yields nothing (empty, or failing
// before the first byte), the others as genCase makes them -, then 2..3 requests whose steps are
// interleaved at random (three in four of them without declared length on a non-empty stream, so that
// the peeking path is under way on several requests at once). One history in four interleaves all of
// its requests.
func genHistory(r *rand.Rand) *Case {
	stream := func() *Case {
		for {
			if c := genCase(r); c.BodyKind == "stream" || c.BodyKind == "stream-wt" {
				return c
			}
		}
	}
	noLength := func(c *Case) {
		c.CLHeader = nil
		c.ContentLength = 0
		if r.Intn(3) == 0 {
			c.ContentLength = -1
		}
	}
	probeFirst := func(c *Case) {
		if r.Intn(4) > 0 {
			c.Ops[0] = "H"
		}
	}
	h := &History{}
	nPre, nLive := r.Intn(4), 2+r.Intn(2)
	for i := 0; i < nPre; i++ {
		c := genCase(r)
		if r.Intn(2) == 0 {
			c = stream()
			noLength(c)
			if r.Intn(2) == 0 {
				c.Body = ""
			} else {
				c.Stream.ErrAt = 0
			}
			probeFirst(c)
		}
		h.Reqs = append(h.Reqs, *c)
	}
	for i := 0; i < nLive; i++ {
		c := genCase(r)
		if r.Intn(4) > 0 {
			c = stream()
			noLength(c)
			if len(c.Body) == 0 {
				c.Body = mon.Q(genBody(r, 1+r.Intn(64)))
			}
			if c.Stream.ErrAt == 0 {
				c.Stream.ErrAt = -1
			}
			probeFirst(c)
		}
		h.Reqs = append(h.Reqs, *c)
	}
	// interleaving
	left := make([]int, len(h.Reqs))
	for i := range h.Reqs {
		left[i] = len(h.Reqs[i].Ops) + 1
	}
	first := nPre
	if r.Intn(4) == 0 {
		first = 0
	}
	for i := 0; i < first; i++ {
		for ; left[i] > 0; left[i]-- {
			h.Order = append(h.Order, i)
		}
	}
	last := -1
	for {
		var open []int
		for i := first; i < len(left); i++ {
			if left[i] > 0 {
				open = append(open, i)
			}
		}
		if len(open) == 0 {
			break
		}
		i := open[r.Intn(len(open))]
		if last >= 0 && left[last] > 0 && r.Intn(3) == 0 {
			i = last // a short run of steps of the same request
		}
		h.Order = append(h.Order, i)
		left[i]--
		last = i
	}
	return &Case{BodyKind: "history", Stream: Script{ErrAt: -1}, History: h}
}

// historyOneIn: one draw in historyOneIn of a batch is a history (4.5 requests on average; a batch
// counts requests, so the cost of a batch stays what it was)
const historyOneIn = 12

var zeroSpellings = []string{"00", " 0", "000"}
var methods = []string{"GET", "HEAD", "DELETE", "OPTIONS", "PUT", "PATCH", "TRACE", "post", "get", "Delete", ""}

const batchSize = 1000

func batchRand(seed int64, shard, batch int) *rand.Rand {
	h := fnv.New64a()
	fmt.Fprintf(h, "C17|%d|%d|%d", seed, shard, batch)
	return rand.New(rand.NewSource(int64(h.Sum64() & 0x7fffffffffffffff)))
}

// termRand: the PRNG the error values of a batch are drawn from; a stream of its own, so that the batch is
// what it was in everything else.
func termRand(seed int64, shard, batch int) *rand.Rand {
	h := fnv.New64a()
	fmt.Fprintf(h, "C17|error-values|%d|%d|%d", seed, shard, batch)
	return rand.New(rand.NewSource(int64(h.Sum64() & 0x7fffffffffffffff)))
}

// drawTerm gives every failing stream of the case (of every request of a history) an error value: the sentinel
// in one case of four, else one of termNames.
func drawTerm(r *rand.Rand, c *Case) {
	if c.History != nil {
		for i := range c.History.Reqs {
			drawTerm(r, &c.History.Reqs[i])
		}
		return
	}
	if (c.BodyKind != "stream" && c.BodyKind != "stream-wt") || c.Stream.ErrAt < 0 {
		return
	}
	if k := r.Intn(len(termNames) + len(termNames)/3 + 1); k < len(termNames) {
		c.Stream.Err = termNames[k]
	}
}

func runBatch(m *mon.M, g *Regen) {
	r := batchRand(g.Seed, g.Shard, g.Batch)
	rt := termRand(g.Seed, g.Shard, g.Batch)
	n := g.Count
	if n <= 0 || n > batchSize {
		n = batchSize
	}
	for i := 0; i < n; {
		if r.Intn(historyOneIn) == 0 {
			c := genHistory(r)
			drawTerm(rt, c)
			runCase(m, c)
			i += len(c.History.Reqs)
			continue
		}
		c := genCase(r)
		drawTerm(rt, c)
		runCase(m, c)
		i++
	}
}

func run(m *mon.M) {
	batches := m.N(150, 900)
	for b := 0; b < batches; b++ {
		g := &Regen{Seed: m.Seed, Shard: m.Shard, Batch: b, Count: batchSize}
		m.Begin(&Case{Regen: g, BodyKind: "batch", Stream: Script{ErrAt: -1}})
		runBatch(m, g)
	}
	m.Note("batches", int64(batches))
}

func replay(m *mon.M, raw json.RawMessage) {
	var c Case
	if err := json.Unmarshal(raw, &c); err != nil {
		m.Violate("bad-replay-case", err.Error(), nil)
		return
	}
	runCase(m, &c)
}
