// Package c13 monitors response delivery by client.Runtime.Submit: the reader is handed the
// consumer registered for the response's media type (else the catch-all, else an error naming
// the content type), sees status, headers and body unchanged, per-operation client/context take
// precedence over the transport-wide ones, and concurrent calls on one Runtime (including the
// first, client-creating ones) are race free with every caller receiving its own response.
package c13

import (
	"bytes"
	"context"
	"encoding/json"
	"errors"
	"fmt"
	"io"
	"net"
	"net/http"
	"net/http/httptest"
	"sort"
	"strconv"
	"strings"
	"sync"
	"sync/atomic"
	"time"

	"github.com/go-openapi/runtime"
	"github.com/go-openapi/runtime/client"
	"github.com/go-openapi/strfmt"
	"github.com/opentracing/opentracing-go"
	"github.com/opentracing/opentracing-go/mocktracer"
	oteltrace "go.opentelemetry.io/otel/trace"

	"verif/mon"
)

func init() {
	mon.Register(&mon.Property{
		ID:    "C13",
		Level: "exploration",
		Race:  true,
		Rule: "(a) sequential: a fresh client.Runtime per case with a tagged consumer registry (subset of 9 lower-case types, with/without '*/*', default media type registered or not; 1 in 4 DefaultMediaType values spelled with parameters / OWS / capitals, half of those cases answered without Content-Type) and a scripted response " +
			"(Content-Type registered / unregistered / absent / empty / malformed / grey, spelled plain, with parameters, OWS, mixed case; 17 status codes; custom reason phrase; header multiset; body of 0 bytes..1 MiB) served by an in-memory RoundTripper (whose body, like net/http's, fails once the request context is done or the body was closed) or a loopback server (1 in 4: the head is flushed first and the body is written once the reader has been entered, a logical event); " +
			"the ClientResponseReader records the consumer it was handed (by tag), Code/Message/GetHeader/GetHeaders/Body, the Content-Type and Content-Length headers it is shown, and looks every scripted header up under its canonical, lower-case and upper-case name; tagged RoundTrippers and context values tell which client and which context carried the call (operation-level vs Runtime-level; live, cancelled, nil, deadline already expired, deadline hours away; request timeout default / 0 / hours); a share of cases runs with Runtime.Debug on (null logger). Redirect policy: a 302 + Location answer with the operation client stopping/following, the Runtime made with New or NewWithClient (policy stopping/following, consultations counted), and the mirror cases without an operation client. " +
			"The body reaches the client at once or in pieces (1 case in 4: in memory no Read crosses the end of a piece - a Read may return less than asked for while more is to come; over loopback every piece is written and flushed on its own); the reader reads it to the end and, 1 in 4, closes it itself once or twice before Submit closes it again. " +
			"Connection reuse (1 in 6: Runtime.EnableConnectionReuse() or client.KeepAliveTransport around the Runtime's and the operation client's transport). Entry point (1 in 6): the operation is submitted to Runtime.WithOpenTracing() or Runtime.WithOpenTelemetry() instead of the Runtime, its context mostly carrying a span (opentracing no-op tracer or mocktracer, a valid OpenTelemetry span context; also none, or one of the other family): the same judgements apply. " +
			"A share of the Runtimes gets Runtime.BasePath assigned after client.New (empty, without a leading slash, rooted) and a caller-supplied response adapter (SetResponseReader) that shows the *http.Response as it is; Runtime.Context 'nil' is really nil. " +
			"(a2) sequences: 2-3 calls on one or two Runtimes; between the calls consumers are added, replaced (new consumer under an existing key), removed, DefaultMediaType is reassigned (the next response mostly names a media type that was touched, or carries no Content-Type), Runtime.Context is replaced by a new tagged context and the replaced one cancelled, and the same *runtime.ClientOperation value is submitted again to the same or to the other Runtime; every call is judged against what the Runtime it is submitted to holds when it is made (the harness's own record of its assignments). " +
			"(b) concurrent: N=4..64 goroutines released together on a FRESH Runtime (1-2 calls each, unique token in request header+query and in response header+body), GOMAXPROCS in {1,4,16}, " +
			"1 in 3 with connection reuse on (half of the readers then close the body themselves and go on - a scheduling point - before they return), 1 in 5 with all goroutines submitting to one tracing transport made from the Runtime, scheduling points also inside the caller's reader (entered; body closed), " +
			"2 in 5 with Runtime.BasePath assigned after client.New, 1 in 8 with Debug on, 1 in 8 with a caller-supplied response adapter, 1 in 4 with ONE operation value submitted by all goroutines; verifhook scheduler (per-goroutine PRNG: nothing / Gosched x k / sleep 10-300us at cl.submit.built, clientReady, beforeDo, afterDo; lock-free, so that it adds no happens-before edges), race detector on. " +
			"non-trivial: sequential = (registry shape, header kind+spelling+registration, client/context configuration) tuples; sequences = the tuple of their steps' (history, registry change, header feature, client/context configuration); concurrent = runs whose first calls overlapped between cl.submit.built and cl.submit.clientReady (from hook timestamps), distinct by the hash of the merged hook trace",
		Assumptions: []string{
			"registry keys are lower case without parameters; Runtime.DefaultMediaType is a well-formed media type, bare and lower case or (1 case in 4) spelled with parameters, optional white space and/or capital letters, as the request side of the same Runtime accepts it: the default media type is the type/subtype it names (parameters ignored, case-insensitively), exactly as for the media type a response declares",
			"a malformed Content-Type (type/subtype part not a token pair) has no media type: the call may fail or use the catch-all consumer, never another consumer; its error must mention the value or the words 'content type'",
			"grey-zone values (empty value, lone token without '/', irregular parameter section) may be read as 'media type = part before the first ;' or rejected; only 'never a different consumer' is judged there",
			"status 1xx is not generated, and 3xx-with-Location only in the redirect-policy sub-workload, where the governing client's CheckRedirect decides what the reader sees (net/http handles them before the Runtime sees the response); over loopback the reason phrase is the standard one and 204/304 carry no body",
			"a call whose governing context (operation's, else the Runtime's) is already cancelled or past its deadline must fail without the reader running; the other context being cancelled or expired must not matter (deadlines used are either in the past or hours away: no wall-clock judgement)",
			"header names are case-insensitive (RFC 7230): GetHeader/GetHeaders must find a header under any letter case of its name",
			"over loopback a Content-Length header, when the reader is shown one, must state the length of the body sent; in memory none is scripted, so none may appear",
			"race reports are collected by the driver from the race log; they carry no replayable case",
			"'the consumer registered', 'the default media type' and 'the transport-wide context' are what the Runtime a call is submitted to holds when that call is made (exported fields assigned between calls, never during one); Runtime.Transport/Jar are not changed after a Runtime's first call",
			"an operation value for which the caller set no client / no context has none, however often and wherever it was submitted before: it is carried by the client and context of the Runtime it is submitted to now",
			"a *runtime.ClientOperation whose Params writer and Reader are goroutine-safe may be submitted by several goroutines at once (Submit only reads it)",
			"Runtime.BasePath is an exported field and may be assigned before the first call, with or without a leading slash; the URL that results is not judged here",
			"a response reader may close the body it was handed, any number of times, and go on working afterwards; Submit closes the body again when the reader has returned. What Close returns and what a Read after Close yields are not judged",
			"the transports returned by Runtime.WithOpenTracing() / Runtime.WithOpenTelemetry() are entry points of the same Runtime: the reader of an operation submitted to them is promised the same consumer and the same status, headers and body. An operation value may be shared between goroutines through them as it may with Runtime.Submit (they used to rewrite the caller's value in place: repaired by 94d422b)",
			"how a body is cut into pieces is the network's business: a single Read may return any non-zero part of what is still to come",
			"a loopback listener that cannot be had (after retries) is a condition of the machine: the case is classed listen-failed and skipped",
		},
		MinNontrivial: 100,
		Run:           run,
		Replay:        replay,
	})
}

// ---------------------------------------------------------------------------------------------
// case
// ---------------------------------------------------------------------------------------------

// Call is one Submit with the response scripted for it.
type Call struct {
	HasCT    bool        `json:"has_ct"`
	CT       mon.Q       `json:"ct"`
	Status   int         `json:"status"`
	Reason   string      `json:"reason,omitempty"` // in-memory only: custom reason phrase
	Headers  [][2]string `json:"headers,omitempty"`
	Body     mon.Q       `json:"body"`
	OpClient bool        `json:"op_client,omitempty"` // operation carries its own http.Client
	OpCtx    string      `json:"op_ctx,omitempty"`    // "" | live | cancelled | expired (deadline in the past) | far (deadline hours away)
	Timeout  string      `json:"timeout,omitempty"`   // request timeout: "" (default 30s) | zero (SetTimeout(0)) | hours
	Rounds   int         `json:"rounds,omitempty"`    // concurrent: calls made by this goroutine (default 1)
	Fill     int         `json:"fill,omitempty"`      // deterministic filler of this many bytes follows Body in the response
	Flush    bool        `json:"flush,omitempty"`     // loopback only: the head is flushed first, the body is written once the reader has been entered
	// Pieces: the body reaches the client in pieces of these sizes (what is left after them is the last piece). In memory one Read
	// never crosses the end of a piece (a Read may return less than asked for while more is to come); over loopback every piece
	// is written and flushed on its own, a short pause apart (the pause decides only whether the pieces stay apart, no verdict)
	Pieces []int `json:"pieces,omitempty"`
	// ReaderClose: the caller's reader closes the body it was handed when it has read it ("once"), or closes it two times
	// ("twice"); Submit closes it again afterwards. In concurrent runs the reader then goes on (a scheduling point) before it returns.
	ReaderClose string `json:"reader_close,omitempty"`
	// Span: the operation's context (OpCtx) carries an active span: "noop" (opentracing's no-op tracer), "mock" (opentracing's
	// mocktracer), "otel" (a valid OpenTelemetry span context)
	Span string `json:"span,omitempty"`
}

// Conc configures a concurrent run (nil: the single call is made sequentially).
type Conc struct {
	Procs     int   `json:"procs"`
	SchedSeed int64 `json:"sched_seed"`
	// SharedOp: every goroutine submits the SAME *runtime.ClientOperation value (its Params writer and Reader find the
	// goroutine's own token; the operation-level settings are those of Calls[0], which all calls of such a case repeat)
	SharedOp bool `json:"shared_op,omitempty"`
}

// Step is one call of a sequential multi-call case (Case.Steps): what is changed before the call, and how it is made.
type Step struct {
	Call    int  `json:"call"`               // index into Calls: the response scripted for the call and, for a fresh operation, its operation-level settings
	Runtime int  `json:"runtime,omitempty"`  // 0: the case's Runtime; 1: a second Runtime made the same way (own tagged transport, context and consumers)
	ReuseOp bool `json:"reuse_op,omitempty"` // the *runtime.ClientOperation value of the previous step is submitted again (its operation-level settings stay those it was made with)
	// SetRtCtx: before the call the Runtime.Context of the step's Runtime is replaced by a new context of this kind
	// (nil | live | cancelled | expired | far) carrying a new tag; the context it replaces is then cancelled
	SetRtCtx string `json:"set_rt_ctx,omitempty"`
	// registry changes made on the step's Runtime before the call
	Add        []string `json:"add,omitempty"` // consumers registered now; a key that exists gets a NEW consumer (new tag)
	Del        []string `json:"del,omitempty"`
	SetDefault string   `json:"set_default,omitempty"` // Runtime.DefaultMediaType assigned now
}

// Case is one fresh Runtime plus the calls made on it.
type Case struct {
	Registry  []string `json:"registry"`   // keys of Runtime.Consumers; the tag of each consumer is its key
	DefaultMT string   `json:"default_mt"` // Runtime.DefaultMediaType
	RtCtx     string   `json:"rt_ctx"`     // Runtime.Context: nil | live | cancelled | expired | far
	TCP       bool     `json:"tcp,omitempty"`
	Debug     bool     `json:"debug,omitempty"`      // Runtime.Debug on, logging to a null logger
	TokenBody bool     `json:"token_body,omitempty"` // every response body starts with the token of its own call
	Calls     []Call   `json:"calls"`
	Conc      *Conc    `json:"conc,omitempty"`
	// BasePath: assigned to Runtime.BasePath after client.New ("" = left alone, "<empty>" = the empty string); values without a
	// leading slash are legal there. Only the race detector and the token checks look at the outcome: URL building is not C13's.
	BasePath string `json:"base_path,omitempty"`
	// Adapter: Runtime.SetResponseReader installs a caller-supplied adapter that shows the *http.Response as it is
	Adapter bool `json:"adapter,omitempty"`
	// Steps: a sequential case of several calls (Conc is nil then); Calls is the pool the steps point into
	Steps []Step `json:"steps,omitempty"`
	// KeepAlive: connection reuse on every Runtime of the case: "enable" = Runtime.EnableConnectionReuse() before the first call,
	// "wrap" = Runtime.Transport is client.KeepAliveTransport(the tagged transport); an operation's own client then carries
	// client.KeepAliveTransport(its tagged transport) too
	KeepAlive string `json:"keep_alive,omitempty"`
	// Entry: the transport the operations are submitted to: "" = the Runtime itself, "opentracing" = Runtime.WithOpenTracing(),
	// "opentelemetry" = Runtime.WithOpenTelemetry() (one such transport per Runtime, made before its first call, shared by all callers)
	Entry string `json:"entry,omitempty"`
}

// single is the case of one call alone on a fresh Runtime configured like c's.
func (c *Case) single(call *Call) *Case {
	one := *call
	one.Rounds = 0
	return &Case{Registry: c.Registry, DefaultMT: c.DefaultMT, RtCtx: c.RtCtx, TCP: c.TCP, Debug: c.Debug, TokenBody: c.TokenBody, BasePath: c.BasePath, Adapter: c.Adapter,
		KeepAlive: c.KeepAlive, Entry: c.Entry, Calls: []Call{one}}
}

// ---------------------------------------------------------------------------------------------
// reference model: media-type classifier (RFC 7231 3.1.1.1) and consumer choice from the statement
// ---------------------------------------------------------------------------------------------

type hdrKind int

const (
	hAbsent hdrKind = iota
	hEmpty
	hValid
	hMalformed
	hGray
)

func (k hdrKind) String() string {
	return [...]string{"absent", "empty", "valid", "malformed", "grey"}[k]
}

func isTchar(b byte) bool {
	switch {
	case b >= 'a' && b <= 'z', b >= 'A' && b <= 'Z', b >= '0' && b <= '9':
		return true
	}
	return strings.IndexByte("!#$%&'*+-.^_`|~", b) >= 0
}

func isToken(s string) bool {
	if s == "" {
		return false
	}
	for i := 0; i < len(s); i++ {
		if !isTchar(s[i]) {
			return false
		}
	}
	return true
}

// classifyCT: well-formed media type (lower-cased type/subtype), clearly malformed, or grey.
func classifyCT(has bool, v string) (hdrKind, string) {
	if !has {
		return hAbsent, ""
	}
	if v == "" {
		return hEmpty, ""
	}
	base, rest := v, ""
	hasParams := false
	if i := strings.IndexByte(v, ';'); i >= 0 {
		base, rest, hasParams = v[:i], v[i+1:], true
	}
	base = strings.Trim(base, " \t")
	slash := strings.IndexByte(base, '/')
	if slash < 0 && isToken(base) {
		return hGray, strings.ToLower(base) // a lone token: accepted by Go's mime parser
	}
	if slash <= 0 || slash == len(base)-1 || strings.Count(base, "/") != 1 {
		return hMalformed, ""
	}
	grayBase := false
	for i := 0; i < len(base); i++ {
		b := base[i]
		if i == slash || isTchar(b) {
			continue
		}
		if b == '{' || b == '}' {
			grayBase = true
			continue
		}
		return hMalformed, ""
	}
	mt := strings.ToLower(base)
	if grayBase {
		return hGray, mt
	}
	if !hasParams {
		return hValid, mt
	}
	seen := map[string]bool{}
	for {
		rest = strings.TrimLeft(rest, " \t")
		eq := strings.IndexByte(rest, '=')
		if eq <= 0 {
			return hGray, mt
		}
		name := rest[:eq]
		if !isToken(name) || strings.Contains(name, "*") {
			return hGray, mt
		}
		ln := strings.ToLower(name)
		if seen[ln] {
			return hGray, mt
		}
		seen[ln] = true
		rest = rest[eq+1:]
		if strings.HasPrefix(rest, "\"") {
			j := 1
			for j < len(rest) && rest[j] != '"' {
				c := rest[j]
				if c == '\\' || c < 0x20 && c != '\t' || c >= 0x7f {
					return hGray, mt
				}
				j++
			}
			if j >= len(rest) {
				return hGray, mt
			}
			rest = rest[j+1:]
		} else {
			j := 0
			for j < len(rest) && isTchar(rest[j]) {
				j++
			}
			if j == 0 {
				return hGray, mt
			}
			rest = rest[j:]
		}
		rest = strings.TrimLeft(rest, " \t")
		if rest == "" {
			return hValid, mt
		}
		if rest[0] != ';' {
			return hGray, mt
		}
		rest = rest[1:]
	}
}

func spelling(v string) string {
	var f []string
	base := v
	if i := strings.IndexByte(v, ';'); i >= 0 {
		base = v[:i]
		f = append(f, "params")
		if strings.ContainsAny(v, " \t") {
			f = append(f, "ows")
		}
	}
	if base != strings.ToLower(base) {
		f = append(f, "uppercase")
	}
	if len(f) == 0 {
		return "plain"
	}
	return strings.Join(f, "+")
}

func contains(l []string, s string) bool {
	for _, e := range l {
		if e == s {
			return true
		}
	}
	return false
}

// want is what the statement promises for one response.
type want struct {
	kind     hdrKind
	mt       string   // media type that selects the consumer ("" when there is none)
	allowed  []string // consumer tags the reader may be handed
	mayFail  bool     // the call may fail instead
	mustFail bool     // no acceptable consumer exists: the call must fail, naming the content type
	feature  string
}

func choose(registry []string, mt string) (tag string, ok bool) {
	if contains(registry, mt) {
		return mt, true
	}
	if contains(registry, "*/*") {
		return "*/*", true
	}
	return "", false
}

// defaultType is the media type that Runtime.DefaultMediaType names. The setting is a media type as a description spells it
// ("application/json; charset=utf-8", "Application/JSON"): like the media type of a response it selects the consumer by its
// type/subtype, parameters ignored, whatever the letter case. spelled is "" for a bare lower-case value, else the class of the
// spelling. A value that is no well-formed media type (never generated) is taken as it stands.
func defaultType(def string) (mt, spelled string) {
	if k, t := classifyCT(true, def); k == hValid {
		if t == def {
			return t, ""
		}
		return t, "/default-spelled-" + spelling(def)
	}
	return def, ""
}

func expectFor(c *Case, call *Call) want {
	w := want{}
	w.kind, w.mt = classifyCT(call.HasCT, string(call.CT))
	catchAll := contains(c.Registry, "*/*")
	switch w.kind {
	case hAbsent:
		var spelled string
		w.mt, spelled = defaultType(c.DefaultMT)
		w.feature = "absent-header" + spelled
	case hValid:
		w.feature = "valid-" + spelling(string(call.CT))
	case hMalformed:
		w.feature = "malformed-header"
		w.mayFail = true
		if catchAll {
			w.allowed = []string{"*/*"}
		} else {
			w.mustFail = true
		}
		return w
	case hEmpty, hGray:
		// lenient readings: the part before ';', or the default type for an empty value
		w.feature = w.kind.String() + "-header"
		w.mayFail = true
		if w.kind == hEmpty {
			var spelled string
			w.mt, spelled = defaultType(c.DefaultMT)
			w.feature += spelled
		}
		if t, ok := choose(c.Registry, w.mt); ok {
			w.allowed = append(w.allowed, t)
		}
		if catchAll && !contains(w.allowed, "*/*") {
			w.allowed = append(w.allowed, "*/*")
		}
		w.mustFail = len(w.allowed) == 0
		return w
	}
	if t, ok := choose(c.Registry, w.mt); ok {
		w.allowed = []string{t}
		if t == w.mt {
			w.feature += "/registered"
		} else {
			w.feature += "/unregistered-catch-all"
		}
	} else {
		w.mustFail, w.mayFail = true, true
		w.feature += "/unregistered-no-catch-all"
	}
	return w
}

// ---------------------------------------------------------------------------------------------
// execution
// ---------------------------------------------------------------------------------------------

type ctxKey struct{}

type taggedConsumer struct{ tag string }

func (t *taggedConsumer) Consume(r io.Reader, v interface{}) error {
	b, err := io.ReadAll(r)
	if p, ok := v.(*[]byte); ok {
		*p = b
	}
	return err
}

// slot holds everything observed for one call (round) of one goroutine; only that goroutine writes it.
type slot struct {
	token string

	// round tripper side
	rtCalls int
	rtTag   string
	ctxTag  string
	reqTok  string // token found in the request the transport saw (header and query agree)

	// reader side
	readerRuns int
	consumer   string
	code       int
	msg        string
	first      map[string]string
	all        map[string][]string
	altFirst   map[string]string   // looked up under the lower-cased and upper-cased name ("l:"/"u:" + name)
	altAll     map[string][]string // idem
	ct         string
	cts        []string
	cls        []string
	body       []byte
	bodyErr    string
	hdrTok     string
	viaAdapter bool // the ClientResponse handed to the reader was made by the caller-supplied adapter

	// caller side
	result interface{}
	mine   *result
	err    error
	panicV string

	cancel context.CancelFunc // of the operation context, if it has one
}

type result struct{ token string }

type plan struct {
	call *Call
	tcp  bool
}

type exec struct {
	c        *Case
	nonce    int64
	plans    map[string]*plan // token -> plan (read-only while calls run)
	slots    map[string]*slot // token -> slot (read-only map; each slot written by its own goroutine)
	rtCancel context.CancelFunc
	// entries: the transport the operations of a Runtime are submitted to (Case.Entry); filled when the Runtime is made, read-only
	// while calls run
	entries map[*client.Runtime]runtime.ClientTransport
	tracer  *mocktracer.MockTracer // made by prepare when a call wants a mocktracer span
	// yield: a scheduling point inside the caller's reader (concurrent runs: the hook scheduler; nil otherwise)
	yield func(point string)
}

// cutsOf turns piece sizes into the offsets at which the body of n bytes is cut.
func cutsOf(pieces []int, n int) []int {
	var cuts []int
	at := 0
	for _, p := range pieces {
		if p <= 0 {
			continue
		}
		at += p
		if at >= n {
			break
		}
		cuts = append(cuts, at)
	}
	return cuts
}

// bodyOf is the body scripted for the call carrying the token.
func bodyOf(c *Case, call *Call, token string) string {
	if c.TokenBody {
		return token + "|" + string(call.Body) + filler(call.Fill)
	}
	return string(call.Body) + filler(call.Fill)
}

var (
	fillMu    sync.Mutex
	fillCache = map[int]string{}
)

// filler is a deterministic printable text of n bytes (no period that divides a power of two).
func filler(n int) string {
	if n <= 0 {
		return ""
	}
	fillMu.Lock()
	defer fillMu.Unlock()
	if f, ok := fillCache[n]; ok {
		return f
	}
	const alpha = "abcdefghijklmnopqrstuvwxyzABCDEFGHIJKLMNOPQRSTUVWXYZ0123456789-_.,;"
	b := make([]byte, n)
	for i := range b {
		b[i] = alpha[(i+i/67+i/4099)%len(alpha)]
	}
	fillCache[n] = string(b)
	return fillCache[n]
}

// memBody is the body of an in-memory response. Like the body net/http hands out, it stops delivering once the request's
// context is done (Read fails with the context's error) and once it has been closed (Read fails): a response body is only
// good while the exchange it belongs to is still open.
type memBody struct {
	ctx    context.Context
	r      *bytes.Reader
	closed int32
	// cuts: offsets no single Read crosses (the body arrives in pieces); only the goroutine that reads the body touches them
	cuts []int
	size int
}

var errBodyClosed = errors.New("http: read on closed response body")

func (b *memBody) Read(p []byte) (int, error) {
	if atomic.LoadInt32(&b.closed) != 0 {
		return 0, errBodyClosed
	}
	if err := b.ctx.Err(); err != nil {
		return 0, err
	}
	if len(b.cuts) > 0 && len(p) > 0 {
		pos := b.size - b.r.Len()
		for len(b.cuts) > 0 && b.cuts[0] <= pos {
			b.cuts = b.cuts[1:]
		}
		if len(b.cuts) > 0 && pos+len(p) > b.cuts[0] {
			p = p[:b.cuts[0]-pos] // a Read may return less than asked for while more is to come
		}
	}
	return b.r.Read(p)
}

func (b *memBody) Close() error {
	atomic.StoreInt32(&b.closed, 1)
	return nil
}

type nullLogger struct{}

func (nullLogger) Printf(string, ...interface{}) {}
func (nullLogger) Debugf(string, ...interface{}) {}

func reasonOf(call *Call) string {
	if call.Reason != "" {
		return call.Reason
	}
	return http.StatusText(call.Status)
}

// memRT is the in-memory RoundTripper; tcpRT wraps a real transport. Both record which client
// (by tag) and which context (by value) carried the request.
type memRT struct {
	tag string
	x   *exec
}

func (x *exec) note(tag string, req *http.Request) *slot {
	tok := req.Header.Get("X-Token")
	s := x.slots[tok]
	if s == nil {
		return nil
	}
	s.rtCalls++
	s.rtTag = tag
	if v, ok := req.Context().Value(ctxKey{}).(string); ok {
		s.ctxTag = v
	} else {
		s.ctxTag = "none"
	}
	s.reqTok = tok
	if q := req.URL.Query().Get("token"); q != tok {
		s.reqTok = tok + "!=" + q
	}
	return s
}

func (t *memRT) RoundTrip(req *http.Request) (*http.Response, error) {
	s := t.x.note(t.tag, req)
	if err := req.Context().Err(); err != nil {
		return nil, err
	}
	if s == nil {
		return nil, fmt.Errorf("c13: request without a known token")
	}
	call := t.x.plans[s.token].call
	h := http.Header{}
	for _, kv := range call.Headers {
		h[kv[0]] = append(h[kv[0]], kv[1])
	}
	if call.HasCT {
		h["Content-Type"] = []string{string(call.CT)}
	}
	h["X-Token"] = []string{s.token}
	body := []byte(bodyOf(t.x.c, call, s.token))
	return &http.Response{
		Status:        fmt.Sprintf("%d %s", call.Status, reasonOf(call)),
		StatusCode:    call.Status,
		Proto:         "HTTP/1.1",
		ProtoMajor:    1,
		ProtoMinor:    1,
		Header:        h,
		Body:          &memBody{ctx: req.Context(), r: bytes.NewReader(body), cuts: cutsOf(call.Pieces, len(body)), size: len(body)},
		ContentLength: int64(len(body)),
		Request:       req,
	}, nil
}

type tcpRT struct {
	tag  string
	x    *exec
	base http.RoundTripper
}

func (t *tcpRT) RoundTrip(req *http.Request) (*http.Response, error) {
	t.x.note(t.tag, req)
	res, err := t.base.RoundTrip(req)
	if t.x.c.KeepAlive != "" || t.x.c.Entry != "" {
		// a handler that flushed its head waits for the caller's reader to be entered before it writes the body. Not here: a
		// keep-alive transport reads the body to its end when Submit closes it (also when the reader never ran), and a transport
		// in front of the Runtime may look at the body before it enters the caller's reader. The body follows once the head is here.
		openGate(req.Header.Get("X-Token"))
	}
	return res, err
}

// loopback server shared by the worker process: the response is scripted by the token's plan.
var (
	srv       *httptest.Server
	srvBase   *http.Transport
	srvPlans  sync.Map // token -> *srvPlan
	noSniffCT []string // nil value: suppresses net/http's content sniffing
)

type srvPlan struct {
	call *Call
	body string
	// gate is closed when the caller's reader has been entered (or the call is over): a handler that flushed its head
	// writes the body only then (a logical event; the timeout is a watchdog)
	gate     chan struct{}
	gateOnce sync.Once
}

func (p *srvPlan) open() { p.gateOnce.Do(func() { close(p.gate) }) }

// openGate lets the loopback handler of the call write its body.
func openGate(token string) {
	if v, ok := srvPlans.Load(token); ok {
		v.(*srvPlan).open()
	}
}

const gateWatchdog = 20 * time.Second

// listenLoopback gets a loopback listener without ever panicking: a machine that has no free port (or no IPv4 loopback) right
// now is a harness condition, not an observation about the library. A few retries, then the error.
func listenLoopback() (net.Listener, error) {
	var err error
	for i := 0; i < 4; i++ {
		var l net.Listener
		if l, err = net.Listen("tcp", "127.0.0.1:0"); err == nil {
			return l, nil
		}
		if l, err = net.Listen("tcp6", "[::1]:0"); err == nil {
			return l, nil
		}
		time.Sleep(time.Duration(20*(i+1)) * time.Millisecond)
	}
	return nil, err
}

// startServer is httptest.NewServer that returns the listen error instead of panicking.
func startServer(h http.Handler) (*httptest.Server, error) {
	l, err := listenLoopback()
	if err != nil {
		return nil, err
	}
	s := &httptest.Server{Listener: l, Config: &http.Server{Handler: h}}
	s.Start()
	return s, nil
}

var (
	srvMu       sync.Mutex
	srvFailures int
)

// server returns the shared loopback server, or nil when none could be started (tried again by the next loopback case, a few
// times per worker); the caller classes the case as listen-failed and skips it.
func server() *httptest.Server {
	srvMu.Lock()
	defer srvMu.Unlock()
	if srv != nil || srvFailures >= 5 {
		return srv
	}
	func() {
		started, err := startServer(http.HandlerFunc(func(w http.ResponseWriter, r *http.Request) {
			tok := r.Header.Get("X-Token")
			v, ok := srvPlans.Load(tok)
			if !ok {
				w.WriteHeader(http.StatusTeapot)
				return
			}
			call, body := v.(*srvPlan).call, v.(*srvPlan).body
			for _, kv := range call.Headers {
				w.Header()[kv[0]] = append(w.Header()[kv[0]], kv[1])
			}
			if call.HasCT {
				w.Header()["Content-Type"] = []string{string(call.CT)}
			} else {
				w.Header()["Content-Type"] = noSniffCT
			}
			w.Header()["X-Token"] = []string{tok}
			w.WriteHeader(call.Status)
			if call.Status != 204 && call.Status != 304 {
				if call.Flush {
					if fl, ok := w.(http.Flusher); ok {
						fl.Flush() // the head leaves now, without the body
						select {
						case <-v.(*srvPlan).gate:
						case <-time.After(gateWatchdog):
						}
					}
				}
				if cuts := cutsOf(call.Pieces, len(body)); len(cuts) > 0 {
					// every piece leaves on its own; the pause only makes it likely that the client has seen one piece before
					// the next arrives (no verdict depends on it)
					fl, _ := w.(http.Flusher)
					at := 0
					for _, cut := range append(cuts, len(body)) {
						_, _ = w.Write([]byte(body[at:cut]))
						at = cut
						if fl != nil && cut < len(body) {
							fl.Flush()
							time.Sleep(time.Millisecond)
						}
					}
					return
				}
				_, _ = w.Write([]byte(body))
			}
		}))
		if err != nil {
			srvFailures++
			return
		}
		srv = started
		srvBase = &http.Transport{MaxIdleConnsPerHost: 64}
	}()
	return srv
}

// mkCtx builds a context of the given kind carrying the tag; the cancel function (nil for kinds that need none)
// is called when the case is over. Deadlines are either long past or hours away: nothing here depends on timing.
func mkCtx(kind, tag string) (context.Context, context.CancelFunc) {
	base := context.WithValue(context.Background(), ctxKey{}, tag)
	switch kind {
	case "live":
		return base, nil
	case "cancelled":
		ctx, cancel := context.WithCancel(base)
		cancel()
		return ctx, nil
	case "expired":
		return context.WithDeadline(base, time.Unix(1000000000, 0)) // 2001: Done from the start, Err() = DeadlineExceeded
	case "far":
		return context.WithDeadline(base, time.Now().Add(12*time.Hour))
	}
	return nil, nil
}

// dead: a context of this kind is over before the call starts; alive: it cannot end while the call runs.
func dead(kind string) bool  { return kind == "cancelled" || kind == "expired" }
func alive(kind string) bool { return kind == "live" || kind == "far" }

func (x *exec) transport(tag string) http.RoundTripper {
	if x.c.TCP {
		return &tcpRT{tag: tag, x: x, base: srvBase}
	}
	return &memRT{tag: tag, x: x}
}

// entry is the transport the operations of the Runtime are submitted to.
func (x *exec) entry(rt *client.Runtime) runtime.ClientTransport {
	if e := x.entries[rt]; e != nil {
		return e
	}
	return rt
}

// withSpan puts an active span of the given kind into the context.
func (x *exec) withSpan(ctx context.Context, kind string) context.Context {
	switch kind {
	case "noop":
		return opentracing.ContextWithSpan(ctx, opentracing.NoopTracer{}.StartSpan("c13-parent"))
	case "mock":
		if x.tracer != nil {
			return opentracing.ContextWithSpan(ctx, x.tracer.StartSpan("c13-parent"))
		}
	case "otel":
		return oteltrace.ContextWithSpanContext(ctx, oteltrace.NewSpanContext(oteltrace.SpanContextConfig{
			TraceID: oteltrace.TraceID{0xc, 0x13, 1, 2, 3, 4, 5, 6, 7, 8, 9, 10, 11, 12, 13, 14}, SpanID: oteltrace.SpanID{0xc, 0x13, 1, 2, 3, 4, 5, 6}, TraceFlags: oteltrace.FlagsSampled}))
	}
	return ctx
}

// tapResp is the caller-supplied response adapter (Runtime.SetResponseReader): it shows the *http.Response as it is.
type tapResp struct{ res *http.Response }

func (t *tapResp) Code() int                       { return t.res.StatusCode }
func (t *tapResp) Message() string                 { return t.res.Status }
func (t *tapResp) GetHeader(name string) string    { return t.res.Header.Get(name) }
func (t *tapResp) GetHeaders(name string) []string { return t.res.Header.Values(name) }
func (t *tapResp) Body() io.ReadCloser             { return t.res.Body }

// newRuntime builds the fresh Runtime of a case.
func (x *exec) newRuntime() *client.Runtime {
	rt := x.newRuntimeTagged("rt", "")
	if ctx, cancel := mkCtx(x.c.RtCtx, "rt"); ctx != nil {
		rt.Context, x.rtCancel = ctx, cancel
	}
	return rt
}

// newRuntimeTagged: the transport carries the tag, every consumer the tag key+suffix; Runtime.Context is nil for the kind
// "nil" and otherwise left to the caller.
func (x *exec) newRuntimeTagged(tag, suffix string) *client.Runtime {
	host := "c13.test"
	if x.c.TCP {
		host = server().Listener.Addr().String()
	}
	rt := client.New(host, "/", []string{"http"})
	switch x.c.KeepAlive {
	case "enable":
		rt.Transport = x.transport(tag)
		rt.EnableConnectionReuse()
	case "wrap":
		rt.Transport = client.KeepAliveTransport(x.transport(tag))
	default:
		rt.Transport = x.transport(tag)
	}
	rt.DefaultMediaType = x.c.DefaultMT
	rt.Consumers = map[string]runtime.Consumer{}
	for _, k := range x.c.Registry {
		rt.Consumers[k] = &taggedConsumer{tag: k + suffix}
	}
	switch x.c.BasePath {
	case "":
	case "<empty>":
		rt.BasePath = ""
	default:
		rt.BasePath = x.c.BasePath
	}
	// client.New puts context.Background() there: "no transport-wide context" has to be said explicitly (the caller assigns
	// the context of every other kind)
	rt.Context = nil
	if x.c.Adapter {
		rt.SetResponseReader(func(res *http.Response) runtime.ClientResponse { return &tapResp{res: res} })
	}
	if x.c.Debug {
		rt.SetLogger(nullLogger{})
		rt.Debug = true
	}
	switch x.c.Entry {
	case "opentracing":
		x.entries[rt] = rt.WithOpenTracing()
	case "opentelemetry":
		x.entries[rt] = rt.WithOpenTelemetry()
	}
	return rt
}

// opBox is what the closures of an operation look at: the slot and the scripted call of the submission that is under way
// (an operation value can be submitted more than once, and by several goroutines).
type opBox struct {
	made *Call // the call the operation was made for: its operation-level settings (client, context, timeout)
	s    *slot
	call *Call
	by   func() (*slot, *Call) // set for an operation shared by goroutines: finds the calling goroutine's submission
}

func (b *opBox) cur() (*slot, *Call) {
	if b.by != nil {
		return b.by()
	}
	return b.s, b.call
}

func (x *exec) operation(call *Call, s *slot) (*runtime.ClientOperation, *opBox) {
	box := &opBox{made: call, s: s, call: call}
	op := &runtime.ClientOperation{
		ID:                 "c13",
		Method:             http.MethodGet,
		PathPattern:        "/c13",
		ProducesMediaTypes: []string{"application/json"},
		ConsumesMediaTypes: []string{"application/json"},
		Schemes:            []string{"http"},
		Params: runtime.ClientRequestWriterFunc(func(req runtime.ClientRequest, _ strfmt.Registry) error {
			s, _ := box.cur()
			if s == nil {
				return errors.New("c13: submission without a slot")
			}
			if err := req.SetHeaderParam("X-Token", s.token); err != nil {
				return err
			}
			switch box.made.Timeout {
			case "zero":
				if err := req.SetTimeout(0); err != nil {
					return err
				}
			case "hours":
				if err := req.SetTimeout(6 * time.Hour); err != nil {
					return err
				}
			}
			return req.SetQueryParam("token", s.token)
		}),
		Reader: runtime.ClientResponseReaderFunc(func(resp runtime.ClientResponse, cons runtime.Consumer) (interface{}, error) {
			s, call := box.cur()
			if s == nil {
				return nil, errors.New("c13: submission without a slot")
			}
			names := map[string]bool{}
			for _, kv := range call.Headers {
				names[kv[0]] = true
			}
			s.readerRuns++
			_, s.viaAdapter = resp.(*tapResp)
			if x.c.TCP && call.Flush {
				openGate(s.token)
			}
			switch t := cons.(type) {
			case nil:
				s.consumer = "<nil>"
			case *taggedConsumer:
				s.consumer = t.tag
			default:
				s.consumer = fmt.Sprintf("<foreign %T>", cons)
			}
			s.code = resp.Code()
			s.msg = resp.Message()
			s.first = map[string]string{}
			s.all = map[string][]string{}
			s.altFirst = map[string]string{}
			s.altAll = map[string][]string{}
			for n := range names {
				s.first[n] = resp.GetHeader(n)
				s.all[n] = append([]string(nil), resp.GetHeaders(n)...)
				for pfx, alt := range map[string]string{"l:": strings.ToLower(n), "u:": strings.ToUpper(n)} {
					s.altFirst[pfx+n] = resp.GetHeader(alt)
					s.altAll[pfx+n] = append([]string(nil), resp.GetHeaders(alt)...)
				}
			}
			s.ct = resp.GetHeader("Content-Type")
			s.cts = append([]string(nil), resp.GetHeaders("Content-Type")...)
			s.cls = append([]string(nil), resp.GetHeaders("Content-Length")...)
			s.hdrTok = resp.GetHeader("X-Token")
			if x.yield != nil {
				x.yield("reader.entered")
			}
			b, err := io.ReadAll(resp.Body())
			s.body = b
			if err != nil {
				s.bodyErr = err.Error()
			}
			if call.ReaderClose != "" {
				// a reader may close the body it was handed (Submit closes it again); it is not done yet when it has
				_ = resp.Body().Close()
				if call.ReaderClose == "twice" {
					_ = resp.Body().Close()
				}
				if x.yield != nil {
					x.yield("reader.closed")
				}
			}
			s.mine = &result{token: s.token}
			return s.mine, nil
		}),
	}
	if call.OpClient {
		op.Client = &http.Client{Transport: x.transport("op")}
		if x.c.KeepAlive != "" {
			op.Client.Transport = client.KeepAliveTransport(op.Client.Transport)
		}
	}
	if ctx, cancel := mkCtx(call.OpCtx, "op"); ctx != nil {
		op.Context, s.cancel = x.withSpan(ctx, call.Span), cancel
	}
	return op, box
}

func (x *exec) submit(rt *client.Runtime, call *Call, s *slot) {
	op, _ := x.operation(call, s)
	x.submitOp(rt, op, call, s)
}

// submitOp submits an operation value that exists already for the call.
func (x *exec) submitOp(rt *client.Runtime, op *runtime.ClientOperation, call *Call, s *slot) {
	via := x.entry(rt)
	pv, st := mon.Catch(func() { s.result, s.err = via.Submit(op) })
	if x.c.TCP && call.Flush {
		openGate(s.token) // never leave a handler waiting
	}
	if pv != nil {
		s.panicV = fmt.Sprintf("%v\n%s", pv, st)
	}
}

func rounds(call *Call) int {
	if call.Rounds < 1 {
		return 1
	}
	return call.Rounds
}

var caseCounter int64

func tokenOf(nonce int64, i, k int) string {
	return fmt.Sprintf("tok-%d-%d-%d", nonce, i, k)
}

// prepare creates the plans and slots of all calls.
func prepare(c *Case) *exec {
	caseCounter++
	x := &exec{c: c, nonce: caseCounter, plans: map[string]*plan{}, slots: map[string]*slot{}, entries: map[*client.Runtime]runtime.ClientTransport{}}
	for i := range c.Calls {
		if c.Calls[i].Span == "mock" && x.tracer == nil {
			x.tracer = mocktracer.New()
		}
	}
	add := func(i, k int, call *Call) {
		tok := tokenOf(x.nonce, i, k)
		x.plans[tok] = &plan{call: call, tcp: c.TCP}
		x.slots[tok] = &slot{token: tok}
		if c.TCP {
			sp := &srvPlan{call: call, body: bodyOf(c, call, tok), gate: make(chan struct{})}
			if c.Debug {
				sp.open() // with Debug on the Runtime dumps (reads) the whole response before the reader is entered
			}
			srvPlans.Store(tok, sp)
		}
	}
	if len(c.Steps) > 0 {
		// one slot per step; the step's call scripts the response
		for i, st := range c.Steps {
			if st.Call >= 0 && st.Call < len(c.Calls) {
				add(i, 0, &c.Calls[st.Call])
			}
		}
		return x
	}
	for i := range c.Calls {
		for k := 0; k < rounds(&c.Calls[i]); k++ {
			add(i, k, &c.Calls[i])
		}
	}
	return x
}

func (x *exec) release() {
	if x.rtCancel != nil {
		x.rtCancel()
	}
	for _, s := range x.slots {
		if s.cancel != nil {
			s.cancel()
		}
	}
	if x.c.TCP {
		for tok := range x.plans {
			srvPlans.Delete(tok)
		}
	}
}

// ---------------------------------------------------------------------------------------------
// oracle
// ---------------------------------------------------------------------------------------------

type finding struct{ sig, text string }

func sameList(a, b []string) bool {
	if len(a) != len(b) {
		return false
	}
	for i := range a {
		if a[i] != b[i] {
			return false
		}
	}
	return true
}

// judgeX tells the oracle about a call that is not the only one of a fresh Runtime (multi-call sequential cases): the tags
// that stand for "the transport-wide client / context / consumers of the Runtime the call was submitted to, as they are now".
type judgeX struct {
	rtTag    string              // tag of that Runtime's transport
	rtCtxTag string              // tag carried by that Runtime's context now
	consTag  func(string) string // registry key -> tag of the consumer registered under it now
	history  string              // what preceded the call, appended to the client/context signatures
	regHist  string              // registry changes that preceded the call, appended to the header feature class
}

func judgeCall(c *Case, call *Call, s *slot) []finding { return judgeCallX(c, call, s, nil) }

// entryClass: the transport the operation went through, when it is not the Runtime itself, with what such a transport is
// documented to look at (a span in the operation's context, the status class). It is part of every signature of such a call.
func entryClass(c *Case, call *Call) string {
	if c.Entry == "" {
		return ""
	}
	cl := "@via-" + c.Entry
	switch {
	case call.OpCtx == "":
		cl += "+no-op-context"
	case call.Span != "":
		cl += "+span"
	default:
		cl += "+no-span"
	}
	if call.Status >= 400 {
		return cl + "+status>=400"
	}
	return cl + "+status<400"
}

// bodyClass: how the body travels and who closes it; part of the signatures that are about the body.
func bodyClass(c *Case, call *Call, bodyLen int) string {
	var f []string
	if c.KeepAlive != "" {
		f = append(f, "keep-alive")
	}
	if call.ReaderClose != "" {
		f = append(f, "reader-closes-body")
	} else if c.Conc != nil {
		for i := range c.Calls {
			if c.Calls[i].ReaderClose != "" {
				f = append(f, "another-reader-closes-body")
				break
			}
		}
	}
	if len(cutsOf(call.Pieces, bodyLen)) > 0 {
		f = append(f, "body-in-pieces")
	}
	if len(f) == 0 {
		return ""
	}
	return "/" + strings.Join(f, "+")
}

func judgeCallX(c *Case, call *Call, s *slot, jx *judgeX) []finding {
	var fs []finding
	ec := entryClass(c, call)
	add := func(sig, format string, args ...interface{}) {
		fs = append(fs, finding{sig + ec, fmt.Sprintf(format, args...)})
	}
	if s.panicV != "" {
		add("panic", "Submit panicked: %s", s.panicV)
		return fs
	}
	// which client and which context must have carried the call
	wantRT, wantCtx, gov := "rt", "none", c.RtCtx
	rtCtxTag, hist := "rt", ""
	if jx != nil {
		wantRT, rtCtxTag = jx.rtTag, jx.rtCtxTag
		if jx.history != "" {
			hist = "/" + jx.history
		}
	}
	if call.OpClient {
		wantRT = "op"
	}
	switch {
	case call.OpCtx != "":
		wantCtx, gov = "op", call.OpCtx
	case c.RtCtx != "nil" && c.RtCtx != "":
		wantCtx = rtCtxTag
	}
	if s.rtCalls > 0 {
		if s.rtTag != wantRT {
			if call.OpClient {
				add("op-client-ignored"+hist, "the operation carries its own http.Client but the request went through the %q transport", s.rtTag)
			} else {
				add("runtime-client-bypassed"+hist, "the operation has no client of its own but the request went through the %q transport, not the %q transport of the Runtime it was submitted to", s.rtTag, wantRT)
			}
		}
		if s.ctxTag != wantCtx {
			switch {
			case call.OpCtx != "":
				add("op-context-ignored"+hist, "the operation carries its own context but the request context held %q (Runtime.Context %s)", s.ctxTag, c.RtCtx)
			default:
				add("runtime-context-ignored"+hist, "request context held %q, expected %q (Runtime.Context %s, no operation context)", s.ctxTag, wantCtx, c.RtCtx)
			}
		}
		if s.reqTok != s.token {
			add("request-token-altered", "the transport saw token %q for the call with token %q", s.reqTok, s.token)
		}
		if s.rtCalls > 1 {
			add("request-sent-more-than-once", "the transport saw the call's request %d times", s.rtCalls)
		}
	}
	if dead(gov) {
		if s.err == nil || s.readerRuns > 0 {
			which := "runtime"
			if call.OpCtx != "" {
				which = "op"
			}
			add(gov+"-"+which+"-context-ignored"+hist, "the governing context is %s, yet err=%v, reader runs=%d (request context held %q)", gov, s.err, s.readerRuns, s.ctxTag)
		}
		return fs
	}
	if alive(call.OpCtx) && dead(c.RtCtx) && s.err != nil && (errors.Is(s.err, context.Canceled) || errors.Is(s.err, context.DeadlineExceeded)) {
		// the operation's own context is alive and no timeout can have run out (30 s at least, against an immediate answer):
		// only the transport-wide context can have ended the call, and it has no say when the operation carries its own
		add("runtime-context-ended-call-despite-op-context/runtime-"+c.RtCtx+"+timeout-"+timeoutName(call), "operation context %s, Runtime.Context %s, request timeout %s: the call failed with %q (reader runs=%d)", call.OpCtx, c.RtCtx, timeoutName(call), s.err.Error(), s.readerRuns)
		return fs
	}
	if s.rtCalls == 0 {
		add("request-never-sent", "the transport never saw the request (err=%v)", s.err)
		return fs
	}
	w := expectFor(c, call)
	if jx != nil {
		if jx.regHist != "" {
			w.feature += "+" + jx.regHist
		}
		if jx.consTag != nil {
			for i, k := range w.allowed {
				w.allowed[i] = jx.consTag(k)
			}
		}
	}
	ctText := "<absent>"
	if call.HasCT {
		ctText = strconv.Quote(string(call.CT))
	}
	if s.readerRuns == 0 {
		switch {
		case s.err == nil:
			add("no-reader-no-error/"+w.feature, "Submit returned (%v, nil) without running the reader", s.result)
		case !w.mayFail:
			add("call-failed-although-consumer-exists/"+w.feature, "Content-Type %s, registry %v, default %q: expected consumer %q, got error %q", ctText, c.Registry, c.DefaultMT, w.allowed, s.err.Error())
		default:
			// the failure must name the content type
			el := strings.ToLower(s.err.Error())
			named := call.HasCT && string(call.CT) != "" && strings.Contains(el, strings.ToLower(string(call.CT)))
			if w.mt != "" && strings.Contains(el, w.mt) {
				named = true
			}
			if w.kind != hValid && w.kind != hAbsent && (strings.Contains(el, "content type") || strings.Contains(el, "content-type")) {
				named = true
			}
			if !named {
				add("error-does-not-name-content-type/"+w.feature, "Content-Type %s: error %q", ctText, s.err.Error())
			}
		}
		return fs
	}
	if s.readerRuns > 1 {
		add("reader-ran-more-than-once", "reader ran %d times", s.readerRuns)
	}
	if !contains(w.allowed, s.consumer) {
		if w.mustFail {
			add("reader-ran-although-no-consumer/"+w.feature, "Content-Type %s, registry %v, default %q: no acceptable consumer exists, yet the reader was handed %q", ctText, c.Registry, c.DefaultMT, s.consumer)
		} else {
			add("wrong-consumer/"+w.feature, "Content-Type %s, registry %v, default %q: reader was handed %q, expected %q", ctText, c.Registry, c.DefaultMT, s.consumer, w.allowed)
		}
	}
	// the response seen by the reader
	if s.code != call.Status {
		add("status-altered", "reader saw code %d, sent %d", s.code, call.Status)
	}
	wantMsg := fmt.Sprintf("%d %s", call.Status, reasonOf(call))
	if c.TCP {
		wantMsg = fmt.Sprintf("%d %s", call.Status, http.StatusText(call.Status))
	}
	if s.msg != wantMsg {
		add("message-altered", "reader saw message %q, sent %q", s.msg, wantMsg)
	}
	sent := map[string][]string{}
	for _, kv := range call.Headers {
		sent[kv[0]] = append(sent[kv[0]], kv[1])
	}
	for n, vs := range sent {
		if !sameList(s.all[n], vs) {
			add("headers-altered", "GetHeaders(%q) = %q, sent %q", n, s.all[n], vs)
		} else if s.first[n] != vs[0] {
			add("headers-altered", "GetHeader(%q) = %q, first sent value %q", n, s.first[n], vs[0])
		} else if s.altAll != nil {
			for _, pfx := range []string{"l:", "u:"} {
				if !sameList(s.altAll[pfx+n], vs) || s.altFirst[pfx+n] != vs[0] {
					add("header-lookup-depends-on-letter-case", "header %q sent with %q: looked up under its %s name GetHeaders = %q, GetHeader = %q", n, vs, map[string]string{"l:": "lower-case", "u:": "upper-case"}[pfx], s.altAll[pfx+n], s.altFirst[pfx+n])
					break
				}
			}
		}
	}
	wantBody := bodyOf(c, call, s.token)
	if c.TCP && (call.Status == 204 || call.Status == 304) {
		wantBody = ""
	}
	// the Content-Type the reader is shown is the one sent (none when none was sent), whatever was done to pick the consumer
	if call.HasCT {
		if !sameList(s.cts, []string{string(call.CT)}) || s.ct != string(call.CT) {
			add("content-type-header-altered/"+w.kind.String(), "reader saw Content-Type %q (all: %q), sent %s", s.ct, s.cts, ctText)
		}
	} else if len(s.cts) != 0 || s.ct != "" {
		add("content-type-header-altered/absent", "no Content-Type was sent, the reader saw %q (all: %q)", s.ct, s.cts)
	}
	switch {
	case !c.TCP:
		if len(s.cls) != 0 {
			add("content-length-header-altered", "no Content-Length header was scripted, the reader saw %q", s.cls)
		}
	case len(s.cls) != 0 && !(call.Status == 204 || call.Status == 304):
		if !sameList(s.cls, []string{strconv.Itoa(len(wantBody))}) {
			add("content-length-header-altered", "the reader saw Content-Length %q for a body of %d bytes", s.cls, len(wantBody))
		}
	}
	if string(s.body) != wantBody || s.bodyErr != "" {
		bc := bodyClass(c, call, len(wantBody))
		if other := tokenPrefix(string(s.body)); c.TokenBody && other != "" && other != s.token {
			add("cross-talk/body-of-another-call"+bc, "call with token %q read the body written for token %q: %d bytes %q (err %q)", s.token, other, len(s.body), clip(string(s.body)), s.bodyErr)
		} else {
			add("body-altered"+bc, "reader read %d bytes %q (err %q), sent %d bytes %q", len(s.body), clip(string(s.body)), s.bodyErr, len(wantBody), clip(wantBody))
		}
	}
	if s.hdrTok != s.token {
		add("cross-talk/response-of-another-call", "call with token %q was handed the response carrying token %q", s.token, s.hdrTok)
	}
	// what Submit returned
	if s.err != nil {
		add("reader-result-lost", "reader returned a value and no error, Submit returned error %q", s.err.Error())
	} else if r, ok := s.result.(*result); !ok || r != s.mine {
		if ok && r != nil {
			add("cross-talk/result-of-another-call", "Submit returned the reader result of token %q to the caller with token %q", r.token, s.token)
		} else {
			add("reader-result-lost", "Submit returned %v instead of the reader's result", s.result)
		}
	}
	return fs
}

// tokenPrefix is the token a token-carrying body starts with ("" when it does not start with one).
func tokenPrefix(body string) string {
	if !strings.HasPrefix(body, "tok-") {
		return ""
	}
	if i := strings.IndexByte(body, '|'); i > 0 && i < 64 {
		return body[:i]
	}
	return ""
}

func timeoutName(call *Call) string {
	if call.Timeout == "" {
		return "default"
	}
	return call.Timeout
}

func clip(s string) string {
	if len(s) > 80 {
		return s[:80] + "…"
	}
	return s
}

// ---------------------------------------------------------------------------------------------
// running a case
// ---------------------------------------------------------------------------------------------

func registryShape(c *Case) string {
	s := fmt.Sprintf("n%d", len(c.Registry))
	if contains(c.Registry, "*/*") {
		s += "+catchall"
	}
	def, spelled := defaultType(c.DefaultMT)
	if contains(c.Registry, def) {
		s += "+default-registered"
	}
	if spelled != "" {
		s += "+" + spelled[1:]
	}
	return s
}

func runCase(m *mon.M, c *Case) {
	if len(c.Calls) == 0 {
		return
	}
	if c.TCP && server() == nil {
		// no loopback listener could be had (after retries): a condition of the machine; nothing was observed
		m.Class("listen-failed")
		return
	}
	x := prepare(c)
	defer x.release()
	if len(c.Steps) > 0 && c.Conc == nil {
		runSteps(m, c, x)
		return
	}
	rt := x.newRuntime()
	if c.Conc == nil {
		call := &c.Calls[0]
		s := x.slots[tokenOf(x.nonce, 0, 0)]
		x.submit(rt, call, s)
		m.Eval(1)
		w := expectFor(c, call)
		m.Class("seq:" + w.kind.String())
		if strings.Contains(w.feature, "/default-spelled-") {
			m.Class("seq-default:" + w.feature)
		}
		if s.readerRuns > 0 {
			m.Class("seq-consumer:" + s.consumer)
		} else {
			m.Class("seq-call-failed")
		}
		fp := []string{"seq", registryShape(c), w.feature, strconv.FormatBool(call.OpClient), call.OpCtx, c.RtCtx, strconv.FormatBool(c.TCP)}
		if call.Timeout != "" || c.Debug {
			fp = append(fp, call.Timeout, strconv.FormatBool(c.Debug))
		}
		if call.Fill > 0 {
			m.Class("seq:large-body")
		}
		if call.Flush {
			m.Class("seq:head-flushed-first")
		}
		if c.BasePath != "" {
			fp = append(fp, "base-path:"+basePathClass(c.BasePath))
			m.Class("seq:base-path-assigned:" + basePathClass(c.BasePath))
		}
		if c.Adapter {
			fp = append(fp, "adapter")
			if s.readerRuns > 0 && s.viaAdapter {
				m.Class("seq:reader-saw-the-response-through-the-caller's-adapter")
			} else if s.readerRuns > 0 {
				m.Class("seq:caller's-adapter-not-used") // not judged: the statement is about what the reader sees, not through what
			}
		}
		m.NT(strings.Join(fp, "|"))
		m.Class("seq-contexts:op=" + orNone(call.OpCtx) + ",rt=" + c.RtCtx)
		if c.Debug {
			m.Class("seq:debug-on")
		}
		for _, f := range judgeCall(c, call, s) {
			m.Violate(f.sig, f.text, c)
		}
		if m.WantSample() {
			m.Sample(map[string]interface{}{"case": c, "consumer": s.consumer, "code": s.code, "via": s.rtTag, "ctx": s.ctxTag, "err": fmt.Sprint(s.err)})
		}
		return
	}
	runConcurrent(m, c, x, rt)
}

func replay(m *mon.M, raw json.RawMessage) {
	var od OpDefaults
	if err := json.Unmarshal(raw, &od); err == nil && od.Kind == "op-client-defaults" {
		runOpDefaults(m, &od)
		return
	}
	var c Case
	if err := json.Unmarshal(raw, &c); err != nil {
		m.Violate("bad-replay-case", err.Error(), nil)
		return
	}
	runCase(m, &c)
}

func orNone(s string) string {
	if s == "" {
		return "none"
	}
	return s
}

func sortedKeys(m map[string]int) []string {
	var l []string
	for k := range m {
		l = append(l, k)
	}
	sort.Strings(l)
	return l
}
