package c13

import (
	"math/rand"
	"strings"

	"verif/mon"
)

var typePool = []string{
	"application/json", "application/xml", "text/plain", "text/csv", "application/octet-stream",
	"application/x-yaml", "text/html", "application/vnd.api+json", "image/png",
}

var statusPool = []int{200, 200, 200, 201, 202, 204, 206, 304, 400, 401, 403, 404, 409, 418, 422, 500, 502, 503, 599}

var headerNames = []string{"X-Rate-Limit", "X-A", "Etag", "Set-Cookie", "X-Multi", "Cache-Control", "Www-Authenticate", "Link"}

var headerValues = []string{"1", "a", "a, b", "W/\"x\"", "k=v; Path=/", "no-cache", "Basic realm=\"x\"", "<http://x/y>; rel=\"next\"", "", "x y z", "\xc3\xa9"}

var plainParams = []string{
	"charset=utf-8", "charset=UTF-8", "boundary=xyz", "version=1", "q=0.5", "charset=\"utf-8\"",
	"title=\"a; b=c\"", "profile=\"http://x/y, z\"", "x-a=1", "CHARSET=iso-8859-1",
}

var malformedPool = []string{
	"/json", "application/", "application/json/v2", "application(", "application/json(comment)", "a b/c",
	"application/json, text/plain", "application / json", "\"application/json\"", "application/json charset=utf-8",
	"<application/json>", "application@json", "text/pl ain", ":", "/", "=", "text//plain", "application/=json",
}

func pick(r *rand.Rand, l []string) string { return l[r.Intn(len(l))] }

func mangleCase(r *rand.Rand, s string) string {
	switch r.Intn(3) {
	case 0:
		return strings.ToUpper(s)
	case 1:
		b := []byte(s)
		up := true
		for i := range b {
			if up && b[i] >= 'a' && b[i] <= 'z' {
				b[i] -= 32
			}
			up = b[i] == '/' || b[i] == '-' || b[i] == '+' || b[i] == '.'
		}
		return string(b)
	default:
		b := []byte(s)
		changed := false
		for i := range b {
			if b[i] >= 'a' && b[i] <= 'z' && r.Intn(2) == 0 {
				b[i] -= 32
				changed = true
			}
		}
		if !changed {
			return strings.ToUpper(s)
		}
		return string(b)
	}
}

func spell(r *rand.Rand, mt string, tcp bool) string {
	k := r.Intn(8)
	base := mt
	if k == 3 || k == 5 || k == 7 {
		base = mangleCase(r, mt)
	}
	if k == 0 || k == 3 {
		return base
	}
	if k == 1 {
		return base + ";" + pick(r, plainParams)
	}
	n := 1 + r.Intn(3)
	used := map[string]bool{}
	var sb strings.Builder
	sb.WriteString(base)
	for i := 0; i < n; i++ {
		p := pick(r, plainParams)
		name := strings.ToLower(p[:strings.IndexByte(p, '=')])
		if used[name] {
			continue
		}
		used[name] = true
		sb.WriteString(pick(r, []string{";", "; ", " ; ", ";\t", " ;", ";  ", "\t;\t"}))
		sb.WriteString(p)
	}
	if !tcp && r.Intn(6) == 0 {
		sb.WriteString(pick(r, []string{" ", "\t"}))
	}
	return sb.String()
}

func grayOf(r *rand.Rand, mt string) string {
	switch r.Intn(12) {
	case 0:
		return mt + ";"
	case 1:
		return mt + "; charset"
	case 2:
		return mt + ";charset="
	case 3:
		return mt + "; charset=utf-8; charset=utf-8"
	case 4:
		return mt + "; =x"
	case 5:
		return mt + ";;charset=utf-8"
	case 6:
		return mt + "; charset=\"utf-8"
	case 7:
		return mt + "; charset*=utf-8''x"
	case 8:
		return mt + "; a=b c"
	case 9:
		return mt[:strings.IndexByte(mt, '/')] // lone token
	case 10:
		return mt + "; charset = utf-8"
	default:
		i := strings.IndexByte(mt, '/')
		return mt[:i+1] + "{" + mt[i+1:] + "}"
	}
}

func genRegistry(r *rand.Rand) (reg []string, def string) {
	n := 1 + r.Intn(len(typePool))
	p := r.Perm(len(typePool))
	for i := 0; i < n; i++ {
		reg = append(reg, typePool[p[i]])
	}
	if r.Intn(2) == 0 {
		reg = append(reg, "*/*")
	}
	if r.Intn(8) == 0 {
		reg = []string{"*/*"}
	}
	if r.Intn(4) == 0 {
		def = pick(r, typePool) // may be unregistered
	} else {
		def = reg[r.Intn(len(reg))]
		if def == "*/*" {
			def = "application/json"
		}
	}
	if r.Intn(4) == 0 {
		def = spellDefault(r, def)
	}
	return reg, def
}

// spellDefault gives Runtime.DefaultMediaType a spelling that is not the bare lower-case registry key: parameters (with or
// without optional white space), capital letters, or both.
func spellDefault(r *rand.Rand, mt string) string {
	for i := 0; i < 8; i++ {
		if v := spell(r, mt, true); v != mt {
			return v
		}
	}
	return mt + "; charset=utf-8"
}

// absentForSpelledDefault: a default media type that is not spelled like a registry key only matters for a response without
// Content-Type: half of the calls of such a case get one (a few an empty header value).
func absentForSpelledDefault(r *rand.Rand, def string, tcp bool, c *Call) {
	if _, spelled := defaultType(def); spelled == "" || r.Intn(2) != 0 {
		return
	}
	c.HasCT, c.CT = false, ""
	if !tcp && r.Intn(8) == 0 {
		c.HasCT = true
	}
}

func genCT(r *rand.Rand, reg []string, tcp bool) (bool, string) {
	var registered, unregistered []string
	for _, t := range typePool {
		if contains(reg, t) {
			registered = append(registered, t)
		} else {
			unregistered = append(unregistered, t)
		}
	}
	unregistered = append(unregistered, "application/x-unknown", "video/mp4")
	for {
		switch k := r.Intn(100); {
		case k < 45:
			if len(registered) == 0 {
				continue
			}
			return true, spell(r, pick(r, registered), tcp)
		case k < 65:
			return true, spell(r, pick(r, unregistered), tcp)
		case k < 75:
			return false, ""
		case k < 78:
			return true, ""
		case k < 88:
			return true, pick(r, malformedPool)
		case k < 90:
			return true, spell(r, "*/*", tcp) // a response that literally says */*
		default:
			return true, grayOf(r, pick(r, typePool))
		}
	}
}

func genCall(r *rand.Rand, reg []string, tcp bool, tokenBody string) Call {
	var c Call
	var v string
	c.HasCT, v = genCT(r, reg, tcp)
	c.CT = mon.Q(v)
	c.Status = statusPool[r.Intn(len(statusPool))]
	if tcp && (c.Status == 304 || c.Status == 599) {
		// net/http's server drops Content-Type from a 304 and invents a reason phrase for unknown codes
		c.Status = 200
	}
	if !tcp && r.Intn(5) == 0 {
		c.Reason = pick(r, []string{"Fine", "", "Whatever It Takes", "OK OK"})
	}
	nh := r.Intn(5)
	for i := 0; i < nh; i++ {
		val := pick(r, headerValues)
		if tcp {
			val = strings.TrimSpace(val)
		}
		c.Headers = append(c.Headers, [2]string{pick(r, headerNames), val})
	}
	switch r.Intn(6) {
	case 0:
		c.Body = ""
	case 1:
		c.Body = mon.Q(strings.Repeat("b", 100+r.Intn(5000)))
	case 2:
		c.Body = "\x00\x01\xff\xfe"
	default:
		c.Body = mon.Q(pick(r, []string{"{}", "{\"a\":1}", "a,b\n1,2\n", "<x/>", "plain text", "null"}))
	}
	if tokenBody != "" {
		c.Body = mon.Q(tokenBody + "|" + string(c.Body))
	}
	// bodies that do not travel with the head: beyond the read buffers (64 KiB .. 1 MiB), or written after the head was flushed
	if r.Intn(12) == 0 {
		c.Fill = []int{65536, 65537, 262144, 1048576}[r.Intn(4)]
	}
	if tcp && r.Intn(4) == 0 {
		c.Flush = true
	}
	if tcp && (c.Status == 204 || c.Status == 304) {
		c.Body, c.Fill, c.Flush = "", 0, false
	}
	c.OpClient = r.Intn(3) == 0
	switch k := r.Intn(40); {
	case k < 18:
	case k < 32:
		c.OpCtx = "live"
	case k < 36:
		c.OpCtx = "far" // a deadline hours away: as good as live
	case k < 38:
		c.OpCtx = "cancelled"
	default:
		c.OpCtx = "expired" // a deadline in the past
	}
	switch r.Intn(8) {
	case 0:
		c.Timeout = "zero"
	case 1:
		c.Timeout = "hours"
	}
	// the body arrives in pieces: a Read returns less than asked for while more is to come
	if r.Intn(4) == 0 && !(tcp && (c.Status == 204 || c.Status == 304)) {
		c.Pieces = genPieces(r, tcp)
	}
	// the reader closes the body itself (Submit closes it again)
	switch r.Intn(12) {
	case 0, 1:
		c.ReaderClose = "once"
	case 2:
		c.ReaderClose = "twice"
	}
	// an operation context may carry a span whatever the entry point is
	if c.OpCtx != "" && r.Intn(8) == 0 {
		c.Span = pick(r, spanKinds)
	}
	return c
}

var spanKinds = []string{"noop", "mock", "otel"}

// pieceSizes: small pieces and sizes next to the powers of two that buffers are made of
var pieceSizes = []int{1, 2, 3, 16, 100, 255, 256, 257, 511, 512, 513, 1000, 1023, 1024, 1025, 2048, 4095, 4096, 4097, 8192, 32768, 65536}

func genPieces(r *rand.Rand, tcp bool) []int {
	n := 1 + r.Intn(3)
	if !tcp && r.Intn(6) == 0 {
		n = 4 + r.Intn(20) // many small reads
	}
	var ps []int
	for i := 0; i < n; i++ {
		if n > 3 {
			ps = append(ps, 1+r.Intn(8))
			continue
		}
		ps = append(ps, pieceSizes[r.Intn(len(pieceSizes))])
	}
	return ps
}

// genKeepAlive: connection reuse on the case's Runtimes, one time in n.
func genKeepAlive(r *rand.Rand, n int) string {
	if r.Intn(n) != 0 {
		return ""
	}
	return pick(r, []string{"enable", "wrap"})
}

// genEntry: the operations are submitted to a tracing transport made from the Runtime, one time in n.
func genEntry(r *rand.Rand, n int) string {
	if r.Intn(n) != 0 {
		return ""
	}
	return pick(r, []string{"opentracing", "opentracing", "opentelemetry"})
}

// spanFor: the tracing transports act on operations whose context carries a span: most calls submitted to one get such a context
func spanFor(r *rand.Rand, entry string, c *Call) {
	if entry == "" || r.Intn(4) == 0 {
		return
	}
	if c.OpCtx == "" {
		c.OpCtx = pick(r, []string{"live", "live", "far"})
	}
	if r.Intn(6) != 0 {
		c.Span = "otel"
		if entry == "opentracing" {
			c.Span = pick(r, []string{"noop", "mock"})
		}
	} else {
		c.Span = pick(r, spanKinds) // a span of the other family: the transport sees none of its own
	}
}

func genRtCtx(r *rand.Rand) string {
	switch k := r.Intn(40); {
	case k < 18:
		return "live"
	case k < 22:
		return "far"
	case k < 32:
		return "nil"
	case k < 36:
		return "cancelled"
	default:
		return "expired"
	}
}

func genSeq(r *rand.Rand, tcp bool) *Case {
	c := &Case{TCP: tcp, RtCtx: genRtCtx(r), Debug: r.Intn(6) == 0}
	c.Registry, c.DefaultMT = genRegistry(r)
	c.Calls = []Call{genCall(r, c.Registry, tcp, "")}
	absentForSpelledDefault(r, c.DefaultMT, tcp, &c.Calls[0])
	if r.Intn(10) == 0 {
		c.BasePath = genBasePath(r)
	}
	c.Adapter = r.Intn(10) == 0
	c.KeepAlive, c.Entry = genKeepAlive(r, 6), genEntry(r, 6)
	spanFor(r, c.Entry, &c.Calls[0])
	return c
}

var concSizes = []int{4, 6, 8, 12, 16, 24, 32, 48, 64}

func genConc(r *rand.Rand, tcp bool) *Case {
	c := &Case{TCP: tcp, RtCtx: "live", TokenBody: true}
	switch r.Intn(8) {
	case 0, 1:
		c.RtCtx = "nil"
	case 2:
		c.RtCtx = "far"
	case 3:
		c.RtCtx = "expired" // calls with a context of their own must not feel it; the others must all fail
	}
	c.Registry, c.DefaultMT = genRegistry(r)
	n := concSizes[r.Intn(len(concSizes))]
	c.Conc = &Conc{Procs: []int{1, 4, 16}[r.Intn(3)], SchedSeed: r.Int63n(1 << 40)}
	for i := 0; i < n; i++ {
		call := genCall(r, c.Registry, tcp, "")
		if dead(call.OpCtx) && r.Intn(2) == 0 {
			call.OpCtx = "live"
		}
		call.Rounds = 1 + r.Intn(2)
		c.Calls = append(c.Calls, call)
	}
	// configurations of the shared Runtime and of the callers that only concurrent FIRST calls can tell apart
	if r.Intn(5) < 2 {
		c.BasePath = genBasePath(r) // assigned after client.New, mostly without a leading slash
	}
	c.Debug = r.Intn(8) == 0
	c.Adapter = r.Intn(8) == 0
	if r.Intn(4) == 0 {
		// one operation value submitted by every goroutine: all calls repeat the operation-level settings of the first
		c.Conc.SharedOp = true
		for i := range c.Calls {
			c.Calls[i].OpClient, c.Calls[i].OpCtx, c.Calls[i].Timeout, c.Calls[i].Span = c.Calls[0].OpClient, c.Calls[0].OpCtx, c.Calls[0].Timeout, c.Calls[0].Span
		}
	}
	// connection reuse: the keep-alive transports wrap every response body, and the body is closed by Submit whatever the reader
	// did with it; half of the readers of such a run close the body themselves
	if c.KeepAlive = genKeepAlive(r, 3); c.KeepAlive != "" {
		for i := range c.Calls {
			if c.Calls[i].ReaderClose == "" && r.Intn(2) == 0 {
				c.Calls[i].ReaderClose = "once"
			}
		}
	}
	// all goroutines submit to ONE tracing transport made from the Runtime. Not with one shared operation value: the tracing
	// transports wrap the operation's Params and Reader in place (see Assumptions), Runtime.Submit only reads the operation
	if !c.Conc.SharedOp || sharedOpThroughTracing {
		if c.Entry = genEntry(r, 5); c.Entry != "" {
			for i := range c.Calls {
				spanFor(r, c.Entry, &c.Calls[i])
			}
			if c.Conc.SharedOp {
				for i := range c.Calls {
					c.Calls[i].OpCtx, c.Calls[i].Span = c.Calls[0].OpCtx, c.Calls[0].Span
				}
			}
		}
	}
	return c
}

// sharedOpThroughTracing: one *runtime.ClientOperation value submitted by several goroutines at once THROUGH a tracing transport.
// tracingTransport.Submit / openTelemetryTransport.Submit assigned op.Params and op.Reader on the caller's value (they wrapped them
// in place and never restored them), so two goroutines sharing the value raced on those fields, and every sequential re-submission
// nested one more wrapper. Ruled a defect (an operation value may be shared with Runtime.Submit, which only reads it; the tracing
// transports are entry points of the same Runtime), repaired in the library by 94d422b (they wrap on a copy) and pinned.
const sharedOpThroughTracing = true

func run(m *mon.M) {
	r := m.Rand("cases")
	for i := 0; i < m.N(40, 400); i++ {
		od := &OpDefaults{Kind: "op-client-defaults", OpJar: i&1 != 0, Warm: i&2 != 0, OpTransport: i&4 != 0, OpCtx: []string{"", "background", "todo", "background", "todo"}[(i/8)%5]}
		od.RtExpired = (i/8)%5 >= 3
		m.Begin(od)
		runOpDefaults(m, od)
	}
	// redirect policy of the governing client: 302 + Location answered; operation client stops / follows; Runtime made with
	// NewWithClient (policy stops / follows) or with New; mirror cases without an operation client
	for i := 0; i < m.N(48, 96); i++ {
		od := &OpDefaults{Kind: "op-client-defaults", Redirect: true, OpStops: i&1 != 0, WithClient: i&2 != 0, RtStops: i&4 != 0, NoOpClient: i&8 != 0,
			OpTransport: (i/16)&1 != 0, OpJar: (i/32)&1 != 0, Warm: (i/16)%3 == 2}
		if !od.WithClient {
			od.RtStops = false
		}
		m.Begin(od)
		runOpDefaults(m, od)
	}
	nseq := m.N(2500, 40000)
	nseqTCP := m.N(60, 1500)
	nconc := m.N(40, 600)
	nconcTCP := m.N(3, 30)
	nsteps := m.N(500, 6000)
	nstepsTCP := m.N(20, 400)
	// concurrent runs first and interleaved with sequential ones, so that a worker killed by a
	// runtime fatal error leaves the concurrent case on disk
	seqPerConc := nseq / (nconc + 1)
	for i := 0; i < nconc; i++ {
		c := genConc(r, false)
		m.Begin(c)
		runCase(m, c)
		for k := 0; k < seqPerConc; k++ {
			s := genSeq(r, false)
			m.Begin(s)
			runCase(m, s)
		}
	}
	for i := 0; i < nseqTCP; i++ {
		s := genSeq(r, true)
		m.Begin(s)
		runCase(m, s)
	}
	// sequences of calls: registry, default type and Runtime.Context changed between the calls; operation values submitted again
	rs := m.Rand("steps")
	for i := 0; i < nsteps+nstepsTCP; i++ {
		s := genSteps(rs, i >= nsteps)
		m.Begin(s)
		runCase(m, s)
	}
	for i := 0; i < nconcTCP; i++ {
		c := genConc(r, true)
		m.Begin(c)
		runCase(m, c)
	}
}
