package c13

import (
	"bytes"
	"fmt"
	"math/rand"
	goruntime "runtime"
	"sort"
	"strconv"
	"strings"
	"sync"
	"time"

	"github.com/go-openapi/runtime"
	"github.com/go-openapi/runtime/client"
	"github.com/go-openapi/runtime/verifhook"

	"verif/mon"
)

// The hook scheduler deliberately uses no lock, channel or atomic on its hot path: each goroutine
// finds its own state through a map that is only read while the calls run, decides with its own
// PRNG and appends to its own trace. A shared mutex or counter would add happens-before edges
// between the callers and could hide from the race detector the very races the run is after.

type hookEvent struct {
	point string
	at    time.Duration
}

type local struct {
	idx   int
	rng   *rand.Rand
	trace []hookEvent
}

type scheduler struct {
	base   time.Time
	byGoid map[uint64]*local // filled before the start barrier, read-only afterwards
}

func goid() uint64 {
	var buf [64]byte
	n := goruntime.Stack(buf[:], false)
	// "goroutine 123 [running]:"
	f := bytes.Fields(buf[:n])
	if len(f) < 2 {
		return 0
	}
	id, _ := strconv.ParseUint(string(f[1]), 10, 64)
	return id
}

func (s *scheduler) at(point string) {
	l := s.byGoid[goid()]
	if l == nil {
		return
	}
	l.trace = append(l.trace, hookEvent{point, time.Since(s.base)})
	switch k := l.rng.Intn(100); {
	case k < 50:
	case k < 72:
		for i, n := 0, 1+l.rng.Intn(3); i < n; i++ {
			goruntime.Gosched()
		}
	default:
		time.Sleep(time.Duration(10+l.rng.Intn(291)) * time.Microsecond)
	}
}

func runConcurrent(m *mon.M, c *Case, x *exec, rt *client.Runtime) {
	n := len(c.Calls)
	procs := c.Conc.Procs
	if procs < 1 {
		procs = 1
	}
	prev := goruntime.GOMAXPROCS(procs)
	defer goruntime.GOMAXPROCS(prev)

	sch := &scheduler{byGoid: map[uint64]*local{}}
	locals := make([]*local, n)
	// one operation value for all goroutines: its closures find the calling goroutine's submission through a map that is
	// filled before the start barrier and only read afterwards (each goroutine writes its own entry's fields only)
	type mine struct {
		s    *slot
		call *Call
	}
	var (
		sharedOp  *runtime.ClientOperation
		sharedBox *opBox
		byGoid    = map[uint64]*mine{}
	)
	if c.Conc.SharedOp {
		sharedOp, sharedBox = x.operation(&c.Calls[0], x.slots[tokenOf(x.nonce, 0, 0)])
		sharedBox.by = func() (*slot, *Call) {
			if e := byGoid[goid()]; e != nil {
				return e.s, e.call
			}
			return nil, nil
		}
	}
	var regMu sync.Mutex
	var registered, done sync.WaitGroup
	start := make(chan struct{})
	registered.Add(n)
	done.Add(n)
	for i := 0; i < n; i++ {
		locals[i] = &local{idx: i, rng: rand.New(rand.NewSource(c.Conc.SchedSeed*1000003 + int64(i)))}
		go func(i int) {
			defer done.Done()
			me := &mine{}
			regMu.Lock()
			sch.byGoid[goid()] = locals[i]
			byGoid[goid()] = me
			regMu.Unlock()
			registered.Done()
			<-start
			call := &c.Calls[i]
			for k := 0; k < rounds(call); k++ {
				s := x.slots[tokenOf(x.nonce, i, k)]
				if sharedOp != nil {
					me.s, me.call = s, call
					x.submitOp(rt, sharedOp, call, s)
					continue
				}
				x.submit(rt, call, s)
			}
		}(i)
	}
	registered.Wait()
	sch.base = time.Now()
	x.yield = sch.at // the caller's readers are scheduling points too (entered; body closed by the reader, reader not done yet)
	verifhook.Set(sch.at)
	close(start)
	done.Wait()
	verifhook.Set(nil)

	// merged hook trace: its hash identifies the interleaving that was observed
	type ev struct {
		g     int
		point string
		at    time.Duration
	}
	var evs []ev
	overlap := 0
	type iv struct{ a, b time.Duration }
	var firsts []iv
	for _, l := range locals {
		var built, ready time.Duration = -1, -1
		for _, e := range l.trace {
			evs = append(evs, ev{l.idx, e.point, e.at})
			if e.point == "cl.submit.built" && built < 0 {
				built = e.at
			}
			if e.point == "cl.submit.clientReady" && ready < 0 {
				ready = e.at
			}
		}
		if built >= 0 && ready >= 0 {
			firsts = append(firsts, iv{built, ready})
		}
	}
	sort.Slice(evs, func(i, j int) bool {
		if evs[i].at != evs[j].at {
			return evs[i].at < evs[j].at
		}
		return evs[i].g < evs[j].g
	})
	var sb strings.Builder
	for _, e := range evs {
		fmt.Fprintf(&sb, "%d:%s;", e.g, e.point)
	}
	h := fmt.Sprintf("%016x", mon.Hash64(sb.String()))
	for i := range firsts {
		for j := i + 1; j < len(firsts); j++ {
			if firsts[i].a < firsts[j].b && firsts[j].a < firsts[i].b {
				overlap++
			}
		}
	}
	m.SetAdd("interleavings", h)
	m.Note("concurrent_runs", 1)
	m.Note("hook_events", int64(len(evs)))
	m.Class(fmt.Sprintf("conc:procs=%d", procs))
	m.Class(fmt.Sprintf("conc:n<=%d", bucket(n)))
	if c.Conc.SharedOp {
		m.Class("conc:one-operation-value-shared-by-all-goroutines")
	}
	if c.BasePath != "" {
		m.Class("conc:base-path-assigned:" + basePathClass(c.BasePath))
	}
	if c.Debug {
		m.Class("conc:debug-on")
	}
	if c.Adapter {
		m.Class("conc:caller's-response-adapter")
	}
	if c.RtCtx == "nil" {
		m.Class("conc:runtime-context-nil")
	}
	if c.KeepAlive != "" {
		m.Class("conc:keep-alive:" + c.KeepAlive)
		closers := 0
		for i := range c.Calls {
			if c.Calls[i].ReaderClose != "" {
				closers++
			}
		}
		if closers > 0 {
			m.Class("conc:keep-alive+readers-that-close-the-body")
		}
	}
	if c.Entry != "" {
		m.Class("conc:entry:" + c.Entry)
	}
	if len(evs) == 0 {
		m.Class("conc:no-hook-events")
	}
	if overlap > 0 {
		m.Class("conc:first-calls-overlapped")
		m.Note("overlapping_first_call_pairs", int64(overlap))
		m.NT("conc|" + h)
	} else {
		m.Class("conc:first-calls-serial")
	}

	reruns := 0
	for i := range c.Calls {
		call := &c.Calls[i]
		for k := 0; k < rounds(call); k++ {
			s := x.slots[tokenOf(x.nonce, i, k)]
			m.Eval(1)
			fs := judgeCall(c, call, s)
			if len(fs) == 0 {
				continue
			}
			// the failing call alone on a fresh Runtime is the smaller witness whenever it fails there too
			var alone []finding
			if reruns < 4 {
				reruns++
				alone = runAlone(c, call)
			}
			for _, f := range fs {
				if as := aloneSig(f.sig); hasSig(alone, as) {
					m.Violate(as, fmt.Sprintf("(first seen in a concurrent run, N=%d; reproduced by this call alone) %s", n, f.text), c.single(call))
					continue
				}
				m.Violate(f.sig, fmt.Sprintf("concurrent run (N=%d, GOMAXPROCS=%d), goroutine %d round %d: %s", n, procs, i, k, f.text), c)
			}
		}
	}
	if m.WantSample() {
		m.Sample(map[string]interface{}{"concurrent": true, "n": n, "procs": procs, "tcp": c.TCP, "hook_events": len(evs), "overlapping_first_call_pairs": overlap, "trace_hash": h})
	}
}

func bucket(n int) int {
	for _, b := range []int{4, 8, 16, 32, 64} {
		if n <= b {
			return b
		}
	}
	return 128
}

// aloneSig is the signature the finding has when the call is made alone: no other reader is there to close a body.
func aloneSig(sig string) string {
	for _, f := range []string{"+another-reader-closes-body", "another-reader-closes-body+", "/another-reader-closes-body"} {
		sig = strings.Replace(sig, f, "", 1)
	}
	return sig
}

func hasSig(fs []finding, sig string) bool {
	for _, f := range fs {
		if f.sig == sig {
			return true
		}
	}
	return false
}

// runAlone makes one call sequentially on a fresh Runtime configured like the case's.
func runAlone(c *Case, call *Call) []finding {
	min := c.single(call)
	x := prepare(min)
	defer x.release()
	rt := x.newRuntime()
	s := x.slots[tokenOf(x.nonce, 0, 0)]
	x.submit(rt, &min.Calls[0], s)
	return judgeCall(min, &min.Calls[0], s)
}
