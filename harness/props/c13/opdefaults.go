package c13

import (
	"context"
	"fmt"
	"io"
	"net/http"
	"net/http/cookiejar"
	"net/url"
	"strings"
	"sync/atomic"
	"time"

	rt "github.com/go-openapi/runtime"
	"github.com/go-openapi/runtime/client"
	"github.com/go-openapi/strfmt"

	"verif/mon"
)

// OpDefaults is a sub-workload for the precedence clause: a per-operation http.Client is used as it is,
// including what it leaves unset (nil Transport = net/http's default transport, nil Jar = no cookies);
// the transport-wide transport and jar must not leak into it.
type OpDefaults struct {
	Kind        string `json:"kind"` // always "op-client-defaults"
	OpJar       bool   `json:"op_client_has_jar"`
	Warm        bool   `json:"runtime_jar_holds_cookie_from_earlier_call"`
	OpTransport bool   `json:"op_client_has_transport"`
	// OpCtx: the operation carries exactly context.Background() / context.TODO() while the transport-wide
	// context is already cancelled: the operation's (live) context governs the call
	OpCtx string `json:"op_context,omitempty"` // "" | background | todo
	// RtExpired: with OpCtx set, the transport-wide context is not cancelled but carries a deadline that is long past;
	// the request timeout stays the default one
	RtExpired bool `json:"runtime_context_deadline_expired,omitempty"`
	// Redirect: the server answers the call with 302 + Location. What the reader sees is decided by the redirect policy of the
	// client that governs the call: the operation's own client when it has one, else the transport-wide one.
	Redirect   bool `json:"redirect,omitempty"`
	OpStops    bool `json:"op_client_stops_at_redirect,omitempty"`      // the operation client's CheckRedirect returns http.ErrUseLastResponse (else nil: follow)
	WithClient bool `json:"runtime_made_with_client,omitempty"`         // the Runtime is made with client.NewWithClient (its client carries a redirect policy that counts how often it is consulted)
	RtStops    bool `json:"runtime_client_stops_at_redirect,omitempty"` // with WithClient: that policy returns http.ErrUseLastResponse (else it follows)
	NoOpClient bool `json:"no_op_client,omitempty"`                     // mirror case: the operation carries no client of its own
}

type countingRT struct {
	calls int64
	next  http.RoundTripper
}

func (c *countingRT) RoundTrip(r *http.Request) (*http.Response, error) {
	atomic.AddInt64(&c.calls, 1)
	return c.next.RoundTrip(r)
}

func runOpDefaults(m *mon.M, c *OpDefaults) {
	m.Eval(1)
	var cookiesSeen []string
	srv, lerr := startServer(http.HandlerFunc(func(w http.ResponseWriter, r *http.Request) {
		cookiesSeen = append(cookiesSeen, r.Header.Get("Cookie"))
		http.SetCookie(w, &http.Cookie{Name: "session", Value: "from-server", Path: "/"})
		w.Header().Set("Content-Type", "application/json")
		if c.Redirect && r.URL.Path == "/p" {
			w.Header().Set("Location", "/landed")
			w.WriteHeader(http.StatusFound)
			_, _ = io.WriteString(w, `{"moved":true}`)
			return
		}
		_, _ = io.WriteString(w, `{}`)
	}))
	if lerr != nil {
		// no loopback listener could be had (after retries): a condition of the machine; nothing was observed
		m.Class("listen-failed")
		return
	}
	defer srv.Close()
	u, _ := url.Parse(srv.URL)
	rtWide := &countingRT{next: http.DefaultTransport}
	jar, _ := cookiejar.New(nil)
	var rtPolicyCalls int64
	var r *client.Runtime
	if c.WithClient {
		r = client.NewWithClient(u.Host, "/", []string{"http"}, &http.Client{Transport: rtWide, Jar: jar, CheckRedirect: func(*http.Request, []*http.Request) error {
			atomic.AddInt64(&rtPolicyCalls, 1)
			if c.RtStops {
				return http.ErrUseLastResponse
			}
			return nil
		}})
	} else {
		r = client.New(u.Host, "/", []string{"http"})
	}
	r.Transport = rtWide
	r.Jar = jar
	var codes []int
	reader := rt.ClientResponseReaderFunc(func(resp rt.ClientResponse, _ rt.Consumer) (interface{}, error) {
		codes = append(codes, resp.Code())
		_, _ = io.Copy(io.Discard, resp.Body())
		return nil, nil
	})
	params := rt.ClientRequestWriterFunc(func(rt.ClientRequest, strfmt.Registry) error { return nil })
	mk := func() *rt.ClientOperation {
		return &rt.ClientOperation{ID: "x", Method: "GET", PathPattern: "/p", ProducesMediaTypes: []string{"application/json"}, Params: params, Reader: reader}
	}
	if c.Warm {
		if _, err := r.Submit(mk()); err != nil { // a transport-wide call: the runtime jar now holds the session cookie
			m.Class("op-defaults-warmup-failed")
			return
		}
	}
	before := atomic.LoadInt64(&rtWide.calls)
	seenBefore := len(cookiesSeen)
	op := mk()
	opRT := &countingRT{next: http.DefaultTransport}
	var opPolicyCalls int64
	if !c.NoOpClient {
		op.Client = &http.Client{}
		if c.OpTransport {
			op.Client.Transport = opRT
		}
		if c.OpJar {
			op.Client.Jar, _ = cookiejar.New(nil)
		}
		if c.OpStops {
			op.Client.CheckRedirect = func(*http.Request, []*http.Request) error {
				atomic.AddInt64(&opPolicyCalls, 1)
				return http.ErrUseLastResponse
			}
		}
	}
	codes = nil
	atomic.StoreInt64(&rtPolicyCalls, 0) // a warm-up call was a transport-wide one: its consultations do not count
	switch c.OpCtx {
	case "background":
		op.Context = context.Background()
	case "todo":
		op.Context = context.TODO()
	}
	if c.OpCtx != "" {
		dead, cancel := context.WithCancel(context.Background())
		if c.RtExpired {
			dead, cancel = context.WithDeadline(context.Background(), time.Unix(1000000000, 0))
		}
		cancel()
		r.Context = dead
	}
	var err error
	pv, st := mon.Catch(func() { _, err = r.Submit(op) })
	fp := fmt.Sprintf("op-client-defaults|%v|%v|%v|%s", c.OpJar, c.Warm, c.OpTransport, c.OpCtx)
	if c.RtExpired {
		fp += "|runtime-deadline-expired"
	}
	if c.Redirect || c.WithClient || c.NoOpClient {
		fp += fmt.Sprintf("|redirect=%v,op-stops=%v,with-client=%v,rt-stops=%v,no-op-client=%v", c.Redirect, c.OpStops, c.WithClient, c.RtStops, c.NoOpClient)
	}
	m.NT(fp)
	if pv != nil {
		m.Violate("op-client-defaults/panic", fmt.Sprintf("%v\n%s", pv, st), c)
		return
	}
	if err != nil && c.OpCtx != "" {
		sig, how := "op-context-ignored/plain-"+c.OpCtx, "cancelled"
		if c.RtExpired {
			sig, how = sig+"+runtime-deadline-expired", "past its deadline"
		}
		m.Violate(sig, fmt.Sprintf("the operation carries context.%s() (live) and the transport-wide context is %s: the call failed with %v", map[string]string{"background": "Background", "todo": "TODO"}[c.OpCtx], how, err), c)
		return
	}
	if err != nil {
		m.Violate("op-client-defaults/call-failed", fmt.Sprintf("Submit with a per-operation client failed: %v", err), c)
		return
	}
	// the redirect policy that governs the call is the one of the client that carries it
	stops := c.OpStops
	feature := "op-client-stops"
	if c.NoOpClient {
		stops = c.WithClient && c.RtStops
		feature = "runtime-made-with-client-stops"
	}
	wantCode, wantTrips := http.StatusOK, int64(1)
	switch {
	case c.Redirect && stops:
		wantCode = http.StatusFound
	case c.Redirect:
		wantTrips = 2 // /p, then /landed
		feature = strings.Replace(feature, "stops", "follows", 1)
	}
	if c.Redirect {
		if len(codes) != 1 || codes[0] != wantCode {
			m.Violate("op-client-defaults/redirect-policy-of-governing-client-ignored/"+feature, fmt.Sprintf("the server answered 302 + Location; the client that governs the call (operation client: %v, stops at a redirect: %v; Runtime made with NewWithClient: %v, its policy stops: %v) makes the reader see %d, it saw %v (operation policy consulted %d times, Runtime client's policy %d times)", !c.NoOpClient, c.OpStops, c.WithClient, c.RtStops, wantCode, codes, opPolicyCalls, rtPolicyCalls), c)
			return
		}
		if !c.NoOpClient && atomic.LoadInt64(&rtPolicyCalls) != 0 {
			m.Violate("op-client-defaults/transport-wide-redirect-policy-consulted", fmt.Sprintf("the operation carries its own http.Client, yet the redirect policy of the client the Runtime was made with was consulted %d time(s)", rtPolicyCalls), c)
			return
		}
	}
	if c.NoOpClient {
		// mirror case: the transport-wide client carries the call
		if n := atomic.LoadInt64(&rtWide.calls) - before; n != wantTrips {
			m.Violate("op-client-defaults/transport-wide-client-not-used", fmt.Sprintf("the operation has no client of its own (Runtime made with NewWithClient: %v): the transport-wide RoundTripper carried %d request(s), expected %d", c.WithClient, n, wantTrips), c)
			return
		}
		m.Class("op-client-defaults-ok")
		m.Class("op-client-defaults-ok/no-op-client")
		return
	}
	if n := atomic.LoadInt64(&rtWide.calls) - before; n != 0 {
		m.Violate("op-client-defaults/transport-wide-transport-used", fmt.Sprintf("the operation carries its own http.Client (Transport set: %v) but the transport-wide RoundTripper carried %d request(s)", c.OpTransport, n), c)
		return
	}
	if c.OpTransport && atomic.LoadInt64(&opRT.calls) != wantTrips {
		m.Violate("op-client-defaults/op-transport-not-used", fmt.Sprintf("the operation client's own transport carried %d requests", opRT.calls), c)
		return
	}
	if len(cookiesSeen) > seenBefore && !c.OpJar {
		if ck := cookiesSeen[len(cookiesSeen)-1]; strings.Contains(ck, "from-server") {
			m.Violate("op-client-defaults/transport-wide-jar-used", fmt.Sprintf("the operation client has no cookie jar but the request carried the cookie of the transport-wide jar: %q", ck), c)
			return
		}
	}
	m.Class("op-client-defaults-ok")
	if c.Redirect {
		m.Class("op-client-defaults-ok/redirect")
	}
}
