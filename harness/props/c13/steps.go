package c13

import (
	"context"
	"math/rand"
	"strconv"
	"strings"

	"github.com/go-openapi/runtime"
	"github.com/go-openapi/runtime/client"

	"verif/mon"
)

// Sequential cases of several calls (Case.Steps). The statement speaks of "the consumer registered for the response's media
// type", "the default media type" and "the transport-wide" client and context: of what the Runtime a call is submitted to holds
// WHEN the call is made. So between the calls of one case
//   - consumers are added, replaced (a new consumer under an existing key) and removed, DefaultMediaType is reassigned;
//   - Runtime.Context is replaced (and the context it replaces cancelled);
//   - the same *runtime.ClientOperation value is submitted again, to the same Runtime or to a second one.
// Runtime.Transport and Runtime.Jar are NOT changed after a Runtime's first call (the library documents that they are read when
// the first call is made).
// The model below is the harness's own bookkeeping of those assignments; nothing of it is read back from the library.

type rtState struct {
	rt      *client.Runtime
	tag     string            // of its transport
	suffix  string            // of its first consumers' tags
	keys    []string          // registry keys, in registration order
	tags    map[string]string // key -> tag of the consumer registered under it now
	def     string
	ctxKind string
	ctxTag  string
	cancel  context.CancelFunc // ends the current Runtime.Context (nil for kinds that need none)
	gen     int
}

func (x *exec) newState(idx int) *rtState {
	st := &rtState{tag: "rt", tags: map[string]string{}, def: x.c.DefaultMT, ctxKind: x.c.RtCtx}
	if idx != 0 {
		st.tag = "rt" + strconv.Itoa(idx+1)
		st.suffix = "@" + strconv.Itoa(idx+1)
		if dead(st.ctxKind) {
			st.ctxKind = "live" // the second Runtime starts with a live context of its own
		}
	}
	if st.ctxKind == "" {
		st.ctxKind = "nil"
	}
	st.rt = x.newRuntimeTagged(st.tag, st.suffix)
	for _, k := range x.c.Registry {
		st.keys = append(st.keys, k)
		st.tags[k] = k + st.suffix
	}
	st.ctxTag = st.tag
	if ctx, cancel := mkCtx(st.ctxKind, st.ctxTag); ctx != nil {
		st.rt.Context, st.cancel = ctx, cancel
	}
	return st
}

// apply makes the step's changes on the Runtime and in the model; it returns the feature classes of what was changed.
func (st *rtState) apply(sp *Step) (ctxChanged bool, reg []string) {
	if sp.SetRtCtx != "" {
		st.gen++
		old := st.cancel
		st.ctxKind, st.ctxTag, st.cancel = sp.SetRtCtx, st.tag+"#"+strconv.Itoa(st.gen), nil
		st.rt.Context = nil
		if ctx, cancel := mkCtx(st.ctxKind, st.ctxTag); ctx != nil {
			st.rt.Context, st.cancel = ctx, cancel
		}
		if old != nil {
			old() // the context that was replaced is over: it must not matter any more
		}
		ctxChanged = true
	}
	for _, k := range sp.Add {
		st.gen++
		if _, ok := st.tags[k]; ok {
			reg = appendOnce(reg, "consumer-replaced")
		} else {
			st.keys = append(st.keys, k)
			reg = appendOnce(reg, "consumer-added")
		}
		st.tags[k] = k + st.suffix + "#" + strconv.Itoa(st.gen)
		st.rt.Consumers[k] = &taggedConsumer{tag: st.tags[k]}
	}
	for _, k := range sp.Del {
		if _, ok := st.tags[k]; !ok {
			continue
		}
		delete(st.tags, k)
		delete(st.rt.Consumers, k)
		var keep []string
		for _, e := range st.keys {
			if e != k {
				keep = append(keep, e)
			}
		}
		st.keys = keep
		reg = appendOnce(reg, "consumer-removed")
	}
	if sp.SetDefault != "" {
		st.def = sp.SetDefault
		st.rt.DefaultMediaType = sp.SetDefault
		reg = appendOnce(reg, "default-changed")
	}
	return ctxChanged, reg
}

func appendOnce(l []string, s string) []string {
	if contains(l, s) {
		return l
	}
	return append(l, s)
}

func basePathClass(bp string) string {
	switch {
	case bp == "<empty>":
		return "empty"
	case strings.HasPrefix(bp, "/"):
		return "rooted"
	}
	return "no-leading-slash"
}

func runSteps(m *mon.M, c *Case, x *exec) {
	states := map[int]*rtState{}
	defer func() {
		for _, st := range states {
			if st.cancel != nil {
				st.cancel()
			}
		}
	}()
	var (
		op      *runtime.ClientOperation
		box     *opBox
		made    *Call
		prevRt  = -1
		fpSteps []string
	)
	for i := range c.Steps {
		sp := &c.Steps[i]
		if sp.Call < 0 || sp.Call >= len(c.Calls) || sp.Runtime < 0 || sp.Runtime > 3 {
			m.Violate("bad-replay-case", "step "+strconv.Itoa(i)+" points outside the case", nil)
			return
		}
		st := states[sp.Runtime]
		if st == nil {
			st = x.newState(sp.Runtime)
			states[sp.Runtime] = st
		}
		ctxChanged, reg := st.apply(sp)
		// the call as it is made: the response of the step's call; the operation-level settings of the operation value used
		eff := c.Calls[sp.Call]
		eff.Rounds = 0
		s := x.slots[tokenOf(x.nonce, i, 0)]
		reused := sp.ReuseOp && op != nil
		if reused {
			eff.OpClient, eff.OpCtx, eff.Timeout, eff.Span = made.OpClient, made.OpCtx, made.Timeout, made.Span
			box.s, box.call = s, &eff
		} else {
			op, box = x.operation(&eff, s)
			made = &eff
		}
		x.submitOp(st.rt, op, &eff, s)
		m.Eval(1)

		var hist []string
		switch {
		case reused && prevRt != sp.Runtime:
			hist = append(hist, "operation-resubmitted-to-another-runtime")
		case reused:
			hist = append(hist, "operation-resubmitted")
		case i > 0 && prevRt != sp.Runtime:
			hist = append(hist, "another-runtime")
		case i > 0:
			hist = append(hist, "later-call")
		}
		if ctxChanged {
			hist = append(hist, "runtime-context-replaced")
		}
		jx := &judgeX{rtTag: st.tag, rtCtxTag: st.ctxTag, history: strings.Join(hist, "+"), regHist: strings.Join(reg, "+"),
			consTag: func(k string) string {
				if t, ok := st.tags[k]; ok {
					return t
				}
				return k + "<unregistered>"
			}}
		view := &Case{Registry: append([]string(nil), st.keys...), DefaultMT: st.def, RtCtx: st.ctxKind, TCP: c.TCP, Debug: c.Debug, BasePath: c.BasePath, Adapter: c.Adapter, KeepAlive: c.KeepAlive, Entry: c.Entry}
		w := expectFor(view, &eff)
		m.Class("steps:" + orNone(jx.history))
		if strings.Contains(w.feature, "/default-spelled-") {
			m.Class("steps-default:" + w.feature)
		}
		if jx.regHist != "" {
			m.Class("steps-registry:" + jx.regHist)
		}
		if c.Entry != "" {
			m.Class("steps-entry:" + strings.TrimPrefix(entryClass(view, &eff), "@"))
		}
		if c.KeepAlive != "" {
			m.Class("steps:keep-alive:" + c.KeepAlive)
		}
		if s.readerRuns > 0 {
			m.Class("steps-outcome:reader-ran")
		} else {
			m.Class("steps-outcome:call-failed")
		}
		fpSteps = append(fpSteps, jx.history+"/"+jx.regHist+"/"+w.feature+"/"+strconv.FormatBool(eff.OpClient)+"/"+eff.OpCtx+"/"+st.ctxKind+entryClass(view, &eff)+bodyClass(view, &eff, len(bodyOf(view, &eff, ""))))
		for _, f := range judgeCallX(view, &eff, s, jx) {
			m.Violate(f.sig, "step "+strconv.Itoa(i+1)+" of "+strconv.Itoa(len(c.Steps))+" (Runtime "+strconv.Itoa(sp.Runtime)+", registry now "+strings.Join(st.keys, ",")+", default "+strconv.Quote(st.def)+", Runtime.Context "+st.ctxKind+"): "+f.text, c)
		}
		prevRt = sp.Runtime
	}
	m.NT("steps|" + registryShape(c) + "|" + strconv.FormatBool(c.TCP) + "|" + strings.Join(fpSteps, "|"))
	if m.WantSample() {
		m.Sample(map[string]interface{}{"case": c, "steps": fpSteps})
	}
}

// ---------------------------------------------------------------------------------------------
// generator
// ---------------------------------------------------------------------------------------------

func genSteps(r *rand.Rand, tcp bool) *Case {
	c := &Case{TCP: tcp, RtCtx: genRtCtx(r), Debug: r.Intn(8) == 0}
	c.Registry, c.DefaultMT = genRegistry(r)
	if r.Intn(8) == 0 {
		c.BasePath = genBasePath(r)
	}
	c.Adapter = r.Intn(10) == 0
	c.KeepAlive, c.Entry = genKeepAlive(r, 8), genEntry(r, 6)
	// the harness's own model of each Runtime's registry while the steps are laid out
	type model struct {
		keys []string
		def  string
	}
	models := map[int]*model{}
	get := func(i int) *model {
		if models[i] == nil {
			models[i] = &model{keys: append([]string(nil), c.Registry...), def: c.DefaultMT}
		}
		return models[i]
	}
	n := 2 + r.Intn(2)
	cur := 0
	for i := 0; i < n; i++ {
		var sp Step
		var touched []string // media types whose registration changed now: the response should name one of them
		absent := false
		if i > 0 {
			sp.ReuseOp = r.Intn(2) == 0
			if r.Intn(3) == 0 {
				cur = 1 - cur
			}
			sp.Runtime = cur
			md := get(cur)
			if r.Intn(3) == 0 {
				sp.SetRtCtx = []string{"live", "live", "live", "far", "nil", "cancelled", "expired"}[r.Intn(7)]
			}
			if r.Intn(2) == 0 {
				for k, nm := 0, 1+r.Intn(2); k < nm; k++ {
					switch r.Intn(4) {
					case 0: // a type that is not registered yet (or the catch-all)
						t := pick(r, append([]string{"*/*", "application/x-late", "application/problem+json"}, typePool...))
						sp.Add = append(sp.Add, t)
						if !contains(md.keys, t) {
							md.keys = append(md.keys, t)
						}
						touched = append(touched, t)
					case 1: // a new consumer under an existing key
						t := pick(r, md.keys)
						sp.Add = append(sp.Add, t)
						touched = append(touched, t)
					case 2:
						if len(md.keys) > 1 {
							t := pick(r, md.keys)
							if !contains(sp.Add, t) {
								sp.Del = append(sp.Del, t)
								var keep []string
								for _, e := range md.keys {
									if e != t {
										keep = append(keep, e)
									}
								}
								md.keys = keep
								touched = append(touched, t)
							}
						}
					default:
						sp.SetDefault = pick(r, append([]string{"application/x-late"}, typePool...))
					if r.Intn(3) == 0 {
						sp.SetDefault = spellDefault(r, sp.SetDefault)
					}
						md.def = sp.SetDefault
						absent = true
					}
				}
			}
		} else {
			get(0)
		}
		md := get(cur)
		call := genCall(r, md.keys, tcp, "")
		if len(touched) > 0 && r.Intn(4) != 0 {
			t := pick(r, touched)
			if t == "*/*" {
				call.HasCT, call.CT = true, mon.Q(spell(r, pick(r, []string{"application/x-unknown", "video/mp4"}), tcp))
			} else {
				call.HasCT, call.CT = true, mon.Q(spell(r, t, tcp))
			}
		} else if absent && r.Intn(4) != 0 {
			call.HasCT, call.CT = false, ""
		} else {
			absentForSpelledDefault(r, md.def, tcp, &call)
		}
		// dead operation contexts teach nothing about sequences: keep most operations alive
		if dead(call.OpCtx) && r.Intn(3) != 0 {
			call.OpCtx = ""
		}
		call.Fill = 0
		spanFor(r, c.Entry, &call)
		sp.Call = len(c.Calls)
		c.Calls = append(c.Calls, call)
		c.Steps = append(c.Steps, sp)
	}
	return c
}

func genBasePath(r *rand.Rand) string {
	return []string{"<empty>", "api/v2", "v1", "api", "/rooted/base", "a/b/c"}[r.Intn(6)]
}
