package c20

import (
	"bytes"
	"fmt"
	"io"
	"mime"
	"net/http"
	"net/http/httptest"
	"net/url"
	"path"
	"strconv"
	"strings"
	"sync"

	"verif/mon"
)

// ---- multipart bodies ----

const multipartBoundary = "c20-boundary-7d93b1"

// multipartBody is a complete multipart/form-data body (one field, one file part) for multipartBoundary.
func multipartBody(n int) string {
	return "--" + multipartBoundary + "\r\n" +
		"Content-Disposition: form-data; name=\"note\"\r\n\r\n" +
		"hello " + strconv.Itoa(n) + "\r\n" +
		"--" + multipartBoundary + "\r\n" +
		"Content-Disposition: form-data; name=\"file\"; filename=\"a.txt\"\r\n" +
		"Content-Type: text/plain\r\n\r\n" +
		"contents of the upload\r\n" +
		"--" + multipartBoundary + "--\r\n"
}

// ---- methods ----

// readingSuffix marks a verdict that rests on the monitor's reading "the document path is answered for every
// method": the statement's first sentence does not single out methods, its second wants operations to stay
// reachable, so a library that hands POST/PUT/DELETE... at the document path on is triaged as a reading.
func readingSuffix(method string) string {
	if method != "GET" && method != "HEAD" {
		return "/non-get-method"
	}
	return ""
}

// expectDocClass is the class under which an expectation "answered with the document" is counted.
func expectDocClass(method, rel string) string {
	if readingSuffix(method) != "" {
		return "expect:document-by-reading/non-get-method/" + rel
	}
	return "expect:document/" + rel
}

// headWithoutBody: a HEAD answer may leave the body out (over a connection it is never sent anyway); status
// and headers are judged all the same.
func headWithoutBody(method string, body []byte) bool {
	return method == "HEAD" && len(body) == 0
}

// ---- OAuth2 callback given as something else than a clean absolute path ----

// callbackProbe names the shape of an OAuth2 callback option that is not a clean absolute path ("" for one
// that is, or for none). The option is a redirect URL: what the middleware answers then is for triage, the
// monitor records it and judges only that nothing else is intercepted.
func callbackProbe(c *Case) string {
	cb := c.CallbackURL
	if c.MW != "oauth2" || cb == "" {
		return ""
	}
	if u, err := url.Parse(cb); err == nil && (u.Scheme != "" || u.Host != "") {
		return "absolute-url"
	}
	switch {
	case !strings.HasPrefix(cb, "/"):
		return "rootless"
	case cb != "/" && strings.HasSuffix(cb, "/"):
		return "trailing-slash"
	case path.Clean(cb) != cb:
		return "unclean"
	}
	return ""
}

// callbackProbePath is the one path such a callback option could reasonably stand for: the path component of
// the URL, rooted and cleaned.
func callbackProbePath(cb string) string {
	p := cb
	if u, err := url.Parse(cb); err == nil && (u.Scheme != "" || u.Host != "") {
		p = u.Path
	}
	return path.Clean("/" + p)
}

var callbackProbePool = []string{
	"https://example.test/docs/oauth2-callback", "http://auth.example:8443/a/cb", "https://example.test/cb?x=1", "//example.test/docs/cb",
	"/docs/cb/", "/oauth2/callback/",
	"docs/cb", "oauth2-callback",
}

// ---- custom templates that do not parse or execute ----

var badTemplates = map[string]string{
	"unparsable":   `<html><head><title>{{ .Title </title></head><body></body></html>`,
	"unexecutable": `<html><head><title>{{ .NoSuchOption }}</title></head><body></body></html>`,
}

// ---- markup in the request target, answered without next ----

// inertMedia: media types in which echoed markup is text.
func inertMedia(ctype string) bool {
	return ctype == "text/plain" || ctype == "application/json"
}

// checkReflection: the answer given without a next handler to a request whose path carries markup must not
// carry that markup raw (a quote or '<' of the path unescaped before its payload) unless it is plain text.
func checkReflection(m *mon.M, c *Case, what string, reqPath string, a *answer, one *Case) {
	if !rePayload.MatchString(reqPath) {
		return
	}
	m.Class("markup-in-request-path/answered-without-next")
	text := string(a.body)
	at, end, start, found := rawCore(text, reqPath)
	if !found {
		return
	}
	if inertMedia(a.ctype) {
		m.Class("markup-in-request-path/echoed-as-" + a.ctype)
		return
	}
	lo, hi := at-40, end+20
	if lo < 0 {
		lo = 0
	}
	if hi > len(text) {
		hi = len(text)
	}
	m.Violate("answer-without-next-reflects-request-markup/"+mwName(c), fmt.Sprintf("%s -> %d with Content-Type %q whose body carries the request path's %q unescaped before the payload: …%s…",
		what, a.status, a.hdr.Get("Content-Type"), string(start), strconv.QuoteToASCII(text[lo:hi])), one)
}

// ---- concurrent requests for the document ----

const (
	concGoroutines = 4
	concRounds     = 20
)

type concFailure struct {
	kind   string // panic | not-served | differs
	detail string
}

// concurrentGets sends concGoroutines x concRounds GETs of the document at target to the one handler, all
// goroutines released together and joined; each answer must be 200 with exactly want (the first answer's bytes).
// While it runs next and the operation handlers only count.
func concurrentGets(m *mon.M, b *built, target string, want []byte) *concFailure {
	b.conc.Store(true)
	b.concForeign.Store(0)
	defer b.conc.Store(false)
	start := make(chan struct{})
	fails := make([]*concFailure, concGoroutines)
	var wg sync.WaitGroup
	for g := 0; g < concGoroutines; g++ {
		wg.Add(1)
		go func(g int) {
			defer wg.Done()
			<-start
			for i := 0; i < concRounds && fails[g] == nil; i++ {
				var req *http.Request
				if pv, _ := mon.Catch(func() { req = httptest.NewRequest("GET", "http://example.test"+target, nil) }); pv != nil {
					return
				}
				rw := httptest.NewRecorder()
				if pv, st := mon.Catch(func() { b.h.ServeHTTP(rw, req) }); pv != nil {
					fails[g] = &concFailure{"panic", fmt.Sprintf("request %d of goroutine %d panicked: %v\n%s", i, g, pv, st)}
					return
				}
				res := rw.Result()
				body, _ := io.ReadAll(res.Body)
				ctype, _, _ := mime.ParseMediaType(res.Header.Get("Content-Type"))
				switch {
				case res.StatusCode != 200:
					fails[g] = &concFailure{"not-served", fmt.Sprintf("request %d of goroutine %d -> %d %q %s", i, g, res.StatusCode, ctype, clipB(body))}
				case !bytes.Equal(body, want):
					fails[g] = &concFailure{"differs", fmt.Sprintf("request %d of goroutine %d -> %d bytes that differ (at offset %d) from the %d bytes of the first answer: %s", i, g, len(body), firstDiff(body, want), len(want), clipB(body))}
				}
			}
		}(g)
	}
	close(start)
	wg.Wait()
	m.Eval(concGoroutines * concRounds)
	for _, f := range fails {
		if f != nil {
			return f
		}
	}
	if n := b.concForeign.Load(); n > 0 {
		return &concFailure{"not-served", fmt.Sprintf("%d of the requests reached next or an operation handler", n)}
	}
	return nil
}
