// Package c20 monitors the spec and documentation-UI middlewares: they answer exactly the
// requests whose cleaned path equals the configured document path (spec bytes as JSON, or the
// HTML page with escaped option values), pass everything else to the next handler unmodified
// (404 without one), and - installed by the API handler flavours - the page references the very
// location at which the spec is served while API operations stay reachable.
package c20

import (
	"bytes"
	"encoding/json"
	"fmt"
	"hash/fnv"
	"html"
	"io"
	"math/rand"
	"mime"
	"net/http"
	"net/http/httptest"
	"net/url"
	"path"
	"regexp"
	"strconv"
	"strings"

	"github.com/go-openapi/loads"
	"github.com/go-openapi/runtime"
	"github.com/go-openapi/runtime/middleware"
	"github.com/go-openapi/runtime/middleware/untyped"

	"verif/mon"
)

func init() {
	mon.Register(&mon.Property{
		ID:    "C20",
		Level: "exploration",
		Rule: "seeded option combinations for middleware.Spec / Redoc / RapiDoc / SwaggerUI / SwaggerUIOAuth2Callback (option structs filled directly: base path empty, '/', rooted, with trailing or doubled slashes, dot segments, a space, and without leading slash; UI path; spec path and document name; title, spec URL, asset URLs, callback URL carrying HTML/JS metacharacter markers; default or custom template; next recording or nil) and for Context.APIHandler / APIHandlerSwaggerUI / APIHandlerRapiDoc (generated description with base path, info title and operations placed on extensions/prefixes/siblings of the document paths; UIOption funcs; spec URL absolute path or absolute URL with directories, escapes, query, fragment, dot segments); " +
			"requests: the document path exactly, with trailing slash, doubled slashes, dot segments (equal and different after cleaning), percent-escaped letters and slashes, prefixes, extensions, another letter case, unrelated paths; 9 methods; headers and bodies. " +
			"oracle: document path = path.Join('/', base, path[, document]); interception iff path.Clean(URL.Path) equals it; spec bytes and media type; page scanned for raw markers and for the title; next must see the same method/URL/header/body exactly once and its answer must come back; page's spec reference extracted (attribute or JS string, unescaped like a browser), resolved against the page URL and fetched from the same handler. " +
			"non-trivial = every judged request and page check; distinct by (middleware, option shape, request-path relation, method class, next present)",
		Assumptions: []string{
			"defaults are the documented ones: base path '/', UI path 'docs', document 'swagger.json', spec URL '/swagger.json', title 'API Documentation' (API handlers: the description's title), UI base path of the API handlers = the API base path, OAuth2 callback = <base>/<path>/oauth2-callback",
			"'cleaned path' is path.Clean of the decoded URL path (Request.URL.Path); requests always carry an absolute path",
			"an explicitly given OAuthCallbackURL is generated only as a clean absolute path (it is then the document path); relative spec URLs through the API handlers are not judged (outside the statement), nor spec URLs with schemes other than http/https",
			"custom templates: only the escaping of option values and the path behaviour are judged, not their own content",
			"the statement does not single out methods: the document path is expected to be answered for every method",
			"the request handed to next may be a copy carrying another context; method, URL, header, body, host and RequestURI must be identical",
			"Swagger base paths without a leading slash are invalid descriptions and are not generated for the API-handler flavours",
		},
		MinNontrivial: 300,
		Run:           run,
		Replay:        replay,
	})
}

// ---- case model ----

// Rq is one request sent to the composed handler.
type Rq struct {
	Method string `json:"method"`
	Target string `json:"target"` // escaped request path (and query)
	Body   string `json:"body,omitempty"`
	Header bool   `json:"header,omitempty"`
	Rel    string `json:"relation"` // how the generator derived it (not used by the oracle)
}

// Case is one middleware configuration and the requests sent to it.
type Case struct {
	MW string `json:"mw"` // spec redoc rapidoc swaggerui oauth2 | api-redoc api-swaggerui api-rapidoc

	BasePath    string `json:"base_path"`
	Path        string `json:"path"`
	SpecPath    string `json:"spec_path,omitempty"` // Spec: WithSpecPath
	Doc         string `json:"document,omitempty"`  // Spec: WithSpecDocument
	SpecURL     string `json:"spec_url"`
	Title       string `json:"title"`
	Custom      bool   `json:"custom_template,omitempty"`
	AssetURL    string `json:"asset_url,omitempty"`
	CallbackURL string `json:"callback_url,omitempty"`
	SpecBytes   mon.Q  `json:"spec_bytes,omitempty"`
	NextNil     bool   `json:"next_nil,omitempty"`

	// API-handler flavours: which UIOption funcs are passed, and the description
	SetBasePath bool     `json:"set_base_path,omitempty"`
	SetPath     bool     `json:"set_path,omitempty"`
	SetSpecURL  bool     `json:"set_spec_url,omitempty"`
	SetTitle    bool     `json:"set_title,omitempty"`
	APIBase     string   `json:"api_base_path,omitempty"`
	InfoTitle   string   `json:"info_title,omitempty"`
	Templates   []string `json:"operation_templates,omitempty"`

	Requests []Rq `json:"requests"`
}

func (c *Case) isAPI() bool { return strings.HasPrefix(c.MW, "api-") }

const customTemplate = `<!DOCTYPE html>
<html><head><title>{{ .Title }}</title></head>
<body>
<h1>{{ .Title }}</h1>
<viewer spec-url="{{ .SpecURL }}"></viewer>
<a href='{{ .SpecURL }}'>download</a>
<script>var where = "{{ .SpecURL }}"; var name = '{{ .Title }}';</script>
</body></html>
`

// ---- oracle helpers ----

func orDefault(v, def string) string {
	if v == "" {
		return def
	}
	return v
}

// docPath is the configured document path of a stand-alone middleware.
func docPath(c *Case) string {
	switch c.MW {
	case "spec":
		return path.Join("/", c.BasePath, c.SpecPath, orDefault(c.Doc, "swagger.json"))
	case "oauth2":
		if c.CallbackURL != "" {
			return c.CallbackURL
		}
		return path.Join("/", c.BasePath, orDefault(c.Path, "docs"), "oauth2-callback")
	default:
		return path.Join("/", c.BasePath, orDefault(c.Path, "docs"))
	}
}

// apiUIPath is the document path of the UI installed by an API-handler flavour.
func apiUIPath(c *Case) string {
	base := c.APIBase
	if c.SetBasePath {
		base = c.BasePath
	}
	p := ""
	if c.SetPath {
		p = c.Path
	}
	return path.Join("/", base, orDefault(p, "docs"))
}

func pathShape(s string) string {
	var f []string
	switch {
	case s == "":
		return "empty"
	case s == "/":
		return "root"
	case strings.HasPrefix(s, "/"):
		f = append(f, "rooted")
	default:
		f = append(f, "rootless")
	}
	if strings.HasSuffix(s, "/") {
		f = append(f, "trailing")
	}
	if strings.Contains(s, "//") {
		f = append(f, "doubled")
	}
	if strings.Contains(s, "..") || strings.Contains(s, "/./") || s == "." {
		f = append(f, "dots")
	}
	if strings.Contains(strings.Trim(s, "/"), "/") {
		f = append(f, "nested")
	}
	if strings.ContainsAny(s, " %") {
		f = append(f, "special")
	}
	return strings.Join(f, "+")
}

func valueShape(s string) string {
	switch {
	case s == "":
		return "default"
	case strings.ContainsAny(s, "<>\"'"):
		return "marker"
	default:
		return "plain"
	}
}

func specURLShape(s string) string {
	if s == "" {
		return "default"
	}
	u, err := url.Parse(s)
	if err != nil {
		return "unparsable"
	}
	var f []string
	switch {
	case u.Scheme != "":
		f = append(f, "absolute-url")
	case u.Host != "":
		f = append(f, "scheme-relative")
	case strings.HasPrefix(u.Path, "/"):
		f = append(f, "absolute-path")
	default:
		f = append(f, "relative")
	}
	if u.Path == "" || strings.HasSuffix(u.Path, "/") {
		f = append(f, "without-document-name")
	}
	if strings.Count(u.Path, "/") > 1 {
		f = append(f, "dirs")
	}
	if u.RawQuery != "" || u.Fragment != "" {
		f = append(f, "query")
	}
	if strings.ContainsAny(s, "% ") {
		f = append(f, "escapes")
	}
	if strings.Contains(u.Path, "/../") || strings.Contains(u.Path, "/./") || strings.Contains(u.Path, "//") {
		f = append(f, "dots")
	}
	if strings.ContainsAny(s, "<>\"'") {
		f = append(f, "marker")
	}
	return strings.Join(f, "+")
}

func optShape(c *Case) string {
	if c.isAPI() {
		return fmt.Sprintf("api=%s bp=%v:%s p=%v:%s su=%v:%s t=%v:%s it=%s cus=%v", pathShape(c.APIBase), c.SetBasePath, pathShape(c.BasePath), c.SetPath, pathShape(c.Path),
			c.SetSpecURL, specURLShape(c.SpecURL), c.SetTitle, valueShape(c.Title), valueShape(c.InfoTitle), c.Custom)
	}
	return fmt.Sprintf("bp=%s p=%s sp=%s d=%s su=%s t=%s a=%s cb=%s cus=%v", pathShape(c.BasePath), pathShape(c.Path), pathShape(c.SpecPath), pathShape(c.Doc),
		valueShape(c.SpecURL), valueShape(c.Title), valueShape(c.AssetURL), pathShape(c.CallbackURL), c.Custom)
}

func relationOf(reqPath, doc string) string {
	cl := path.Clean(reqPath)
	switch {
	case reqPath == doc:
		return "exact"
	case cl == doc && reqPath == doc+"/":
		return "trailing-slash"
	case cl == doc:
		return "equal-after-cleaning"
	case strings.EqualFold(cl, doc):
		return "letter-case"
	case strings.HasPrefix(cl, doc+"/"):
		return "extension-segment"
	case strings.HasPrefix(cl, doc):
		return "extension-suffix"
	case strings.HasPrefix(doc, cl):
		return "prefix"
	case reqPath != cl:
		return "unclean-elsewhere"
	default:
		return "unrelated"
	}
}

func methodClass(m string) string {
	switch m {
	case "GET", "HEAD", "POST", "OPTIONS":
		return m
	}
	return "other"
}

var reTitle = regexp.MustCompile(`(?s)<title>(.*?)</title>`)
var reSpecAttrS = regexp.MustCompile(`spec-url='([^']*)'`)
var reSpecAttrD = regexp.MustCompile(`spec-url="([^"]*)"`)
var reSpecJS = regexp.MustCompile(`url: '([^']*)'`)

// jsUnquote undoes JavaScript string-literal escapes the way a JS engine reads them.
func jsUnquote(s string) string {
	var sb strings.Builder
	for i := 0; i < len(s); i++ {
		c := s[i]
		if c != '\\' || i+1 >= len(s) {
			sb.WriteByte(c)
			continue
		}
		i++
		switch s[i] {
		case 'u':
			if i+5 <= len(s) {
				if v, err := strconv.ParseUint(s[i+1:i+5], 16, 32); err == nil {
					sb.WriteRune(rune(v))
					i += 4
					continue
				}
			}
			sb.WriteByte('u')
		case 'x':
			if i+3 <= len(s) {
				if v, err := strconv.ParseUint(s[i+1:i+3], 16, 8); err == nil {
					sb.WriteRune(rune(v))
					i += 2
					continue
				}
			}
			sb.WriteByte('x')
		case 'n':
			sb.WriteByte('\n')
		case 'r':
			sb.WriteByte('\r')
		case 't':
			sb.WriteByte('\t')
		default:
			sb.WriteByte(s[i])
		}
	}
	return sb.String()
}

// markers: values that carry markup; each must never appear verbatim in a page.
func markersOf(c *Case) map[string]string {
	out := map[string]string{}
	add := func(field, v string) {
		if strings.ContainsAny(v, "<>") {
			out[field] = v
		}
	}
	add("title", c.Title)
	add("spec-url", c.SpecURL)
	add("asset-url", c.AssetURL)
	if c.isAPI() {
		add("info-title", c.InfoTitle)
	}
	return out
}

// ---- next handler ----

type nextRec struct {
	calls   int
	same    bool
	method  string
	url     string
	reqURI  string
	host    string
	header  http.Header
	body    string
	sentPtr *http.Request
}

func (n *nextRec) ServeHTTP(w http.ResponseWriter, r *http.Request) {
	n.calls++
	n.same = r == n.sentPtr
	n.method = r.Method
	n.url = r.URL.String()
	n.reqURI = r.RequestURI
	n.host = r.Host
	n.header = r.Header.Clone()
	if r.Body != nil {
		b, _ := io.ReadAll(r.Body)
		n.body = string(b)
	}
	w.Header().Set("X-Next", "yes")
	w.WriteHeader(299)
	_, _ = io.WriteString(w, "answered by next")
}

// ---- building the handler under test ----

type built struct {
	h       http.Handler
	next    *nextRec
	spec    []byte
	handled *[]string // API flavours: templates whose handler ran
}

func buildStandalone(c *Case) *built {
	b := &built{}
	var next http.Handler
	if !c.NextNil {
		b.next = &nextRec{}
		next = b.next
	}
	tpl := ""
	if c.Custom {
		tpl = customTemplate
	}
	switch c.MW {
	case "spec":
		b.spec = []byte(c.SpecBytes)
		var opts []middleware.SpecOption
		if c.SpecPath != "" {
			opts = append(opts, middleware.WithSpecPath(c.SpecPath))
		}
		if c.Doc != "" {
			opts = append(opts, middleware.WithSpecDocument(c.Doc))
		}
		b.h = middleware.Spec(c.BasePath, b.spec, next, opts...)
	case "redoc":
		b.h = middleware.Redoc(middleware.RedocOpts{BasePath: c.BasePath, Path: c.Path, SpecURL: c.SpecURL, Title: c.Title, Template: tpl, RedocURL: c.AssetURL}, next)
	case "rapidoc":
		b.h = middleware.RapiDoc(middleware.RapiDocOpts{BasePath: c.BasePath, Path: c.Path, SpecURL: c.SpecURL, Title: c.Title, Template: tpl, RapiDocURL: c.AssetURL}, next)
	case "swaggerui":
		b.h = middleware.SwaggerUI(middleware.SwaggerUIOpts{BasePath: c.BasePath, Path: c.Path, SpecURL: c.SpecURL, Title: c.Title, Template: tpl,
			SwaggerURL: c.AssetURL, SwaggerStylesURL: c.AssetURL, Favicon32: c.AssetURL, OAuthCallbackURL: c.CallbackURL}, next)
	case "oauth2":
		b.h = middleware.SwaggerUIOAuth2Callback(middleware.SwaggerUIOpts{BasePath: c.BasePath, Path: c.Path, SpecURL: c.SpecURL, Title: c.Title, Template: tpl,
			SwaggerURL: c.AssetURL, OAuthCallbackURL: c.CallbackURL}, next)
	}
	decoys()
	return b
}

// decoys constructs other UI middlewares right after the one under test and before it serves anything:
// a page is rendered once at construction and must stay that middleware's own.
func decoys() {
	_ = middleware.Redoc(middleware.RedocOpts{BasePath: "/decoy", Title: "DECOY-REDOC-TITLE", SpecURL: "/decoy/redoc.json"}, nil)
	_ = middleware.SwaggerUI(middleware.SwaggerUIOpts{BasePath: "/decoy", Title: "DECOY-SWAGGERUI-TITLE", SpecURL: "/decoy/swaggerui.json"}, nil)
	_ = middleware.RapiDoc(middleware.RapiDocOpts{BasePath: "/decoy", Title: "DECOY-RAPIDOC-TITLE", SpecURL: "/decoy/rapidoc.json"}, nil)
	_ = middleware.SwaggerUIOAuth2Callback(middleware.SwaggerUIOpts{BasePath: "/decoy", Title: "DECOY-OAUTH2-TITLE"}, nil)
}

func renderAPI(c *Case) []byte {
	doc := map[string]interface{}{
		"swagger":  "2.0",
		"info":     map[string]interface{}{"title": c.InfoTitle, "version": "1"},
		"produces": []string{"application/json"},
	}
	if c.APIBase != "" {
		doc["basePath"] = c.APIBase
	}
	paths := map[string]interface{}{}
	for _, t := range c.Templates {
		paths[t] = map[string]interface{}{"get": map[string]interface{}{
			"responses": map[string]interface{}{"200": map[string]interface{}{"description": "ok"}}}}
	}
	doc["paths"] = paths
	var buf bytes.Buffer
	enc := json.NewEncoder(&buf)
	enc.SetEscapeHTML(false) // keep '<' '>' raw in the document: the served bytes must be these very bytes
	_ = enc.Encode(doc)
	return bytes.TrimSpace(buf.Bytes())
}

func buildAPI(c *Case) (*built, error) {
	raw := renderAPI(c)
	doc, err := loads.Analyzed(json.RawMessage(raw), "")
	if err != nil {
		return nil, err
	}
	b := &built{spec: raw}
	handled := []string{}
	b.handled = &handled
	api := untyped.NewAPI(doc)
	for _, t := range c.Templates {
		tmpl := t
		api.RegisterOperation("get", tmpl, runtime.OperationHandlerFunc(func(interface{}) (interface{}, error) {
			*b.handled = append(*b.handled, tmpl)
			return map[string]interface{}{"op": tmpl}, nil
		}))
	}
	ctx := middleware.NewContext(doc, api, nil)
	var opts []middleware.UIOption
	if c.SetBasePath {
		opts = append(opts, middleware.WithUIBasePath(c.BasePath))
	}
	if c.SetPath {
		opts = append(opts, middleware.WithUIPath(c.Path))
	}
	if c.SetSpecURL {
		opts = append(opts, middleware.WithUISpecURL(c.SpecURL))
	}
	if c.SetTitle {
		opts = append(opts, middleware.WithUITitle(c.Title))
	}
	if c.Custom {
		opts = append(opts, middleware.WithTemplate(customTemplate))
	}
	switch c.MW {
	case "api-redoc":
		b.h = ctx.APIHandler(nil, opts...)
	case "api-swaggerui":
		b.h = ctx.APIHandlerSwaggerUI(nil, opts...)
	case "api-rapidoc":
		b.h = ctx.APIHandlerRapiDoc(nil, opts...)
	}
	decoys()
	return b, nil
}

type answer struct {
	status int
	ctype  string
	body   []byte
	hdr    http.Header
	panicV interface{}
	stack  string
	req    *http.Request
	// what was sent, recorded before the handler saw it (the handler gets the same *http.Request)
	sentURL, sentURI, sentHost string
	sentHeader                 http.Header
}

func send(b *built, rq *Rq) (a answer, ok bool) {
	var body io.Reader
	if rq.Body != "" {
		body = strings.NewReader(rq.Body)
	}
	var req *http.Request
	if pv, _ := mon.Catch(func() { req = httptest.NewRequest(rq.Method, "http://example.test"+rq.Target, body) }); pv != nil {
		return a, false
	}
	if rq.Header {
		req.Header.Set("X-Probe", "kept")
		req.Header.Add("Accept", "text/html")
		req.Header.Add("Accept", "application/json;q=0.5")
	}
	if b.next != nil {
		*b.next = nextRec{sentPtr: req}
	}
	if b.handled != nil {
		*b.handled = (*b.handled)[:0]
	}
	rw := httptest.NewRecorder()
	a.req = req
	a.sentURL, a.sentURI, a.sentHost, a.sentHeader = req.URL.String(), req.RequestURI, req.Host, req.Header.Clone()
	a.panicV, a.stack = mon.Catch(func() { b.h.ServeHTTP(rw, req) })
	res := rw.Result()
	a.status = res.StatusCode
	a.hdr = res.Header
	a.ctype, _, _ = mime.ParseMediaType(res.Header.Get("Content-Type"))
	a.body, _ = io.ReadAll(res.Body)
	return a, true
}

func clipB(b []byte) string {
	if len(b) > 200 {
		return strconv.QuoteToASCII(string(b[:200])) + "…"
	}
	return strconv.QuoteToASCII(string(b))
}

func rootless(s string) bool { return s != "" && !strings.HasPrefix(s, "/") }

// ---- page-level checks ----

func wantTitle(c *Case) string {
	if c.isAPI() {
		t := c.InfoTitle
		if c.SetTitle {
			t = c.Title
		}
		return orDefault(t, "API Documentation")
	}
	return orDefault(c.Title, "API Documentation")
}

func mwName(c *Case) string {
	if c.MW == "oauth2" {
		return "oauth2-callback"
	}
	return c.MW
}

func checkPage(m *mon.M, c *Case, page []byte, one *Case) {
	text := string(page)
	marks := markersOf(c)
	for _, field := range []string{"title", "info-title", "spec-url", "asset-url"} {
		v, has := marks[field]
		if has && strings.Contains(text, v) {
			i := strings.Index(text, v)
			lo := i - 40
			if lo < 0 {
				lo = 0
			}
			hi := i + len(v) + 20
			if hi > len(text) {
				hi = len(text)
			}
			tk := "default-template"
			if c.Custom {
				tk = "custom-template"
			}
			m.Violate("unescaped-option-value/"+mwName(c), fmt.Sprintf("%s page (%s) carries the %s option verbatim: …%s…", c.MW, tk, field, strconv.QuoteToASCII(text[lo:hi])), one)
			return
		}
	}
	if mt := reTitle.FindStringSubmatch(text); mt != nil {
		if got := html.UnescapeString(mt[1]); got != wantTitle(c) {
			m.Violate("page-lacks-option-value/"+mwName(c)+"/title", fmt.Sprintf("%s page title reads %q, configured %q", c.MW, got, wantTitle(c)), one)
		}
	} else {
		m.Violate("page-lacks-option-value/"+mwName(c)+"/title", fmt.Sprintf("%s page has no <title>: %s", c.MW, clipB(page)), one)
	}
}

// specReference extracts the spec location the page tells the browser to load.
func specReference(c *Case, page []byte) (string, bool) {
	text := string(page)
	if c.Custom {
		if mt := reSpecAttrD.FindStringSubmatch(text); mt != nil {
			return html.UnescapeString(mt[1]), true
		}
		return "", false
	}
	switch c.MW {
	case "api-redoc":
		if mt := reSpecAttrS.FindStringSubmatch(text); mt != nil {
			return html.UnescapeString(mt[1]), true
		}
	case "api-rapidoc":
		if mt := reSpecAttrD.FindStringSubmatch(text); mt != nil {
			return html.UnescapeString(mt[1]), true
		}
	case "api-swaggerui":
		if mt := reSpecJS.FindStringSubmatch(text); mt != nil {
			return jsUnquote(mt[1]), true
		}
	}
	return "", false
}

// ---- running one case ----

func runCase(m *mon.M, c *Case) {
	if c.isAPI() {
		runAPICase(m, c)
		return
	}
	doc := docPath(c)
	shape := optShape(c)
	var b *built
	if pv, st := mon.Catch(func() { b = buildStandalone(c) }); pv != nil || b == nil || b.h == nil {
		m.Eval(1)
		m.Violate("construction-panic/"+mwName(c), fmt.Sprintf("constructing %s panicked: %v\n%s", c.MW, pv, st), minimal(c, nil))
		return
	}
	feature := "rooted-options"
	if rootless(c.BasePath) {
		feature = "base-path-without-leading-slash"
	}
	// page-level check: fetch the document path itself
	{
		m.Eval(1)
		one := minimal(c, nil)
		a, _ := send(b, &Rq{Method: "GET", Target: (&url.URL{Path: doc}).EscapedPath()})
		m.NT(c.MW + "|" + shape + "|page")
		if a.panicV != nil {
			m.Violate("serve-panic/"+mwName(c), fmt.Sprintf("GET %s panicked: %v\n%s", doc, a.panicV, a.stack), one)
		} else if c.MW != "spec" && a.status == 200 && a.ctype == "text/html" && (b.next == nil || b.next.calls == 0) {
			checkPage(m, c, a.body, one)
			m.Class("page-checked/" + c.MW)
		}
	}
	for i := range c.Requests {
		rq := &c.Requests[i]
		a, ok := send(b, rq)
		if !ok {
			m.Class("harness:request-not-constructible")
			continue
		}
		m.Eval(1)
		one := minimal(c, rq)
		reqPath := a.req.URL.Path
		rel := relationOf(reqPath, doc)
		m.NT(c.MW + "|" + shape + "|" + rel + "|" + methodClass(rq.Method) + "|" + fmt.Sprint(c.NextNil))
		what := fmt.Sprintf("%s %s (URL.Path %q) on %s with document path %q", rq.Method, rq.Target, reqPath, c.MW, doc)
		if a.panicV != nil {
			m.Violate("serve-panic/"+mwName(c), fmt.Sprintf("%s panicked: %v\n%s", what, a.panicV, a.stack), one)
			continue
		}
		nextCalls := 0
		if b.next != nil {
			nextCalls = b.next.calls
		}
		if path.Clean(reqPath) == doc {
			m.Class("expect:document/" + rel)
			if nextCalls > 0 || a.status != 200 {
				m.Violate("document-path-not-served/"+feature, fmt.Sprintf("%s was not answered by the middleware (status %d, next called %d times)", what, a.status, nextCalls), one)
				continue
			}
			if c.MW == "spec" {
				if !bytes.Equal(a.body, b.spec) {
					m.Violate("document-wrong-bytes/spec", fmt.Sprintf("%s -> body %s, spec bytes %s", what, clipB(a.body), clipB(b.spec)), one)
				} else if a.ctype != "application/json" {
					m.Violate("document-wrong-content-type/spec", fmt.Sprintf("%s -> Content-Type %q", what, a.hdr.Get("Content-Type")), one)
				}
			} else {
				if a.ctype != "text/html" {
					m.Violate("document-wrong-content-type/"+mwName(c), fmt.Sprintf("%s -> Content-Type %q", what, a.hdr.Get("Content-Type")), one)
				} else if len(a.body) == 0 {
					m.Violate("document-empty/"+mwName(c), what+" -> empty page", one)
				}
			}
			continue
		}
		// everything else belongs to next
		m.Class("expect:pass-through/" + rel)
		if b.next == nil {
			if a.status != http.StatusNotFound {
				m.Violate("foreign-path-not-404-without-next/"+rel, fmt.Sprintf("%s -> %d %s although there is no next handler", what, a.status, clipB(a.body)), one)
			}
			continue
		}
		n := b.next
		switch {
		case n.calls == 0:
			m.Violate("foreign-path-intercepted/"+rel, fmt.Sprintf("%s was answered by the middleware (%d %s %s) instead of reaching next", what, a.status, a.ctype, clipB(a.body)), one)
		case n.calls > 1:
			m.Violate("next-called-twice", fmt.Sprintf("%s reached next %d times", what, n.calls), one)
		default:
			var diffs []string
			if n.method != rq.Method {
				diffs = append(diffs, fmt.Sprintf("method %q", n.method))
			}
			if want := a.sentURL; n.url != want {
				diffs = append(diffs, fmt.Sprintf("url %q (sent %q)", n.url, want))
			}
			if n.reqURI != a.sentURI || n.host != a.sentHost {
				diffs = append(diffs, fmt.Sprintf("requestURI/host %q %q", n.reqURI, n.host))
			}
			if fmt.Sprint(n.header) != fmt.Sprint(a.sentHeader) {
				diffs = append(diffs, fmt.Sprintf("header %v (sent %v)", n.header, a.sentHeader))
			}
			if n.body != rq.Body {
				diffs = append(diffs, fmt.Sprintf("body %q (sent %q)", n.body, rq.Body))
			}
			if len(diffs) > 0 {
				m.Violate("next-request-modified", fmt.Sprintf("%s: next saw %s", what, strings.Join(diffs, "; ")), one)
				break
			}
			if a.status != 299 || a.hdr.Get("X-Next") != "yes" || string(a.body) != "answered by next" {
				m.Violate("next-answer-altered", fmt.Sprintf("%s: next answered 299 but the client saw %d %s", what, a.status, clipB(a.body)), one)
				break
			}
			if n.same {
				m.Class("next:same-request-value")
			} else {
				m.Class("next:copied-request")
			}
		}
	}
	if m.WantSample() {
		s := *c
		if len(s.Requests) > 3 {
			s.Requests = s.Requests[:3]
		}
		m.Sample(map[string]interface{}{"case": s, "document_path": doc})
	}
}

func minimal(c *Case, rq *Rq) *Case {
	one := *c
	one.Requests = nil
	if rq != nil {
		one.Requests = []Rq{*rq}
	}
	return &one
}

func apiFull(c *Case, tmpl string) string {
	return strings.TrimSuffix(c.APIBase, "/") + tmpl
}

func runAPICase(m *mon.M, c *Case) {
	shape := optShape(c)
	var b *built
	var berr error
	if pv, st := mon.Catch(func() { b, berr = buildAPI(c) }); pv != nil {
		m.Eval(1)
		m.Violate("construction-panic/"+c.MW, fmt.Sprintf("constructing %s panicked: %v\n%s", c.MW, pv, st), minimal(c, nil))
		return
	}
	if berr != nil || b == nil || b.h == nil {
		m.Class("harness:description-not-loadable")
		return
	}
	ui := apiUIPath(c)
	pageURL := &url.URL{Scheme: "http", Host: "example.test", Path: ui}
	one := minimal(c, nil)
	m.Eval(1)
	m.NT(c.MW + "|" + shape + "|page")
	a, _ := send(b, &Rq{Method: "GET", Target: pageURL.EscapedPath()})
	if a.panicV != nil {
		m.Violate("serve-panic/"+c.MW, fmt.Sprintf("GET %s panicked: %v\n%s", ui, a.panicV, a.stack), one)
		return
	}
	if a.status != 200 || a.ctype != "text/html" || len(*b.handled) > 0 {
		m.Violate("document-path-not-served/api-handler-ui", fmt.Sprintf("GET %s on %s -> %d %q %s; the UI page was expected there", ui, c.MW, a.status, a.hdr.Get("Content-Type"), clipB(a.body)), one)
		return
	}
	checkPage(m, c, a.body, one)
	m.Class("page-checked/" + c.MW)

	// the spec location the page references
	specDoc := "" // cleaned path at which the spec is expected; "" = not determined
	sshape := specURLShape(c.SetSpecURLValue())
	judged := !strings.Contains(sshape, "relative") || strings.Contains(sshape, "scheme-relative")
	if strings.Contains(sshape, "unparsable") {
		judged = false
	}
	if judged {
		m.Eval(1)
		ref, ok := specReference(c, a.body)
		if !ok {
			m.Violate("page-without-spec-reference/"+c.MW, fmt.Sprintf("no spec reference found in the %s page: %s", c.MW, clipB(a.body)), one)
		} else if ru, err := url.Parse(ref); err != nil {
			m.Violate("page-without-spec-reference/"+c.MW, fmt.Sprintf("spec reference %q of the %s page does not parse: %v", ref, c.MW, err), one)
		} else {
			abs := pageURL.ResolveReference(ru)
			target := abs.EscapedPath()
			if target == "" {
				target = "/"
			}
			if abs.RawQuery != "" {
				target += "?" + abs.RawQuery
			}
			sa, sent := send(b, &Rq{Method: "GET", Target: target})
			m.NT(c.MW + "|" + shape + "|follow-spec-reference")
			cls := "with-document-name"
			if strings.Contains(sshape, "without-document-name") {
				cls = "spec-url-without-document-name"
			}
			switch {
			case !sent:
				m.Class("harness:request-not-constructible")
			case sa.panicV != nil:
				m.Violate("serve-panic/"+c.MW, fmt.Sprintf("GET %s panicked: %v", target, sa.panicV), one)
			case sa.status != 200 || !bytes.Equal(sa.body, b.spec) || sa.ctype != "application/json":
				m.Violate("page-references-unserved-spec-location/"+cls, fmt.Sprintf("the %s page (at %s) references the spec at %q = %s, but GET %s on the same handler -> %d %q %s (configured spec URL %q)",
					c.MW, ui, ref, abs.String(), target, sa.status, sa.hdr.Get("Content-Type"), clipB(sa.body), c.SetSpecURLValue()), one)
			default:
				m.Class("spec-reference-followed/" + sshape)
				if cls == "with-document-name" {
					specDoc = path.Clean(abs.Path)
				}
			}
		}
	} else {
		m.Class("spec-reference-not-judged/" + sshape)
	}

	for i := range c.Requests {
		rq := &c.Requests[i]
		ra, ok := send(b, rq)
		if !ok {
			m.Class("harness:request-not-constructible")
			continue
		}
		m.Eval(1)
		one := minimal(c, rq)
		reqPath := ra.req.URL.Path
		cl := path.Clean(reqPath)
		rel := "ui:" + relationOf(reqPath, ui)
		if specDoc != "" && (cl == specDoc || strings.HasPrefix(cl, specDoc) || strings.HasPrefix(specDoc, cl) && cl != "/") {
			rel = "spec:" + relationOf(reqPath, specDoc)
		}
		m.NT(c.MW + "|" + shape + "|" + rel + "|" + methodClass(rq.Method))
		what := fmt.Sprintf("%s %s (URL.Path %q) on %s with UI at %q and spec at %q", rq.Method, rq.Target, reqPath, c.MW, ui, specDoc)
		if ra.panicV != nil {
			m.Violate("serve-panic/"+c.MW, fmt.Sprintf("%s panicked: %v\n%s", what, ra.panicV, ra.stack), one)
			continue
		}
		isPage := ra.status == 200 && ra.ctype == "text/html" && bytes.Equal(ra.body, a.body)
		isSpec := ra.status == 200 && bytes.Equal(ra.body, b.spec)
		switch {
		case cl == ui:
			m.Class("expect:document/" + rel)
			if !isPage {
				m.Violate("document-path-not-served/api-handler-ui", fmt.Sprintf("%s -> %d %q %s instead of the UI page", what, ra.status, ra.ctype, clipB(ra.body)), one)
			}
		case specDoc != "" && cl == specDoc:
			m.Class("expect:document/" + rel)
			if !isSpec || ra.ctype != "application/json" {
				m.Violate("document-path-not-served/api-handler-spec", fmt.Sprintf("%s -> %d %q %s instead of the spec document", what, ra.status, ra.ctype, clipB(ra.body)), one)
			}
		default:
			if specDoc == "" {
				// where the spec is served was not established: only the UI side is judged
				if isPage {
					m.Violate("foreign-path-intercepted/"+rel, fmt.Sprintf("%s was answered with the UI page", what), one)
					continue
				}
			} else if isPage || isSpec {
				m.Violate("foreign-path-intercepted/"+rel, fmt.Sprintf("%s was answered with a document (%d %q) instead of reaching the API router", what, ra.status, ra.ctype), one)
				continue
			}
			// an API operation on this path must have been reached
			var wantOp string
			for _, t := range c.Templates {
				// literally the operation's path: how the router treats escaped or unclean
				// spellings of it belongs to C01
				if apiFull(c, t) == reqPath && ra.req.URL.EscapedPath() == reqPath && rq.Method == "GET" {
					wantOp = t
				}
			}
			if wantOp != "" && !(specDoc == "" && isSpec) {
				m.Class("expect:operation/" + rel)
				if len(*b.handled) != 1 || (*b.handled)[0] != wantOp || ra.status != 200 {
					m.Violate("api-operation-shadowed/"+rel, fmt.Sprintf("%s: operation GET %s was not reached (handlers run: %v, status %d %s)", what, wantOp, *b.handled, ra.status, clipB(ra.body)), one)
				}
			} else {
				m.Class("expect:router/" + rel)
			}
		}
	}
	if m.WantSample() {
		s := *c
		if len(s.Requests) > 3 {
			s.Requests = s.Requests[:3]
		}
		m.Sample(map[string]interface{}{"case": s, "ui_path": ui, "spec_path": specDoc})
	}
}

// SetSpecURLValue is the spec URL option when it is passed, "" otherwise.
func (c *Case) SetSpecURLValue() string {
	if c.SetSpecURL {
		return c.SpecURL
	}
	return ""
}

// ---- generation ----

var basePool = []string{"", "/", "/api", "/api/", "/a/b", "//api", "/api//v1", "/a b", "/api/../x", "/Docs", "api", "api/", "a/b", "v1/"}
var apiBasePool = []string{"", "/", "/api", "/a/b", "/api/", "/v1.0"}
var uiPathPool = []string{"", "docs", "/docs", "docs/", "ui/index.html", "d o", "../up", "swagger-ui", "/", "Docs", "docs.html"}
var specPathPool = []string{"", "", "specs", "/specs/", "v1/specs", "../s"}
var docPool = []string{"", "", "swagger.json", "spec.json", "api.yaml", "dir/openapi.json", "/lead.json", "swagger.json/"}
var callbackPool = []string{"", "", "", "/oauth2/callback", "/docs/cb"}

var markerPool = []string{
	`<script>alert(%d)</script>`,
	`</title><script>alert(%d)</script>`,
	`"><img src=x onerror=alert(%d)>`,
	`'><svg/onload=alert(%d)>`,
	`</script><script>alert(%d)</script>`,
	`x' onmouseover='alert(%d)' <b>`,
}

var titlePool = []string{"", "My API", "Pets & Friends", "A \"quoted\" title", "it's"}
var assetPool = []string{"", "https://cdn.example/lib.js", "/assets/lib.js?v=1&w=2"}
var specURLStandalone = []string{"", "/swagger.json", "/api/spec.json", "https://example.test/a/spec.json", "spec.json", "/a b/s.json?x=1&y=2"}

var specURLAPI = []string{
	"/swagger.json", "/spec.json", "/api/v1/spec.json", "/a/b/c.yaml", "/dir.d/s.json", "/docs/swagger.json", "/a b/s.json", "/a%20b/s.json",
	"/s.json?version=1&x=y", "/s.json#top", "https://example.test/x/s.json", "http://other.example:8080/s.json", "//cdn.example/y/s.json",
	"/x/../s.json", "/x//s.json", "/x/./s.json", "https://example.test/deep/er/path/openapi.json?a=b", "/sp%65c.json", "/api/swagger.json", "/a%2Fb/s.json",
	// without document name
	"/specs/", "/", "https://example.test", "https://example.test/specs/",
	// relative (not judged)
	"spec.json", "specs/api.json",
}

var methodPool = []string{"GET", "GET", "GET", "HEAD", "POST", "PUT", "DELETE", "OPTIONS", "PATCH", "FOO", "CONNECT"}

func pick(r *rand.Rand, l []string) string { return l[r.Intn(len(l))] }

func marker(r *rand.Rand) string { return fmt.Sprintf(pick(r, markerPool), 1000+r.Intn(9000)) }

func maybeMarker(r *rand.Rand, pool []string, pct int) string {
	if r.Intn(100) < pct {
		if r.Intn(3) == 0 {
			return pick(r, pool) + marker(r)
		}
		return marker(r)
	}
	return pick(r, pool)
}

func escTarget(p string) string { return (&url.URL{Path: p}).EscapedPath() }

func pctEncodeOne(r *rand.Rand, esc string) string {
	// percent-encode one letter of an already escaped path
	idx := []int{}
	for i := 0; i < len(esc); i++ {
		c := esc[i]
		if (c >= 'a' && c <= 'z') || (c >= 'A' && c <= 'Z') {
			if i >= 1 && esc[i-1] == '%' || i >= 2 && esc[i-2] == '%' {
				continue
			}
			idx = append(idx, i)
		}
	}
	if len(idx) == 0 {
		return esc
	}
	i := idx[r.Intn(len(idx))]
	return esc[:i] + fmt.Sprintf("%%%02X", esc[i]) + esc[i+1:]
}

// genTargets derives request targets from a document path.
func genTargets(r *rand.Rand, doc string, n int) []Rq {
	segs := strings.Split(strings.TrimPrefix(doc, "/"), "/")
	var out []Rq
	add := func(rel, target string) {
		rq := Rq{Method: pick(r, methodPool), Target: target, Rel: rel}
		if r.Intn(3) == 0 {
			rq.Header = true
		}
		if rq.Method == "POST" || rq.Method == "PUT" || rq.Method == "PATCH" {
			if r.Intn(2) == 0 {
				rq.Body = `{"payload":"` + strconv.Itoa(r.Intn(1000)) + `"}`
			}
		}
		if r.Intn(6) == 0 {
			rq.Target += "?q=" + strconv.Itoa(r.Intn(100))
		}
		out = append(out, rq)
	}
	for len(out) < n {
		switch r.Intn(16) {
		case 0, 1:
			add("exact", escTarget(doc))
		case 2:
			add("trailing-slash", escTarget(doc+"/"))
		case 3: // dot segments that clean to the document path
			i := r.Intn(len(segs) + 1)
			ins := pick(r, []string{".", "zz/..", "", "./."})
			l := append(append(append([]string{}, segs[:i]...), ins), segs[i:]...)
			add("dots-equal", escTarget("/"+strings.Join(l, "/")))
		case 4:
			add("dots-equal", escTarget("/.."+doc))
		case 5: // dot segments that lead elsewhere
			add("dots-different", escTarget(doc+"/.."))
		case 6:
			add("dots-different", escTarget(doc+"/../"+segs[len(segs)-1]+"x"))
		case 7: // prefixes
			if len(doc) > 1 {
				add("prefix", escTarget(doc[:1+r.Intn(len(doc)-1)]))
			} else {
				add("prefix", "/")
			}
		case 8:
			add("prefix", escTarget(path.Dir(doc)))
		case 9: // extensions
			add("extension", escTarget(doc+pick(r, []string{"x", ".json", "/sub", "/index.html", "%", "/swagger.json", "-2"})))
		case 10:
			add("letter-case", escTarget(strings.ToUpper(doc)))
		case 11:
			add("escaped-letter", pctEncodeOne(r, escTarget(doc)))
		case 12:
			if len(segs) > 1 {
				add("escaped-slash", "/"+strings.Join(segs[:len(segs)-1], "/")+"%2F"+url.PathEscape(segs[len(segs)-1]))
			} else {
				add("escaped-letter", pctEncodeOne(r, escTarget(doc)))
			}
		case 13:
			add("doubled-slash", escTarget("/"+doc))
		case 14:
			add("unrelated", pick(r, []string{"/", "/other", "/favicon.ico", "/docs", "/swagger.json", "/api", "/api/docs", "/docs/oauth2-callback"}))
		case 15:
			add("suffix-only", escTarget("/"+segs[len(segs)-1]))
		}
	}
	return out
}

func genStandalone(r *rand.Rand) *Case {
	c := &Case{MW: pick(r, []string{"spec", "redoc", "rapidoc", "swaggerui", "oauth2"})}
	c.BasePath = pick(r, basePool)
	if r.Intn(3) == 0 {
		c.BasePath = pick(r, basePool[:5])
	}
	c.NextNil = r.Intn(4) == 0
	if c.MW == "spec" {
		c.SpecPath = pick(r, specPathPool)
		c.Doc = pick(r, docPool)
		switch r.Intn(4) {
		case 0:
			c.SpecBytes = mon.Q(`{"swagger":"2.0","info":{"title":"<script>alert(1)</script>","version":"1"},"paths":{}}`)
		case 1:
			b := make([]byte, r.Intn(64))
			r.Read(b)
			c.SpecBytes = mon.Q(b)
		case 2:
			c.SpecBytes = mon.Q("{\n  \"swagger\": \"2.0\",\r\n\t\"x\": \"é\\u00e9 \xff\x00\"\n}\n\n")
		default:
			c.SpecBytes = mon.Q(`{"swagger":"2.0"}`)
		}
	} else {
		c.Path = pick(r, uiPathPool)
		c.Title = maybeMarker(r, titlePool, 40)
		c.SpecURL = maybeMarker(r, specURLStandalone, 25)
		c.AssetURL = maybeMarker(r, assetPool, 20)
		c.Custom = r.Intn(5) == 0
		if c.MW == "swaggerui" || c.MW == "oauth2" {
			c.CallbackURL = pick(r, callbackPool)
		}
	}
	c.Requests = genTargets(r, docPath(c), 12)
	return c
}

func genAPI(r *rand.Rand) *Case {
	c := &Case{MW: pick(r, []string{"api-redoc", "api-swaggerui", "api-rapidoc"})}
	c.APIBase = pick(r, apiBasePool)
	c.InfoTitle = maybeMarker(r, titlePool[1:], 30)
	if r.Intn(3) == 0 {
		c.SetBasePath = true
		c.BasePath = pick(r, []string{"", "/", "/ui", "ui", "/api", "/a/b/", "api"})
	}
	if r.Intn(2) == 0 {
		c.SetPath = true
		c.Path = pick(r, uiPathPool)
	}
	if r.Intn(4) != 0 {
		c.SetSpecURL = true
		c.SpecURL = pick(r, specURLAPI)
		if r.Intn(12) == 0 {
			c.SpecURL = ""
		}
	}
	if r.Intn(3) == 0 {
		c.SetTitle = true
		c.Title = maybeMarker(r, titlePool, 50)
	}
	c.Custom = r.Intn(6) == 0

	ui := apiUIPath(c)
	specDoc := "/swagger.json"
	if c.SetSpecURL && c.SpecURL != "" {
		if u, err := url.Parse(c.SpecURL); err == nil && u.Path != "" {
			specDoc = path.Clean("/" + u.Path)
		}
	}
	// operations: unrelated ones, and ones placed next to the document paths
	tset := map[string]bool{"/items": true}
	bp := strings.TrimSuffix(c.APIBase, "/")
	under := func(full string) {
		if full == "" || strings.ContainsAny(full, " %{}?#") || strings.HasSuffix(full, "/") || strings.Contains(full, "//") || strings.Contains(full, "/.") {
			return
		}
		if bp != "" && !strings.HasPrefix(full, bp+"/") {
			return
		}
		t := strings.TrimPrefix(full, bp)
		if t != "" && t != "/" {
			tset[t] = true
		}
	}
	for _, d := range []string{ui, specDoc} {
		if r.Intn(2) == 0 {
			under(d + "/sub")
		}
		if r.Intn(2) == 0 {
			under(d + "x")
		}
		if r.Intn(3) == 0 {
			under(path.Dir(d))
		}
		if r.Intn(4) == 0 {
			under(d) // the document path itself: shadowing it is allowed
		}
		if r.Intn(3) == 0 {
			under(strings.ToUpper(d))
		}
	}
	if r.Intn(2) == 0 {
		tset["/docs"] = true
	}
	if r.Intn(3) == 0 {
		tset["/swagger.json"] = true
	}
	if r.Intn(3) == 0 {
		tset["/docs/swagger.json"] = true
	}
	// structurally distinct static templates only
	lower := map[string]bool{}
	for t := range tset {
		c.Templates = append(c.Templates, t)
		lower[t] = true
	}
	sortStrings(c.Templates)

	// requests: around the UI path, around the spec path, and every operation
	c.Requests = append(c.Requests, genTargets(r, ui, 6)...)
	c.Requests = append(c.Requests, genTargets(r, specDoc, 6)...)
	for _, t := range c.Templates {
		c.Requests = append(c.Requests, Rq{Method: "GET", Target: escTarget(apiFull(c, t)), Rel: "operation"})
	}
	return c
}

func sortStrings(l []string) {
	for i := 1; i < len(l); i++ {
		for j := i; j > 0 && l[j] < l[j-1]; j-- {
			l[j], l[j-1] = l[j-1], l[j]
		}
	}
}

// Batch names a slice of the seeded stand-alone stream; it is the crash marker written before a
// batch of (function-level, individually recovered) cases and can be replayed like a case.
type Batch struct {
	Seed  int64 `json:"seed"`
	Shard int   `json:"shard"`
	From  int   `json:"from"`
	Count int   `json:"count"`
}

type batchCase struct {
	Batch *Batch `json:"standalone_batch,omitempty"`
}

// streamRand reproduces mon.M.Rand for a given (seed, shard, stream).
func streamRand(seed int64, shard int, name string) *rand.Rand {
	h := fnv.New64a()
	fmt.Fprintf(h, "%s|%d|%d|%s", "C20", seed, shard, name)
	return rand.New(rand.NewSource(int64(h.Sum64() & 0x7fffffffffffffff)))
}

func runBatch(m *mon.M, b *Batch) {
	r := streamRand(b.Seed, b.Shard, "standalone")
	for i := 0; i < b.From+b.Count; i++ {
		c := genStandalone(r)
		if i >= b.From {
			runCase(m, c)
		}
	}
}

const batchSize = 100

func run(m *mon.M) {
	r := m.Rand("standalone")
	n := m.N(8000, 80000)
	for i := 0; i < n; i++ {
		if i%batchSize == 0 {
			m.Begin(&batchCase{Batch: &Batch{Seed: m.Seed, Shard: m.Shard, From: i, Count: batchSize}})
		}
		runCase(m, genStandalone(r))
	}
	ra := m.Rand("api")
	na := m.N(400, 6000)
	for i := 0; i < na; i++ {
		c := genAPI(ra)
		m.Begin(c)
		runCase(m, c)
	}
}

func replay(m *mon.M, raw json.RawMessage) {
	var bc batchCase
	if err := json.Unmarshal(raw, &bc); err == nil && bc.Batch != nil {
		runBatch(m, bc.Batch)
		return
	}
	var c Case
	if err := json.Unmarshal(raw, &c); err != nil {
		m.Violate("bad-replay-case", err.Error(), nil)
		return
	}
	runCase(m, &c)
}
