// Package c20 monitors the spec and documentation-UI middlewares: they answer exactly the
// requests whose cleaned path equals the configured document path (spec bytes as JSON, or the
// HTML page with escaped option values), pass everything else to the next handler unmodified
// (404 without one), and - installed by the API handler flavours - the page references the very
// location at which the spec is served while API operations stay reachable.
package c20

import (
	"bytes"
	"encoding/json"
	"fmt"
	"hash/fnv"
	"html"
	"io"
	"math/rand"
	"mime"
	"net/http"
	"net/http/httptest"
	"net/url"
	"path"
	"regexp"
	"strconv"
	"strings"
	"sync"
	"sync/atomic"

	"github.com/go-openapi/loads"
	"github.com/go-openapi/runtime"
	"github.com/go-openapi/runtime/middleware"
	"github.com/go-openapi/runtime/middleware/untyped"

	"verif/mon"
)

func init() {
	mon.Register(&mon.Property{
		ID:    "C20",
		Level: "exploration",
		Rule: "seeded option combinations for middleware.Spec / Redoc / RapiDoc / SwaggerUI / SwaggerUIOAuth2Callback (option structs filled directly: base path empty, '/', rooted, with trailing or doubled slashes, dot segments, a space, and without leading slash; UI path; spec path and document name; title, spec URL, asset URLs (SwaggerUI: bundle, preset, styles, both favicons) and the SwaggerUI callback URL carrying HTML/JS metacharacter markers; default or custom template; next recording or nil) and for Context.APIHandler / APIHandlerSwaggerUI / APIHandlerRapiDoc (generated description with base path, info title and operations placed on extensions/prefixes/siblings of the document paths - GET on static paths, other methods, and templates with a path parameter below or beside a document path; UIOption funcs; spec URL absolute path or absolute URL with directories, escapes, query, fragment, dot segments; one in 4 with a Builder that passes everything on; one Redoc flavour in 4 obtained from middleware.Serve / ServeWithBuilder instead of Context.APIHandler); " +
			"requests: the document path exactly, with trailing slash, doubled slashes, dot segments (equal and different after cleaning), percent-escaped letters and slashes, prefixes, extensions, another letter case, unrelated paths; 9 methods; headers and bodies (JSON, and application/x-www-form-urlencoded and multipart/form-data ones that parsing the request or reading a form value would consume); request paths carrying markup markers beside or below the document path; one request in 4 carries Range, If-Modified-Since (a date in 2099), If-None-Match: *, Accept-Encoding: gzip, or all of them plus If-Range, and a first answer that carries ETag / Last-Modified is asked for again with those validators: the document path must answer 200 with the exact bytes all the same; titles and spec URLs with entity-like text (R&amp;D &lt;b&gt;, a&#39;b); one spec document in 60 (one API description in 20, one title in 150) exceeds 70 KiB; one stand-alone case in 50 (API: 25) then has 4 goroutines, released together and joined, each GET the document path 20 times from the one handler; probes, classed and not judged: one OAuth2-callback case in 30 has the callback URL as an absolute URL, with a trailing slash or rootless, one UI case in 150 a custom template that does not parse or execute. " +
			"oracle: document path = path.Join('/', base, path[, document]); interception iff path.Clean(URL.Path) equals it (a HEAD answer may leave the body out: status and media type are judged all the same; a refusal of a method other than GET/HEAD at the document path gets the signature suffix /non-get-method); every concurrent answer is 200 with the first answer's bytes; the 404 given without next to a path carrying markup does not carry a marker core raw unless it is text/plain or application/json; spec bytes (compared with a copy taken before the library saw the document) and media type; page scanned for markers verbatim and for marker cores (one of the value's own quotes or '<' standing raw before its alert(N) payload, whatever the spelling of what lies between), for the title, every later answer at the document path of a stand-alone UI middleware being byte for byte the first page, and - stand-alone - for the spec URL unescaped for the place where it stands (HTML attribute or JS string; equal up to percent-encoding); next must find an empty response header set, see the same method/URL/header/body/ContentLength and no parsed form, exactly once, and its answer must come back with exactly the header set it wrote; page's spec reference extracted (attribute or JS string, unescaped like a browser), resolved against the page URL and fetched from the same handler. " +
			"non-trivial = every judged request and page check; distinct by (middleware, option shape, request-path relation, method class, next present)",
		Assumptions: []string{
			"defaults are the documented ones: base path '/', UI path 'docs', document 'swagger.json', spec URL '/swagger.json', title 'API Documentation' (API handlers: the description's title), UI base path of the API handlers = the API base path, OAuth2 callback = <base>/<path>/oauth2-callback",
			"'cleaned path' is path.Clean of the decoded URL path (Request.URL.Path); requests always carry an absolute path",
			"for the OAuth2 callback middleware an explicitly given OAuthCallbackURL is judged only as a clean absolute path (it is then the document path; SwaggerUI only renders it into the page, there it may carry markup); given as an absolute URL, with a trailing slash or rootless it is a probe: whether the cleaned path of that URL is answered is recorded (probe:oauth2-callback-url/<shape>/...) for triage and not judged, every other path is judged to pass through as usual; relative spec URLs through the API handlers are not judged (outside the statement), nor spec URLs with schemes other than http/https",
			"custom templates: only the escaping of option values and the path behaviour are judged, not their own content",
			"'HTML-escaped' covers the five characters < > & ' \" wherever the value stands: one of a marker's own quotes or '<' standing raw before its payload is a refutation in every context (a backslash-escaped quote inside a script element counts as escaped); the payload itself is plain text and may stand anywhere",
			"the spec URL a stand-alone page carries is compared with the option up to percent-encoding (URL-valued attributes may be normalised), after undoing the HTML-attribute or JS-string escaping of the place where it stands",
			"an API operation is 'reachable' when its handler runs and the answer is 200, judged for requests without body that literally instantiate the operation's template (a {parameter} = one plain segment); which of several matching operations runs is not judged here",
			"the statement does not single out methods: the document path is expected to be answered for every method. For methods other than GET and HEAD this is the MONITOR'S READING, not a clause (the first sentence says 'only', the second wants operations to stay reachable): such a refusal carries the signature suffix /non-get-method and is counted under expect:document-by-reading/, to be triaged as a reading",
			"a HEAD request at a document path is answered with the document's status and media type; its body may be left out (no client can tell over a connection), and when present it must be the document",
			"the 404 given when there is no next handler: the statement asks for the status only. That its body does not reflect markup of the request path raw in a media type a browser renders (anything but text/plain and application/json) is the MONITOR'S READING of the escaping clause (signature answer-without-next-reflects-request-markup/...)",
			"concurrent requests are outside the statement's quantifier; the monitor reads 'the HTML page' / 'the exact spec bytes' as holding for every answer of one handler, also for answers given at the same time (signature suffix /concurrent-requests); the check binary is not built with the race detector, so only wrong bytes, a wrong status or a panic are seen",
			"custom templates that do not parse or execute make construction panic as documented (WithTemplate): generated as probes (probe:custom-template-*), never judged",
			"the request handed to next may be a copy carrying another context; method, URL, header, body, host and RequestURI must be identical",
			"Swagger base paths without a leading slash are invalid descriptions and are not generated for the API-handler flavours",
		},
		MinNontrivial: 300,
		Run:           run,
		Replay:        replay,
	})
}

// ---- case model ----

// Rq is one request sent to the composed handler.
type Rq struct {
	Method string `json:"method"`
	Target string `json:"target"` // escaped request path (and query)
	Body   string `json:"body,omitempty"`
	Header bool   `json:"header,omitempty"`
	Form   bool   `json:"form,omitempty"` // Body is sent as application/x-www-form-urlencoded
	// Multipart: Body is sent as multipart/form-data with the boundary multipartBoundary (a body that
	// Request.FormValue / ParseMultipartForm would consume and park in MultipartForm)
	Multipart bool   `json:"multipart,omitempty"`
	Rel       string `json:"relation"` // how the generator derived it (not used by the oracle)
	// Cond names the conditional / range / encoding request headers in Headers (range, if-modified-since,
	// if-none-match, accept-encoding, all, validators-of-first-answer); the statement knows none of
	// them: the document path is answered 200 with the exact bytes whatever the request carries
	Cond    string            `json:"conditional,omitempty"`
	Headers map[string]string `json:"headers,omitempty"`
}

// condHeaders are the header sets behind Rq.Cond. The date lies after every possible modification time,
// so that the outcome never depends on the clock.
var condHeaders = map[string]map[string]string{
	"range":             {"Range": "bytes=0-3"},
	"if-modified-since": {"If-Modified-Since": "Thu, 01 Jan 2099 00:00:00 GMT"},
	"if-none-match":     {"If-None-Match": "*"},
	"accept-encoding":   {"Accept-Encoding": "gzip"},
	"all": {"Range": "bytes=2-", "If-Modified-Since": "Thu, 01 Jan 2099 00:00:00 GMT", "If-None-Match": "*",
		"Accept-Encoding": "gzip, deflate, br", "If-Range": "\"x\""},
}
var condKinds = []string{"range", "if-modified-since", "if-none-match", "accept-encoding", "all"}

// condSuffix narrows a signature when the answer is one that only a conditional, range or encoding
// request can get.
func condSuffix(rq *Rq, a *answer) string {
	if rq.Cond == "" {
		return ""
	}
	switch a.status {
	case http.StatusNotModified, http.StatusPartialContent, http.StatusPreconditionFailed, http.StatusRequestedRangeNotSatisfiable:
		return "/conditional-request-" + rq.Cond
	}
	if a.hdr.Get("Content-Encoding") != "" {
		return "/conditional-request-" + rq.Cond
	}
	return ""
}

// validatorsRq: the request repeated with the validators the first answer carried (ETag, Last-Modified).
func validatorsRq(target string, a *answer) *Rq {
	h := map[string]string{}
	if v := a.hdr.Get("Etag"); v != "" {
		h["If-None-Match"] = v
	}
	if v := a.hdr.Get("Last-Modified"); v != "" {
		h["If-Modified-Since"] = v
	}
	if len(h) == 0 {
		return nil
	}
	return &Rq{Method: "GET", Target: target, Rel: "exact", Cond: "validators-of-first-answer", Headers: h}
}

// Op is an API operation declared with another method than GET and/or with path parameters.
type Op struct {
	Method   string `json:"method"`
	Template string `json:"template"`
}

// Case is one middleware configuration and the requests sent to it.
type Case struct {
	MW string `json:"mw"` // spec redoc rapidoc swaggerui oauth2 | api-redoc api-swaggerui api-rapidoc

	BasePath    string `json:"base_path"`
	Path        string `json:"path"`
	SpecPath    string `json:"spec_path,omitempty"` // Spec: WithSpecPath
	Doc         string `json:"document,omitempty"`  // Spec: WithSpecDocument
	SpecURL     string `json:"spec_url"`
	Title       string `json:"title"`
	Custom      bool   `json:"custom_template,omitempty"`
	AssetURL    string `json:"asset_url,omitempty"`
	CallbackURL string `json:"callback_url,omitempty"`
	PresetURL   string `json:"preset_url,omitempty"` // SwaggerUI: SwaggerPresetURL
	Favicon16   string `json:"favicon16,omitempty"`  // SwaggerUI: Favicon16
	SpecBytes   mon.Q  `json:"spec_bytes,omitempty"`
	NextNil     bool   `json:"next_nil,omitempty"`

	// API-handler flavours: which UIOption funcs are passed, and the description
	SetBasePath bool     `json:"set_base_path,omitempty"`
	SetPath     bool     `json:"set_path,omitempty"`
	SetSpecURL  bool     `json:"set_spec_url,omitempty"`
	SetTitle    bool     `json:"set_title,omitempty"`
	APIBase     string   `json:"api_base_path,omitempty"`
	InfoTitle   string   `json:"info_title,omitempty"`
	Templates   []string `json:"operation_templates,omitempty"` // GET operations on static paths
	Ops         []Op     `json:"operations,omitempty"`          // further operations: other methods, path parameters

	// Pad: the description carries an info.description of that many bytes (a document beyond 64 KiB)
	Pad int `json:"description_padding,omitempty"`

	// Via: how the API handler is obtained: "" = Context.APIHandler*, "serve" = middleware.Serve,
	// "serve-with-builder" = middleware.ServeWithBuilder (both are the Redoc flavour without UI options)
	Via string `json:"via,omitempty"`
	// Builder: a non-nil Builder (a decorator that passes everything on) is handed to the API handler
	Builder bool `json:"builder,omitempty"`
	// Concurrent: after the first answer, concGoroutines goroutines each GET the document path concRounds
	// times from the same handler; every body must be the first answer's
	Concurrent bool `json:"concurrent_gets,omitempty"`
	// BadTemplate: the custom template does not parse ("unparsable") or does not execute ("unexecutable");
	// construction is documented to panic then: a probe, classed and not judged
	BadTemplate string `json:"bad_template,omitempty"`

	Requests []Rq `json:"requests"`
}

func (c *Case) isAPI() bool { return strings.HasPrefix(c.MW, "api-") }

const customTemplate = `<!DOCTYPE html>
<html><head><title>{{ .Title }}</title></head>
<body>
<h1>{{ .Title }}</h1>
<viewer spec-url="{{ .SpecURL }}"></viewer>
<a href='{{ .SpecURL }}'>download</a>
<script>var where = "{{ .SpecURL }}"; var name = '{{ .Title }}';</script>
</body></html>
`

// ---- oracle helpers ----

func orDefault(v, def string) string {
	if v == "" {
		return def
	}
	return v
}

// docPath is the configured document path of a stand-alone middleware.
func docPath(c *Case) string {
	switch c.MW {
	case "spec":
		return path.Join("/", c.BasePath, c.SpecPath, orDefault(c.Doc, "swagger.json"))
	case "oauth2":
		if callbackProbe(c) != "" {
			return callbackProbePath(c.CallbackURL) // a probe: what is answered there is recorded, not judged
		}
		if c.CallbackURL != "" {
			return c.CallbackURL
		}
		return path.Join("/", c.BasePath, orDefault(c.Path, "docs"), "oauth2-callback")
	default:
		return path.Join("/", c.BasePath, orDefault(c.Path, "docs"))
	}
}

// apiUIPath is the document path of the UI installed by an API-handler flavour.
func apiUIPath(c *Case) string {
	base := c.APIBase
	if c.SetBasePath {
		base = c.BasePath
	}
	p := ""
	if c.SetPath {
		p = c.Path
	}
	return path.Join("/", base, orDefault(p, "docs"))
}

func pathShape(s string) string {
	var f []string
	switch {
	case s == "":
		return "empty"
	case s == "/":
		return "root"
	case strings.HasPrefix(s, "/"):
		f = append(f, "rooted")
	default:
		f = append(f, "rootless")
	}
	if strings.HasSuffix(s, "/") {
		f = append(f, "trailing")
	}
	if strings.Contains(s, "//") {
		f = append(f, "doubled")
	}
	if strings.Contains(s, "..") || strings.Contains(s, "/./") || s == "." {
		f = append(f, "dots")
	}
	if strings.Contains(strings.Trim(s, "/"), "/") {
		f = append(f, "nested")
	}
	if strings.ContainsAny(s, " %") {
		f = append(f, "special")
	}
	return strings.Join(f, "+")
}

func valueShape(s string) string {
	switch {
	case s == "":
		return "default"
	case strings.ContainsAny(s, "<>\"'"):
		return "marker"
	default:
		return "plain"
	}
}

func specURLShape(s string) string {
	if s == "" {
		return "default"
	}
	u, err := url.Parse(s)
	if err != nil {
		return "unparsable"
	}
	var f []string
	switch {
	case u.Scheme != "":
		f = append(f, "absolute-url")
	case u.Host != "":
		f = append(f, "scheme-relative")
	case strings.HasPrefix(u.Path, "/"):
		f = append(f, "absolute-path")
	default:
		f = append(f, "relative")
	}
	if u.Path == "" || strings.HasSuffix(u.Path, "/") {
		f = append(f, "without-document-name")
	}
	if strings.Count(u.Path, "/") > 1 {
		f = append(f, "dirs")
	}
	if u.RawQuery != "" || u.Fragment != "" {
		f = append(f, "query")
	}
	if strings.ContainsAny(s, "% ") {
		f = append(f, "escapes")
	}
	if strings.Contains(u.Path, "/../") || strings.Contains(u.Path, "/./") || strings.Contains(u.Path, "//") {
		f = append(f, "dots")
	}
	if strings.ContainsAny(s, "<>\"'") {
		f = append(f, "marker")
	}
	return strings.Join(f, "+")
}

func optShape(c *Case) string {
	if c.isAPI() {
		sh := fmt.Sprintf("api=%s bp=%v:%s p=%v:%s su=%v:%s t=%v:%s it=%s cus=%v", pathShape(c.APIBase), c.SetBasePath, pathShape(c.BasePath), c.SetPath, pathShape(c.Path),
			c.SetSpecURL, specURLShape(c.SpecURL), c.SetTitle, valueShape(c.Title), valueShape(c.InfoTitle), c.Custom)
		if c.Via != "" || c.Builder {
			sh += fmt.Sprintf(" via=%s builder=%v", c.Via, c.Builder)
		}
		return sh
	}
	cb := pathShape(c.CallbackURL)
	if valueShape(c.CallbackURL) == "marker" {
		cb = "marker"
	}
	sh := fmt.Sprintf("bp=%s p=%s sp=%s d=%s su=%s t=%s a=%s cb=%s cus=%v", pathShape(c.BasePath), pathShape(c.Path), pathShape(c.SpecPath), pathShape(c.Doc),
		valueShape(c.SpecURL), valueShape(c.Title), valueShape(c.AssetURL), cb, c.Custom)
	if c.PresetURL != "" || c.Favicon16 != "" {
		sh += fmt.Sprintf(" pr=%s f16=%s", valueShape(c.PresetURL), valueShape(c.Favicon16))
	}
	if p := callbackProbe(c); p != "" {
		sh += " cbprobe=" + p
	}
	return sh
}

func relationOf(reqPath, doc string) string {
	cl := path.Clean(reqPath)
	switch {
	case reqPath == doc:
		return "exact"
	case cl == doc && reqPath == doc+"/":
		return "trailing-slash"
	case cl == doc:
		return "equal-after-cleaning"
	case strings.EqualFold(cl, doc):
		return "letter-case"
	case strings.HasPrefix(cl, doc+"/"):
		return "extension-segment"
	case strings.HasPrefix(cl, doc):
		return "extension-suffix"
	case strings.HasPrefix(doc, cl):
		return "prefix"
	case reqPath != cl:
		return "unclean-elsewhere"
	default:
		return "unrelated"
	}
}

func methodClass(m string) string {
	switch m {
	case "GET", "HEAD", "POST", "OPTIONS":
		return m
	}
	return "other"
}

var reTitle = regexp.MustCompile(`(?s)<title>(.*?)</title>`)
var reSpecAttrS = regexp.MustCompile(`spec-url='([^']*)'`)
var reSpecAttrD = regexp.MustCompile(`spec-url="([^"]*)"`)
var reSpecJS = regexp.MustCompile(`url: '([^']*)'`)

// jsUnquote undoes JavaScript string-literal escapes the way a JS engine reads them.
func jsUnquote(s string) string {
	var sb strings.Builder
	for i := 0; i < len(s); i++ {
		c := s[i]
		if c != '\\' || i+1 >= len(s) {
			sb.WriteByte(c)
			continue
		}
		i++
		switch s[i] {
		case 'u':
			if i+5 <= len(s) {
				if v, err := strconv.ParseUint(s[i+1:i+5], 16, 32); err == nil {
					sb.WriteRune(rune(v))
					i += 4
					continue
				}
			}
			sb.WriteByte('u')
		case 'x':
			if i+3 <= len(s) {
				if v, err := strconv.ParseUint(s[i+1:i+3], 16, 8); err == nil {
					sb.WriteRune(rune(v))
					i += 2
					continue
				}
			}
			sb.WriteByte('x')
		case 'n':
			sb.WriteByte('\n')
		case 'r':
			sb.WriteByte('\r')
		case 't':
			sb.WriteByte('\t')
		default:
			sb.WriteByte(s[i])
		}
	}
	return sb.String()
}

// markers: values that carry markup; each must never appear verbatim in a page.
func markersOf(c *Case) map[string]string {
	out := map[string]string{}
	add := func(field, v string) {
		if strings.ContainsAny(v, "<>") || (strings.ContainsAny(v, "'\"") && rePayload.MatchString(v)) {
			out[field] = v
		}
	}
	add("title", c.Title)
	add("spec-url", c.SpecURL)
	add("asset-url", c.AssetURL)
	if c.MW == "swaggerui" {
		add("callback-url", c.CallbackURL)
		add("preset-url", c.PresetURL)
		add("favicon16", c.Favicon16)
	}
	if c.isAPI() {
		add("info-title", c.InfoTitle)
	}
	return out
}

var markerFields = []string{"title", "info-title", "spec-url", "asset-url", "callback-url", "preset-url", "favicon16"}

var rePayload = regexp.MustCompile(`alert\(\d+\)`)

var entityName = map[byte]string{'<': "lt", '>': "gt", '&': "amp", '"': "quot", '\'': "apos"}

// anySpelling is a pattern for one byte of an option value as it may stand in a page: itself, or any of its
// HTML-, JavaScript- or URL-escaped spellings.
func anySpelling(ch byte) string {
	if ch >= 0x80 {
		return string([]byte{ch}) // part of a multi-byte character: as it is
	}
	lit := regexp.QuoteMeta(string([]byte{ch}))
	if ch >= '0' && ch <= '9' || ch >= 'a' && ch <= 'z' || ch >= 'A' && ch <= 'Z' {
		return lit
	}
	alts := []string{lit,
		fmt.Sprintf(`&#0*%d;`, ch), fmt.Sprintf(`&#[xX]0*(?i:%x);`, ch),
		fmt.Sprintf(`\\u00(?i:%02x)`, ch), fmt.Sprintf(`\\u\{0*(?i:%x)\}`, ch), fmt.Sprintf(`\\x(?i:%02x)`, ch), `\\` + lit,
		fmt.Sprintf(`%%(?i:%02x)`, ch)}
	if n, ok := entityName[ch]; ok {
		alts = append(alts, "&"+n+";")
	}
	return "(?:" + strings.Join(alts, "|") + ")"
}

// markerCore is the part of a marker value that does the damage: from one of the value's own quote or '<'
// characters up to the alert(N) payload behind it.
type markerCore struct {
	start byte           // ' " or <
	re    *regexp.Regexp // that character raw, what lies between in any spelling, a payload (any number)
}

var coreCache sync.Map // value with the payload numbers blanked -> []markerCore

// coresOf builds, for every quote or '<' standing before the payload in v, the pattern "that character raw, what
// lies between in any spelling, the payload". The patterns do not depend on the payload's number (the caller
// compares it), so they are built once per kind of value.
func coresOf(v string, payloadAt int) []markerCore {
	key := v[:payloadAt]
	if c, ok := coreCache.Load(key); ok {
		return c.([]markerCore)
	}
	var out []markerCore
	for i := 0; i < payloadAt; i++ {
		if v[i] != '\'' && v[i] != '"' && v[i] != '<' {
			continue
		}
		var sb strings.Builder
		sb.WriteString(regexp.QuoteMeta(v[i : i+1]))
		for j := i + 1; j < payloadAt; j++ {
			sb.WriteString(anySpelling(v[j]))
		}
		sb.WriteString(`alert\(\d+\)`)
		if re, err := regexp.Compile(sb.String()); err == nil {
			out = append(out, markerCore{start: v[i], re: re})
		}
	}
	coreCache.Store(key, out)
	return out
}

// inScript reports whether offset i of the page lies in a script element.
func inScript(text string, i int) bool {
	lower := strings.ToLower(text[:i])
	o := strings.LastIndex(lower, "<script")
	return o >= 0 && strings.LastIndex(lower, "</script") < o
}

// rawCore finds a marker core whose leading quote or '<' stands raw in the page. A quote behind a backslash
// inside a script element is an escaped one.
func rawCore(text, v string) (at, end int, start byte, found bool) {
	for _, ploc := range rePayload.FindAllStringIndex(v, -1) {
		payload := v[ploc[0]:ploc[1]]
		if !strings.Contains(text, payload) {
			continue // the payload itself stands nowhere in its plain spelling
		}
		for _, core := range coresOf(v, ploc[0]) {
			for _, loc := range core.re.FindAllStringIndex(text, -1) {
				if !strings.HasSuffix(text[loc[0]:loc[1]], payload) {
					continue // another value's payload
				}
				if core.start != '<' {
					n := 0
					for k := loc[0] - 1; k >= 0 && text[k] == '\\'; k-- {
						n++
					}
					if n%2 == 1 && inScript(text, loc[0]) {
						continue
					}
				}
				return loc[0], loc[1], core.start, true
			}
		}
	}
	return 0, 0, 0, false
}

// pctDecode undoes every well-formed percent-escape: two spellings of a URL reference that differ only in which
// bytes are percent-encoded decode to the same string.
func pctDecode(s string) string {
	if !strings.Contains(s, "%") {
		return s
	}
	var sb strings.Builder
	for i := 0; i < len(s); i++ {
		if s[i] == '%' && i+3 <= len(s) {
			if v, err := strconv.ParseUint(s[i+1:i+3], 16, 8); err == nil {
				sb.WriteByte(byte(v))
				i += 2
				continue
			}
		}
		sb.WriteByte(s[i])
	}
	return sb.String()
}

var reHrefS = regexp.MustCompile(`href='([^']*)'`)
var reWhereJS = regexp.MustCompile(`var where = "([^"]*)"`)

type pageRef struct {
	where string // attribute or js-string
	value string // unescaped the way a browser reads that context
}

// standaloneSpecRefs extracts every place where a stand-alone page carries the spec URL option.
func standaloneSpecRefs(c *Case, text string) (refs []pageRef, expected int) {
	attr := func(re *regexp.Regexp) {
		expected++
		if mt := re.FindStringSubmatch(text); mt != nil {
			refs = append(refs, pageRef{"attribute", html.UnescapeString(mt[1])})
		}
	}
	js := func(re *regexp.Regexp) {
		expected++
		if mt := re.FindStringSubmatch(text); mt != nil {
			refs = append(refs, pageRef{"js-string", jsUnquote(mt[1])})
		}
	}
	if c.Custom {
		attr(reSpecAttrD)
		attr(reHrefS)
		js(reWhereJS)
		return
	}
	switch c.MW {
	case "redoc":
		attr(reSpecAttrS)
	case "rapidoc":
		attr(reSpecAttrD)
	case "swaggerui":
		js(reSpecJS)
	}
	return
}

// ---- next handler ----

type nextRec struct {
	b       *built // while b.conc is set, next only counts
	calls   int
	same    bool
	method  string
	url     string
	reqURI  string
	host    string
	header  http.Header
	body    string
	sentPtr *http.Request
	// the response header set as next finds it on entry, before writing anything itself
	entryHeader http.Header
	// request state a middleware could have touched by parsing the request on the way
	formNil, postFormNil, multipartNil bool
	contentLength                      int64
	bodyNil                            bool
}

// nextWrote is the complete header set next writes.
var nextWrote = http.Header{"X-Next": {"yes"}}

func (n *nextRec) ServeHTTP(w http.ResponseWriter, r *http.Request) {
	if n.b != nil && n.b.conc.Load() {
		n.b.concForeign.Add(1)
		w.WriteHeader(299)
		return
	}
	n.calls++
	n.entryHeader = w.Header().Clone()
	n.same = r == n.sentPtr
	n.method = r.Method
	n.url = r.URL.String()
	n.reqURI = r.RequestURI
	n.host = r.Host
	n.header = r.Header.Clone()
	n.formNil, n.postFormNil, n.multipartNil = r.Form == nil, r.PostForm == nil, r.MultipartForm == nil
	n.contentLength = r.ContentLength
	n.bodyNil = r.Body == nil
	if r.Body != nil {
		b, _ := io.ReadAll(r.Body)
		n.body = string(b)
	}
	w.Header().Set("X-Next", "yes")
	w.WriteHeader(299)
	_, _ = io.WriteString(w, "answered by next")
}

// headerDiff lists how a header set differs from the expected one (order of names irrelevant).
func headerDiff(got, want http.Header) []string {
	var out []string
	var names []string
	for k := range got {
		names = append(names, k)
	}
	for k := range want {
		if _, ok := got[k]; !ok {
			names = append(names, k)
		}
	}
	sortStrings(names)
	for _, k := range names {
		g, hasG := got[k]
		w, hasW := want[k]
		switch {
		case !hasW:
			out = append(out, fmt.Sprintf("extra %s: %q", k, g))
		case !hasG:
			out = append(out, fmt.Sprintf("missing %s: %q", k, w))
		case strings.Join(g, "\x00") != strings.Join(w, "\x00"):
			out = append(out, fmt.Sprintf("%s: %q instead of %q", k, g, w))
		}
	}
	return out
}

// ---- building the handler under test ----

type built struct {
	h       http.Handler
	next    *nextRec
	spec    []byte
	handled *[]string // API flavours: templates whose handler ran

	builderRuns int // API flavours with a Builder: requests that went through the decorator
	// concurrent phase: next and the operation handlers touch nothing but concForeign
	conc        atomic.Bool
	concForeign atomic.Int32
}

func buildStandalone(c *Case) *built {
	b := &built{}
	var next http.Handler
	if !c.NextNil {
		b.next = &nextRec{b: b}
		next = b.next
	}
	tpl := ""
	if c.Custom {
		tpl = customTemplate
	}
	if bad, ok := badTemplates[c.BadTemplate]; ok {
		tpl = bad
	}
	switch c.MW {
	case "spec":
		b.spec = []byte(c.SpecBytes) // the expectation: a copy the library never sees
		given := []byte(c.SpecBytes)
		var opts []middleware.SpecOption
		if c.SpecPath != "" {
			opts = append(opts, middleware.WithSpecPath(c.SpecPath))
		}
		if c.Doc != "" {
			opts = append(opts, middleware.WithSpecDocument(c.Doc))
		}
		b.h = middleware.Spec(c.BasePath, given, next, opts...)
	case "redoc":
		b.h = middleware.Redoc(middleware.RedocOpts{BasePath: c.BasePath, Path: c.Path, SpecURL: c.SpecURL, Title: c.Title, Template: tpl, RedocURL: c.AssetURL}, next)
	case "rapidoc":
		b.h = middleware.RapiDoc(middleware.RapiDocOpts{BasePath: c.BasePath, Path: c.Path, SpecURL: c.SpecURL, Title: c.Title, Template: tpl, RapiDocURL: c.AssetURL}, next)
	case "swaggerui":
		b.h = middleware.SwaggerUI(middleware.SwaggerUIOpts{BasePath: c.BasePath, Path: c.Path, SpecURL: c.SpecURL, Title: c.Title, Template: tpl,
			SwaggerURL: c.AssetURL, SwaggerStylesURL: c.AssetURL, Favicon32: c.AssetURL, OAuthCallbackURL: c.CallbackURL,
			SwaggerPresetURL: c.PresetURL, Favicon16: c.Favicon16}, next)
	case "oauth2":
		b.h = middleware.SwaggerUIOAuth2Callback(middleware.SwaggerUIOpts{BasePath: c.BasePath, Path: c.Path, SpecURL: c.SpecURL, Title: c.Title, Template: tpl,
			SwaggerURL: c.AssetURL, OAuthCallbackURL: c.CallbackURL}, next)
	}
	decoys()
	return b
}

// decoys constructs other UI middlewares right after the one under test and before it serves anything:
// a page is rendered once at construction and must stay that middleware's own.
func decoys() {
	_ = middleware.Redoc(middleware.RedocOpts{BasePath: "/decoy", Title: "DECOY-REDOC-TITLE", SpecURL: "/decoy/redoc.json"}, nil)
	_ = middleware.SwaggerUI(middleware.SwaggerUIOpts{BasePath: "/decoy", Title: "DECOY-SWAGGERUI-TITLE", SpecURL: "/decoy/swaggerui.json"}, nil)
	_ = middleware.RapiDoc(middleware.RapiDocOpts{BasePath: "/decoy", Title: "DECOY-RAPIDOC-TITLE", SpecURL: "/decoy/rapidoc.json"}, nil)
	_ = middleware.SwaggerUIOAuth2Callback(middleware.SwaggerUIOpts{BasePath: "/decoy", Title: "DECOY-OAUTH2-TITLE"}, nil)
}

var reTmplParam = regexp.MustCompile(`\{([^{}/]+)\}`)

func (o Op) key() string { return o.Method + " " + o.Template }

func renderAPI(c *Case) []byte {
	doc := map[string]interface{}{
		"swagger":  "2.0",
		"info":     map[string]interface{}{"title": c.InfoTitle, "version": "1"},
		"produces": []string{"application/json"},
	}
	if c.Pad > 0 {
		var sb strings.Builder
		for i := 0; sb.Len() < c.Pad; i++ {
			fmt.Fprintf(&sb, "%06d words of description. ", i)
		}
		doc["info"].(map[string]interface{})["description"] = sb.String()
	}
	if c.APIBase != "" {
		doc["basePath"] = c.APIBase
	}
	paths := map[string]interface{}{}
	for _, t := range c.Templates {
		paths[t] = map[string]interface{}{"get": map[string]interface{}{
			"responses": map[string]interface{}{"200": map[string]interface{}{"description": "ok"}}}}
	}
	for _, op := range c.Ops {
		item, _ := paths[op.Template].(map[string]interface{})
		if item == nil {
			item = map[string]interface{}{}
			paths[op.Template] = item
		}
		o := map[string]interface{}{"responses": map[string]interface{}{"200": map[string]interface{}{"description": "ok"}}}
		var params []interface{}
		for _, mt := range reTmplParam.FindAllStringSubmatch(op.Template, -1) {
			params = append(params, map[string]interface{}{"name": mt[1], "in": "path", "required": true, "type": "string"})
		}
		if params != nil {
			o["parameters"] = params
		}
		item[strings.ToLower(op.Method)] = o
	}
	doc["paths"] = paths
	var buf bytes.Buffer
	enc := json.NewEncoder(&buf)
	enc.SetEscapeHTML(false) // keep '<' '>' raw in the document: the served bytes must be these very bytes
	_ = enc.Encode(doc)
	return bytes.TrimSpace(buf.Bytes())
}

func buildAPI(c *Case) (*built, error) {
	raw := renderAPI(c)
	want := append([]byte(nil), raw...) // the expectation: copied before the loader and the handlers see the document
	doc, err := loads.Analyzed(json.RawMessage(raw), "")
	if err != nil {
		return nil, err
	}
	b := &built{spec: want}
	handled := []string{}
	b.handled = &handled
	api := untyped.NewAPI(doc)
	for _, t := range c.Templates {
		tmpl := t
		api.RegisterOperation("get", tmpl, runtime.OperationHandlerFunc(func(interface{}) (interface{}, error) {
			if b.conc.Load() {
				b.concForeign.Add(1)
				return map[string]interface{}{"op": tmpl}, nil
			}
			*b.handled = append(*b.handled, tmpl)
			return map[string]interface{}{"op": tmpl}, nil
		}))
	}
	for _, op := range c.Ops {
		key := op.key()
		api.RegisterOperation(strings.ToLower(op.Method), op.Template, runtime.OperationHandlerFunc(func(interface{}) (interface{}, error) {
			if b.conc.Load() {
				b.concForeign.Add(1)
				return map[string]interface{}{"op": key}, nil
			}
			*b.handled = append(*b.handled, key)
			return map[string]interface{}{"op": key}, nil
		}))
	}
	var builder middleware.Builder
	if c.Builder || c.Via == "serve-with-builder" {
		builder = func(h http.Handler) http.Handler {
			return http.HandlerFunc(func(w http.ResponseWriter, r *http.Request) {
				if !b.conc.Load() {
					b.builderRuns++
				}
				h.ServeHTTP(w, r)
			})
		}
	}
	switch c.Via {
	case "serve":
		b.h = middleware.Serve(doc, api)
		decoys()
		return b, nil
	case "serve-with-builder":
		b.h = middleware.ServeWithBuilder(doc, api, builder)
		decoys()
		return b, nil
	}
	ctx := middleware.NewContext(doc, api, nil)
	var opts []middleware.UIOption
	if c.SetBasePath {
		opts = append(opts, middleware.WithUIBasePath(c.BasePath))
	}
	if c.SetPath {
		opts = append(opts, middleware.WithUIPath(c.Path))
	}
	if c.SetSpecURL {
		opts = append(opts, middleware.WithUISpecURL(c.SpecURL))
	}
	if c.SetTitle {
		opts = append(opts, middleware.WithUITitle(c.Title))
	}
	if c.Custom {
		opts = append(opts, middleware.WithTemplate(customTemplate))
	}
	switch c.MW {
	case "api-redoc":
		b.h = ctx.APIHandler(builder, opts...)
	case "api-swaggerui":
		b.h = ctx.APIHandlerSwaggerUI(builder, opts...)
	case "api-rapidoc":
		b.h = ctx.APIHandlerRapiDoc(builder, opts...)
	}
	decoys()
	return b, nil
}

type answer struct {
	status int
	ctype  string
	body   []byte
	hdr    http.Header
	panicV interface{}
	stack  string
	req    *http.Request
	// what was sent, recorded before the handler saw it (the handler gets the same *http.Request)
	sentURL, sentURI, sentHost string
	sentHeader                 http.Header
	sentLength                 int64
	sentBodyNil                bool
}

func send(b *built, rq *Rq) (a answer, ok bool) {
	var body io.Reader
	if rq.Body != "" {
		body = strings.NewReader(rq.Body)
	}
	var req *http.Request
	if pv, _ := mon.Catch(func() { req = httptest.NewRequest(rq.Method, "http://example.test"+rq.Target, body) }); pv != nil {
		return a, false
	}
	if rq.Form {
		req.Header.Set("Content-Type", "application/x-www-form-urlencoded")
	}
	if rq.Multipart {
		req.Header.Set("Content-Type", "multipart/form-data; boundary="+multipartBoundary)
	}
	if rq.Header {
		req.Header.Set("X-Probe", "kept")
		req.Header.Add("Accept", "text/html")
		req.Header.Add("Accept", "application/json;q=0.5")
	}
	for k, v := range rq.Headers {
		req.Header.Set(k, v)
	}
	if b.next != nil {
		*b.next = nextRec{sentPtr: req, b: b}
	}
	if b.handled != nil {
		*b.handled = (*b.handled)[:0]
	}
	b.builderRuns = 0
	rw := httptest.NewRecorder()
	a.req = req
	a.sentURL, a.sentURI, a.sentHost, a.sentHeader = req.URL.String(), req.RequestURI, req.Host, req.Header.Clone()
	a.sentLength, a.sentBodyNil = req.ContentLength, req.Body == nil
	a.panicV, a.stack = mon.Catch(func() { b.h.ServeHTTP(rw, req) })
	res := rw.Result()
	a.status = res.StatusCode
	a.hdr = res.Header
	a.ctype, _, _ = mime.ParseMediaType(res.Header.Get("Content-Type"))
	a.body, _ = io.ReadAll(res.Body)
	return a, true
}

func clipB(b []byte) string {
	if len(b) > 200 {
		return strconv.QuoteToASCII(string(b[:200])) + "…"
	}
	return strconv.QuoteToASCII(string(b))
}

func rootless(s string) bool { return s != "" && !strings.HasPrefix(s, "/") }

// ---- page-level checks ----

func wantTitle(c *Case) string {
	if c.isAPI() {
		t := c.InfoTitle
		if c.SetTitle {
			t = c.Title
		}
		return orDefault(t, "API Documentation")
	}
	return orDefault(c.Title, "API Documentation")
}

func mwName(c *Case) string {
	if c.MW == "oauth2" {
		return "oauth2-callback"
	}
	return c.MW
}

func checkPage(m *mon.M, c *Case, page []byte, one *Case) {
	text := string(page)
	marks := markersOf(c)
	tk := "default-template"
	if c.Custom {
		tk = "custom-template"
	}
	around := func(i, j int) string {
		lo, hi := i-40, j+20
		if lo < 0 {
			lo = 0
		}
		if hi > len(text) {
			hi = len(text)
		}
		return strconv.QuoteToASCII(text[lo:hi])
	}
	for _, field := range markerFields {
		v, has := marks[field]
		if has && strings.ContainsAny(v, "<>") && strings.Contains(text, v) {
			i := strings.Index(text, v)
			m.Violate("unescaped-option-value/"+mwName(c), fmt.Sprintf("%s page (%s) carries the %s option verbatim: …%s…", c.MW, tk, field, around(i, i+len(v))), one)
			return
		}
	}
	// partial escaping: one of the value's own quotes or '<' stands raw before the payload
	for _, field := range markerFields {
		v, has := marks[field]
		if !has || !rePayload.MatchString(v) {
			continue
		}
		m.Class("marker-cores-searched/" + field)
		if i, j, start, found := rawCore(text, v); found {
			kind := "raw-quote"
			if start == '<' {
				kind = "raw-lt"
			}
			m.Violate("unescaped-option-value/"+mwName(c)+"/"+field+"-"+kind, fmt.Sprintf("%s page (%s): the %s option %q stands in the page with its %q unescaped before the payload: …%s…", c.MW, tk, field, v, string(start), around(i, j)), one)
			return
		}
	}
	if mt := reTitle.FindStringSubmatch(text); mt != nil {
		if got := html.UnescapeString(mt[1]); got != wantTitle(c) {
			m.Violate("page-lacks-option-value/"+mwName(c)+"/title", fmt.Sprintf("%s page title reads %q, configured %q", c.MW, got, wantTitle(c)), one)
		}
	} else {
		m.Violate("page-lacks-option-value/"+mwName(c)+"/title", fmt.Sprintf("%s page has no <title>: %s", c.MW, clipB(page)), one)
	}
	// stand-alone pages: the spec URL option is in the page, escaped for the place where it stands
	if !c.isAPI() {
		want := orDefault(c.SpecURL, "/swagger.json")
		refs, expected := standaloneSpecRefs(c, text)
		if len(refs) < expected {
			m.Violate("page-lacks-option-value/"+mwName(c)+"/spec-url", fmt.Sprintf("%s page (%s): %d of the %d places that carry the spec URL were found: %s", c.MW, tk, len(refs), expected, clipB(page)), one)
			return
		}
		for _, ref := range refs {
			m.Class("standalone-spec-url-compared/" + ref.where)
			if pctDecode(ref.value) != pctDecode(want) {
				m.Violate("page-lacks-option-value/"+mwName(c)+"/spec-url", fmt.Sprintf("%s page (%s): the spec URL in the %s reads %q, configured %q", c.MW, tk, ref.where, ref.value, want), one)
				return
			}
		}
	}
}

// specReference extracts the spec location the page tells the browser to load.
func specReference(c *Case, page []byte) (string, bool) {
	text := string(page)
	if c.Custom {
		if mt := reSpecAttrD.FindStringSubmatch(text); mt != nil {
			return html.UnescapeString(mt[1]), true
		}
		return "", false
	}
	switch c.MW {
	case "api-redoc":
		if mt := reSpecAttrS.FindStringSubmatch(text); mt != nil {
			return html.UnescapeString(mt[1]), true
		}
	case "api-rapidoc":
		if mt := reSpecAttrD.FindStringSubmatch(text); mt != nil {
			return html.UnescapeString(mt[1]), true
		}
	case "api-swaggerui":
		if mt := reSpecJS.FindStringSubmatch(text); mt != nil {
			return jsUnquote(mt[1]), true
		}
	}
	return "", false
}

// ---- running one case ----

func runCase(m *mon.M, c *Case) {
	if c.isAPI() {
		runAPICase(m, c)
		return
	}
	doc := docPath(c)
	shape := optShape(c)
	var b *built
	pv, st := mon.Catch(func() { b = buildStandalone(c) })
	if _, bad := badTemplates[c.BadTemplate]; bad && c.MW != "spec" {
		// documented: "UI middleware will panic if the template does not parse or execute properly"
		m.Eval(1)
		if pv != nil {
			m.Class("probe:custom-template-" + c.BadTemplate + "/construction-refused")
		} else {
			m.Class("probe:custom-template-" + c.BadTemplate + "/constructed")
		}
		return
	}
	if pv != nil || b == nil || b.h == nil {
		m.Eval(1)
		m.Violate("construction-panic/"+mwName(c), fmt.Sprintf("constructing %s panicked: %v\n%s", c.MW, pv, st), minimal(c, nil))
		return
	}
	probe := callbackProbe(c) // != "": what is answered at the document path is recorded, not judged
	feature := "rooted-options"
	if rootless(c.BasePath) {
		feature = "base-path-without-leading-slash"
	}
	requests := c.Requests
	var firstPage []byte // the page as first served (nil: the first GET did not yield one)
	// page-level check: fetch the document path itself
	{
		m.Eval(1)
		one := minimal(c, nil)
		a, _ := send(b, &Rq{Method: "GET", Target: (&url.URL{Path: doc}).EscapedPath()})
		m.NT(c.MW + "|" + shape + "|page")
		if a.panicV != nil {
			m.Violate("serve-panic/"+mwName(c), fmt.Sprintf("GET %s panicked: %v\n%s", doc, a.panicV, a.stack), one)
		} else if c.MW != "spec" && a.status == 200 && a.ctype == "text/html" && (b.next == nil || b.next.calls == 0) {
			checkPage(m, c, a.body, one)
			m.Class("page-checked/" + c.MW)
			firstPage = a.body // the recorder's own buffer: nothing writes to it any more
		}
		if probe != "" && a.panicV == nil {
			if firstPage != nil {
				m.Class("probe:oauth2-callback-url/" + probe + "/served-at-its-cleaned-path")
			} else {
				m.Class("probe:oauth2-callback-url/" + probe + "/never-served")
			}
		}
		if c.Concurrent && a.panicV == nil && a.status == 200 && (b.next == nil || b.next.calls == 0) {
			want := firstPage
			if c.MW == "spec" {
				want = b.spec
			}
			if want != nil && (c.MW != "spec" || bytes.Equal(a.body, want)) {
				m.Class("concurrent-gets/" + c.MW)
				m.NT(c.MW + "|" + shape + "|concurrent")
				if f := concurrentGets(m, b, (&url.URL{Path: doc}).EscapedPath(), want); f != nil {
					what := fmt.Sprintf("%d goroutines x %d GET %s on one %s handler: %s", concGoroutines, concRounds, doc, c.MW, f.detail)
					switch f.kind {
					case "panic":
						m.Violate("serve-panic/"+mwName(c)+"/concurrent-requests", what, one)
					case "not-served":
						m.Violate("document-path-not-served/"+feature+"/concurrent-requests", what, one)
					default:
						if c.MW == "spec" {
							m.Violate("document-wrong-bytes/spec/concurrent-requests", what, one)
						} else {
							m.Violate("document-differs-from-first-page/"+mwName(c)+"/concurrent-requests", what, one)
						}
					}
				}
			}
		}
		if a.panicV == nil && a.status == 200 {
			if vr := validatorsRq((&url.URL{Path: doc}).EscapedPath(), &a); vr != nil {
				m.Class("first-answer-carries-validators")
				requests = append(append([]Rq{}, requests...), *vr)
			}
		}
	}
	for i := range requests {
		rq := &requests[i]
		if rq.Cond != "" {
			m.Class("request:conditional/" + rq.Cond)
		}
		a, ok := send(b, rq)
		if !ok {
			m.Class("harness:request-not-constructible")
			continue
		}
		m.Eval(1)
		one := minimal(c, rq)
		reqPath := a.req.URL.Path
		rel := relationOf(reqPath, doc)
		m.NT(c.MW + "|" + shape + "|" + rel + "|" + methodClass(rq.Method) + "|" + fmt.Sprint(c.NextNil))
		what := fmt.Sprintf("%s %s (URL.Path %q) on %s with document path %q", rq.Method, rq.Target, reqPath, c.MW, doc)
		if a.panicV != nil {
			m.Violate("serve-panic/"+mwName(c), fmt.Sprintf("%s panicked: %v\n%s", what, a.panicV, a.stack), one)
			continue
		}
		nextCalls := 0
		if b.next != nil {
			nextCalls = b.next.calls
		}
		if path.Clean(reqPath) == doc && probe != "" {
			// a callback option that is no clean absolute path: recorded for triage, not judged
			if nextCalls == 0 && a.status == 200 && a.ctype == "text/html" {
				m.Class("probe:oauth2-callback-url/" + probe + "/request-answered-with-page")
			} else {
				m.Class("probe:oauth2-callback-url/" + probe + "/request-not-answered")
			}
			continue
		}
		if path.Clean(reqPath) == doc {
			m.Class(expectDocClass(rq.Method, rel))
			if nextCalls > 0 || a.status != 200 {
				m.Violate("document-path-not-served/"+feature+condSuffix(rq, &a)+readingSuffix(rq.Method), fmt.Sprintf("%s%s was not answered by the middleware with the document (status %d, next called %d times)", what, condText(rq), a.status, nextCalls), one)
				continue
			}
			// a HEAD answer may leave the body out: status and headers are judged all the same
			noBody := headWithoutBody(rq.Method, a.body)
			if noBody {
				m.Class("head-answer-without-body")
			}
			if c.MW == "spec" {
				if !noBody && !bytes.Equal(a.body, b.spec) {
					m.Violate("document-wrong-bytes/spec"+condSuffix(rq, &a), fmt.Sprintf("%s%s -> body %s (Content-Encoding %q), spec bytes %s", what, condText(rq), clipB(a.body), a.hdr.Get("Content-Encoding"), clipB(b.spec)), one)
				} else if a.ctype != "application/json" {
					m.Violate("document-wrong-content-type/spec", fmt.Sprintf("%s -> Content-Type %q", what, a.hdr.Get("Content-Type")), one)
				}
			} else {
				if a.ctype != "text/html" {
					m.Violate("document-wrong-content-type/"+mwName(c), fmt.Sprintf("%s -> Content-Type %q", what, a.hdr.Get("Content-Type")), one)
				} else if noBody {
					// nothing to compare
				} else if len(a.body) == 0 {
					m.Violate("document-empty/"+mwName(c), what+" -> empty page", one)
				} else if firstPage != nil {
					// "the HTML page": one page per configuration, whatever the request at the document path looks like
					m.Class("page-compared-with-first-answer/" + rel)
					if !bytes.Equal(a.body, firstPage) {
						m.Violate("document-differs-from-first-page/"+mwName(c)+condSuffix(rq, &a), fmt.Sprintf("%s%s -> a page of %d bytes that differs (at offset %d) from the page of %d bytes the first GET of %s got: %s", what, condText(rq), len(a.body), firstDiff(a.body, firstPage), len(firstPage), doc, clipB(a.body)), one)
					}
				}
			}
			continue
		}
		// everything else belongs to next
		m.Class("expect:pass-through/" + rel)
		if b.next == nil {
			if a.status != http.StatusNotFound {
				m.Violate("foreign-path-not-404-without-next/"+rel, fmt.Sprintf("%s -> %d %s although there is no next handler", what, a.status, clipB(a.body)), one)
				continue
			}
			checkReflection(m, c, what, reqPath, &a, one)
			continue
		}
		n := b.next
		switch {
		case n.calls == 0:
			m.Violate("foreign-path-intercepted/"+rel, fmt.Sprintf("%s was answered by the middleware (%d %s %s) instead of reaching next", what, a.status, a.ctype, clipB(a.body)), one)
		case n.calls > 1:
			m.Violate("next-called-twice", fmt.Sprintf("%s reached next %d times", what, n.calls), one)
		default:
			var diffs []string
			if n.method != rq.Method {
				diffs = append(diffs, fmt.Sprintf("method %q", n.method))
			}
			if want := a.sentURL; n.url != want {
				diffs = append(diffs, fmt.Sprintf("url %q (sent %q)", n.url, want))
			}
			if n.reqURI != a.sentURI || n.host != a.sentHost {
				diffs = append(diffs, fmt.Sprintf("requestURI/host %q %q", n.reqURI, n.host))
			}
			if fmt.Sprint(n.header) != fmt.Sprint(a.sentHeader) {
				diffs = append(diffs, fmt.Sprintf("header %v (sent %v)", n.header, a.sentHeader))
			}
			bodyOnly := false
			if n.body != rq.Body {
				bodyOnly = len(diffs) == 0
				diffs = append(diffs, fmt.Sprintf("body %q (sent %q)", n.body, rq.Body))
			}
			if len(diffs) > 0 {
				sig := "next-request-modified"
				switch {
				case bodyOnly && rq.Form:
					sig += "/form-body-consumed"
				case bodyOnly && rq.Multipart:
					sig += "/multipart-body-consumed"
				}
				m.Violate(sig, fmt.Sprintf("%s: next saw %s", what, strings.Join(diffs, "; ")), one)
				break
			}
			// the request was not parsed or measured on the way: no form populated, same length, body present as sent
			if !n.formNil || !n.postFormNil || !n.multipartNil {
				m.Violate("next-request-modified/form-parsed", fmt.Sprintf("%s: the request was sent unparsed, next saw Form==nil:%v PostForm==nil:%v MultipartForm==nil:%v", what, n.formNil, n.postFormNil, n.multipartNil), one)
				break
			}
			if n.contentLength != a.sentLength || n.bodyNil != a.sentBodyNil {
				m.Violate("next-request-modified/content-length", fmt.Sprintf("%s: next saw ContentLength %d (Body==nil: %v), sent %d (Body==nil: %v)", what, n.contentLength, n.bodyNil, a.sentLength, a.sentBodyNil), one)
				break
			}
			if rq.Form {
				m.Class("next:form-post-passed")
			}
			if rq.Multipart {
				m.Class("next:multipart-post-passed")
			}
			if a.status != 299 || a.hdr.Get("X-Next") != "yes" || string(a.body) != "answered by next" {
				m.Violate("next-answer-altered", fmt.Sprintf("%s: next answered 299 but the client saw %d %s", what, a.status, clipB(a.body)), one)
				break
			}
			// next starts from an empty response header set, and the client gets exactly the header set next wrote
			if len(n.entryHeader) > 0 {
				m.Violate("next-answer-altered/header-preset", fmt.Sprintf("%s: next found the response header already holding %v", what, n.entryHeader), one)
				break
			}
			if d := headerDiff(a.hdr, nextWrote); len(d) > 0 {
				m.Violate("next-answer-altered/header-set", fmt.Sprintf("%s: next wrote the header set %v, the client saw %v (%s)", what, nextWrote, a.hdr, strings.Join(d, "; ")), one)
				break
			}
			if n.same {
				m.Class("next:same-request-value")
			} else {
				m.Class("next:copied-request")
			}
		}
	}
	if m.WantSample() {
		s := *c
		if len(s.Requests) > 3 {
			s.Requests = s.Requests[:3]
		}
		m.Sample(map[string]interface{}{"case": s, "document_path": doc})
	}
}

func condText(rq *Rq) string {
	if len(rq.Headers) == 0 {
		return ""
	}
	return fmt.Sprintf(" with request headers %v", rq.Headers)
}

func firstDiff(a, b []byte) int {
	i := 0
	for i < len(a) && i < len(b) && a[i] == b[i] {
		i++
	}
	return i
}

func minimal(c *Case, rq *Rq) *Case {
	one := *c
	one.Requests = nil
	if rq != nil {
		one.Requests = []Rq{*rq}
	}
	return &one
}

func inList(l []string, v string) bool {
	for _, x := range l {
		if x == v {
			return true
		}
	}
	return false
}

var reParamValue = regexp.MustCompile(`^[A-Za-z0-9._~-]+$`)

// tmplMatch reports whether the path literally instantiates the template: same segments, a {parameter}
// standing for one plain non-empty segment.
func tmplMatch(tmpl, p string) bool {
	ts, ps := strings.Split(tmpl, "/"), strings.Split(p, "/")
	if len(ts) != len(ps) {
		return false
	}
	for i := range ts {
		if strings.HasPrefix(ts[i], "{") && strings.HasSuffix(ts[i], "}") {
			if !reParamValue.MatchString(ps[i]) || ps[i] == "." || ps[i] == ".." {
				return false
			}
			continue
		}
		if ts[i] != ps[i] {
			return false
		}
	}
	return true
}

func apiFull(c *Case, tmpl string) string {
	return strings.TrimSuffix(c.APIBase, "/") + tmpl
}

func runAPICase(m *mon.M, c *Case) {
	shape := optShape(c)
	var b *built
	var berr error
	if pv, st := mon.Catch(func() { b, berr = buildAPI(c) }); pv != nil {
		m.Eval(1)
		m.Violate("construction-panic/"+c.MW, fmt.Sprintf("constructing %s panicked: %v\n%s", c.MW, pv, st), minimal(c, nil))
		return
	}
	if berr != nil || b == nil || b.h == nil {
		m.Class("harness:description-not-loadable")
		return
	}
	ui := apiUIPath(c)
	pageURL := &url.URL{Scheme: "http", Host: "example.test", Path: ui}
	one := minimal(c, nil)
	m.Eval(1)
	m.NT(c.MW + "|" + shape + "|page")
	a, _ := send(b, &Rq{Method: "GET", Target: pageURL.EscapedPath()})
	if a.panicV != nil {
		m.Violate("serve-panic/"+c.MW, fmt.Sprintf("GET %s panicked: %v\n%s", ui, a.panicV, a.stack), one)
		return
	}
	if a.status != 200 || a.ctype != "text/html" || len(*b.handled) > 0 {
		m.Violate("document-path-not-served/api-handler-ui", fmt.Sprintf("GET %s on %s -> %d %q %s; the UI page was expected there", ui, c.MW, a.status, a.hdr.Get("Content-Type"), clipB(a.body)), one)
		return
	}
	checkPage(m, c, a.body, one)
	m.Class("page-checked/" + c.MW)

	// the spec location the page references
	specDoc := "" // cleaned path at which the spec is expected; "" = not determined
	var specValidators *Rq
	sshape := specURLShape(c.SetSpecURLValue())
	judged := !strings.Contains(sshape, "relative") || strings.Contains(sshape, "scheme-relative")
	if strings.Contains(sshape, "unparsable") {
		judged = false
	}
	if judged {
		m.Eval(1)
		ref, ok := specReference(c, a.body)
		if !ok {
			m.Violate("page-without-spec-reference/"+c.MW, fmt.Sprintf("no spec reference found in the %s page: %s", c.MW, clipB(a.body)), one)
		} else if ru, err := url.Parse(ref); err != nil {
			m.Violate("page-without-spec-reference/"+c.MW, fmt.Sprintf("spec reference %q of the %s page does not parse: %v", ref, c.MW, err), one)
		} else {
			abs := pageURL.ResolveReference(ru)
			target := abs.EscapedPath()
			if target == "" {
				target = "/"
			}
			if abs.RawQuery != "" {
				target += "?" + abs.RawQuery
			}
			sa, sent := send(b, &Rq{Method: "GET", Target: target})
			m.NT(c.MW + "|" + shape + "|follow-spec-reference")
			cls := "with-document-name"
			if strings.Contains(sshape, "without-document-name") {
				cls = "spec-url-without-document-name"
			}
			switch {
			case !sent:
				m.Class("harness:request-not-constructible")
			case sa.panicV != nil:
				m.Violate("serve-panic/"+c.MW, fmt.Sprintf("GET %s panicked: %v", target, sa.panicV), one)
			case sa.status != 200 || !bytes.Equal(sa.body, b.spec) || sa.ctype != "application/json":
				m.Violate("page-references-unserved-spec-location/"+cls, fmt.Sprintf("the %s page (at %s) references the spec at %q = %s, but GET %s on the same handler -> %d %q %s (configured spec URL %q)",
					c.MW, ui, ref, abs.String(), target, sa.status, sa.hdr.Get("Content-Type"), clipB(sa.body), c.SetSpecURLValue()), one)
			default:
				m.Class("spec-reference-followed/" + sshape)
				// the spec is served at the location the page references, whether the option named a document or not
				specDoc = path.Clean(abs.Path)
				specValidators = validatorsRq(target, &sa)
			}
		}
	} else {
		m.Class("spec-reference-not-judged/" + sshape)
	}

	if c.Concurrent {
		m.Class("concurrent-gets/" + c.MW)
		m.NT(c.MW + "|" + shape + "|concurrent")
		f := concurrentGets(m, b, pageURL.EscapedPath(), a.body)
		where := ui
		if f == nil && specDoc != "" {
			where = specDoc
			f = concurrentGets(m, b, escTarget(specDoc), b.spec)
		}
		if f != nil {
			what := fmt.Sprintf("%d goroutines x %d GET %s on one %s handler: %s", concGoroutines, concRounds, where, c.MW, f.detail)
			doc := "api-handler-ui"
			if where != ui {
				doc = "api-handler-spec"
			}
			switch f.kind {
			case "panic":
				m.Violate("serve-panic/"+c.MW+"/concurrent-requests", what, one)
			case "not-served":
				m.Violate("document-path-not-served/"+doc+"/concurrent-requests", what, one)
			default:
				m.Violate("document-differs-from-first-answer/"+doc+"/concurrent-requests", what, one)
			}
		}
	}

	requests := c.Requests
	if vr := validatorsRq(pageURL.EscapedPath(), &a); vr != nil {
		m.Class("first-answer-carries-validators")
		requests = append(append([]Rq{}, requests...), *vr)
	}
	if specValidators != nil {
		m.Class("first-answer-carries-validators")
		requests = append(append([]Rq{}, requests...), *specValidators)
	}
	for i := range requests {
		rq := &requests[i]
		if rq.Cond != "" {
			m.Class("request:conditional/" + rq.Cond)
		}
		ra, ok := send(b, rq)
		if !ok {
			m.Class("harness:request-not-constructible")
			continue
		}
		m.Eval(1)
		one := minimal(c, rq)
		reqPath := ra.req.URL.Path
		cl := path.Clean(reqPath)
		rel := "ui:" + relationOf(reqPath, ui)
		if specDoc != "" && (cl == specDoc || strings.HasPrefix(cl, specDoc) || strings.HasPrefix(specDoc, cl) && cl != "/") {
			rel = "spec:" + relationOf(reqPath, specDoc)
		}
		m.NT(c.MW + "|" + shape + "|" + rel + "|" + methodClass(rq.Method))
		what := fmt.Sprintf("%s %s (URL.Path %q) on %s with UI at %q and spec at %q", rq.Method, rq.Target, reqPath, c.MW, ui, specDoc)
		if ra.panicV != nil {
			m.Violate("serve-panic/"+c.MW, fmt.Sprintf("%s panicked: %v\n%s", what, ra.panicV, ra.stack), one)
			continue
		}
		// a HEAD answer may leave the body out: it is then recognised by status and media type, given that no
		// operation handler ran (the operations answer application/json from a handler that is recorded)
		noBody := headWithoutBody(rq.Method, ra.body) && ra.status == 200 && len(*b.handled) == 0
		isPage := ra.status == 200 && ra.ctype == "text/html" && (bytes.Equal(ra.body, a.body) || noBody)
		isSpec := ra.status == 200 && (bytes.Equal(ra.body, b.spec) || noBody && ra.ctype == "application/json")
		if noBody && (isPage || isSpec) {
			m.Class("head-answer-without-body")
		}
		if b.builderRuns > 0 {
			m.Class("builder-decorator-ran")
		}
		switch {
		case cl == ui:
			m.Class(expectDocClass(rq.Method, rel))
			if !isPage {
				m.Violate("document-path-not-served/api-handler-ui"+condSuffix(rq, &ra)+readingSuffix(rq.Method), fmt.Sprintf("%s%s -> %d %q %s instead of the UI page", what, condText(rq), ra.status, ra.ctype, clipB(ra.body)), one)
			}
		case specDoc != "" && cl == specDoc:
			m.Class(expectDocClass(rq.Method, rel))
			if !isSpec || ra.ctype != "application/json" {
				m.Violate("document-path-not-served/api-handler-spec"+condSuffix(rq, &ra)+readingSuffix(rq.Method), fmt.Sprintf("%s%s -> %d %q %s instead of the spec document", what, condText(rq), ra.status, ra.ctype, clipB(ra.body)), one)
			}
		default:
			if specDoc == "" {
				// where the spec is served was not established: only the UI side is judged
				if isPage {
					m.Violate("foreign-path-intercepted/"+rel, fmt.Sprintf("%s was answered with the UI page", what), one)
					continue
				}
			} else if isPage || isSpec {
				m.Violate("foreign-path-intercepted/"+rel, fmt.Sprintf("%s was answered with a document (%d %q) instead of reaching the API router", what, ra.status, ra.ctype), one)
				continue
			}
			// an API operation on this path must have been reached
			var wantOp string
			for _, t := range c.Templates {
				// literally the operation's path: how the router treats escaped or unclean
				// spellings of it belongs to C01
				if apiFull(c, t) == reqPath && ra.req.URL.EscapedPath() == reqPath && rq.Method == "GET" {
					wantOp = t
				}
			}
			// operations with other methods or path parameters: every declared operation whose template the
			// literal request path instantiates (which one wins among several is the router's business: C05)
			var wantOps []string
			if ra.req.URL.EscapedPath() == reqPath && rq.Body == "" {
				// (a request with a body is the router's to refuse for its media type: C06)
				for _, op := range c.Ops {
					if rq.Method == op.Method && tmplMatch(apiFull(c, op.Template), reqPath) {
						wantOps = append(wantOps, op.key())
					}
				}
			}
			if wantOp != "" && !(specDoc == "" && isSpec) {
				m.Class("expect:operation/" + rel)
				reached := len(*b.handled) == 1 && ((*b.handled)[0] == wantOp || inList(wantOps, (*b.handled)[0]))
				if !reached || ra.status != 200 {
					m.Violate("api-operation-shadowed/"+rel, fmt.Sprintf("%s: operation GET %s was not reached (handlers run: %v, status %d %s)", what, wantOp, *b.handled, ra.status, clipB(ra.body)), one)
				}
			} else if len(wantOps) > 0 && !(specDoc == "" && isSpec) {
				kind := "parameterised"
				if rq.Method != "GET" {
					kind = "non-get"
				}
				m.Class("expect:operation/" + kind + "/" + rel)
				reached := len(*b.handled) == 1 && inList(wantOps, (*b.handled)[0])
				if !reached || ra.status != 200 {
					m.Violate("api-operation-shadowed/"+kind+"/"+rel, fmt.Sprintf("%s: none of the operations %v was reached (handlers run: %v, status %d %s)", what, wantOps, *b.handled, ra.status, clipB(ra.body)), one)
				}
			} else {
				m.Class("expect:router/" + rel)
			}
		}
	}
	if m.WantSample() {
		s := *c
		if len(s.Requests) > 3 {
			s.Requests = s.Requests[:3]
		}
		m.Sample(map[string]interface{}{"case": s, "ui_path": ui, "spec_path": specDoc})
	}
}

// SetSpecURLValue is the spec URL option when it is passed, "" otherwise.
func (c *Case) SetSpecURLValue() string {
	if c.SetSpecURL {
		return c.SpecURL
	}
	return ""
}

// ---- generation ----

var basePool = []string{"", "/", "/api", "/api/", "/a/b", "//api", "/api//v1", "/a b", "/api/../x", "/Docs", "api", "api/", "a/b", "v1/"}
var apiBasePool = []string{"", "/", "/api", "/a/b", "/api/", "/v1.0"}
var uiPathPool = []string{"", "docs", "/docs", "docs/", "ui/index.html", "d o", "../up", "swagger-ui", "/", "Docs", "docs.html"}
var specPathPool = []string{"", "", "specs", "/specs/", "v1/specs", "../s"}
var docPool = []string{"", "", "swagger.json", "spec.json", "api.yaml", "dir/openapi.json", "/lead.json", "swagger.json/"}
var callbackPool = []string{"", "", "", "/oauth2/callback", "/docs/cb"}

var markerPool = []string{
	`<script>alert(%d)</script>`,
	`</title><script>alert(%d)</script>`,
	`"><img src=x onerror=alert(%d)>`,
	`'><svg/onload=alert(%d)>`,
	`</script><script>alert(%d)</script>`,
	`x' onmouseover='alert(%d)' <b>`,
}

var titlePool = []string{"", "My API", "Pets & Friends", "A \"quoted\" title", "it's", "R&amp;D &lt;b&gt;", "a&#39;b &quot;c&quot;"}
var assetPool = []string{"", "https://cdn.example/lib.js", "/assets/lib.js?v=1&w=2"}
var specURLStandalone = []string{"", "/swagger.json", "/api/spec.json", "https://example.test/a/spec.json", "spec.json", "/a b/s.json?x=1&y=2",
	"/R&amp;D/s.json?a=1&amp;b=2", "/s.json?t=a&#39;b&lt;"}

var specURLAPI = []string{
	"/swagger.json", "/spec.json", "/api/v1/spec.json", "/a/b/c.yaml", "/dir.d/s.json", "/docs/swagger.json", "/a b/s.json", "/a%20b/s.json",
	"/s.json?version=1&x=y", "/s.json#top", "https://example.test/x/s.json", "http://other.example:8080/s.json", "//cdn.example/y/s.json",
	"/x/../s.json", "/x//s.json", "/x/./s.json", "https://example.test/deep/er/path/openapi.json?a=b", "/sp%65c.json", "/api/swagger.json", "/a%2Fb/s.json",
	// entity-like text: the page must carry it escaped once more, or the browser asks for another location
	"/R&amp;D/s.json", "/a&#47;b/s&lt;.json?x=1&amp;y=2",
	// without document name
	"/specs/", "/", "https://example.test", "https://example.test/specs/",
	// relative (not judged)
	"spec.json", "specs/api.json",
}

var methodPool = []string{"GET", "GET", "GET", "HEAD", "POST", "PUT", "DELETE", "OPTIONS", "PATCH", "FOO", "CONNECT"}

func pick(r *rand.Rand, l []string) string { return l[r.Intn(len(l))] }

func marker(r *rand.Rand) string { return fmt.Sprintf(pick(r, markerPool), 1000+r.Intn(9000)) }

func maybeMarker(r *rand.Rand, pool []string, pct int) string {
	if r.Intn(100) < pct {
		if r.Intn(3) == 0 {
			return pick(r, pool) + marker(r)
		}
		return marker(r)
	}
	return pick(r, pool)
}

func escTarget(p string) string { return (&url.URL{Path: p}).EscapedPath() }

func pctEncodeOne(r *rand.Rand, esc string) string {
	// percent-encode one letter of an already escaped path
	idx := []int{}
	for i := 0; i < len(esc); i++ {
		c := esc[i]
		if (c >= 'a' && c <= 'z') || (c >= 'A' && c <= 'Z') {
			if i >= 1 && esc[i-1] == '%' || i >= 2 && esc[i-2] == '%' {
				continue
			}
			idx = append(idx, i)
		}
	}
	if len(idx) == 0 {
		return esc
	}
	i := idx[r.Intn(len(idx))]
	return esc[:i] + fmt.Sprintf("%%%02X", esc[i]) + esc[i+1:]
}

// genTargets derives request targets from a document path.
func genTargets(r *rand.Rand, doc string, n int) []Rq {
	segs := strings.Split(strings.TrimPrefix(doc, "/"), "/")
	var out []Rq
	add := func(rel, target string) {
		rq := Rq{Method: pick(r, methodPool), Target: target, Rel: rel}
		if r.Intn(3) == 0 {
			rq.Header = true
		}
		if rq.Method == "POST" || rq.Method == "PUT" || rq.Method == "PATCH" {
			switch r.Intn(5) {
			case 0, 1:
				rq.Body = `{"payload":"` + strconv.Itoa(r.Intn(1000)) + `"}`
			case 2: // a body that parsing the request as a form would consume
				rq.Body = "payload=" + strconv.Itoa(r.Intn(1000)) + "&format=json&a=b+c%21&download=1"
				rq.Form = true
			case 3: // a multipart upload: reading a form value would consume it and park it in MultipartForm
				rq.Body = multipartBody(r.Intn(1000))
				rq.Multipart = true
			}
		}
		if r.Intn(6) == 0 {
			rq.Target += "?q=" + strconv.Itoa(r.Intn(100))
		}
		if r.Intn(4) == 0 {
			rq.Cond = pick(r, condKinds)
			rq.Headers = condHeaders[rq.Cond]
		}
		out = append(out, rq)
	}
	for len(out) < n {
		switch r.Intn(17) {
		case 0, 1:
			add("exact", escTarget(doc))
		case 2:
			add("trailing-slash", escTarget(doc+"/"))
		case 3: // dot segments that clean to the document path
			i := r.Intn(len(segs) + 1)
			ins := pick(r, []string{".", "zz/..", "", "./."})
			l := append(append(append([]string{}, segs[:i]...), ins), segs[i:]...)
			add("dots-equal", escTarget("/"+strings.Join(l, "/")))
		case 4:
			add("dots-equal", escTarget("/.."+doc))
		case 5: // dot segments that lead elsewhere
			add("dots-different", escTarget(doc+"/.."))
		case 6:
			add("dots-different", escTarget(doc+"/../"+segs[len(segs)-1]+"x"))
		case 7: // prefixes
			if len(doc) > 1 {
				add("prefix", escTarget(doc[:1+r.Intn(len(doc)-1)]))
			} else {
				add("prefix", "/")
			}
		case 8:
			add("prefix", escTarget(path.Dir(doc)))
		case 9: // extensions
			add("extension", escTarget(doc+pick(r, []string{"x", ".json", "/sub", "/index.html", "%", "/swagger.json", "-2"})))
		case 10:
			add("letter-case", escTarget(strings.ToUpper(doc)))
		case 11:
			add("escaped-letter", pctEncodeOne(r, escTarget(doc)))
		case 12:
			if len(segs) > 1 {
				add("escaped-slash", "/"+strings.Join(segs[:len(segs)-1], "/")+"%2F"+url.PathEscape(segs[len(segs)-1]))
			} else {
				add("escaped-letter", pctEncodeOne(r, escTarget(doc)))
			}
		case 13:
			add("doubled-slash", escTarget("/"+doc))
		case 14:
			add("unrelated", pick(r, []string{"/", "/other", "/favicon.ico", "/docs", "/swagger.json", "/api", "/api/docs", "/docs/oauth2-callback"}))
		case 15:
			add("suffix-only", escTarget("/"+segs[len(segs)-1]))
		case 16: // markup in the request path, beside or below the document path (never equal to it after cleaning)
			add("markup-in-path", escTarget(pick(r, []string{"/", doc + "/", strings.TrimSuffix(path.Dir(doc), "/") + "/", doc + "-"})+marker(r)))
		}
	}
	return out
}

func genStandalone(r *rand.Rand) *Case {
	c := &Case{MW: pick(r, []string{"spec", "redoc", "rapidoc", "swaggerui", "oauth2"})}
	c.BasePath = pick(r, basePool)
	if r.Intn(3) == 0 {
		c.BasePath = pick(r, basePool[:5])
	}
	c.NextNil = r.Intn(4) == 0
	if c.MW == "spec" {
		c.SpecPath = pick(r, specPathPool)
		c.Doc = pick(r, docPool)
		switch r.Intn(4) {
		case 0:
			c.SpecBytes = mon.Q(`{"swagger":"2.0","info":{"title":"<script>alert(1)</script>","version":"1"},"paths":{}}`)
		case 1:
			b := make([]byte, r.Intn(64))
			r.Read(b)
			c.SpecBytes = mon.Q(b)
		case 2:
			c.SpecBytes = mon.Q("{\n  \"swagger\": \"2.0\",\r\n\t\"x\": \"é\\u00e9 \xff\x00\"\n}\n\n")
		default:
			c.SpecBytes = mon.Q(`{"swagger":"2.0"}`)
		}
		if r.Intn(60) == 0 {
			// larger than any buffer a copy could go through (32 KiB, 64 KiB)
			c.SpecBytes = mon.Q(bigDocument(r, 70*1024+r.Intn(3)))
		}
	} else {
		c.Path = pick(r, uiPathPool)
		c.Title = maybeMarker(r, titlePool, 40)
		if r.Intn(150) == 0 {
			c.Title = strings.Repeat("A long title & more. ", 3400) // a page of more than 70 KiB
		}
		c.SpecURL = maybeMarker(r, specURLStandalone, 25)
		c.AssetURL = maybeMarker(r, assetPool, 20)
		c.Custom = r.Intn(5) == 0
		if c.MW == "swaggerui" || c.MW == "oauth2" {
			c.CallbackURL = pick(r, callbackPool)
		}
		if c.MW == "oauth2" && r.Intn(30) == 0 {
			// a redirect URL as users write it: absolute URL, trailing slash, rootless (a probe, see callbackProbe)
			c.CallbackURL = pick(r, callbackProbePool)
		}
		if r.Intn(150) == 0 {
			c.BadTemplate = pick(r, []string{"unparsable", "unexecutable"})
		}
		if c.MW == "swaggerui" {
			// rendered into the page only (a JS string and two attributes): these may carry markup
			if r.Intn(4) == 0 {
				c.CallbackURL = maybeMarker(r, callbackPool[3:], 80)
			}
			if r.Intn(3) == 0 {
				c.PresetURL = maybeMarker(r, assetPool, 50)
			}
			if r.Intn(3) == 0 {
				c.Favicon16 = maybeMarker(r, assetPool, 50)
			}
		}
	}
	c.Concurrent = r.Intn(50) == 0
	c.Requests = genTargets(r, docPath(c), 12)
	return c
}

// bigDocument is an n-byte document whose every 4 KiB block differs from the others.
func bigDocument(r *rand.Rand, n int) []byte {
	var sb bytes.Buffer
	sb.WriteString(`{"swagger":"2.0","x":"`)
	for i := 0; sb.Len() < n-2; i++ {
		fmt.Fprintf(&sb, "%06d-%04x ", i, r.Intn(65536))
	}
	b := sb.Bytes()[:n-2]
	return append(b, '"', '}')
}

func genAPI(r *rand.Rand) *Case {
	c := &Case{MW: pick(r, []string{"api-redoc", "api-swaggerui", "api-rapidoc"})}
	if r.Intn(20) == 0 {
		c.Pad = 70 * 1024
	}
	c.APIBase = pick(r, apiBasePool)
	c.InfoTitle = maybeMarker(r, titlePool[1:], 30)
	if r.Intn(3) == 0 {
		c.SetBasePath = true
		c.BasePath = pick(r, []string{"", "/", "/ui", "ui", "/api", "/a/b/", "api"})
	}
	if r.Intn(2) == 0 {
		c.SetPath = true
		c.Path = pick(r, uiPathPool)
	}
	if r.Intn(4) != 0 {
		c.SetSpecURL = true
		c.SpecURL = pick(r, specURLAPI)
		if r.Intn(12) == 0 {
			c.SpecURL = ""
		}
	}
	if r.Intn(3) == 0 {
		c.SetTitle = true
		c.Title = maybeMarker(r, titlePool, 50)
	}
	c.Custom = r.Intn(6) == 0
	c.Builder = r.Intn(4) == 0
	if c.MW == "api-redoc" && r.Intn(4) == 0 {
		// the two package-level ways to the same handler: no UI options can be given
		c.Via = pick(r, []string{"serve", "serve-with-builder"})
		c.SetBasePath, c.SetPath, c.SetSpecURL, c.SetTitle, c.Custom, c.Builder = false, false, false, false, false, false
		c.BasePath, c.Path, c.SpecURL, c.Title = "", "", "", ""
	}
	c.Concurrent = r.Intn(25) == 0

	ui := apiUIPath(c)
	specDoc := "/swagger.json"
	if c.SetSpecURL && c.SpecURL != "" {
		if u, err := url.Parse(c.SpecURL); err == nil && u.Path != "" {
			specDoc = path.Clean("/" + u.Path)
			if strings.HasSuffix(u.Path, "/") {
				// no document named: requests are aimed around the default name in that directory
				specDoc = path.Join("/", u.Path, "swagger.json")
			}
		}
	}
	// operations: unrelated ones, and ones placed next to the document paths
	tset := map[string]bool{"/items": true}
	bp := strings.TrimSuffix(c.APIBase, "/")
	under := func(full string) {
		if full == "" || strings.ContainsAny(full, " %{}?#&;") || strings.HasSuffix(full, "/") || strings.Contains(full, "//") || strings.Contains(full, "/.") {
			return
		}
		if bp != "" && !strings.HasPrefix(full, bp+"/") {
			return
		}
		t := strings.TrimPrefix(full, bp)
		if t != "" && t != "/" {
			tset[t] = true
		}
	}
	for _, d := range []string{ui, specDoc} {
		if r.Intn(2) == 0 {
			under(d + "/sub")
		}
		if r.Intn(2) == 0 {
			under(d + "x")
		}
		if r.Intn(3) == 0 {
			under(path.Dir(d))
		}
		if r.Intn(4) == 0 {
			under(d) // the document path itself: shadowing it is allowed
		}
		if r.Intn(3) == 0 {
			under(strings.ToUpper(d))
		}
	}
	if r.Intn(2) == 0 {
		tset["/docs"] = true
	}
	if r.Intn(3) == 0 {
		tset["/swagger.json"] = true
	}
	if r.Intn(3) == 0 {
		tset["/docs/swagger.json"] = true
	}
	// structurally distinct static templates only
	for t := range tset {
		c.Templates = append(c.Templates, t)
	}
	sortStrings(c.Templates)

	// operations with other methods and with a path parameter, next to the document paths
	opset := map[string]bool{}
	underOp := func(method, full string) {
		if full == "" || strings.ContainsAny(full, " %?#&;") || strings.HasSuffix(full, "/") || strings.Contains(full, "//") || strings.Contains(full, "/.") {
			return
		}
		if bp != "" && !strings.HasPrefix(full, bp+"/") {
			return
		}
		t := strings.TrimPrefix(full, bp)
		if t == "" || t == "/" || (method == "GET" && tset[t]) || opset[method+" "+t] {
			return
		}
		opset[method+" "+t] = true
		c.Ops = append(c.Ops, Op{Method: method, Template: t})
	}
	otherMethod := func() string { return pick(r, []string{"POST", "POST", "PUT", "DELETE", "PATCH"}) }
	for _, d := range []string{ui, specDoc} {
		if r.Intn(3) == 0 {
			underOp(otherMethod(), d+"x")
		}
		if r.Intn(3) == 0 {
			underOp(otherMethod(), d+"/sub")
		}
		if r.Intn(3) == 0 {
			underOp(pick(r, []string{"GET", "GET", "POST", "DELETE"}), d+"/{id}")
		}
		if r.Intn(3) == 0 {
			underOp(pick(r, []string{"GET", "GET", "POST", "PUT"}), strings.TrimSuffix(path.Dir(d), "/")+"/{id}")
		}
		if r.Intn(6) == 0 {
			underOp(otherMethod(), d) // another method on the document path itself: shadowing it is allowed
		}
	}
	if r.Intn(4) == 0 {
		underOp("POST", bp+"/items")
	}

	// requests: around the UI path, around the spec path, and every operation
	c.Requests = append(c.Requests, genTargets(r, ui, 6)...)
	c.Requests = append(c.Requests, genTargets(r, specDoc, 6)...)
	for _, t := range c.Templates {
		c.Requests = append(c.Requests, Rq{Method: "GET", Target: escTarget(apiFull(c, t)), Rel: "operation"})
	}
	for _, op := range c.Ops {
		for _, v := range []string{"p42q", "v1.json"} {
			full := reTmplParam.ReplaceAllString(apiFull(c, op.Template), v)
			c.Requests = append(c.Requests, Rq{Method: op.Method, Target: escTarget(full), Rel: "operation"})
			if !strings.Contains(op.Template, "{") {
				break
			}
		}
	}
	return c
}

func sortStrings(l []string) {
	for i := 1; i < len(l); i++ {
		for j := i; j > 0 && l[j] < l[j-1]; j-- {
			l[j], l[j-1] = l[j-1], l[j]
		}
	}
}

// Batch names a slice of the seeded stand-alone stream; it is the crash marker written before a
// batch of (function-level, individually recovered) cases and can be replayed like a case.
type Batch struct {
	Seed  int64 `json:"seed"`
	Shard int   `json:"shard"`
	From  int   `json:"from"`
	Count int   `json:"count"`
}

type batchCase struct {
	Batch *Batch `json:"standalone_batch,omitempty"`
}

// streamRand reproduces mon.M.Rand for a given (seed, shard, stream).
func streamRand(seed int64, shard int, name string) *rand.Rand {
	h := fnv.New64a()
	fmt.Fprintf(h, "%s|%d|%d|%s", "C20", seed, shard, name)
	return rand.New(rand.NewSource(int64(h.Sum64() & 0x7fffffffffffffff)))
}

func runBatch(m *mon.M, b *Batch) {
	r := streamRand(b.Seed, b.Shard, "standalone")
	for i := 0; i < b.From+b.Count; i++ {
		c := genStandalone(r)
		if i >= b.From {
			runCase(m, c)
		}
	}
}

const batchSize = 100

func run(m *mon.M) {
	r := m.Rand("standalone")
	n := m.N(8000, 80000)
	for i := 0; i < n; i++ {
		if i%batchSize == 0 {
			m.Begin(&batchCase{Batch: &Batch{Seed: m.Seed, Shard: m.Shard, From: i, Count: batchSize}})
		}
		runCase(m, genStandalone(r))
	}
	ra := m.Rand("api")
	na := m.N(400, 6000)
	for i := 0; i < na; i++ {
		c := genAPI(ra)
		m.Begin(c)
		runCase(m, c)
	}
}

func replay(m *mon.M, raw json.RawMessage) {
	var bc batchCase
	if err := json.Unmarshal(raw, &bc); err == nil && bc.Batch != nil {
		runBatch(m, bc.Batch)
		return
	}
	var c Case
	if err := json.Unmarshal(raw, &c); err != nil {
		m.Violate("bad-replay-case", err.Error(), nil)
		return
	}
	runCase(m, &c)
}
