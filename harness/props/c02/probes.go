package c02

import (
	"errors"
	"fmt"
	"math/rand"
	"net/http"
	"sort"
	"strconv"
	"strings"

	oerrors "github.com/go-openapi/errors"
	"github.com/go-openapi/runtime/middleware"

	"verif/gen"
	"verif/mon"
)

// undeclaredNames: scheme names a requirement may list although the document has no security definition of
// that name (a misspelt name, a definition that was removed or renamed). Nothing can find credentials for
// such a scheme, so an alternative that lists one is never satisfied.
var undeclaredNames = []string{"U1", "U2"}

var allNames = append(append([]string(nil), schemes...), undeclaredNames...)

// anyStatus: the status of a rejection whose error carries none.
const anyStatus = -1

const scribbled = "scribbled-by-an-earlier-request"

// declared: the scheme is a security definition of the document.
func declared(c *Case, scheme string) bool {
	_, ok := c.Desc.SecDefs[scheme]
	return ok
}

// usable: the schemes that can be satisfied at all: declared by the document, with a registered authenticator.
func usable(c *Case) map[string]bool {
	u := map[string]bool{}
	for _, r := range c.Registered {
		if declared(c, r) {
			u[r] = true
		}
	}
	return u
}

func (s *sut) reset() {
	s.calls, s.authzCalls, s.authzReqs, s.errSeen = nil, nil, nil, nil
	s.handlerRan, s.consumed, s.askUnrouted, s.askLost = 0, 0, 0, 0
}

// passedAuthentication: the request got past authentication when something ran, or when the answer is one of the
// stages behind it (content-type gate 415, Accept negotiation 406, binding 400/422); no scripted refusal uses
// these codes.
func passedAuthentication(s *sut, status int) bool {
	return s.handlerRan > 0 || s.consumed > 0 || status == 422 || status == 415 || status == 406 || status == 400
}

// ---------- the authorizer ----------

// askedWith: what an authorizer call saw of the request it was shown.
type askedWith struct {
	method, path string
	routed       bool // MatchedRouteFrom(r) != nil
	nilRequest   bool
}

func seenBy(r *http.Request) askedWith {
	if r == nil {
		return askedWith{nilRequest: true}
	}
	a := askedWith{method: r.Method, routed: middleware.MatchedRouteFrom(r) != nil}
	if r.URL != nil {
		a.path = r.URL.Path
	}
	return a
}

// authorizerAnswer: the error a denying authorizer returns (nil: it accepts).
func authorizerAnswer(kind string) error {
	switch {
	case kind == "deny-plain":
		return errors.New("authorizer-says-no")
	case kind == "deny-wrapped-409":
		return fmt.Errorf("wrapped: %w", oerrors.New(409, "authorizer-says-no"))
	case strings.HasPrefix(kind, "deny-"):
		code, err := strconv.Atoi(strings.TrimPrefix(kind, "deny-"))
		if err != nil {
			code = 403
		}
		return oerrors.New(int32(code), "authorizer-says-no")
	}
	return nil
}

// authorizerStatusOK: status is what the statement promises for a denial by this authorizer: 403 unless the
// error carries its own status. Whether an error wrapping one with a status carries it is not stated.
func authorizerStatusOK(kind string, status int) bool {
	switch {
	case kind == "deny-plain":
		return status == 403
	case kind == "deny-wrapped-409":
		return status == 403 || status == 409
	case strings.HasPrefix(kind, "deny-"):
		code, err := strconv.Atoi(strings.TrimPrefix(kind, "deny-"))
		return err == nil && status == code
	}
	return false
}

// judgeAuthorizerRequest: the authorizer decides about the request being served, so the request it is shown has
// that request's method and path. (Whether that request value carries the matched route is classed, not judged.)
func judgeAuthorizerRequest(m *mon.M, s *sut, rq *Request, feat string, desc func() string, one *Case) bool {
	if len(s.authzReqs) != 1 {
		return true
	}
	got := s.authzReqs[0]
	op := s.c.Desc.Ops[rq.Op]
	wantPath := strings.ReplaceAll(op.Template, "{id}", "v1")
	if got.nilRequest || got.method != op.Method || got.path != wantPath {
		m.Violate("authorizer-shown-a-different-request/"+feat, fmt.Sprintf("authorizer saw %+v, served %s %s ; %s", got, op.Method, wantPath, desc()), one)
		return false
	}
	if !got.routed {
		m.Class("probe:authorizer-request-without-matched-route")
	}
	return true
}

// ---------- what the request carries behind authentication ----------

// carried: the principal and scopes readable from a request.
type carried struct {
	nilRequest bool
	principal  interface{}
	scopes     []string
}

func carriedBy(r *http.Request) carried {
	if r == nil {
		return carried{nilRequest: true}
	}
	return carried{
		principal: middleware.SecurityPrincipalFrom(r),
		scopes:    append([]string(nil), middleware.SecurityScopesFrom(r)...),
	}
}

// judgeCarried: an admitted request that fails behind authentication (binding, content-type gate, Accept
// negotiation) is handed to the API's error responder; the principal and scopes readable from it are those
// the handler would have read: of a satisfied alternative, or none after an anonymous admission.
func judgeCarried(m *mon.M, s *sut, ref verdict, admittedBySatisfied bool, status int, feat string, desc func() string, one *Case) bool {
	if status != 422 && status != 415 && status != 406 && status != 400 {
		return true
	}
	if len(s.errSeen) != 1 || s.errSeen[0].nilRequest {
		m.Class("pipeline-request-not-seen")
		return true
	}
	got := s.errSeen[0]
	d := func() string {
		return fmt.Sprintf("error responder's request: principal=%v scopes=%v ; %s", got.principal, got.scopes, desc())
	}
	if got.principal == nil && admittedBySatisfied {
		m.Violate("pipeline-request-without-principal-although-alternative-satisfied/"+feat, d(), one)
		return false
	}
	if !principalWarranted(s, got.principal, ref, nil) {
		m.Violate("pipeline-request-carries-unwarranted-principal/"+feat, d(), one)
		return false
	}
	gotScopes := strings.Join(sortedCopy(got.scopes), ",")
	ok := false
	if got.principal == nil {
		ok = gotScopes == ""
	} else {
		for _, a := range ref.satisfied {
			for sch := range a {
				if s.isPrincipalOf(sch, got.principal) && strings.Join(unionScopes(a), ",") == gotScopes {
					ok = true
				}
			}
		}
	}
	if !ok {
		m.Violate("pipeline-request-scopes-not-of-admitting-alternative/"+feat, d(), one)
		return false
	}
	m.Class("pipeline-request-carries-warranted-principal")
	return true
}

// ---------- rejections ----------

// isRejectionOf: err is the error the scheme rejected with. A rejection with a status is recognised by status and
// text (the authenticators make a fresh value per call), one without by identity (errors.Is).
func isRejectionOf(s *sut, scheme string, status int, err error, code int) bool {
	if err == nil {
		return false
	}
	if status == anyStatus {
		return errors.Is(err, s.plain[scheme])
	}
	return code == status && strings.Contains(err.Error(), "rejected-by-"+scheme)
}

// ---------- verdicts of one (structure, request) across builds ----------

// across remembers, per request of a case, the verdicts of the full handler in the builds of the structure.
// Nothing is judged from it: with an empty alternative next to an AND of a scheme that does not apply and one
// that rejects, the statement admits both answers (a scheme that was not consulted rejected nothing), and
// which one is given depends on an order fixed when the router is built. The evidence shows how often.
type across struct {
	admitted, refused []int
	statuses          []map[int]bool
	orders            []map[string]bool
}

func newAcross(n int) *across {
	return &across{admitted: make([]int, n), refused: make([]int, n), statuses: make([]map[int]bool, n), orders: make([]map[string]bool, n)}
}

func (a *across) record(ri int, passed bool, status int, order string) {
	if passed {
		a.admitted[ri]++
	} else {
		a.refused[ri]++
		if a.statuses[ri] == nil {
			a.statuses[ri] = map[int]bool{}
		}
		a.statuses[ri][status] = true
	}
	if a.orders[ri] == nil {
		a.orders[ri] = map[string]bool{}
	}
	a.orders[ri][order] = true
}

func (a *across) report(m *mon.M, c *Case, builds int) {
	if builds < 2 {
		return
	}
	var compared, differ, differRefusal int64
	for ri := range c.Requests {
		if a.admitted[ri]+a.refused[ri] < 2 {
			continue
		}
		compared++
		switch {
		case a.admitted[ri] > 0 && a.refused[ri] > 0:
			rq := &c.Requests[ri]
			hasAnon := false
			for _, alt := range alternatives(&c.Desc, &c.Desc.Ops[rq.Op]) {
				if len(alt) == 0 {
					hasAnon = true
				}
			}
			if hasAnon {
				differ++
				m.Class("probe:order-dependent-anonymous-admission")
				if len(a.orders[ri]) > 1 {
					m.Class("probe:order-dependent-anonymous-admission:with-different-call-orders")
				}
			} else {
				// cannot happen without a violation reported elsewhere: what satisfies an alternative is input only
				m.Class("probe:admission-differs-between-builds-without-empty-alternative")
			}
		case len(a.statuses[ri]) > 1:
			differRefusal++
			m.Class("probe:refusal-status-differs-between-builds")
		}
	}
	m.Note("probe:structure-vector-pairs-compared-across-builds", compared)
	m.Note("probe:structure-vector-pairs-admitted-in-some-builds-refused-in-others(anonymous)", differ)
	m.Note("probe:structure-vector-pairs-refused-with-different-statuses", differRefusal)
	if differ > 0 {
		m.SetAdd("probe:structures-with-order-dependent-anonymous-admission", fmt.Sprintf("%x", mon.Hash64(string(c.Desc.JSON())))[:8])
	}
}

// ---------- the slices handed out ----------

// scribbleProbe: on a build that is thrown away afterwards, an authenticator overwrites the scopes slice it was
// handed and the asker overwrites the scopes it read back; a later request is then looked at. The statement
// does not quantify over callers that write to what they are handed, so nothing is judged: the evidence shows
// whether the slices are shared with later requests.
func scribbleProbe(m *mon.M, c *Case, s *sut) {
	for ri := range c.Requests {
		rq := &c.Requests[ri]
		alts := alternatives(&c.Desc, &c.Desc.Ops[rq.Op])
		ref := judgeRef(c, alts, rq.Outcomes)
		withScopes := false
		for _, a := range ref.satisfied {
			if len(unionScopes(a)) > 0 {
				withScopes = true
			}
		}
		if !withScopes || strings.HasPrefix(c.Authorizer, "deny") {
			continue
		}
		ask := func() (seen bool, ok bool) {
			s.reset()
			var (
				rq2  *http.Request
				aerr error
			)
			pv, _ := mon.Catch(func() {
				route, rr, found := s.ctx.RouteInfo(s.request(rq))
				if !found || route == nil {
					aerr = errors.New("not routed")
					return
				}
				_, rq2, aerr = s.ctx.Authorize(rr, route)
			})
			m.Eval(1)
			if pv != nil || aerr != nil || rq2 == nil {
				return false, false
			}
			for _, cl := range s.calls {
				for _, sc := range cl.scopes {
					if sc == scribbled {
						seen = true
					}
				}
			}
			got := middleware.SecurityScopesFrom(rq2)
			for i := range got {
				if got[i] == scribbled {
					seen = true
				}
				got[i] = scribbled
			}
			return seen, true
		}
		s.scribble = true
		_, ok1 := ask()
		seen, ok2 := ask()
		s.scribble = false
		switch {
		case !ok1:
			m.Class("probe:scopes-slices:not-observed")
		case !ok2:
			// the same request to the same structure, now refused: a scheme was asked for what was written
			m.Class("probe:scopes-slices-shared-with-later-requests:identical-request-now-refused")
		case seen:
			m.Class("probe:scopes-slices-shared-with-later-requests")
		default:
			m.Class("probe:scopes-slices-not-shared")
		}
		return
	}
}

// ---------- generation ----------

// undeclare makes requirements name schemes the document does not define: into one or two alternatives that name
// declared schemes (an AND of a declared and an undeclared scheme), and now and then as an alternative of its own.
func undeclare(r *rand.Rand, d *gen.Desc) {
	scopesOf := func() []string {
		sc := []string{}
		for _, x := range scopePool {
			if r.Intn(4) == 0 {
				sc = append(sc, x)
			}
		}
		return sc
	}
	touch := func(alts []gen.SecReq) []gen.SecReq {
		var idx []int
		for i, a := range alts {
			if len(a) > 0 {
				idx = append(idx, i)
			}
		}
		if len(idx) == 0 {
			return alts
		}
		sort.Ints(idx)
		r.Shuffle(len(idx), func(i, j int) { idx[i], idx[j] = idx[j], idx[i] })
		n := 1 + r.Intn(2)
		if n > len(idx) {
			n = len(idx)
		}
		for _, i := range idx[:n] {
			alts[i][undeclaredNames[r.Intn(len(undeclaredNames))]] = scopesOf()
		}
		if r.Intn(4) == 0 {
			alts = append(alts, gen.SecReq{undeclaredNames[r.Intn(len(undeclaredNames))]: scopesOf()})
		}
		return alts
	}
	if len(d.Security) > 0 && r.Intn(2) == 0 {
		d.Security = touch(d.Security)
	}
	for i := range d.Ops {
		if len(d.Ops[i].Security) > 0 && r.Intn(3) != 0 {
			d.Ops[i].Security = touch(d.Ops[i].Security)
		}
	}
}

// restAccepts: some alternative names an undeclared scheme next to usable schemes that all accept (input only).
func restAccepts(c *Case, alts []gen.SecReq, out map[string]string) bool {
	reg := usable(c)
	for _, a := range alts {
		undecl, rest, ok := false, 0, true
		for sch, scopes := range a {
			switch {
			case !declared(c, sch):
				undecl = true
			case !reg[sch] || outcomeFor(out[sch], scopes) != "a":
				ok = false
			default:
				rest++
			}
		}
		if undecl && ok && rest > 0 {
			return true
		}
	}
	return false
}
