// Package c02 monitors the security-requirement evaluation: OR of ANDs, anonymous admission,
// authorizer, refusal statuses, and "nothing runs unless an alternative is satisfied".
package c02

import (
	"bytes"
	"encoding/json"
	"errors"
	"fmt"
	"io"
	"math/rand"
	"net/http"
	"net/http/httptest"
	"reflect"
	"sort"
	"strings"
	"time"

	oerrors "github.com/go-openapi/errors"
	"github.com/go-openapi/runtime"
	"github.com/go-openapi/runtime/middleware"
	"github.com/go-openapi/runtime/middleware/untyped"
	"github.com/go-openapi/runtime/security"

	"verif/gen"
	"verif/mon"
)

func init() {
	mon.Register(&mon.Property{
		ID:    "C02",
		Level: "exploration",
		Rule: "requirement structures (global or per-operation; 1..4 alternatives of 1..3 of the schemes S1..S5 with scopes; the empty alternative at any position; some schemes without a registered authenticator; in a quarter of the APIs one or two alternatives also name a scheme U1/U2 that is NO security definition of the document (an AND of declared and undeclared schemes, now and then an alternative of its own; with or without an authenticator registered under that name; never scripted to accept) and is therefore never satisfied; in a quarter the definitions are a mix of oauth2, apiKey and basic; authorizer absent/accepting/denying with a plain error/denying with an errors.Error of code 401, 403, 409 or 503/denying with a plain error that wraps an errors.Error; a quarter of the APIs hold 2..3 operations (or the API-wide list and operations) whose requirements are different groupings of ONE list of 2..4 (scheme, scopes) entries, e.g. A AND B next to A OR B; every method a path item can declare (GET PUT POST DELETE OPTIONS HEAD PATCH), static paths and paths with a parameter, now and then two or three operations under different methods on ONE path) " +
			"x per-scheme outcome vectors read by scripted authenticators from request headers (n=not applicable, a=accept with principal, g:<scopes>=accept only requirements whose scopes are all granted else reject 403, z=accept with nil principal, r=reject with an errors.Error of code 401/403/418, with a 403 that still names the principal, or with a plain sentinel error that is no errors.Error and must come back as itself (errors.Is) from Context.Authorize and the exported Authenticate methods and as its text through the handler; all 4^n vectors for n<=4 schemes, sampled beyond) " +
			"x invalid/valid query parameter x body behind a counting consumer x (a quarter of the requests) something else wrong: unconsumed or unparsable Content-Type, unservable Accept, undecodable body; a third of the requests also carry header fields that are no credential of any scheme and that commonly get special treatment (the CORS preflight pair Origin + Access-Control-Request-Method with or without Access-Control-Request-Headers, either half alone, X-Forwarded-*/Forwarded/X-Real-Ip, Connection+Upgrade, Expect, X-HTTP-Method-Override and its variants naming the method of another operation, Connection; one or two groups): the expectation is that of the request without them; of the answer to a refused HEAD request only the status is judged (no body); every structure is rebuilt several times (in-alternative order and the order in which the router visits the operations are map orders fixed at build) and driven through the full handler, through the same pipeline behind a middleware that already asked Context.Authorize, through Context.Authorize (which on success is asked again on the returned request and once more after ResetAuth, and after a refusal is asked again with the same request) and, on one build in six, through the exported RouteAuthenticators.Authenticate (the OR) and every RouteAuthenticator.Authenticate (one AND) on fresh matched routes; in a third of the structures the schemes yield principals that are not non-empty strings (*struct, map, the empty string, a typed-nil pointer), compared by identity. An anonymous admission must have consulted a scheme of every non-empty alternative whose schemes are all declared and registered (how many consultations that takes is not judged). The authorizer must be shown a request with the served method and path; an admitted request that fails behind authentication (400/406/415/422) must reach the API's error responder carrying the warranted principal and the scopes of its alternative. A declared request for which RouteInfo finds no route is a violation, not a skip; an asking middleware that is handed no matched route looks the route up itself (classed). Probes (classed, never judged): per (structure, outcome vector) whether the builds of the structure gave different verdicts (probe:order-dependent-anonymous-admission: admitted in some builds, refused in others, with an empty alternative), whether refusal statuses differ between builds, whether the scopes slices handed to authenticators and askers are shared with later requests. " +
			"Second sub-workload (one more API after every fifth, own PRNG stream): some of the registered schemes the requirements name are served by the library's own security.APIKeyAuth[Ctx] (in query, in header; parameter names with _, space, +, %, [], non-ASCII letters; header names defined in any letter case), BasicAuth[Ctx] and BearerAuth[Ctx] (at most one of each per API) behind a wrapper that only writes the call log; their callbacks accept, accept without principal or reject (401/403/418/with principal/plain error/by granted scopes) by the VALUE of the credential they are shown, and a text that is no credential of the scheme is rejected with 401; the other schemes stay scripted. The requests spell the credentials in the ways HTTP allows: query parameter names and values in the canonical escaping, with %20 or + for a space, with bytes percent-encoded that need not be (upper and lower case hex), wholly percent-encoded, reserved characters that may stand for themselves left alone, values that hold +, &, =, %, %41, ;, non-ASCII; the parameter twice with one value; parameters whose names or values only contain the name; the parameter before and behind the operation's own; header names in any letter case; Basic in any letter case, now and then with a wrong password; the bearer token in the Authorization header or as access_token in the query; credentials of schemes the operation does not name. The outcome of such a scheme for a request is read off the request as sent (query decoded by net/url, header by canonical name, Basic from base64), never from the library; the oracle is the same. " +
			"Oracle over the observed authenticator call log. non-trivial = (structure hash, operation, outcome vector, observed call order) with >= 2 schemes in the operation's requirements or an empty alternative; distinct by that tuple",
		Assumptions: []string{
			"a scheme that would reject but was never consulted (an earlier scheme of the same alternative was not applicable, or an earlier alternative admitted) has rejected nothing; so for [{S1,S2},{}] with S1 not applicable and S2 rejecting both the anonymous admission (S1 asked first) and S2's error (S2 asked first) satisfy the statement, and which is given depends on a map order fixed when the router is built: counted under probe:order-dependent-anonymous-admission, not judged",
			"a scheme named by a requirement that is no security definition of the document can never be satisfied; whether an authenticator registered under such a name may be consulted is not stated (it is never scripted to accept)",
			"the status a rejection with an error that carries none is answered with through the handler is the error responder's and is not judged (its text is); whether an authorizer error that wraps an errors.Error carries that error's status is not stated (403 and the wrapped status are both accepted)",
			"the request handed to the API's error responder for an admitted request that fails behind authentication is the request the handler would have been served with",
			"callers that write to the scopes slices they are handed are outside the quantifier: sharing of those slices between requests is shown by a probe, not judged",
			"which of several satisfied alternatives naming schemes admits, and which of several rejecting schemes' errors is reported, is not stated and not judged; when such an alternative is satisfied the principal is non-nil (the anonymous alternative next to it does not hide the identified caller)",
			"what an admitted request with an unconsumed/unparsable Content-Type, an unservable Accept or an undecodable body is answered (415, 406, 400, 422) is judged by C06/C07/C03, not here; a refusal never carries one of these codes",
			"the scripted authorizer decides independently of the principal; the principal it is shown is judged",
			"a principal is non-nil when the interface value the authenticator returned is not nil: the empty string and a typed-nil pointer are principals",
			"real authenticators: a request that carries several different values for one credential, an empty value, two Authorization headers, a bearer token both in the header and in the query, or Basic credentials that are no base64 user:password pair is not generated and not judged (what 'the' credential is then is not stated); the auth-scheme of the Authorization header is case-insensitive (RFC 7235) - other letter cases of Bearer are judged on replay but left out of the generator (TRIAGE-PENDING in real.go); more than one space behind the auth-scheme and bearer tokens in a form body are not driven",
			"header fields that are no credential of any generated scheme (Origin, Access-Control-Request-*, X-Forwarded-*, Forwarded, X-Real-Ip, Upgrade, Expect, X-HTTP-Method-Override and variants, Connection) change nothing about what a secured operation answers, under any method; the answer to a HEAD request has no body (RFC 9110), so of a refused HEAD request the status is judged and the error text only when a body is there",
			"of the exported Authenticate methods only admissions (applies, principal, no error), the error of a refusal and the alternative recorded for an admission are judged; the value of applies on a refusal and what the matched route records after a refusal are not",
		},
		MinNontrivial: 300,
		// watchdog only (firing = inconclusive, never a verdict): a thorough shard needs some 35 minutes of CPU, and
		// the default of one hour fires when the 16 shards share the machine with another thorough run
		ThorTimeout: 150 * time.Minute,
		Run:         run,
		Replay:      replay,
	})
}

// Request is one scripted request.
type Request struct {
	Op       int               `json:"op"`
	Outcomes map[string]string `json:"outcomes"` // scheme -> n | a | g:<scopes> | z | r401 | r403 | r418 | rp403 | rplain
	BadQuery bool              `json:"badQuery,omitempty"`
	Body     bool              `json:"body,omitempty"`
	// Variant makes something else wrong with the request (absent = nothing): ct-text (a media type the
	// operation does not consume), ct-malformed (unparsable Content-Type), accept-text (an Accept the
	// operation cannot serve), bad-json (a body the consumer cannot decode). ct-* and bad-json send a body.
	Variant string `json:"variant,omitempty"`
	// Wire: how the credentials of the schemes served by the library's own authenticators (Case.RealAuth) are
	// spelled in this request; the outcomes of those schemes are read off the request, not from Outcomes
	Wire *Wire `json:"wire,omitempty"`
	// Extra: header fields that are no credential of any scheme and that commonly get special treatment somewhere
	// (the CORS preflight pair, X-Forwarded-*, Upgrade, Expect, method override, Connection; decor.go), added to the
	// request as they are. The oracle does not read them: the expectation is that of the request without them.
	Extra [][2]string `json:"extra,omitempty"`
}

// Case is a requirement structure, its registrations and the requests sent to it.
type Case struct {
	Desc       gen.Desc `json:"desc"`
	Registered []string `json:"registered"`
	// Authorizer: none | accept | deny-plain (a plain error) | deny-<code> (an errors.Error of that code) |
	// deny-wrapped-409 (a plain error wrapping an errors.Error of code 409).
	// A scheme named by a requirement and absent from Desc.SecDefs is UNDECLARED: it is no security definition of
	// the document, so nothing can ever find credentials for it (U1, U2 in generated cases).
	Authorizer string    `json:"authorizer"`
	Requests   []Request `json:"requests"`
	Builds     int       `json:"builds"`
	// PrincipalKinds: what kind of value a scheme's authenticator yields as principal (absent = the string
	// "P:<scheme>"): ptr (*struct), map (map[string]string), empty (the string ""), typednil (a nil *struct)
	PrincipalKinds map[string]string `json:"principalKinds,omitempty"`
	// RealAuth: the registered schemes that are served by one of the library's authenticators instead of a scripted
	// one: key | key-ctx (security.APIKeyAuth[Ctx] with the name and place of the scheme's definition) | basic |
	// basic-ctx | bearer | bearer-ctx. Their callbacks decide by the value of the credential (real.go).
	RealAuth map[string]string `json:"realAuth,omitempty"`
}

// who is a principal of struct kind.
type who struct{ Name string }

// same: the two values are one principal. Pointers and maps are compared by identity (a map-typed
// principal makes == panic), everything else by ==.
func same(a, b interface{}) bool {
	if a == nil || b == nil {
		return a == nil && b == nil
	}
	va, vb := reflect.ValueOf(a), reflect.ValueOf(b)
	if va.Type() != vb.Type() {
		return false
	}
	switch va.Kind() {
	case reflect.Map, reflect.Ptr:
		return va.Pointer() == vb.Pointer()
	}
	return a == b
}

type call struct {
	scheme string
	scopes []string
}

type sut struct {
	c          *Case
	ctx        *middleware.Context
	handler    http.Handler
	asking     http.Handler
	calls      []call
	authzCalls []interface{}
	authzReqs  []askedWith // the request each authorizer call was shown
	errSeen    []carried   // what the request handed to the API's ServeError carried
	handlerRan int
	consumed   int
	// askUnrouted: requests the asking middleware was handed without a matched route; askLost: those for which
	// its own lookup found none either
	askUnrouted, askLost int
	// scribble: the authenticators overwrite the scopes slice they were handed after recording it (probe only)
	scribble bool
	// plain: the sentinel (not an errors.Error) each scheme rejects with under "rplain"
	plain map[string]error
	// princ: the principal each scheme yields in this build (never nil as an interface value)
	princ map[string]interface{}
}

func principalOf(s string) string { return "P:" + s }

// principalFor builds the principal of a scheme.
func principalFor(kind, scheme string) interface{} {
	switch kind {
	case "ptr":
		return &who{Name: scheme}
	case "map":
		return map[string]string{"name": scheme}
	case "empty":
		return "" // the zero value of its type is still a principal
	case "typednil":
		return (*who)(nil) // an interface value holding a nil pointer is not nil
	}
	return principalOf(scheme)
}

// isPrincipalOf: p is the principal the scheme yields.
func (s *sut) isPrincipalOf(scheme string, p interface{}) bool {
	return same(s.princ[scheme], p)
}

// outcomeFor resolves a scripted outcome against the scopes a requirement asks of the scheme:
// "g:read,write" accepts iff every required scope is granted, and rejects with 403 otherwise.
func outcomeFor(script string, required []string) string {
	if !strings.HasPrefix(script, "g:") {
		return script
	}
	granted := map[string]bool{}
	for _, g := range strings.Split(strings.TrimPrefix(script, "g:"), ",") {
		granted[g] = true
	}
	for _, r := range required {
		if !granted[r] {
			return "r403"
		}
	}
	return "a"
}

func build(c *Case) (*sut, error) {
	doc, err := c.Desc.Load()
	if err != nil {
		return nil, err
	}
	s := &sut{c: c, princ: map[string]interface{}{}, plain: map[string]error{}}
	for _, name := range allNames {
		s.princ[name] = principalFor(c.PrincipalKinds[name], name)
		s.plain[name] = errors.New("rejected-by-" + name + " (plain)")
	}
	api := untyped.NewAPI(doc)
	api.RegisterConsumer("application/json", runtime.ConsumerFunc(func(r io.Reader, v interface{}) error {
		s.consumed++
		return runtime.JSONConsumer().Consume(r, v)
	}))
	for _, name := range c.Registered {
		name := name
		if kind, real := c.RealAuth[name]; real {
			a := s.realAuthenticator(name, kind, c.Desc.SecDefs[name])
			if a == nil {
				return nil, fmt.Errorf("unknown kind of real authenticator %q", kind)
			}
			api.RegisterAuth(name, a)
			continue
		}
		api.RegisterAuth(name, security.ScopedAuthenticator(func(sr *security.ScopedAuthRequest) (bool, interface{}, error) {
			s.calls = append(s.calls, call{name, append([]string(nil), sr.RequiredScopes...)})
			out := sr.Request.Header.Get("X-Out-" + name)
			if strings.HasPrefix(out, "g:") { // a credential granting only some scopes
				out = outcomeFor(out, sr.RequiredScopes)
			}
			if s.scribble { // probe: an authenticator that writes to the slice it was handed, once it has decided
				for i := range sr.RequiredScopes {
					sr.RequiredScopes[i] = scribbled
				}
			}
			switch out {
			case "a":
				return true, s.princ[name], nil
			case "z":
				return true, nil, nil
			case "r401":
				return true, nil, oerrors.New(401, "rejected-by-%s", name)
			case "r403":
				return true, nil, oerrors.New(403, "rejected-by-%s", name)
			case "r418":
				return true, nil, oerrors.New(418, "rejected-by-%s", name)
			case "rp403": // a rejection that still names the identified user (e.g. insufficient scope)
				return true, s.princ[name], oerrors.New(403, "rejected-by-%s", name)
			case "rplain": // a rejection with an error that is no errors.Error (a sentinel, fmt.Errorf ...)
				return true, nil, s.plain[name]
			default:
				return false, nil, nil
			}
		}))
	}
	if c.Authorizer != "" && c.Authorizer != "none" {
		answer := authorizerAnswer(c.Authorizer)
		api.RegisterAuthorizer(runtime.AuthorizerFunc(func(r *http.Request, p interface{}) error {
			s.authzCalls = append(s.authzCalls, p)
			s.authzReqs = append(s.authzReqs, seenBy(r))
			return answer
		}))
	}
	// what the request of an admitted call that fails behind authentication carries is seen by the error responder
	api.ServeError = func(rw http.ResponseWriter, r *http.Request, err error) {
		s.errSeen = append(s.errSeen, carriedBy(r))
		oerrors.ServeError(rw, r, err)
	}
	for i := range c.Desc.Ops {
		op := c.Desc.Ops[i]
		api.RegisterOperation(op.Method, op.Template, runtime.OperationHandlerFunc(func(interface{}) (interface{}, error) {
			s.handlerRan++
			return map[string]string{"op": op.ID}, nil
		}))
	}
	s.ctx = middleware.NewContext(doc, api, nil)
	s.handler = s.ctx.RoutesHandler(nil)
	// the same pipeline behind a middleware that asks Authorize for its own purposes (to log the principal,
	// say), ignores the answer and leaves enforcement to the pipeline
	s.asking = s.ctx.RoutesHandler(func(next http.Handler) http.Handler {
		return http.HandlerFunc(func(w http.ResponseWriter, r *http.Request) {
			if route := middleware.MatchedRouteFrom(r); route != nil {
				_, _, _ = s.ctx.Authorize(r, route)
			} else {
				// not handed the matched route: the asker looks the route up itself (any middleware can), so that
				// the entry point keeps its force; the request is passed on as it came
				s.askUnrouted++
				if rt, rr, ok := s.ctx.RouteInfo(r); ok && rt != nil {
					_, _, _ = s.ctx.Authorize(rr, rt)
				} else {
					s.askLost++
				}
			}
			next.ServeHTTP(w, r)
		})
	})
	return s, nil
}

func (s *sut) request(rq *Request) *http.Request { return buildRequest(s.c, rq) }

func buildRequest(c *Case, rq *Request) *http.Request {
	op := c.Desc.Ops[rq.Op]
	path := strings.ReplaceAll(op.Template, "{id}", "v1")
	qfrag := "q=7"
	if rq.BadQuery {
		qfrag = "q=notanumber"
	}
	target := path + "?" + qfrag
	if rq.Wire != nil {
		target = rq.Wire.target(path, qfrag)
	}
	var body io.Reader
	if rq.hasBody() {
		if rq.Variant == "bad-json" {
			body = bytes.NewBufferString(`{`)
		} else {
			body = bytes.NewBufferString(`{"k":1}`)
		}
	}
	r := httptest.NewRequest(op.Method, target, body)
	if rq.hasBody() {
		switch rq.Variant {
		case "ct-text":
			r.Header.Set("Content-Type", "text/plain")
		case "ct-malformed":
			r.Header.Set("Content-Type", "application/json; charset")
		default:
			r.Header.Set("Content-Type", "application/json")
		}
	}
	if rq.Variant == "accept-text" {
		r.Header.Set("Accept", "text/plain")
	} else {
		r.Header.Set("Accept", "application/json")
	}
	for k, v := range rq.Outcomes {
		if _, real := c.RealAuth[k]; real {
			continue // read off the credentials
		}
		r.Header.Set("X-Out-"+k, v)
	}
	if rq.Wire != nil {
		for _, h := range rq.Wire.Headers {
			r.Header.Add(h[0], h[1]) // the server's parser keys the header by its canonical name, as Add does
		}
	}
	for _, h := range rq.Extra {
		r.Header.Add(h[0], h[1])
	}
	return r
}

func (rq *Request) hasBody() bool {
	return rq.Body || rq.Variant == "ct-text" || rq.Variant == "ct-malformed" || rq.Variant == "bad-json"
}

// effective requirement alternatives of an operation
func alternatives(d *gen.Desc, op *gen.Op) []gen.SecReq {
	if op.HasSecurity || len(op.Security) > 0 {
		return op.Security
	}
	return d.Security
}

type verdict struct {
	satisfied   []gen.SecReq // alternatives whose every scheme is registered and accepted with a principal
	hasAnon     bool
	schemeCount int
}

func judgeRef(c *Case, alts []gen.SecReq, out map[string]string) verdict {
	reg := usable(c)
	var v verdict
	seen := map[string]bool{}
	for _, a := range alts {
		if len(a) == 0 {
			v.hasAnon = true
			continue
		}
		ok := true
		for sch, scopes := range a {
			seen[sch] = true
			if !reg[sch] || outcomeFor(out[sch], scopes) != "a" {
				ok = false
			}
		}
		if ok {
			v.satisfied = append(v.satisfied, a)
		}
	}
	v.schemeCount = len(seen)
	return v
}

func unionScopes(a gen.SecReq) []string {
	set := map[string]bool{}
	for _, sc := range a {
		for _, x := range sc {
			set[x] = true
		}
	}
	var l []string
	for x := range set {
		l = append(l, x)
	}
	sort.Strings(l)
	return l
}

func sortedCopy(l []string) []string {
	c := append([]string(nil), l...)
	sort.Strings(c)
	return c
}

func rejectCode(o string) int {
	switch o {
	case "r401":
		return 401
	case "r403":
		return 403
	case "r418":
		return 418
	case "rp403":
		return 403
	case "rplain":
		return anyStatus
	}
	return 0
}

func runCase(m *mon.M, c *Case) {
	builds := c.Builds
	if builds <= 0 {
		builds = 1
	}
	b, _ := json.Marshal(struct {
		D gen.Desc
		R []string
		A string
	}{c.Desc, c.Registered, c.Authorizer})
	if len(c.PrincipalKinds) > 0 {
		pk, _ := json.Marshal(c.PrincipalKinds)
		b = append(b, pk...)
	}
	if len(c.RealAuth) > 0 {
		ra, _ := json.Marshal(c.RealAuth)
		b = append(b, ra...)
	}
	sh := fmt.Sprintf("%x", mon.Hash64(string(b)))
	reg := usable(c)
	across := newAcross(len(c.Requests))
	// the requests as judged: the outcome vector completed by what the request carries for the real schemes
	effs := make([]Request, len(c.Requests))
	wireFeats := make([]string, len(c.Requests))
	judged := make([]bool, len(c.Requests))
	for ri := range c.Requests {
		effs[ri], wireFeats[ri], judged[ri] = effective(m, c, &c.Requests[ri])
	}
	var last *sut
	for bi := 0; bi < builds; bi++ {
		s, err := build(c)
		if err != nil {
			m.Class("desc-rejected")
			return
		}
		last = s
		for ri := range c.Requests {
			if !judged[ri] {
				continue
			}
			rq := &effs[ri]
			one := &Case{Desc: c.Desc, Registered: c.Registered, Authorizer: c.Authorizer, Requests: []Request{c.Requests[ri]}, Builds: 6, PrincipalKinds: c.PrincipalKinds, RealAuth: c.RealAuth}
			op := &c.Desc.Ops[rq.Op]
			alts := alternatives(&c.Desc, op)
			ref := judgeRef(c, alts, rq.Outcomes)
			feat := features(c, alts, rq.Outcomes)
			if strings.HasPrefix(feat, "alternative-with-undeclared-scheme") {
				m.Class("input:alternative-with-undeclared-scheme")
				if restAccepts(c, alts, rq.Outcomes) {
					m.Class("input:undeclared-scheme-ANDed-with-schemes-that-all-accept")
				}
			}
			if rq.Variant != "" {
				feat += "+" + rq.Variant
			}
			feat += wireFeats[ri]
			// the method of the operation and the decorating header fields of the request (input only; decor.go)
			feat += methodClass(op.Method) + decorClass(rq.Extra)
			if bi == 0 {
				m.Class("input:method-" + op.Method)
				if dc := decorClass(rq.Extra); dc != "" && len(alts) > 0 {
					for _, g := range strings.Split(strings.TrimPrefix(dc, "+hdr:"), ",") {
						m.Class("input:secured-op-request-with-hdr:" + g)
						if g == "cors-preflight-pair" { // a preflight is that pair on an OPTIONS request
							m.Class("input:secured-" + op.Method + "-with-cors-preflight-pair")
						}
					}
				}
			}
			if bi == 0 && len(c.RealAuth) > 0 {
				realClasses(m, c, rq, wireFeats[ri])
			}

			// ---- entry point 1: the full handler ----
			s.reset()
			rec := httptest.NewRecorder()
			req := s.request(rq)
			pv, st := mon.Catch(func() { s.handler.ServeHTTP(rec, req) })
			m.Eval(1)
			if pv != nil {
				m.Violate("panic/"+feat, fmt.Sprintf("panic: %v\n%s", pv, st), one)
				continue
			}
			order := callOrder(s.calls)
			if ref.schemeCount >= 2 || ref.hasAnon {
				m.NT(sh + "|" + op.ID + "|" + outcomeKey(rq.Outcomes) + "|" + order)
			}
			m.SetAdd("call-orders", fmt.Sprintf("%s/%s:%s", sh[:6], op.ID, orderShape(s.calls)))
			if len(alts) > 0 {
				across.record(ri, passedAuthentication(s, rec.Code), rec.Code, callOrder(s.calls))
			}
			judgeHandler(m, c, s, rq, alts, ref, rec, feat, one, reg)

			// ---- entry point 1b: the full handler behind a middleware that already asked Authorize ----
			// What the earlier asker was told must not open the door: the handler still runs only on a warrant.
			if len(alts) > 0 {
				s.reset()
				recB := httptest.NewRecorder()
				reqB := s.request(rq)
				pv, st = mon.Catch(func() { s.asking.ServeHTTP(recB, reqB) })
				m.Eval(1)
				if pv != nil {
					m.Violate("panic-behind-asking-middleware/"+feat, fmt.Sprintf("panic: %v\n%s", pv, st), one)
					continue
				}
				if s.askLost > 0 {
					// a request to a declared method and path for which the context finds no route at all
					m.Violate("declared-request-not-routed/asking-middleware", fmt.Sprintf("op=%s %s %s: the middleware was handed no matched route and RouteInfo found none", op.ID, reqB.Method, reqB.URL.Path), one)
					continue
				}
				if s.askUnrouted > 0 {
					// visible, not judged here (that a Builder middleware is handed the matched route is C09's business);
					// the asker looked the route up itself, so what follows keeps its force
					m.Class("probe:asking-middleware-handed-no-matched-route")
				}
				rejectersB := consultedRejecters(s, rq.Outcomes)
				warranted := len(ref.satisfied) > 0 || (ref.hasAnon && len(rejectersB) == 0)
				denies := strings.HasPrefix(c.Authorizer, "deny")
				passed := passedAuthentication(s, recB.Code)
				if passed && (!warranted || denies) {
					m.Violate("admitted-after-an-earlier-asker-was-refused/"+feat, fmt.Sprintf("op=%s alternatives=%v registered=%v authorizer=%s outcomes=%v calls=%s: a middleware called Context.Authorize (refused) and passed the request on: status %d, handler ran %d times, consumer %d",
						c.Desc.Ops[rq.Op].ID, alts, c.Registered, c.Authorizer, rq.Outcomes, callOrder(s.calls), recB.Code, s.handlerRan, s.consumed)+wireNote(c, rq), one)
					continue
				}
				if s.handlerRan > 1 {
					m.Violate("handler-ran-twice-behind-asking-middleware/"+feat, fmt.Sprintf("handler ran %d times", s.handlerRan), one)
					continue
				}
				m.Class("behind-asking-middleware")
			}

			// ---- entry point 2: Context.Authorize ----
			s.reset()
			req2 := s.request(rq)
			var (
				usr  interface{}
				rq2  *http.Request
				aerr error
			)
			var (
				route0 *middleware.MatchedRoute
				rr0    *http.Request
			)
			pv, st = mon.Catch(func() {
				route, rr, ok := s.ctx.RouteInfo(req2)
				if !ok || route == nil {
					return
				}
				route0, rr0 = route, rr
				usr, rq2, aerr = s.ctx.Authorize(rr, route)
			})
			m.Eval(1)
			if pv != nil {
				m.Violate("authorize-panic/"+feat, fmt.Sprintf("panic: %v\n%s", pv, st), one)
				continue
			}
			if route0 == nil {
				// a request to a declared method and path that is not routed: nothing of it can be judged, and
				// that is not passed over in silence
				m.Violate("declared-request-not-routed/route-info", fmt.Sprintf("op=%s %s %s: RouteInfo found no route", op.ID, req2.Method, req2.URL.Path), one)
				continue
			}
			firstOK := judgeAuthorize(m, "authorize", c, s, rq, alts, ref, usr, rq2, aerr, feat, one)
			if firstOK && aerr != nil && route0 != nil && len(alts) > 0 {
				// ---- entry point 2, after a refusal: the same asker asks again with the request it holds ----
				// A refusal is no warrant: the second answer is held to the statement like the first, over the
				// authenticators it consulted itself.
				s.reset()
				var (
					usrR  interface{}
					rqR   *http.Request
					aerrR error
				)
				pv, st = mon.Catch(func() { usrR, rqR, aerrR = s.ctx.Authorize(rr0, route0) })
				m.Eval(1)
				if pv != nil {
					m.Violate("authorize-after-refusal-panic/"+feat, fmt.Sprintf("panic: %v\n%s", pv, st), one)
					continue
				}
				if judgeAuthorize(m, "authorize-after-refusal", c, s, rq, alts, ref, usrR, rqR, aerrR, feat, one) {
					m.Class("authorize-after-refusal")
				}
			}
			if bi%6 == 0 { // one build in six: the budget of the other entry points stays what it was
				directCalls(m, c, s, rq, alts, ref, feat, one, reg)
			}
			if !firstOK || aerr != nil || rq2 == nil {
				continue
			}
			// ---- entry point 2, continued: later askers on the request value Authorize returned ----
			// (a) asked again, (b) asked after ResetAuth. The structure, the credentials and the scripted
			// outcomes are the same, so each answer is held to the same statement as the first one, over
			// the authenticators it consulted itself.
			route := middleware.MatchedRouteFrom(rq2)
			cur := rq2
			for _, kind := range []string{"authorize-again", "authorize-after-reset"} {
				s.reset()
				var (
					usr3  interface{}
					rq3   *http.Request
					aerr3 error
				)
				pv, st = mon.Catch(func() {
					if kind == "authorize-after-reset" {
						cur = s.ctx.ResetAuth(cur)
					}
					usr3, rq3, aerr3 = s.ctx.Authorize(cur, route)
				})
				m.Eval(1)
				if pv != nil {
					m.Violate(kind+"-panic/"+feat, fmt.Sprintf("panic: %v\n%s", pv, st), one)
					break
				}
				if !judgeAuthorize(m, kind, c, s, rq, alts, ref, usr3, rq3, aerr3, feat, one) || aerr3 != nil || rq3 == nil {
					break
				}
				cur = rq3
			}
		}
	}
	across.report(m, c, builds)
	if last != nil {
		ec := *c
		ec.Requests = nil
		for ri := range effs {
			if judged[ri] {
				ec.Requests = append(ec.Requests, effs[ri])
			}
		}
		scribbleProbe(m, &ec, last)
	}
	if m.WantSample() {
		sc := *c
		if len(sc.Requests) > 4 {
			sc.Requests = sc.Requests[:4]
		}
		m.Sample(sc)
	}
}

// features: input-only classification used in signatures.
func features(c *Case, alts []gen.SecReq, out map[string]string) string {
	reg := map[string]bool{}
	for _, r := range c.Registered {
		reg[r] = true
	}
	unreg, nilp, undecl := false, false, false
	for _, a := range alts {
		for sch := range a {
			if !declared(c, sch) {
				undecl = true
			} else if !reg[sch] {
				unreg = true
			} else if out[sch] == "z" && len(a) > 1 {
				nilp = true
			}
		}
	}
	// the kinds of principal the operation's schemes yield (input only)
	kinds := map[string]bool{}
	for _, a := range alts {
		for sch := range a {
			if k := c.PrincipalKinds[sch]; k != "" && reg[sch] {
				kinds[k] = true
			}
		}
	}
	suffix := ""
	if len(kinds) > 0 {
		var ks []string
		for k := range kinds {
			ks = append(ks, k)
		}
		sort.Strings(ks)
		suffix = "+principal-" + strings.Join(ks, "-")
	}
	switch {
	case undecl:
		return "alternative-with-undeclared-scheme" + suffix
	case unreg:
		return "alternative-with-unregistered-scheme" + suffix
	case nilp:
		return "nil-principal-inside-AND" + suffix
	}
	return "plain" + suffix
}

// unlooked: on an anonymous admission, the non-empty alternatives all of whose schemes are registered and of
// which no scheme was consulted. Nothing can be said to have rejected nothing without having been asked: an
// alternative that could apply is looked at before the empty alternative admits.
func unlooked(s *sut, alts []gen.SecReq, reg map[string]bool) []gen.SecReq {
	var miss []gen.SecReq
	for _, a := range alts {
		if len(a) == 0 {
			continue
		}
		full := true
		for sch := range a {
			if !reg[sch] {
				full = false
			}
		}
		if !full {
			continue
		}
		looked := false
		for _, cl := range s.calls {
			if sc, in := a[cl.scheme]; in && strings.Join(sortedCopy(sc), ",") == strings.Join(sortedCopy(cl.scopes), ",") {
				looked = true
			}
		}
		if !looked {
			miss = append(miss, a)
		}
	}
	// (How many consultations that takes is not stated: one answer of a scheme for given scopes may stand for
	// every alternative that names the scheme with those scopes.)
	return miss
}

func callOrder(cs []call) string {
	var l []string
	for _, c := range cs {
		l = append(l, c.scheme)
	}
	return strings.Join(l, ">")
}

func orderShape(cs []call) string { return callOrder(cs) }

func outcomeKey(o map[string]string) string {
	var ks []string
	for k := range o {
		ks = append(ks, k)
	}
	sort.Strings(ks)
	var sb strings.Builder
	for _, k := range ks {
		sb.WriteString(k + "=" + o[k] + ",")
	}
	return sb.String()
}

// consultedRejecters: the consulted schemes that rejected, with the status of their error (anyStatus for a
// rejection with an error that carries none).
func consultedRejecters(s *sut, out map[string]string) map[string]int {
	r := map[string]int{}
	for _, c := range s.calls {
		if code := rejectCode(outcomeFor(out[c.scheme], c.scopes)); code != 0 {
			r[c.scheme] = code
		}
	}
	return r
}

func judgeHandler(m *mon.M, c *Case, s *sut, rq *Request, alts []gen.SecReq, ref verdict, rec *httptest.ResponseRecorder, feat string, one *Case, reg map[string]bool) {
	status := rec.Code
	body := rec.Body.String()
	desc := func() string {
		return fmt.Sprintf("op=%s alternatives=%v registered=%v authorizer=%s outcomes=%v calls=%s authorizer-calls=%v -> status %d body %.100q handler=%d consumer=%d",
			c.Desc.Ops[rq.Op].ID, alts, c.Registered, c.Authorizer, rq.Outcomes, callOrder(s.calls), s.authzCalls, status, body, s.handlerRan, s.consumed) + wireNote(c, rq)
	}
	if len(alts) == 0 {
		// no security declared: plain pipeline
		if rq.Variant != "" {
			// what the pipeline answers to the other defect of the request is not this property's business
		} else if rq.BadQuery {
			if status != 422 || s.handlerRan != 0 {
				m.Violate("unsecured-op-bad-query/"+feat, desc(), one)
			}
		} else if s.handlerRan != 1 || status != 200 {
			m.Violate("unsecured-op-not-served/"+feat, desc(), one)
		}
		if len(s.calls) > 0 {
			m.Violate("unsecured-op-consulted-authenticators/"+feat, desc(), one)
		}
		m.Class("unsecured")
		return
	}
	rejecters := consultedRejecters(s, rq.Outcomes)
	admittedBySatisfied := len(ref.satisfied) > 0
	admittedAnon := ref.hasAnon && len(rejecters) == 0 && !admittedBySatisfied
	authzDenies := strings.HasPrefix(c.Authorizer, "deny")
	// the request got past authentication when something ran, or when the answer is one of the stages behind
	// it (content-type gate 415, Accept negotiation 406, binding 400/422); no scripted refusal uses these codes
	passedAuth := passedAuthentication(s, status)

	// every consulted scheme must be shown the scopes its requirement lists
	for _, cl := range s.calls {
		ok := false
		for _, a := range alts {
			if sc, in := a[cl.scheme]; in && strings.Join(sortedCopy(sc), ",") == strings.Join(sortedCopy(cl.scopes), ",") {
				ok = true
			}
		}
		if !ok {
			m.Violate("authenticator-shown-foreign-scopes/"+feat, desc(), one)
			return
		}
	}

	if passedAuth {
		// (1) something ran => a warrant exists
		switch {
		case admittedBySatisfied || (ref.hasAnon && len(rejecters) == 0):
			if authzDenies {
				m.Violate("ran-despite-authorizer-denial/"+feat, desc(), one)
				return
			}
		default:
			m.Violate("admitted-without-satisfied-alternative/"+feat, desc(), one)
			return
		}
		if !admittedBySatisfied {
			if miss := unlooked(s, alts, reg); len(miss) > 0 {
				m.Violate("anonymous-admission-without-asking-an-alternative/"+feat, fmt.Sprintf("not consulted: %v ; %s", miss, desc()), one)
				return
			}
		}
		if c.Authorizer != "none" {
			if len(s.authzCalls) != 1 {
				m.Violate("authorizer-not-consulted-once/"+feat, desc(), one)
				return
			}
			if s.authzCalls[0] == nil && admittedBySatisfied {
				m.Violate("authorizer-shown-nil-principal-although-alternative-satisfied/"+feat, desc(), one)
				return
			}
			if !principalWarranted(s, s.authzCalls[0], ref, rq.Outcomes) {
				m.Violate("authorizer-shown-unwarranted-principal/"+feat, desc(), one)
				return
			}
			if !judgeAuthorizerRequest(m, s, rq, feat, desc, one) {
				return
			}
		}
		if !judgeCarried(m, s, ref, admittedBySatisfied, status, feat, desc, one) {
			return
		}
		if rq.Variant != "" {
			// admitted, and something else is wrong with the request: which answer that gets (415, 406, 422 ...)
			// belongs to other properties; here the handler must not have run more than once
			if s.handlerRan > 1 {
				m.Violate("admitted-but-handler-count/"+feat, desc(), one)
				return
			}
			m.Class(fmt.Sprintf("admitted-%s-%d", rq.Variant, status))
			return
		}
		if rq.BadQuery {
			if status != 422 || s.handlerRan != 0 {
				m.Violate("admitted-bad-query-not-422/"+feat, desc(), one)
				return
			}
			m.Class("admitted-422")
		} else {
			if s.handlerRan != 1 || status != 200 {
				m.Violate("admitted-but-handler-count/"+feat, desc(), one)
				return
			}
			if rq.Body && s.consumed != 1 {
				m.Violate("admitted-but-consumer-count/"+feat, desc(), one)
				return
			}
			m.Class("admitted-200")
		}
		return
	}
	// refused: nothing may have run
	if s.handlerRan != 0 || s.consumed != 0 {
		m.Violate("refused-but-something-ran/"+feat, desc(), one)
		return
	}
	// (2) no false refusal
	if (admittedBySatisfied || admittedAnon) && !authzDenies {
		m.Violate("refused-although-warranted/"+feat, desc(), one)
		return
	}
	// (3) the refusal is the right one
	switch {
	case (admittedBySatisfied || admittedAnon) && authzDenies:
		if !authorizerStatusOK(c.Authorizer, status) || !answerNames(c.Desc.Ops[rq.Op].Method, body, "authorizer-says-no") {
			m.Violate("authorizer-denial-wrong-answer/"+feat, desc(), one)
			return
		}
		if len(s.authzCalls) == 1 && s.authzCalls[0] == nil && admittedBySatisfied {
			m.Violate("authorizer-shown-nil-principal-although-alternative-satisfied/"+feat, desc(), one)
			return
		}
		if len(s.authzCalls) != 1 || !principalWarranted(s, s.authzCalls[0], ref, rq.Outcomes) {
			m.Violate("authorizer-shown-unwarranted-principal/"+feat, desc(), one)
			return
		}
		if !judgeAuthorizerRequest(m, s, rq, feat, desc, one) {
			return
		}
		if c.Authorizer == "deny-wrapped-409" {
			// whether an error that wraps one with a status "carries its own status" is not stated: either answer
			m.Class(fmt.Sprintf("authorizer-wrapped-status-answered-%d", status))
		}
		m.Class("refused-by-authorizer")
	case len(rejecters) > 0:
		ok := false
		plainOnly := true
		for sch, code := range rejecters {
			// an error without a status of its own is answered with the error responder's status: its text is judged
			if (code == anyStatus || status == code) && answerNames(c.Desc.Ops[rq.Op].Method, body, "rejected-by-"+sch) {
				ok = true
			}
			if code != anyStatus {
				plainOnly = false
			}
		}
		if !ok {
			m.Violate("refusal-not-a-rejecters-error/"+feat, desc(), one)
			return
		}
		if plainOnly {
			m.Class(fmt.Sprintf("refused-by-scheme-plain-error-%d", status))
		}
		m.Class("refused-by-scheme")
	default:
		if status != 401 {
			m.Violate("refusal-not-401/"+feat, desc(), one)
			return
		}
		m.Class("refused-401")
	}
}

// answerNames: the body of the answer holds the text of the error. The answer to a HEAD request has no body
// (RFC 9110 section 9.3.2): of a refusal of a HEAD request only the status is judged; a body that is there all the same
// must hold the text.
func answerNames(method, body, text string) bool {
	if method == http.MethodHead && body == "" {
		return true
	}
	return strings.Contains(body, text)
}

// principalWarranted: p is the principal of a scheme of some satisfied alternative, or nil when only
// the anonymous alternative can have admitted.
func principalWarranted(s *sut, p interface{}, ref verdict, out map[string]string) bool {
	if p == nil {
		return ref.hasAnon
	}
	for _, a := range ref.satisfied {
		for sch := range a {
			if s.isPrincipalOf(sch, p) {
				return true
			}
		}
	}
	return false
}

// judgeAuthorize judges one answer of Context.Authorize; kind names the asker ("authorize": first call on a
// fresh request; "authorize-again", "authorize-after-reset": later calls on the returned request value) and
// prefixes the signature. It reports whether the answer was accepted.
func judgeAuthorize(m *mon.M, kind string, c *Case, s *sut, rq *Request, alts []gen.SecReq, ref verdict, usr interface{}, rq2 *http.Request, aerr error, feat string, one *Case) bool {
	desc := func() string {
		var scopes []string
		var ctxP interface{}
		if rq2 != nil {
			scopes = middleware.SecurityScopesFrom(rq2)
			ctxP = middleware.SecurityPrincipalFrom(rq2)
		}
		return fmt.Sprintf(kind+": op=%s alternatives=%v registered=%v authorizer=%s outcomes=%v calls=%s -> principal=%v ctxPrincipal=%v scopes=%v err=%v",
			c.Desc.Ops[rq.Op].ID, alts, c.Registered, c.Authorizer, rq.Outcomes, callOrder(s.calls), usr, ctxP, scopes, aerr) + wireNote(c, rq)
	}
	if len(alts) == 0 {
		if aerr != nil || usr != nil {
			m.Violate(kind+"-unsecured-op/"+feat, desc(), one)
			return false
		}
		return true
	}
	rejecters := consultedRejecters(s, rq.Outcomes)
	authzDenies := strings.HasPrefix(c.Authorizer, "deny")
	warranted := len(ref.satisfied) > 0 || (ref.hasAnon && len(rejecters) == 0)
	if aerr == nil {
		if !warranted {
			m.Violate(kind+"-admitted-without-satisfied-alternative/"+feat, desc(), one)
			return false
		}
		if authzDenies {
			m.Violate(kind+"-admitted-despite-authorizer-denial/"+feat, desc(), one)
			return false
		}
		if usr == nil && len(ref.satisfied) > 0 {
			// an alternative naming schemes is fully satisfied: the caller is identified, and the principal
			// (and scopes) come from a satisfied alternative, not from the anonymous one next to it
			m.Violate(kind+"-nil-principal-although-alternative-satisfied/"+feat, desc(), one)
			return false
		}
		if !principalWarranted(s, usr, ref, rq.Outcomes) {
			m.Violate(kind+"-unwarranted-principal/"+feat, desc(), one)
			return false
		}
		if usr == nil {
			if miss := unlooked(s, alts, usable(c)); len(miss) > 0 {
				m.Violate(kind+"-anonymous-admission-without-asking-an-alternative/"+feat, fmt.Sprintf("not consulted: %v ; %s", miss, desc()), one)
				return false
			}
		}
		if rq2 == nil {
			m.Violate(kind+"-nil-request-on-success/"+feat, desc(), one)
			return false
		}
		if cp := middleware.SecurityPrincipalFrom(rq2); !same(cp, usr) {
			m.Violate(kind+"-context-principal-differs/"+feat, desc(), one)
			return false
		}
		// scopes: the union of the scopes of a satisfied alternative containing the principal's scheme
		got := strings.Join(sortedCopy(middleware.SecurityScopesFrom(rq2)), ",")
		ok := false
		if usr == nil {
			ok = got == ""
		} else {
			for _, a := range ref.satisfied {
				for sch := range a {
					if s.isPrincipalOf(sch, usr) && strings.Join(unionScopes(a), ",") == got {
						ok = true
					}
				}
			}
		}
		if !ok {
			m.Violate(kind+"-scopes-not-of-admitting-alternative/"+feat, desc(), one)
			return false
		}
		m.Class(kind + "-admitted")
		return true
	}
	if warranted && !authzDenies {
		m.Violate(kind+"-refused-although-warranted/"+feat, desc(), one)
		return false
	}
	code := 0
	var oe oerrors.Error
	if errors.As(aerr, &oe) {
		code = int(oe.Code())
	}
	switch {
	case warranted && authzDenies:
		if !authorizerStatusOK(c.Authorizer, code) || !strings.Contains(aerr.Error(), "authorizer-says-no") {
			m.Violate(kind+"-authorizer-denial-wrong-error/"+feat, desc(), one)
			return false
		}
	case len(rejecters) > 0:
		ok := false
		for sch, rc := range rejecters {
			if isRejectionOf(s, sch, rc, aerr, code) {
				ok = true
			}
		}
		if !ok {
			m.Violate(kind+"-error-not-a-rejecters/"+feat, desc(), one)
			return false
		}
	default:
		if code != 401 {
			m.Violate(kind+"-error-not-401/"+feat, desc(), one)
			return false
		}
	}
	m.Class(kind + "-refused")
	return true
}

// directCalls feeds the request to the exported evaluation itself: RouteAuthenticators.Authenticate (the OR) on a
// fresh matched route, then every RouteAuthenticator.Authenticate (one AND) on a fresh matched route each.
// An admission needs the same warrant as anywhere else, and what the matched route records as the admitting
// alternative is the one whose scopes the handler will read.
func directCalls(m *mon.M, c *Case, s *sut, rq *Request, alts []gen.SecReq, ref verdict, feat string, one *Case, reg map[string]bool) {
	if len(alts) == 0 {
		return
	}
	fresh := func() (*middleware.MatchedRoute, *http.Request) {
		route, rr, ok := s.ctx.RouteInfo(s.request(rq))
		if !ok || route == nil {
			m.Violate("declared-request-not-routed/route-info", fmt.Sprintf("op=%s: RouteInfo found no route", c.Desc.Ops[rq.Op].ID), one)
			return nil, nil
		}
		return route, rr
	}
	desc := func(what string, applies bool, usr interface{}, err error) string {
		return fmt.Sprintf("%s: op=%s alternatives=%v registered=%v outcomes=%v calls=%s -> applies=%v principal=%v err=%v",
			what, c.Desc.Ops[rq.Op].ID, alts, c.Registered, rq.Outcomes, callOrder(s.calls), applies, usr, err) + wireNote(c, rq)
	}
	// ---- the OR ----
	route, rr := fresh()
	if route == nil {
		return
	}
	s.reset()
	var (
		applies bool
		usr     interface{}
		err     error
	)
	pv, st := mon.Catch(func() { applies, usr, err = route.Authenticators.Authenticate(rr, route) })
	m.Eval(1)
	if pv != nil {
		m.Violate("direct-or-panic/"+feat, fmt.Sprintf("panic: %v\n%s", pv, st), one)
		return
	}
	rejecters := consultedRejecters(s, rq.Outcomes)
	warranted := len(ref.satisfied) > 0 || (ref.hasAnon && len(rejecters) == 0)
	d := desc("RouteAuthenticators.Authenticate", applies, usr, err)
	switch {
	case applies && err == nil && usr != nil:
		// identified: by a satisfied alternative, which the matched route records
		okScopes := false
		if route.Authenticator != nil {
			got := strings.Join(sortedCopy(route.Authenticator.AllScopes()), ",")
			for _, a := range ref.satisfied {
				for sch := range a {
					if s.isPrincipalOf(sch, usr) && strings.Join(unionScopes(a), ",") == got {
						okScopes = true
					}
				}
			}
		}
		switch {
		case !principalWarranted(s, usr, ref, rq.Outcomes):
			m.Violate("direct-or-unwarranted-principal/"+feat, d, one)
		case route.Authenticator == nil:
			m.Violate("direct-or-admitting-alternative-not-recorded/"+feat, d, one)
		case !okScopes:
			m.Violate("direct-or-recorded-alternative-not-the-admitting-one/"+feat, d+fmt.Sprintf(" recorded scopes=%v", route.Authenticator.AllScopes()), one)
		default:
			m.Class("direct-or-identified")
		}
	case applies && err == nil:
		// admitted without a principal: only the empty alternative does that
		switch {
		case len(ref.satisfied) > 0:
			m.Violate("direct-or-nil-principal-although-alternative-satisfied/"+feat, d, one)
		case !warranted:
			m.Violate("direct-or-admitted-without-satisfied-alternative/"+feat, d, one)
		case len(unlooked(s, alts, reg)) > 0:
			m.Violate("direct-or-anonymous-admission-without-asking-an-alternative/"+feat, d, one)
		case route.Authenticator == nil || !route.Authenticator.AllowsAnonymous():
			m.Violate("direct-or-anonymous-admission-not-recorded/"+feat, d, one)
		default:
			m.Class("direct-or-anonymous")
		}
	default:
		// refused
		code := 0
		var oe oerrors.Error
		if err != nil && errors.As(err, &oe) {
			code = int(oe.Code())
		}
		okErr := false
		for sch, rc := range rejecters {
			if err != nil && isRejectionOf(s, sch, rc, err, code) {
				okErr = true
			}
		}
		switch {
		// (what the matched route records after a refusal is not stated: not judged; Context.Authorize clears it)
		case warranted:
			m.Violate("direct-or-refused-although-warranted/"+feat, d, one)
		case usr != nil:
			m.Violate("direct-or-principal-with-a-refusal/"+feat, d, one)
		case len(rejecters) > 0 && !okErr:
			m.Violate("direct-or-error-not-a-rejecters/"+feat, d, one)
		case len(rejecters) == 0 && err != nil:
			m.Violate("direct-or-error-from-nowhere/"+feat, d, one)
		default:
			m.Class("direct-or-refused")
		}
	}

	// ---- each AND ----
	n := len(route.Authenticators)
	if n != len(alts) {
		return // the structure was not carried over one to one: not judged here
	}
	for i := 0; i < n; i++ {
		route, rr := fresh()
		if route == nil || len(route.Authenticators) != n {
			return
		}
		ra := route.Authenticators[i]
		alt := alts[i]
		s.reset()
		pv, st := mon.Catch(func() {
			applies, usr, err = ra.Authenticate(rr, route)
			_ = ra.CommonScopes() // an accessor of the alternative: what it yields is not stated, reading it is harmless
		})
		m.Eval(1)
		if pv != nil {
			m.Violate("direct-and-panic/"+feat, fmt.Sprintf("panic: %v\n%s", pv, st), one)
			return
		}
		d := desc(fmt.Sprintf("RouteAuthenticator[%d].Authenticate %v", i, alt), applies, usr, err)
		if len(alt) == 0 {
			if !applies || usr != nil || err != nil || len(s.calls) > 0 {
				m.Violate("direct-and-empty-alternative/"+feat, d, one)
			}
			continue
		}
		satisfied := true
		for sch, scopes := range alt {
			if !reg[sch] || outcomeFor(rq.Outcomes[sch], scopes) != "a" {
				satisfied = false
			}
		}
		for _, cl := range s.calls {
			if sc, in := alt[cl.scheme]; !in || strings.Join(sortedCopy(sc), ",") != strings.Join(sortedCopy(cl.scopes), ",") {
				m.Violate("direct-and-consulted-foreign-scheme-or-scopes/"+feat, d, one)
				return
			}
		}
		mine := false
		for sch := range alt {
			if s.isPrincipalOf(sch, usr) {
				mine = true
			}
		}
		admitted := applies && err == nil && usr != nil
		switch {
		case admitted && !satisfied:
			m.Violate("direct-and-admitted-unsatisfied-alternative/"+feat, d, one)
		case admitted && !mine:
			m.Violate("direct-and-foreign-principal/"+feat, d, one)
		case !admitted && satisfied:
			m.Violate("direct-and-refused-satisfied-alternative/"+feat, d, one)
		case !admitted && usr != nil && err == nil:
			m.Violate("direct-and-principal-without-admission/"+feat, d, one)
		default:
			m.Class("direct-and")
		}
	}
}

// ---------- generation ----------

var schemes = []string{"S1", "S2", "S3", "S4", "S5"}
var scopePool = []string{"read", "write", "admin"}

func genAlt(r *rand.Rand) gen.SecReq {
	a := gen.SecReq{}
	n := 1 + r.Intn(3)
	for len(a) < n {
		s := schemes[r.Intn(len(schemes))]
		if _, ok := a[s]; ok {
			continue
		}
		var sc []string
		for _, x := range scopePool {
			if r.Intn(3) == 0 {
				sc = append(sc, x)
			}
		}
		if sc == nil {
			sc = []string{}
		}
		a[s] = sc
	}
	return a
}

func genAlts(r *rand.Rand) []gen.SecReq {
	n := 1 + r.Intn(4)
	var alts []gen.SecReq
	for i := 0; i < n; i++ {
		if r.Intn(6) == 0 {
			alts = append(alts, gen.SecReq{})
		} else {
			alts = append(alts, genAlt(r))
		}
	}
	return alts
}

// partition groups the same (scheme, scopes) entries into alternatives: every entry lands in exactly one
// alternative, so two partitions of one entry list name the same schemes with the same scopes and differ
// only in the AND/OR structure. anonAt >= 0 inserts the empty alternative at that position.
func partition(r *rand.Rand, names []string, scopes map[string][]string, groups int, anonAt int) []gen.SecReq {
	order := append([]string(nil), names...)
	r.Shuffle(len(order), func(i, j int) { order[i], order[j] = order[j], order[i] })
	alts := make([]gen.SecReq, groups)
	for i := range alts {
		alts[i] = gen.SecReq{}
	}
	for i, n := range order {
		g := i
		if i >= groups {
			g = r.Intn(groups)
		}
		alts[g][n] = append([]string{}, scopes[n]...)
	}
	if anonAt >= 0 {
		if anonAt > len(alts) {
			anonAt = len(alts)
		}
		alts = append(alts[:anonAt], append([]gen.SecReq{{}}, alts[anonAt:]...)...)
	}
	return alts
}

// structureKey renders alternatives up to the order of the alternatives and of the schemes inside them.
func structureKey(alts []gen.SecReq) string {
	var l []string
	for _, a := range alts {
		var e []string
		for n, sc := range a {
			e = append(e, n+"["+strings.Join(sortedCopy(sc), ",")+"]")
		}
		sort.Strings(e)
		l = append(l, "{"+strings.Join(e, "&")+"}")
	}
	sort.Strings(l)
	return strings.Join(l, "|")
}

// regrouped fills the requirement structures of all operations (and possibly the API-wide one) with
// different groupings of one entry list: A AND B next to A OR B in ONE API.
func regrouped(r *rand.Rand, d *gen.Desc) {
	n := 2 + r.Intn(3)
	if n == 4 && r.Intn(2) == 0 {
		n = 2 + r.Intn(2)
	}
	names := append([]string(nil), schemes...)
	r.Shuffle(len(names), func(i, j int) { names[i], names[j] = names[j], names[i] })
	names = names[:n]
	sort.Strings(names)
	scopes := map[string][]string{}
	for _, nm := range names {
		sc := []string{}
		if r.Intn(2) == 0 {
			for _, x := range scopePool {
				if r.Intn(3) == 0 {
					sc = append(sc, x)
				}
			}
		}
		scopes[nm] = sc
	}
	anon := -1
	if r.Intn(5) == 0 {
		anon = r.Intn(n + 1)
	}
	seen := map[string]bool{}
	draw := func(k int) []gen.SecReq {
		var alts []gen.SecReq
		for try := 0; try < 20; try++ {
			groups := 1 + r.Intn(n)
			switch {
			case k == 0 && try == 0 && r.Intn(2) == 0:
				groups = 1 // the AND of everything
			case k == 1 && try == 0 && r.Intn(2) == 0:
				groups = n // the OR of everything
			}
			alts = partition(r, names, scopes, groups, anon)
			if !seen[structureKey(alts)] {
				break
			}
		}
		seen[structureKey(alts)] = true
		return alts
	}
	global := r.Intn(3) == 0
	if global {
		d.Security = draw(0)
	} else {
		d.Security = nil
	}
	for i := range d.Ops {
		d.Ops[i].HasSecurity = false
		if global && i == 0 {
			d.Ops[i].Security = nil // inherits the API-wide grouping
			continue
		}
		d.Ops[i].Security = draw(i + 1)
	}
}

// grant scripts a credential that carries only some of the scopes.
func grant(r *rand.Rand) string {
	var g []string
	for _, x := range scopePool {
		if r.Intn(2) == 0 {
			g = append(g, x)
		}
	}
	return "g:" + strings.Join(g, ",")
}

var outcomes = []string{"n", "a", "z", "r"}
var variants = []string{"ct-text", "ct-malformed", "accept-text", "bad-json"}
var rejectKinds = []string{"r401", "r403", "r418", "rp403", "rplain"}
var authorizers = []string{"none", "none", "none", "accept", "accept", "deny-plain", "deny-403", "deny-409", "deny-401", "deny-503", "deny-wrapped-409"}

func genCase(r *rand.Rand, builds int, maxReq int) *Case {
	d := gen.Desc{BasePath: "/", SecDefs: map[string]gen.SecDef{}}
	otherTypes := r.Intn(4) == 0
	for _, s := range schemes {
		// oauth2 definitions carry the scopes; apiKey ones must have empty scope lists to be valid
		d.SecDefs[s] = gen.SecDef{Type: "oauth2", Scopes: map[string]string{"read": "r", "write": "w", "admin": "a"}}
		if otherTypes { // what kind of definition a scheme is changes nothing about how requirements are evaluated
			switch r.Intn(3) {
			case 0:
				d.SecDefs[s] = gen.SecDef{Type: "apiKey", Name: "X-Key-" + s, In: []string{"header", "query"}[r.Intn(2)]}
			case 1:
				d.SecDefs[s] = gen.SecDef{Type: "basic"}
			}
		}
	}
	if r.Intn(2) == 0 {
		d.Security = genAlts(r)
	}
	nops := 1 + r.Intn(3)
	regroup := r.Intn(4) == 0
	if regroup && nops == 1 {
		nops = 2 + r.Intn(2)
	}
	qparam := gen.Param{Name: "q", In: "query", Type: "integer", Format: "int32", Required: true}
	for i := 0; i < nops; i++ {
		op := gen.Op{ID: fmt.Sprintf("op%d", i), Method: "POST", Template: fmt.Sprintf("/o%d", i),
			Params:   []gen.Param{qparam, {Name: "body", In: "body"}},
			Consumes: []string{"application/json"}, Produces: []string{"application/json"}}
		if r.Intn(3) == 0 { // security does not depend on the method or on the shape of the path
			op.Method = []string{"PUT", "PATCH", "DELETE", "GET", "OPTIONS", "HEAD", "OPTIONS", "HEAD"}[r.Intn(8)]
		}
		// now and then on the path of an earlier operation, under another method
		if i > 0 && r.Intn(4) == 0 && shareTemplate(r, &d, &op) {
			// the path (and its parameter) is the earlier operation's
		} else if r.Intn(3) == 0 {
			op.Template += "/{id}"
			op.Params = append(op.Params, gen.Param{Name: "id", In: "path", Type: "string", Required: true})
		}
		switch r.Intn(6) {
		case 0: // inherit global
		case 1:
			if r.Intn(3) == 0 {
				op.HasSecurity = true // explicit empty list: no security
			}
		default:
			op.Security = genAlts(r)
		}
		d.Ops = append(d.Ops, op)
	}
	if regroup {
		regrouped(r, &d)
	}
	if r.Intn(4) == 0 {
		undeclare(r, &d)
	}
	c := &Case{Desc: d, Builds: builds}
	for _, s := range schemes {
		if r.Intn(7) != 0 {
			c.Registered = append(c.Registered, s)
		}
	}
	for _, s := range undeclaredNames {
		// an authenticator registered under a name that is no security definition of the document
		if r.Intn(2) == 0 {
			c.Registered = append(c.Registered, s)
		}
	}
	c.Authorizer = authorizers[r.Intn(len(authorizers))]
	if r.Intn(3) == 0 { // principals that are not non-empty strings
		c.PrincipalKinds = map[string]string{}
		for _, s := range allNames {
			if k := []string{"", "ptr", "map", "empty", "typednil"}[r.Intn(5)]; k != "" {
				c.PrincipalKinds[s] = k
			}
		}
	}
	for oi := range d.Ops {
		alts := alternatives(&d, &d.Ops[oi])
		used := map[string]bool{}
		for _, a := range alts {
			for s := range a {
				used[s] = true
			}
		}
		var us []string
		for s := range used {
			us = append(us, s)
		}
		sort.Strings(us)
		var vecs []map[string]string
		registered := map[string]bool{}
		for _, s := range c.Registered {
			registered[s] = true
		}
		// alphabet: the outcomes scripted for a scheme. An undeclared scheme with a registered authenticator is never
		// scripted to accept (whether such an authenticator may be consulted at all is not stated); without one
		// nothing reads the script
		alphabet := func(s string) []string {
			switch {
			case declared(c, s):
				return outcomes
			case registered[s]:
				return []string{"n", "z", "r"}
			}
			return []string{"n"}
		}
		total := 1
		for _, s := range us {
			total *= len(alphabet(s))
		}
		if len(us) <= 4 || (len(us) <= 6 && total <= 256) {
			for v := 0; v < total; v++ {
				o := map[string]string{}
				x := v
				for _, s := range us {
					al := alphabet(s)
					k := al[x%len(al)]
					x /= len(al)
					if k == "r" {
						k = rejectKinds[r.Intn(len(rejectKinds))]
					}
					if k == "a" && r.Intn(3) == 0 {
						k = grant(r)
					}
					o[s] = k
				}
				vecs = append(vecs, o)
			}
			r.Shuffle(len(vecs), func(i, j int) { vecs[i], vecs[j] = vecs[j], vecs[i] })
		} else {
			for v := 0; v < 200; v++ {
				o := map[string]string{}
				for _, s := range us {
					al := alphabet(s)
					k := al[r.Intn(len(al))]
					if k == "r" {
						k = rejectKinds[r.Intn(len(rejectKinds))]
					}
					if k == "a" && r.Intn(3) == 0 {
						k = grant(r)
					}
					o[s] = k
				}
				vecs = append(vecs, o)
			}
		}
		if len(vecs) > maxReq {
			vecs = vecs[:maxReq]
		}
		for _, o := range vecs {
			rq := Request{Op: oi, Outcomes: o, BadQuery: r.Intn(2) == 0, Body: r.Intn(2) == 0}
			if r.Intn(4) == 0 { // something else is wrong with the request
				rq.Variant = variants[r.Intn(len(variants))]
			}
			if r.Intn(3) == 0 { // header fields that are nobody's credential and that something might treat specially
				var others []string
				for oj := range d.Ops {
					if oj != oi {
						others = append(others, d.Ops[oj].Method)
					}
				}
				rq.Extra = decorate(r, others)
			}
			c.Requests = append(c.Requests, rq)
		}
	}
	return c
}

func run(m *mon.M) {
	r := m.Rand("structures")
	n := m.N(60, 900)
	builds := m.N(6, 24)
	rr := m.Rand("real-structures")
	for i := 0; i < n; i++ {
		c := genCase(r, builds, m.N(64, 256))
		m.Begin(c)
		runCase(m, c)
		if i%5 == 4 {
			// the second sub-workload (its own PRNG stream: the scripted cases are what they were): some of the
			// schemes are served by the library's authenticators, the credentials are spelled into the requests
			c := genCase(rr, builds, m.N(64, 256))
			if realize(rr, c) {
				m.Class("real:api")
				m.Begin(c)
				runCase(m, c)
			}
		}
	}
}

func replay(m *mon.M, raw json.RawMessage) {
	var c Case
	if err := json.Unmarshal(raw, &c); err != nil {
		m.Violate("bad-replay-case", err.Error(), nil)
		return
	}
	runCase(m, &c)
}
