package c02

import (
	"math/rand"
	"net/textproto"
	"sort"
	"strings"

	"verif/gen"
)

// ---------- every method of the description language, and requests decorated with headers ----------
//
// "whatever else is right or wrong with the request": what a secured operation answers does not depend on the
// method it is declared under, nor on header fields that are no credential of any scheme. The operations are
// declared under every method a Swagger 2.0 path item allows (GET PUT POST DELETE OPTIONS HEAD PATCH), some of them
// on ONE path (GET next to OPTIONS next to HEAD ...), and a share of the requests carries header fields that
// commonly get special treatment somewhere along a pipeline: the CORS preflight pair (Origin +
// Access-Control-Request-Method, with or without Access-Control-Request-Headers), either half of it alone,
// X-Forwarded-*, Forwarded, Upgrade, Expect, the method-override headers, Connection. None of them is the place of
// a credential of any generated scheme, so the oracle does not read them: the expectation is the one of the same
// request without them.

// methods: what a path item of the description language can declare.
var methods = []string{"GET", "PUT", "POST", "DELETE", "OPTIONS", "HEAD", "PATCH"}

// decorGroup: the group a decorating header field belongs to ("" = none of them).
func decorGroup(name string) string {
	switch n := textproto.CanonicalMIMEHeaderKey(name); {
	case n == "Origin":
		return "origin"
	case n == "Access-Control-Request-Method":
		return "acr-method"
	case n == "Access-Control-Request-Headers":
		return "acr-headers"
	case strings.HasPrefix(n, "X-Forwarded-") || n == "Forwarded" || n == "X-Real-Ip":
		return "forwarded"
	case n == "Upgrade":
		return "upgrade"
	case n == "Expect":
		return "expect"
	case n == "X-Http-Method-Override" || n == "X-Method-Override" || n == "X-Http-Method":
		return "method-override"
	case n == "Connection":
		return "connection"
	}
	return ""
}

// decorClass: the input class of the decorating header fields of a request, for signatures (input only):
// "" when there are none.
func decorClass(extra [][2]string) string {
	if len(extra) == 0 {
		return ""
	}
	set := map[string]bool{}
	for _, h := range extra {
		g := decorGroup(h[0])
		if g == "" {
			g = "other"
		}
		set[g] = true
	}
	if set["origin"] && set["acr-method"] {
		// the pair that makes an OPTIONS request a CORS preflight
		delete(set, "origin")
		delete(set, "acr-method")
		delete(set, "acr-headers")
		set["cors-preflight-pair"] = true
	}
	var l []string
	for g := range set {
		l = append(l, g)
	}
	sort.Strings(l)
	return "+hdr:" + strings.Join(l, ",")
}

// methodClass: the input class of the method of the operation, for signatures. The methods the monitor has driven
// from the start keep the signatures they had.
func methodClass(method string) string {
	switch method {
	case "OPTIONS", "HEAD":
		return "+method-" + method
	}
	return ""
}

var (
	origins       = []string{"https://app.example", "http://localhost:3000", "null", "https://evil.example"}
	upgrades      = []string{"websocket", "h2c", "TLS/1.0, HTTP/1.1"}
	overrideNames = []string{"X-HTTP-Method-Override", "X-HTTP-Method-Override", "X-Method-Override", "X-HTTP-Method"}
)

// decorate draws the decorating header fields of one request. others: the methods of the API's other operations
// (what a method override would most plausibly aim at).
func decorate(r *rand.Rand, others []string) [][2]string {
	anyMethod := func() string {
		if len(others) > 0 && r.Intn(2) == 0 {
			return others[r.Intn(len(others))]
		}
		return methods[r.Intn(len(methods))]
	}
	group := func(k int) [][2]string {
		switch k {
		case 0, 1, 2: // the preflight pair
			h := [][2]string{{"Origin", origins[r.Intn(len(origins))]}, {"Access-Control-Request-Method", anyMethod()}}
			if r.Intn(2) == 0 {
				h = append(h, [2]string{"Access-Control-Request-Headers", []string{"authorization", "content-type, x-key-s1", "x-out-s1"}[r.Intn(3)]})
			}
			return h
		case 3:
			return [][2]string{{"Origin", origins[r.Intn(len(origins))]}}
		case 4:
			h := [][2]string{{"Access-Control-Request-Method", anyMethod()}}
			if r.Intn(2) == 0 {
				h = append(h, [2]string{"Access-Control-Request-Headers", "authorization"})
			}
			return h
		case 5:
			h := [][2]string{{"X-Forwarded-For", []string{"127.0.0.1", "10.0.0.7, 192.168.1.1", "::1"}[r.Intn(3)]}}
			if r.Intn(2) == 0 {
				h = append(h, [2]string{"X-Forwarded-Proto", []string{"https", "http"}[r.Intn(2)]})
			}
			if r.Intn(2) == 0 {
				h = append(h, [2]string{"X-Forwarded-Host", []string{"localhost", "internal.example"}[r.Intn(2)]})
			}
			if r.Intn(3) == 0 {
				h = append(h, [2]string{"Forwarded", "for=127.0.0.1;proto=https;host=localhost"})
			}
			if r.Intn(3) == 0 {
				h = append(h, [2]string{"X-Real-Ip", "127.0.0.1"})
			}
			return h
		case 6:
			return [][2]string{{"Connection", []string{"Upgrade", "upgrade", "keep-alive, Upgrade"}[r.Intn(3)]}, {"Upgrade", upgrades[r.Intn(len(upgrades))]}}
		case 7:
			return [][2]string{{"Expect", "100-continue"}}
		case 8:
			return [][2]string{{overrideNames[r.Intn(len(overrideNames))], anyMethod()}}
		}
		return [][2]string{{"Connection", []string{"close", "keep-alive", "TE"}[r.Intn(3)]}}
	}
	h := group(r.Intn(10))
	if r.Intn(4) == 0 { // two groups at once
		seen := map[string]bool{}
		for _, x := range h {
			seen[textproto.CanonicalMIMEHeaderKey(x[0])] = true
		}
		for _, x := range group(r.Intn(10)) {
			if !seen[textproto.CanonicalMIMEHeaderKey(x[0])] {
				h = append(h, x)
			}
		}
	}
	return h
}

// shareTemplate puts the operation on the path of an earlier operation of the description, under a method that
// path does not declare yet. It reports whether it did.
func shareTemplate(r *rand.Rand, d *gen.Desc, op *gen.Op) bool {
	if len(d.Ops) == 0 {
		return false
	}
	prev := d.Ops[r.Intn(len(d.Ops))]
	taken := map[string]bool{}
	for _, o := range d.Ops {
		if o.Template == prev.Template {
			taken[o.Method] = true
		}
	}
	var free []string
	for _, mth := range methods {
		if !taken[mth] {
			free = append(free, mth)
		}
	}
	if len(free) == 0 {
		return false
	}
	if taken[op.Method] {
		op.Method = free[r.Intn(len(free))]
	}
	op.Template = prev.Template
	if strings.Contains(op.Template, "{id}") {
		op.Params = append(op.Params, gen.Param{Name: "id", In: "path", Type: "string", Required: true})
	}
	return true
}
