package c02

import (
	"context"
	"encoding/base64"
	"fmt"
	"math/rand"
	"net/http"
	"net/textproto"
	"net/url"
	"sort"
	"strings"

	oerrors "github.com/go-openapi/errors"
	"github.com/go-openapi/runtime"
	"github.com/go-openapi/runtime/security"

	"verif/gen"
	"verif/mon"
)

// ---------- the second sub-workload: the library's own authenticators ----------
//
// In a share of the APIs some of the schemes are served by security.APIKeyAuth[Ctx] (query and header),
// security.BasicAuth[Ctx] and security.BearerAuth[Ctx] instead of a scripted authenticator, so that "finds
// credentials in the request" is the library's code. Their callbacks accept or reject by the VALUE of the
// credential they are shown: a credential is the text <salt>~<outcome>~<scheme> (see tokenFor), and what it is
// worth is a function of that text alone (outcomeOfToken). The requests spell the credentials in the ways HTTP
// allows (percent-encoded parameter names and values, + and %20 for a space, the parameter repeated, parameters of
// similar names next to it, header names in any letter case). The per-scheme outcome the oracle works with is
// read off the request as it was sent: the query string decoded by net/url, the header found by its canonical
// name, the Basic credentials decoded from base64. The OR-of-ANDs oracle is the one of the scripted workload.

// Wire is how one request spells the credentials of the real schemes.
type Wire struct {
	// Query: raw (already escaped) fragments name=value, put into the request target in this order as they are;
	// the q parameter of the operation goes in at position QAt
	Query []string `json:"query,omitempty"`
	QAt   int      `json:"qAt,omitempty"`
	// Headers: header lines, the name as spelled by the client
	Headers [][2]string `json:"headers,omitempty"`
}

const accessTokenParam = "access_token"

// basicPass: the password that goes with every user name of the scheme.
func basicPass(scheme string) string { return "p:w " + scheme }

// tokenFor: the credential of the scheme that is worth the outcome.
func tokenFor(salt, scheme, outcome string) string {
	return salt + "~" + strings.NewReplacer(":", ".", ",", ".").Replace(outcome) + "~" + scheme
}

// outcomeOfToken: what the credential is worth to the scheme (a, z, r401 ..., g:<scopes>); a text that is no
// credential of the scheme is rejected with 401.
func outcomeOfToken(scheme, token string) string {
	parts := strings.Split(token, "~")
	if len(parts) != 3 || parts[2] != scheme {
		return "r401"
	}
	code := parts[1]
	switch code {
	case "a", "z", "r401", "r403", "r418", "rp403", "rplain":
		return code
	}
	if strings.HasPrefix(code, "g.") {
		return "g:" + strings.ReplaceAll(code[2:], ".", ",")
	}
	return "r401"
}

// realAuthenticator: the library's authenticator of the kind, with a callback that decides by credential value,
// behind a wrapper that only writes the call log.
func (s *sut) realAuthenticator(name, kind string, def gen.SecDef) runtime.Authenticator {
	decide := func(token string, scopes []string) (interface{}, error) {
		p, err := s.answer(name, outcomeFor(outcomeOfToken(name, token), scopes))
		return p, err
	}
	userPass := func(user, pass string) (interface{}, error) {
		if pass != basicPass(name) {
			_, err := s.answer(name, "r401")
			return nil, err
		}
		return decide(user, nil)
	}
	var inner runtime.Authenticator
	switch kind {
	case "key":
		inner = security.APIKeyAuth(def.Name, def.In, func(tok string) (interface{}, error) { return decide(tok, nil) })
	case "key-ctx":
		inner = security.APIKeyAuthCtx(def.Name, def.In, func(ctx context.Context, tok string) (context.Context, interface{}, error) {
			p, err := decide(tok, nil)
			return ctx, p, err
		})
	case "basic":
		inner = security.BasicAuth(userPass)
	case "basic-ctx":
		inner = security.BasicAuthCtx(func(ctx context.Context, u, pw string) (context.Context, interface{}, error) {
			p, err := userPass(u, pw)
			return ctx, p, err
		})
	case "bearer":
		inner = security.BearerAuth(name, decide)
	case "bearer-ctx":
		inner = security.BearerAuthCtx(name, func(ctx context.Context, tok string, scopes []string) (context.Context, interface{}, error) {
			p, err := decide(tok, scopes)
			return ctx, p, err
		})
	default:
		return nil
	}
	return runtime.AuthenticatorFunc(func(params interface{}) (bool, interface{}, error) {
		var scopes []string
		if sr, ok := params.(*security.ScopedAuthRequest); ok && sr != nil {
			scopes = append([]string(nil), sr.RequiredScopes...)
		}
		s.calls = append(s.calls, call{name, scopes})
		return inner.Authenticate(params)
	})
}

// answer: what a callback returns for the outcome its credential is worth.
func (s *sut) answer(name, out string) (interface{}, error) {
	switch out {
	case "a":
		return s.princ[name], nil
	case "r401":
		return nil, oerrors.New(401, "rejected-by-%s", name)
	case "r403":
		return nil, oerrors.New(403, "rejected-by-%s", name)
	case "r418":
		return nil, oerrors.New(418, "rejected-by-%s", name)
	case "rp403":
		return s.princ[name], oerrors.New(403, "rejected-by-%s", name)
	case "rplain":
		return nil, s.plain[name]
	}
	return nil, nil // z: accepted, no principal
}

// ---------- what the request carries ----------

const ambiguous = "?"

// worth: the outcome of the values a request carries for one credential: none = not applicable; several that are
// not one and the same = not judged (which of them is "the" credential is not stated).
func worth(scheme string, vals []string) string {
	if len(vals) == 0 {
		return "n"
	}
	for _, v := range vals[1:] {
		if v != vals[0] {
			return ambiguous
		}
	}
	if vals[0] == "" {
		return ambiguous // whether an empty value is a credential that was presented is not stated
	}
	return outcomeOfToken(scheme, vals[0])
}

// authorization: the one Authorization header of the request, split into scheme and the rest.
func authorization(req *http.Request) (scheme, rest string, n int) {
	vals := req.Header.Values("Authorization")
	if len(vals) != 1 {
		return "", "", len(vals)
	}
	v := vals[0]
	i := strings.IndexByte(v, ' ')
	if i < 0 {
		return v, "", 1
	}
	return v[:i], v[i+1:], 1
}

// carriedOutcomes: for every real scheme of the case, what the request carries for it, and how it is spelled
// (input class for signatures; "" = nothing carried). Decoding is net/url's and net/http's, not the library's.
func carriedOutcomes(c *Case, rq *Request, req *http.Request) (out map[string]string, classes map[string]string, err error) {
	out, classes = map[string]string{}, map[string]string{}
	q, qerr := url.ParseQuery(req.URL.RawQuery)
	if qerr != nil {
		return nil, nil, qerr
	}
	for name, kind := range c.RealAuth {
		def := c.Desc.SecDefs[name]
		switch strings.TrimSuffix(kind, "-ctx") {
		case "key":
			if strings.EqualFold(def.In, "query") {
				out[name] = worth(name, q[def.Name])
				classes[name] = queryClass("query-key", req.URL.RawQuery, def.Name)
			} else {
				// header names are case-insensitive: the header map is keyed by the canonical form
				out[name] = worth(name, req.Header.Values(def.Name))
				if out[name] != "n" {
					classes[name] = "header-key" + headerNameClass(rq, def.Name)
				}
			}
		case "basic":
			sch, rest, n := authorization(req)
			switch {
			case n == 0:
				out[name] = "n"
			case n > 1:
				out[name] = ambiguous
			case !strings.EqualFold(sch, "Basic"):
				out[name] = "n"
			default:
				raw, derr := base64.StdEncoding.DecodeString(rest)
				i := strings.IndexByte(string(raw), ':')
				switch {
				case derr != nil || i < 0:
					out[name] = ambiguous // credentials that are no user:password pair: not generated, not judged
				case string(raw[i+1:]) != basicPass(name):
					out[name] = "r401"
				default:
					out[name] = worth(name, []string{string(raw[:i])})
				}
				classes[name] = "basic"
				if sch != "Basic" {
					classes[name] += "/scheme-letter-case"
				}
			}
		case "bearer":
			sch, rest, n := authorization(req)
			switch {
			case n > 1:
				out[name] = ambiguous
			case n == 1 && strings.EqualFold(sch, "Bearer"):
				out[name] = worth(name, []string{rest})
				classes[name] = "bearer-header"
				if sch != "Bearer" {
					classes[name] += "/scheme-letter-case"
				}
				if len(q[accessTokenParam]) > 0 {
					out[name] = ambiguous // two methods of presenting one token: a client must not, nothing is stated
				}
			default:
				out[name] = worth(name, q[accessTokenParam])
				classes[name] = queryClass("bearer-query", req.URL.RawQuery, accessTokenParam)
			}
		}
	}
	return out, classes, nil
}

// queryClass: how the raw query spells the parameter (input only): "" when it does not carry it.
func queryClass(prefix, rawQuery, name string) string {
	n, namePct, valuePct := 0, false, false
	for _, frag := range strings.Split(rawQuery, "&") {
		k, v, _ := strings.Cut(frag, "=")
		dk, err := url.QueryUnescape(k)
		if err != nil || dk != name {
			continue
		}
		n++
		if k != url.QueryEscape(name) {
			namePct = true
		}
		if dv, err := url.QueryUnescape(v); err == nil && v != url.QueryEscape(dv) {
			valuePct = true
		}
	}
	if n == 0 {
		return ""
	}
	cl := prefix
	if namePct {
		cl += "/name-not-in-canonical-escaping"
	}
	if valuePct {
		cl += "/value-not-in-canonical-escaping"
	}
	if n > 1 {
		cl += "/repeated"
	}
	return cl
}

// headerNameClass: the letter case of the header name as the client spelled it and as the document defines it.
func headerNameClass(rq *Request, defName string) string {
	cl := ""
	canon := textproto.CanonicalMIMEHeaderKey(defName)
	if defName != canon {
		cl += "/defined-name-not-in-canonical-case"
	}
	if rq.Wire != nil {
		for _, h := range rq.Wire.Headers {
			if textproto.CanonicalMIMEHeaderKey(h[0]) == canon && h[0] != canon {
				cl += "/sent-name-not-in-canonical-case"
				break
			}
		}
	}
	return cl
}

// effective: the request with the outcome vector completed by what it carries for the real schemes, and the
// spelling classes of the credentials of the schemes the operation's requirements name. ok=false: not judged
// (ambiguous credentials; an unparsable query would be the generator's fault).
func effective(m *mon.M, c *Case, rq *Request) (eff Request, wireFeat string, ok bool) {
	eff = *rq
	if len(c.RealAuth) == 0 {
		return eff, "", true
	}
	req := buildRequest(c, rq)
	out, classes, err := carriedOutcomes(c, rq, req)
	if err != nil {
		m.Class("env:generated-query-does-not-parse")
		return eff, "", false
	}
	eff.Outcomes = map[string]string{}
	for k, v := range rq.Outcomes {
		if _, real := c.RealAuth[k]; !real {
			eff.Outcomes[k] = v
		}
	}
	named := map[string]bool{}
	for _, a := range alternatives(&c.Desc, &c.Desc.Ops[rq.Op]) {
		for sch := range a {
			named[sch] = true
		}
	}
	set := map[string]bool{}
	for k, v := range out {
		if v == ambiguous {
			if named[k] {
				m.Class("skip:real-scheme-credentials-ambiguous")
				return eff, "", false
			}
			v = "n" // a scheme the operation does not name is not consulted
		}
		eff.Outcomes[k] = v
		if named[k] && classes[k] != "" {
			set[classes[k]] = true
		}
	}
	var l []string
	for k := range set {
		l = append(l, k)
	}
	sort.Strings(l)
	wireFeat = "+real"
	if len(l) > 0 {
		wireFeat += ":" + strings.Join(l, ",")
	}
	return eff, wireFeat, true
}

// realClasses: evidence of what the second sub-workload drove (per request, first build).
func realClasses(m *mon.M, c *Case, rq *Request, wireFeat string) {
	named := map[string]bool{}
	for _, a := range alternatives(&c.Desc, &c.Desc.Ops[rq.Op]) {
		for sch := range a {
			named[sch] = true
		}
	}
	for sch, kind := range c.RealAuth {
		if !named[sch] {
			continue
		}
		k := strings.TrimSuffix(kind, "-ctx")
		if k == "key" {
			k += "-" + c.Desc.SecDefs[sch].In
		}
		o := rq.Outcomes[sch]
		if len(o) > 1 {
			o = o[:1]
		}
		m.Class("real:" + k + ":" + o)
	}
	if i := strings.IndexByte(wireFeat, ':'); i >= 0 {
		for _, cl := range strings.Split(wireFeat[i+1:], ",") {
			m.Class("real:spelling:" + cl)
		}
	}
}

// wireNote: the spelling of the credentials, for violation details.
func wireNote(c *Case, rq *Request) string {
	if len(c.RealAuth) == 0 {
		return ""
	}
	req := buildRequest(c, rq)
	return fmt.Sprintf(" ; real=%v target=%q authorization=%q wire=%+v", c.RealAuth, req.URL.RequestURI(), req.Header.Values("Authorization"), rq.Wire)
}

// ---------- generation ----------

const unreserved = "ABCDEFGHIJKLMNOPQRSTUVWXYZabcdefghijklmnopqrstuvwxyz0123456789-._~"

// spell writes s as a component of a query string. mode: 0 the canonical escaping (url.QueryEscape); 1 the same
// with %20 for a space; 2 one more byte percent-encoded that need not be; 3 every byte percent-encoded; 4 byte by
// byte at random, with some reserved characters that may stand for themselves in a query left as they are.
func spell(r *rand.Rand, s string, mode int) string {
	hex := func(b byte) string {
		if r.Intn(2) == 0 {
			return fmt.Sprintf("%%%02X", b)
		}
		return fmt.Sprintf("%%%02x", b)
	}
	extra := -1
	if mode == 2 && len(s) > 0 {
		extra = r.Intn(len(s))
	}
	var sb strings.Builder
	for i := 0; i < len(s); i++ {
		b := s[i]
		safe := strings.IndexByte(unreserved, b) >= 0
		switch {
		case mode == 3 || i == extra:
			sb.WriteString(hex(b))
		case b == ' ':
			switch {
			case mode == 0, mode == 2, mode == 4 && r.Intn(2) == 0:
				sb.WriteByte('+')
			default:
				sb.WriteString(hex(b))
			}
		case safe:
			if mode == 4 && r.Intn(3) == 0 {
				sb.WriteString(hex(b))
			} else {
				sb.WriteByte(b)
			}
		case mode == 4 && strings.IndexByte("/:,@!*'()$", b) >= 0 && r.Intn(2) == 0:
			sb.WriteByte(b)
		default:
			sb.WriteString(hex(b))
		}
	}
	return sb.String()
}

func spellPair(r *rand.Rand, name, value string) string {
	modes := []int{0, 1, 2, 2, 3, 4, 4}
	return spell(r, name, modes[r.Intn(len(modes))]) + "=" + spell(r, value, modes[r.Intn(len(modes))])
}

// letterCase rewrites the letters of a header name.
func letterCase(r *rand.Rand, name string) string {
	switch r.Intn(4) {
	case 0:
		return strings.ToLower(name)
	case 1:
		return strings.ToUpper(name)
	case 2:
		b := []byte(name)
		for i := range b {
			if r.Intn(2) == 0 {
				b[i] = strings.ToUpper(string(b[i]))[0]
			} else {
				b[i] = strings.ToLower(string(b[i]))[0]
			}
		}
		return string(b)
	}
	return textproto.CanonicalMIMEHeaderKey(name)
}

var (
	querySalts   = []string{"", "t", "a b", "x+y", "p&q=r", "100%", "é/ü", "a%41", "k;v"}
	headerSalts  = []string{"", "t", "a b", "x+y", "100%", "a%41", "p&q=r"}
	token68Salts = []string{"", "t", "x+y", "a/b", "-._"}
	queryNames   = []string{"api_key", "api_key", "key id", "clé", "k[]", "a.b-c", "Key", "api+key", "token%41"}
	headerNames  = []string{"X-Key-", "x-key-", "X-KEY-", "X-Api-key-", "Authorization-"}
)

// bearerSchemeLetterCase makes the generator also spell the auth-scheme of a bearer token in other letter cases ("bearer",
// "BEARER"; RFC 7235 section 2.1: the auth-scheme is case-insensitive, as net/http's BasicAuth treats "Basic").
// security.BearerAuth[Ctx] compared the prefix "Bearer " byte for byte, found no credentials in "Authorization: bearer <token>",
// and with [{oauth},{}] a rejected token was admitted anonymously. Ruled a defect, repaired in the library by aa968b7 and pinned.
const bearerSchemeLetterCase = true

// realize turns a generated case into one of the second sub-workload: some registered schemes that the requirements
// name get the library's authenticators, and the scripted outcomes of those schemes become credentials spelled
// into the requests. It reports whether anything was turned.
func realize(r *rand.Rand, c *Case) bool {
	registered := map[string]bool{}
	for _, s := range c.Registered {
		registered[s] = true
	}
	used := map[string]bool{}
	for _, a := range c.Desc.Security {
		for s := range a {
			used[s] = true
		}
	}
	for i := range c.Desc.Ops {
		for _, a := range c.Desc.Ops[i].Security {
			for s := range a {
				used[s] = true
			}
		}
	}
	var cands []string
	for _, s := range schemes {
		if used[s] && registered[s] && declared(c, s) {
			cands = append(cands, s)
		}
	}
	if len(cands) == 0 {
		return false
	}
	r.Shuffle(len(cands), func(i, j int) { cands[i], cands[j] = cands[j], cands[i] })
	n := 1 + r.Intn(len(cands))
	if n > 1 && r.Intn(3) == 0 {
		n = 1 + r.Intn(n)
	}
	c.RealAuth = map[string]string{}
	haveBasic, haveBearer := false, false
	usedNames := map[string]bool{}
	for _, s := range cands[:n] {
		kind := []string{"key-query", "key-query", "key-query", "key-header", "key-header", "basic", "bearer"}[r.Intn(7)]
		if (kind == "basic" && haveBasic) || (kind == "bearer" && haveBearer) {
			kind = "key-query"
		}
		ctx := ""
		if r.Intn(2) == 0 {
			ctx = "-ctx"
		}
		switch kind {
		case "key-query":
			name := queryNames[r.Intn(len(queryNames))]
			for usedNames[name] {
				name += strings.ToLower(s)
			}
			usedNames[name] = true
			c.Desc.SecDefs[s] = gen.SecDef{Type: "apiKey", Name: name, In: "query"}
			c.RealAuth[s] = "key" + ctx
		case "key-header":
			c.Desc.SecDefs[s] = gen.SecDef{Type: "apiKey", Name: headerNames[r.Intn(len(headerNames))] + s, In: "header"}
			c.RealAuth[s] = "key" + ctx
		case "basic":
			haveBasic = true
			c.Desc.SecDefs[s] = gen.SecDef{Type: "basic"}
			c.RealAuth[s] = "basic" + ctx
		case "bearer":
			haveBearer = true
			c.Desc.SecDefs[s] = gen.SecDef{Type: "oauth2", Scopes: map[string]string{"read": "r", "write": "w", "admin": "a"}}
			c.RealAuth[s] = "bearer" + ctx
		}
	}
	// apiKey and basic schemes take no scopes (and their callbacks are shown none)
	noScopes := func(alts []gen.SecReq) {
		for _, a := range alts {
			for s := range a {
				if k := c.RealAuth[s]; k != "" && !strings.HasPrefix(k, "bearer") {
					a[s] = []string{}
				}
			}
		}
	}
	noScopes(c.Desc.Security)
	for i := range c.Desc.Ops {
		noScopes(c.Desc.Ops[i].Security)
	}
	var reals []string
	for s := range c.RealAuth {
		reals = append(reals, s)
	}
	sort.Strings(reals)
	for ri := range c.Requests {
		rq := &c.Requests[ri]
		w := &Wire{}
		var basicSent bool
		// the basic scheme first: it decides whether the bearer token can go into the Authorization header
		order := append([]string(nil), reals...)
		sort.SliceStable(order, func(i, j int) bool {
			return strings.HasPrefix(c.RealAuth[order[i]], "basic") && !strings.HasPrefix(c.RealAuth[order[j]], "basic")
		})
		for _, s := range order {
			kind := strings.TrimSuffix(c.RealAuth[s], "-ctx")
			def := c.Desc.SecDefs[s]
			o := rq.Outcomes[s]
			delete(rq.Outcomes, s)
			if strings.HasPrefix(o, "g:") && kind != "bearer" {
				o = "a"
			}
			if o == "" && r.Intn(4) == 0 {
				// a scheme the operation does not name: its credentials, good or bad, are nobody's business
				o = []string{"a", "r403", "rplain"}[r.Intn(3)]
			}
			if o == "" || o == "n" {
				// nothing presented; now and then parameters that only look like the credential
				if kind == "key" && def.In == "query" && r.Intn(3) == 0 {
					decoy := tokenFor("d", s, "r403")
					switch r.Intn(3) {
					case 0:
						w.Query = append(w.Query, spellPair(r, "x"+def.Name, decoy))
					case 1:
						w.Query = append(w.Query, spellPair(r, def.Name+"x", decoy))
					default:
						w.Query = append(w.Query, spellPair(r, "other", def.Name+"="+decoy))
					}
				}
				continue
			}
			switch kind {
			case "key":
				if def.In == "query" {
					tok := tokenFor(querySalts[r.Intn(len(querySalts))], s, o)
					w.Query = append(w.Query, spellPair(r, def.Name, tok))
					if r.Intn(5) == 0 { // the same parameter twice, the same value
						w.Query = append(w.Query, spellPair(r, def.Name, tok))
					}
					if r.Intn(5) == 0 {
						w.Query = append(w.Query, spellPair(r, def.Name+"x", tokenFor("d", s, "r403")))
					}
				} else {
					tok := tokenFor(headerSalts[r.Intn(len(headerSalts))], s, o)
					w.Headers = append(w.Headers, [2]string{letterCase(r, def.Name), tok})
				}
			case "basic":
				basicSent = true
				tok := tokenFor(headerSalts[r.Intn(len(headerSalts))], s, o)
				pass := basicPass(s)
				if r.Intn(8) == 0 {
					pass = "not the password"
				}
				w.Headers = append(w.Headers, [2]string{letterCase(r, "Authorization"),
					[]string{"Basic", "Basic", "basic", "BASIC"}[r.Intn(4)] + " " + base64.StdEncoding.EncodeToString([]byte(tok+":"+pass))})
			case "bearer":
				tok := tokenFor(token68Salts[r.Intn(len(token68Salts))], s, o)
				if basicSent || r.Intn(2) == 0 {
					w.Query = append(w.Query, spellPair(r, accessTokenParam, tok))
				} else {
					sch := "Bearer"
					if bearerSchemeLetterCase {
						sch = []string{"Bearer", "Bearer", "bearer", "BEARER"}[r.Intn(4)]
					}
					w.Headers = append(w.Headers, [2]string{letterCase(r, "Authorization"), sch + " " + tok})
				}
			}
		}
		r.Shuffle(len(w.Query), func(i, j int) { w.Query[i], w.Query[j] = w.Query[j], w.Query[i] })
		w.QAt = r.Intn(len(w.Query) + 1)
		rq.Wire = w
	}
	return true
}

// target: the request target of a request with spelled credentials.
func (w *Wire) target(path, qfrag string) string {
	at := w.QAt
	if at < 0 || at > len(w.Query) {
		at = len(w.Query)
	}
	parts := append([]string(nil), w.Query[:at]...)
	parts = append(parts, qfrag)
	parts = append(parts, w.Query[at:]...)
	return path + "?" + strings.Join(parts, "&")
}
