package c19

import (
	"fmt"
	"io"
	"net/http"

	"github.com/go-openapi/errors"
	"github.com/go-openapi/loads"
	"github.com/go-openapi/runtime"
	"github.com/go-openapi/runtime/middleware"
	"github.com/go-openapi/runtime/middleware/untyped"

	"verif/gen"
	"verif/mon"
)

// served holds the handlers through which one validated API is exercised. Both are built from the SAME
// untyped.API value (the one Validate judged): the untyped pipeline, and the pipeline of a generated
// server (a RoutableAPI on a Context made by NewRoutableContext). Each is built when the first request
// needs it.
type served struct {
	d     *Desc
	g     *Reg // the registration set as generated (Then included)
	doc   *loads.Document
	api   *untyped.API
	rec   *recorder
	dhash string

	untyped, generated http.Handler
	failed             map[string]bool
}

// handler returns the handler of one pipeline (nil when its construction panicked: reported once).
func (s *served) handler(m *mon.M, via string) http.Handler {
	if s.failed[via] {
		return nil
	}
	var hp *http.Handler
	var build func() http.Handler
	switch via {
	case viaGenerated:
		hp, build = &s.generated, s.buildGenerated
	default:
		hp, build = &s.untyped, s.buildUntyped
	}
	if *hp != nil {
		return *hp
	}
	var h http.Handler
	pv, st := mon.Catch(func() { h = build() })
	if pv != nil || h == nil {
		if s.failed == nil {
			s.failed = map[string]bool{}
		}
		s.failed[via] = true
		m.Violate("serve/handler-construction-panic/"+modeName(s.g)+viaSuffix(via), fmt.Sprintf("building the handler of a validated API panicked: %v\n%s", pv, st), &Case{Desc: *s.d, Reg: *s.g})
		return nil
	}
	*hp = h
	return h
}

func viaSuffix(via string) string {
	if via == viaGenerated {
		return "/generated-server-path"
	}
	return ""
}

// buildUntyped: Context.APIHandler of a Context made by NewContext, or the Serve wrapper (the same thing
// by its documentation), by a hash of the case.
func (s *served) buildUntyped() http.Handler {
	if mon.Hash64(s.dhash+"|"+s.g.Kind+"|"+modeName(s.g)+"|serve")%2 == 0 {
		return middleware.Serve(s.doc, s.api)
	}
	return middleware.NewContext(s.doc, s.api, nil).APIHandler(nil)
}

// buildGenerated: the registrations of the validated API behind a RoutableAPI, one generated-style
// http.Handler per registered operation handler.
func (s *served) buildGenerated() http.Handler {
	g := gen.NewGeneratedAPI(s.api)
	rec := s.rec
	byName := map[string]*Op{}
	for i := range s.d.Ops {
		op := &s.d.Ops[i]
		byName[opName(op.Method, op.Path)] = op
	}
	for _, o := range finalReg(s.g).Ops {
		name := opName(o.Method, o.Path)
		op := byName[name]
		if op == nil {
			continue // cannot happen for a registration set that coincides with the description
		}
		g.Operation(o.Method, o.Path, gen.GeneratedOp{
			NewBinder:  func() middleware.RequestBinder { return &genBinder{op: op, rec: rec} },
			Authorized: len(effSecurity(s.d, op)) > 0,
			Handle: func(*http.Request, middleware.RequestBinder, interface{}) interface{} {
				rec.handled = append(rec.handled, name)
				return rec.result()
			},
		})
	}
	ctx := middleware.NewRoutableContext(s.doc, g, nil)
	g.SetContext(ctx)
	return ctx.APIHandler(nil)
}

// genBinder binds the way generated parameter code does: a form is parsed with net/http, a body is
// decoded with the consumer BindValidRequest selected on the route.
type genBinder struct {
	op  *Op
	rec *recorder
}

const maxFormMemory = 32 << 20

func (b *genBinder) BindRequest(r *http.Request, route *middleware.MatchedRoute) error {
	switch {
	case b.op.Form:
		if err := r.ParseMultipartForm(maxFormMemory); err != nil {
			if err != http.ErrNotMultipart {
				return errors.New(http.StatusBadRequest, "%v", err)
			}
			if err := r.ParseForm(); err != nil {
				return errors.New(http.StatusBadRequest, "%v", err)
			}
		}
		_ = r.FormValue("field")
	case b.op.Body:
		if !runtime.HasBody(r) {
			return nil
		}
		defer r.Body.Close()
		if route == nil || route.Consumer == nil {
			// generated code dereferences route.Consumer here
			b.rec.noConsumer = true
			return errors.New(http.StatusInternalServerError, "generated binder: no consumer was selected on the route")
		}
		var body map[string]interface{}
		if err := route.Consumer.Consume(r.Body, &body); err != nil && err != io.EOF {
			return errors.NewParseError("payload", "body", "", err)
		}
	}
	return nil
}
