package c19

import (
	"fmt"
	"math/rand"
)

// Wide descriptions: dozens of names in ONE category (operations, consumed or produced media types,
// security schemes). "Exactly when ... coincide" and "every missing and every superfluous item" are
// statements about sets of any size; the ordinary descriptions stay below a dozen names per category.

const (
	wideEvery     = 50 // one description in wideEvery is a wide one
	wideServeOps  = 8  // operations served per validated API of a wide description (a random sample)
	wideServeAPIs = 3  // validated APIs served per wide description
	wideNames     = 20 // a category with more names than this makes a description "wide"
)

// sizes around the powers of two, and a few in between
var wideSizes = []int{24, 31, 32, 33, 34, 40, 48, 63, 64, 65, 70, 100}

func isWide(d *Desc) bool {
	req := required(d, false)
	for c := range req {
		if len(req[c]) > wideNames {
			return true
		}
	}
	return false
}

func synthMedia(n int) []string {
	out := make([]string, n)
	for i := range out {
		out[i] = fmt.Sprintf("application/vnd.c19.t%02d+json", i)
	}
	return out
}

func genWideDesc(r *rand.Rand) *Desc {
	n := wideSizes[r.Intn(len(wideSizes))]
	d := &Desc{BasePath: basePaths[r.Intn(len(basePaths))]}
	d.Consumes = genConsumes(r, 35)
	d.Produces = genMedia(r, 30)
	addOp := func(method, path string) *Op {
		op := Op{Method: method, Path: path, Code: 200}
		if r.Intn(5) == 0 {
			op.Code = 201
		}
		op.Body = hasBodyMethod(method) && r.Intn(3) > 0
		d.Ops = append(d.Ops, op)
		return &d.Ops[len(d.Ops)-1]
	}
	// a few operations: distinct paths, 1-2 methods each
	fewOps := func(prefix string) {
		nops := 6 + r.Intn(5)
		for i := 0; len(d.Ops) < nops; i++ {
			p := fmt.Sprintf("/%s/r%02d", prefix, i)
			for _, mi := range r.Perm(len(methods))[:1+r.Intn(2)] {
				addOp(methods[mi], p)
			}
		}
	}
	switch r.Intn(5) {
	case 0, 1: // operations
		if r.Intn(2) == 0 {
			d.SecDefs = []SecDef{{Name: "key", Type: "apiKey"}}
			d.HasSec = true
			d.Security = []Alt{{"key": nil}}
		}
		for i := 0; len(d.Ops) < n; i++ {
			p := fmt.Sprintf("/bulk/r%02d", i)
			if r.Intn(6) == 0 {
				p += "/{id}"
			}
			k := 1 + r.Intn(3)
			for _, mi := range r.Perm(len(methods))[:k] {
				if len(d.Ops) == n {
					break
				}
				op := addOp(methods[mi], p)
				if r.Intn(5) == 0 {
					op.Consumes = genConsumes(r, 0)
				}
				if r.Intn(5) == 0 {
					op.Produces = genMedia(r, 0)
				}
			}
		}
	case 2: // consumed media types
		fewOps("in")
		for i, mt := range synthMedia(n) {
			op := &d.Ops[i%len(d.Ops)]
			op.Consumes = append(op.Consumes, mt)
		}
	case 3: // produced media types
		fewOps("out")
		for i, mt := range synthMedia(n) {
			op := &d.Ops[i%len(d.Ops)]
			op.Produces = append(op.Produces, mt)
		}
	default: // security schemes, each used by some operation
		fewOps("sec")
		for i := 0; i < n; i++ {
			sd := SecDef{Name: fmt.Sprintf("s%02d", i), Type: schemeTypes[r.Intn(len(schemeTypes))]}
			d.SecDefs = append(d.SecDefs, sd)
			op := &d.Ops[i%len(d.Ops)]
			op.HasSec = true
			if len(op.Security) > 0 && r.Intn(4) == 0 {
				// a second scheme in the last alternative
				op.Security[len(op.Security)-1][sd.Name] = nil
			} else {
				op.Security = append(op.Security, Alt{sd.Name: nil})
			}
		}
	}
	return d
}
