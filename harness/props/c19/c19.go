// Package c19 monitors API validation: untyped.API.Validate succeeds exactly when the
// registered consumers, producers, operation handlers and authenticators coincide with what the
// API description requires (and every declared security definition is used), reports the complete
// difference of the first failing category otherwise, and a validated API never fails a
// well-formed request for lack of a registration.
package c19

import (
	"encoding/json"
	stderrors "errors"
	"fmt"
	"io"
	"math/rand"
	"mime"
	"net/http"
	"net/http/httptest"
	"runtime/debug"
	"sort"
	"strings"

	"github.com/go-openapi/errors"
	"github.com/go-openapi/loads"
	"github.com/go-openapi/runtime"
	"github.com/go-openapi/runtime/middleware"
	"github.com/go-openapi/runtime/middleware/untyped"

	"verif/mon"
)

func init() {
	mon.Register(&mon.Property{
		ID:    "C19",
		Level: "exploration",
		Rule: "seeded Swagger 2.0 descriptions (base path, global and per-operation consumes/produces over 9 lower-case media types plus the two form media types on the consumes side, 0-4 security definitions, global/per-operation/cleared security with 1-2 scheme alternatives and anonymous, 0-6 operations over 7 methods; wide descriptions: see below) loaded with loads.Analyzed; " +
			"per description and JSON-defaults mode the registration sets: exact, every single omission, single additions per category (fresh media type, wildcard media type, media type with a parameter, fresh/other-method/path-case/trailing-slash operation (also substituted for the declared one), fresh/case-variant scheme, authenticator for a declared-but-unused definition), case variants of media types and methods, duplicates, random multi-category deltas, Register* calls made on the same API value AFTER a judged Validate (one superfluous item after a success, the one missing item after a failure, an existing key registered again) followed by another judged Validate, caller-assigned DefaultConsumes/DefaultProduces (a named media type); the root template '/' is declared now and then; " +
			"oracle = per-category set comparison computed from the generated description; Validate is called twice in a row on every API (same outcome required); every registration set that validates (exact, case variants, duplicates, application/json left to the JSON defaults, ...) is served, after the second Validate, through Context.APIHandler with >= 3 well-formed requests per operation (each consumes/produces type, charset parameter, upper-case media type, Accept forms incl. 'application/json, <declared>;q=0.9' and 'application/json, */*;q=0.8' on operations that produce no JSON, scripted 'does not apply' authenticators) using tagged stub consumers/producers/authenticators; one description in 20 is also validated with one media type in mixed case (registered as spelt: must validate) or with a parameter (outcome classed 'probe:nonlower-description/...', not judged). " +
			"One description in 8 is also turned into one that names 1-2 media types in a FURTHER SPELLING (letter case: text/csv and text/CSV) within one category - in the same list, or in another list of the category (global list, another operation's list: appended, or in place of the spelling that stands there); it gets the same registration sets (exact = every type once, every single omission, the additions, case variants, duplicates, Register* between two validations, multi-category deltas) plus 1, 2 and 3 superfluous consumers / producers in both JSON-defaults modes; " +
			"validation only (outside the serving clause), required set = the media types with letter case folded; signatures of these descriptions end in /description-spells-a-type-two-ways. " +
			"Consumes lists name multipart/form-data and application/x-www-form-urlencoded now and then (next to other types or alone; an operation whose own consumes list names form types only declares a formData parameter two times in three, and is sent real forms); DELETE and OPTIONS operations declare and are sent bodies too; the anonymous security alternative comes first or last, and an operation that has one also gets a request on which every scheme 'does not apply'; one registration set per description also registers an allow-all authorizer. " +
			"One operation in six declares 204 as its success status (200/201 otherwise), and one description in ten is command-style: no produces at any level, two operations in three answering 204 - validated without JSON defaults such an API holds no producer at all and is served like every other. " +
			"One description in 50 is WIDE: 24-100 names in one category (operations /bulk/rNN, consumed or produced media types application/vnd.c19.tNN+json, security schemes sNN each used by an operation), with the same registration sets (every single omission included); its first 3 validated APIs are served, 8 sampled operations each. " +
			"Every request is sent through one of two pipelines built from the SAME validated untyped.API value: the untyped one (Context.APIHandler of NewContext, or middleware.Serve), or - one request in three - the one of a generated server (gen.GeneratedAPI: a RoutableAPI on a Context made by NewRoutableContext whose operation handlers run RouteInfo, Authorize, BindValidRequest with a RequestBinder that parses forms with net/http and decodes bodies with route.Consumer, the handler, Respond); on every second request the handler returns a middleware.Responder that writes the declared status and calls the producer it is handed (judged like a plain value: status, announced media type, the stub producer that wrote; plus: BindValidRequest must have selected a consumer for a body the binder decodes, the Responder must be handed a producer). " +
			"non-trivial = (description, registration set) with a non-empty delta, distinct by (description hash, delta); and (description, mode, registration kind, operation, request shape) served by a validated API whose description names >= 2 media types",
		Assumptions: []string{
			"descriptions name media types in lower case, without parameters or wildcards (the statement's serving clause is restricted to these); case variants are exercised on the registration side, where a media type registered in another letter case counts as that media type and a method in another letter case as that method; paths and scheme names are compared exactly",
			"a description that names one media type in two spellings which differ by letter case only (within one list, or in the lists of two operations) requires that media type ONCE: the registry holds one consumer / producer per media type whatever the letter case (the ruling for a description that names a type in mixed case), so the registrations coincide with the requirements exactly when every such type is registered once and nothing else is; a superfluous registration is owed its report however many spellings the description uses",
			"every security requirement names a declared security definition (valid Swagger); 'consumes'/'produces' are never present-but-empty",
			"a media type or scheme named only globally and overridden by every operation is required under the reading 'everything the description names' and not under the reading 'everything some operation uses': the oracle accepts an outcome that is consistent with either reading, but for one category only ONE reading over the whole run: a validation that only the first reading explains and another that only the second explains, for the same category, are a violation (success would be 'exactly when' under neither)",
			"the statement fixes neither the order of reported names nor, for the security-definitions category, which of the two lists carries an unused definition: names are compared as sets (duplicates refused), and for that category the union of both lists is compared",
			"for an operation for which no produces exists at any level (and no JSON default) requests are sent (Accept absent or */*) and the route, the authenticators consulted, the handler reached and the consumer used are judged; only what happens after the handler returned is not (a \"can't find a producer\" failure there is tolerated: no registration could have prevented it; the same failure before the handler ran is a violation) - EXCEPT when the answer carries no body (declared success status 204, or a HEAD operation) and the handler returns a plain value: nothing is encoded, no producer is needed, so a \"can't find a producer\" failure there is a request failed for lack of a registered producer (violation) and the declared status is due. Not judged (counted as skipped): sending a body to an operation for which no consumes exists at any level",
			"authenticator stubs either succeed with a principal or do not apply; erroring authenticators and authorizers belong to C02",
			"a request body is well-formed for its media type: a form for the two form media types (with a boundary for multipart), a JSON object otherwise; the stub consumer registered for a form media type accepts the form as it is. An operation with a formData parameter is sent only the form media types its own consumes list names (not the API-wide default media type)",
			"a description that cannot be loaded (go-openapi/loads is not the code under test) is counted ('harness:description-not-loadable') and dropped, not judged",
			"a media type the caller assigns to API.DefaultConsumes / DefaultProduces (always one the description names, hence registered) is treated like the JSON default: every operation may be sent it and may answer with it",
		},
		MinNontrivial: 3000,
		Run:           run,
		Replay:        replay,
	})
}

// ---- case model ----

// Alt is one security alternative: scheme name -> scopes; empty = anonymous.
type Alt map[string][]string

// SecDef is one security definition.
type SecDef struct {
	Name string `json:"name"`
	Type string `json:"type"` // basic | apiKey | oauth2
}

// Op is one operation of the description.
type Op struct {
	Method   string   `json:"method"` // lower-case key of the path item
	Path     string   `json:"path"`
	Consumes []string `json:"consumes,omitempty"`
	Produces []string `json:"produces,omitempty"`
	HasSec   bool     `json:"has_security,omitempty"` // "security" present (possibly [] = clears the global one)
	Security []Alt    `json:"security,omitempty"`
	Body     bool     `json:"body,omitempty"` // declares an optional body parameter
	// Form: declares an optional formData parameter "field" (instead of a body parameter); only on operations
	// whose own consumes list names form media types only
	Form bool `json:"form,omitempty"`
	Code int  `json:"code"`
}

// Desc is the structural description the Swagger document is rendered from.
type Desc struct {
	BasePath string   `json:"base_path"`
	Consumes []string `json:"consumes,omitempty"`
	Produces []string `json:"produces,omitempty"`
	HasSec   bool     `json:"has_security,omitempty"`
	Security []Alt    `json:"security,omitempty"`
	SecDefs  []SecDef `json:"security_definitions,omitempty"`
	Ops      []Op     `json:"operations"`
}

// OpReg is one RegisterOperation call.
type OpReg struct {
	Method string `json:"method"`
	Path   string `json:"path"`
}

// Reg is one registration set, as passed to the Register* functions.
type Reg struct {
	Kind           string   `json:"kind"`
	NoJSONDefaults bool     `json:"without_json_defaults,omitempty"`
	Consumers      []string `json:"consumers"`
	Producers      []string `json:"producers"`
	Ops            []OpReg  `json:"operations"`
	Auths          []string `json:"authenticators"`
	// ThenToggle: after a first Validate, the JSON defaults of the same API value are switched
	// (WithoutJSONDefaults / WithJSONDefaults) and Validate is called again
	ThenToggle bool `json:"then_toggle_json_defaults,omitempty"`
	// Then: after the (twice) judged Validate these further Register* calls are made on the SAME API
	// value and Validate is called again; the API that is served is the one after these calls
	Then *Delta `json:"then_register,omitempty"`
	// DefaultConsumes / DefaultProduces: the caller assigns the public fields of the API value (a media
	// type the description names, hence registered) before validating
	DefaultConsumes string `json:"default_consumes,omitempty"`
	DefaultProduces string `json:"default_produces,omitempty"`
	// Authorizer: an authorizer that allows everything is registered as well (not one of the statement's
	// categories: it changes nothing about validation, and the validated API is served through it)
	Authorizer bool `json:"authorizer,omitempty"`
}

// Delta is a list of further Register* calls.
type Delta struct {
	Consumers []string `json:"consumers,omitempty"`
	Producers []string `json:"producers,omitempty"`
	Ops       []OpReg  `json:"operations,omitempty"`
	Auths     []string `json:"authenticators,omitempty"`
}

// finalReg is the registration set the API holds after the Then calls.
func finalReg(g *Reg) *Reg {
	if g.Then == nil {
		return g
	}
	f := cloneReg(*g, g.Kind)
	f.Then = nil
	f.Consumers = append(f.Consumers, g.Then.Consumers...)
	f.Producers = append(f.Producers, g.Then.Producers...)
	f.Ops = append(f.Ops, g.Then.Ops...)
	f.Auths = append(f.Auths, g.Then.Auths...)
	return &f
}

// Req is one well-formed request to an operation of a validated API.
type Req struct {
	Op          int      `json:"op"`
	ContentType string   `json:"content_type,omitempty"` // "" = no body
	Accept      string   `json:"accept,omitempty"`
	Deny        []string `json:"deny,omitempty"` // schemes whose authenticator answers "does not apply"
	Shape       string   `json:"shape"`
	// Via: "" = the untyped pipeline (Context.APIHandler over the untyped.API: BindAndValidate, Respond);
	// "generated" = the way a generated server serves: a RoutableAPI holding the same registrations, on a
	// Context made by NewRoutableContext, whose operation handlers run RouteInfo, Authorize,
	// BindValidRequest (with a RequestBinder that decodes with route.Consumer), the handler and Respond
	Via string `json:"via,omitempty"`
	// Responder: the operation handler returns a middleware.Responder, which writes the declared status
	// and calls the producer it is handed (instead of returning a plain value)
	Responder bool `json:"responder,omitempty"`
}

const viaGenerated = "generated"

// Case is the replayable unit: one description, one registration set, optionally one request.
type Case struct {
	Desc Desc `json:"desc"`
	Reg  Reg  `json:"reg"`
	Req  *Req `json:"req,omitempty"`
	// Other is validated before this case, in the same process: the earlier half of an observation
	// about two validations (one reading of "requires" for one category, see noteReading)
	Other *Case `json:"other,omitempty"`
}

// ---- rendering the Swagger document ----

func altsJSON(alts []Alt) []interface{} {
	out := make([]interface{}, 0, len(alts))
	for _, a := range alts {
		m := map[string]interface{}{}
		for k, v := range a {
			if v == nil {
				v = []string{}
			}
			m[k] = v
		}
		out = append(out, m)
	}
	return out
}

func render(d *Desc) []byte {
	doc := map[string]interface{}{
		"swagger": "2.0",
		"info":    map[string]interface{}{"title": "generated", "version": "1"},
	}
	if d.BasePath != "" {
		doc["basePath"] = d.BasePath
	}
	if len(d.Consumes) > 0 {
		doc["consumes"] = d.Consumes
	}
	if len(d.Produces) > 0 {
		doc["produces"] = d.Produces
	}
	if d.HasSec {
		doc["security"] = altsJSON(d.Security)
	}
	if len(d.SecDefs) > 0 {
		defs := map[string]interface{}{}
		for _, sd := range d.SecDefs {
			switch sd.Type {
			case "basic":
				defs[sd.Name] = map[string]interface{}{"type": "basic"}
			case "apiKey":
				defs[sd.Name] = map[string]interface{}{"type": "apiKey", "in": "header", "name": "X-" + sd.Name}
			default:
				defs[sd.Name] = map[string]interface{}{"type": "oauth2", "flow": "implicit",
					"authorizationUrl": "https://example.com/auth", "scopes": map[string]interface{}{"read": "r", "write": "w"}}
			}
		}
		doc["securityDefinitions"] = defs
	}
	paths := map[string]interface{}{}
	for _, op := range d.Ops {
		pi, _ := paths[op.Path].(map[string]interface{})
		if pi == nil {
			pi = map[string]interface{}{}
			paths[op.Path] = pi
		}
		o := map[string]interface{}{
			"responses": map[string]interface{}{fmt.Sprint(op.Code): map[string]interface{}{"description": "ok"}},
		}
		if len(op.Consumes) > 0 {
			o["consumes"] = op.Consumes
		}
		if len(op.Produces) > 0 {
			o["produces"] = op.Produces
		}
		if op.HasSec {
			o["security"] = altsJSON(op.Security)
		}
		var params []interface{}
		for _, name := range placeholders(op.Path) {
			params = append(params, map[string]interface{}{"name": name, "in": "path", "required": true, "type": "string"})
		}
		if op.Body && !op.Form {
			params = append(params, map[string]interface{}{"name": "payload", "in": "body", "required": false,
				"schema": map[string]interface{}{"type": "object"}})
		}
		if op.Form {
			params = append(params, map[string]interface{}{"name": "field", "in": "formData", "required": false, "type": "string"})
		}
		if len(params) > 0 {
			o["parameters"] = params
		}
		pi[op.Method] = o
	}
	doc["paths"] = paths
	b, _ := json.Marshal(doc)
	return b
}

func placeholders(p string) []string {
	var out []string
	for {
		i := strings.IndexByte(p, '{')
		if i < 0 {
			return out
		}
		j := strings.IndexByte(p[i:], '}')
		if j < 0 {
			return out
		}
		out = append(out, p[i+1:i+j])
		p = p[i+j+1:]
	}
}

// ---- the oracle: requirements computed from the generated description ----

type strset map[string]bool

func (s strset) sorted() []string {
	l := make([]string, 0, len(s))
	for k := range s {
		l = append(l, k)
	}
	sort.Strings(l)
	return l
}

func (s strset) minus(o strset) strset {
	r := strset{}
	for k := range s {
		if !o[k] {
			r[k] = true
		}
	}
	return r
}

func (s strset) equal(o strset) bool {
	if len(s) != len(o) {
		return false
	}
	for k := range s {
		if !o[k] {
			return false
		}
	}
	return true
}

func setOf(l []string) strset {
	s := strset{}
	for _, e := range l {
		s[e] = true
	}
	return s
}

const (
	catConsumes = iota
	catProduces
	catOperation
	catAuth
	catSecDefs
	nCats
)

var catNames = [nCats]string{"consumes", "produces", "operation", "auth-scheme", "security-definitions"}

// sectionCat maps the Section of errors.APIVerificationFailed to the statement's categories.
var sectionCat = map[string]int{"consumes": catConsumes, "produces": catProduces, "operation": catOperation,
	"auth scheme": catAuth, "security definitions": catSecDefs}

func opName(method, path string) string { return strings.ToUpper(method) + " " + path }

func altNames(alts []Alt, into strset) {
	for _, a := range alts {
		for k := range a {
			into[k] = true
		}
	}
}

// required computes what the description requires per category. effective=false: everything
// the description names at any level; effective=true: everything that is in force for at least
// one operation (operation level overrides the global level).
func required(d *Desc, effective bool) [nCats]strset {
	var r [nCats]strset
	for i := range r {
		r[i] = strset{}
	}
	// a media type is one requirement however the description spells it (letter case): two spellings of one type, in one
	// list or in the lists of two operations, are the same required consumer / producer (the registry holds one entry for it)
	if !effective {
		for _, c := range d.Consumes {
			r[catConsumes][strings.ToLower(c)] = true
		}
		for _, p := range d.Produces {
			r[catProduces][strings.ToLower(p)] = true
		}
		if d.HasSec {
			altNames(d.Security, r[catAuth])
		}
	}
	for i := range d.Ops {
		op := &d.Ops[i]
		r[catOperation][opName(op.Method, op.Path)] = true
		if effective {
			for _, c := range effConsumes(d, op) {
				r[catConsumes][strings.ToLower(c)] = true
			}
			for _, p := range effProduces(d, op) {
				r[catProduces][strings.ToLower(p)] = true
			}
			altNames(effSecurity(d, op), r[catAuth])
		} else {
			for _, c := range op.Consumes {
				r[catConsumes][strings.ToLower(c)] = true
			}
			for _, p := range op.Produces {
				r[catProduces][strings.ToLower(p)] = true
			}
			if op.HasSec {
				altNames(op.Security, r[catAuth])
			}
		}
	}
	// the schemes that are used are what the declared definitions are compared with
	r[catSecDefs] = r[catAuth]
	return r
}

func effConsumes(d *Desc, op *Op) []string {
	if len(op.Consumes) > 0 {
		return op.Consumes
	}
	return d.Consumes
}

func effProduces(d *Desc, op *Op) []string {
	if len(op.Produces) > 0 {
		return op.Produces
	}
	return d.Produces
}

func effSecurity(d *Desc, op *Op) []Alt {
	if op.HasSec {
		return op.Security
	}
	if d.HasSec {
		return d.Security
	}
	return nil
}

// registered computes the registration sets that result from a Reg (media types and methods are
// case-insensitive; the JSON defaults register application/json on both sides).
func registered(d *Desc, g *Reg) [nCats]strset {
	var r [nCats]strset
	for i := range r {
		r[i] = strset{}
	}
	if !g.NoJSONDefaults {
		r[catConsumes]["application/json"] = true
		r[catProduces]["application/json"] = true
	}
	for _, c := range g.Consumers {
		r[catConsumes][strings.ToLower(c)] = true
	}
	for _, p := range g.Producers {
		r[catProduces][strings.ToLower(p)] = true
	}
	for _, o := range g.Ops {
		r[catOperation][opName(o.Method, o.Path)] = true
	}
	for _, a := range g.Auths {
		r[catAuth][a] = true
	}
	for _, sd := range d.SecDefs {
		r[catSecDefs][sd.Name] = true
	}
	return r
}

type verdict struct {
	cat     int // -1 = validation succeeds
	missing strset
	extra   strset
}

func (v verdict) String() string {
	if v.cat < 0 {
		return "success"
	}
	return fmt.Sprintf("failure in %q: missing=%v superfluous=%v", catNames[v.cat], v.missing.sorted(), v.extra.sorted())
}

func expect(req, reg [nCats]strset) verdict {
	for c := 0; c < nCats; c++ {
		missing := req[c].minus(reg[c])
		extra := reg[c].minus(req[c])
		if len(missing) > 0 || len(extra) > 0 {
			return verdict{cat: c, missing: missing, extra: extra}
		}
	}
	return verdict{cat: -1}
}

type observation struct {
	ok       bool
	cat      int
	section  string
	missReg  []string
	missSpec []string
	other    string // error of another type
	dup      bool
}

func (o observation) String() string {
	if o.ok {
		return "success"
	}
	if o.other != "" {
		return "error of another type: " + o.other
	}
	return fmt.Sprintf("failure in section %q: MissingRegistration=%v MissingSpecification=%v", o.section, o.missReg, o.missSpec)
}

func normItems(cat int, l []string) (strset, bool) {
	s := strset{}
	dup := false
	for _, e := range l {
		switch cat {
		case catConsumes, catProduces:
			e = strings.ToLower(e)
		case catOperation:
			if i := strings.IndexByte(e, ' '); i >= 0 {
				e = strings.ToUpper(e[:i]) + e[i:]
			}
		}
		if s[e] {
			dup = true
		}
		s[e] = true
	}
	return s, dup
}

func agrees(o observation, v verdict) bool {
	if v.cat < 0 {
		return o.ok
	}
	if o.ok || o.other != "" || o.cat != v.cat {
		return false
	}
	mr, _ := normItems(o.cat, o.missReg)
	ms, _ := normItems(o.cat, o.missSpec)
	if v.cat == catSecDefs {
		all := strset{}
		for k := range mr {
			all[k] = true
		}
		for k := range ms {
			all[k] = true
		}
		want := strset{}
		for k := range v.missing {
			want[k] = true
		}
		for k := range v.extra {
			want[k] = true
		}
		return all.equal(want)
	}
	return mr.equal(v.missing) && ms.equal(v.extra)
}

// ---- stubs ----

type recorder struct {
	consumed []string
	produced []string
	authed   []string // schemes whose authenticator was called
	handled  []string
	deny     map[string]bool
	// set per request
	responder bool // the operation handlers return a middleware.Responder
	code      int  // the status such a Responder writes
	// observed per request
	responderCalls int
	nilProducer    bool // the Responder was handed no producer
	noConsumer     bool // the generated binder found no consumer selected on the route for a body it must decode
	authorized     int  // calls of the registered authorizer
}

// result is what an operation handler returns.
func (rec *recorder) result() interface{} {
	payload := map[string]interface{}{"ok": true}
	if !rec.responder {
		return payload
	}
	code := rec.code
	// what a generated responder does: the status, then the payload through the producer it was given
	return middleware.ResponderFunc(func(rw http.ResponseWriter, p runtime.Producer) {
		rec.responderCalls++
		if p == nil {
			rec.nilProducer = true
			return
		}
		rw.WriteHeader(code)
		if code == http.StatusNoContent {
			return // (a generated 204 responder has no payload to write)
		}
		if err := p.Produce(rw, payload); err != nil {
			panic(err)
		}
	})
}

var formTypes = []string{runtimeMultipart, runtimeURLEncoded}

// spelt out here: the oracle does not take its vocabulary from the library
const (
	runtimeMultipart  = "multipart/form-data"
	runtimeURLEncoded = "application/x-www-form-urlencoded"
)

func isFormType(mt string) bool { return mt == runtimeMultipart || mt == runtimeURLEncoded }

func buildAPI(doc *loads.Document, g *Reg, rec *recorder) *untyped.API {
	api := untyped.NewAPI(doc)
	if g.NoJSONDefaults {
		api = api.WithoutJSONDefaults()
	}
	if g.DefaultConsumes != "" {
		api.DefaultConsumes = g.DefaultConsumes
	}
	if g.DefaultProduces != "" {
		api.DefaultProduces = g.DefaultProduces
	}
	if g.Authorizer {
		api.RegisterAuthorizer(runtime.AuthorizerFunc(func(*http.Request, interface{}) error {
			rec.authorized++
			return nil
		}))
	}
	register(api, &Delta{Consumers: g.Consumers, Producers: g.Producers, Ops: g.Ops, Auths: g.Auths}, rec)
	return api
}

// register makes the Register* calls of one list on an API value (tagged stubs).
func register(api *untyped.API, g *Delta, rec *recorder) {
	for _, c := range g.Consumers {
		tag := strings.ToLower(c)
		api.RegisterConsumer(c, runtime.ConsumerFunc(func(r io.Reader, target interface{}) error {
			rec.consumed = append(rec.consumed, tag)
			b, err := io.ReadAll(r)
			if err != nil {
				return err
			}
			if isFormType(tag) {
				// the payload sent with a form media type is a form, not JSON: the stub takes it as it is
				return nil
			}
			return json.Unmarshal(b, target)
		}))
	}
	for _, p := range g.Producers {
		tag := strings.ToLower(p)
		api.RegisterProducer(p, runtime.ProducerFunc(func(w io.Writer, _ interface{}) error {
			rec.produced = append(rec.produced, tag)
			_, err := io.WriteString(w, "P("+tag+")")
			return err
		}))
	}
	for _, o := range g.Ops {
		name := opName(o.Method, o.Path)
		api.RegisterOperation(o.Method, o.Path, runtime.OperationHandlerFunc(func(interface{}) (interface{}, error) {
			rec.handled = append(rec.handled, name)
			return rec.result(), nil
		}))
	}
	for _, a := range g.Auths {
		scheme := a
		api.RegisterAuth(a, runtime.AuthenticatorFunc(func(interface{}) (bool, interface{}, error) {
			rec.authed = append(rec.authed, scheme)
			if rec.deny[scheme] {
				return false, nil, nil
			}
			return true, "principal-" + scheme, nil
		}))
	}
}

func observe(err error) observation {
	if err == nil {
		return observation{ok: true, cat: -1}
	}
	var vf *errors.APIVerificationFailed
	if !stderrors.As(err, &vf) {
		return observation{other: fmt.Sprintf("%T: %v", err, err)}
	}
	o := observation{section: vf.Section, missReg: vf.MissingRegistration, missSpec: vf.MissingSpecification}
	cat, ok := sectionCat[vf.Section]
	if !ok {
		o.other = "unknown section " + vf.Section
		return o
	}
	o.cat = cat
	_, d1 := normItems(cat, vf.MissingRegistration)
	_, d2 := normItems(cat, vf.MissingSpecification)
	o.dup = d1 || d2
	return o
}

func kindClass(kind string) string {
	if i := strings.IndexByte(kind, ':'); i >= 0 {
		return kind[:i]
	}
	return kind
}

func modeName(g *Reg) string {
	if g.NoJSONDefaults {
		return "without-json-defaults"
	}
	return "json-defaults"
}

// judgeValidate builds the API for one registration set, validates it and compares with the
// oracle. It returns the API and whether it validated.
func judgeValidate(m *mon.M, d *Desc, doc *loads.Document, dhash string, g *Reg, rec *recorder) (*untyped.API, bool) {
	api, ok := judgeValidate0(m, d, doc, dhash, g, rec)
	if g.Then == nil || api == nil {
		return api, ok
	}
	return api, revalidateAfterRegister(m, d, g, api, rec, ok)
}

// revalidateAfterRegister: Register* calls made on an API value that was validated before count: the
// next Validate judges the registrations the value holds then. Returns whether it validated.
func revalidateAfterRegister(m *mon.M, d *Desc, g *Reg, api *untyped.API, rec *recorder, firstOK bool) bool {
	m.Eval(1)
	cas := &Case{Desc: *d, Reg: *g}
	step := strings.TrimPrefix(g.Kind, "then-register:")
	if step == g.Kind {
		step = "other"
	}
	step += descFeature(d)
	var err, errAgain error
	pv, st := mon.Catch(func() {
		register(api, g.Then, rec)
		err = api.Validate()
		errAgain = api.Validate()
	})
	if pv != nil {
		m.Violate("revalidation-after-register/panic/"+step, fmt.Sprintf("%v\n%s", pv, st), cas)
		return false
	}
	obs := observe(err)
	first := "succeeded"
	if !firstOK {
		first = "failed"
	}
	if again := observe(errAgain); !sameObservation(obs, again) {
		m.Violate("second-validate-differs/then-register", fmt.Sprintf("after the later registrations Validate -> %s; called again at once -> %s", obs, again), cas)
	}
	f := finalReg(g)
	reg := registered(d, f)
	named := expect(required(d, false), reg)
	inForce := expect(required(d, true), reg)
	m.Class("validate:again-after-register/" + step)
	if named.cat >= 0 {
		m.Class("validate:again-after-register/expected-failure")
	} else {
		m.Class("validate:again-after-register/expected-success")
	}
	if obs.dup {
		m.Violate("duplicate-name-in-report/"+catNames[obs.cat]+"/then-register", "a name is reported twice: "+obs.String(), cas)
	}
	if agrees(obs, named) || agrees(obs, inForce) {
		return obs.ok
	}
	detail := fmt.Sprintf("first Validate %s; then registered on the same API value %s; Validate -> %s; the description requires, for the registrations the API now holds -> %s (or, counting only what is in force for some operation -> %s); registration kind %s, %s\ndescription: %s",
		first, thenText(g.Then), obs, named, inForce, g.Kind, modeName(g), render(d))
	switch {
	case obs.other != "":
		m.Violate("revalidation-after-register/other-error/"+step, detail, cas)
	case obs.ok:
		m.Violate("revalidation-after-register/accepts-mismatch/"+step, detail, cas)
	case named.cat < 0:
		m.Violate("revalidation-after-register/rejects-coinciding-registrations/"+step, detail, cas)
	default:
		m.Violate("revalidation-after-register/wrong-report/"+step, detail, cas)
	}
	return obs.ok
}

func thenText(t *Delta) string {
	b, _ := json.Marshal(t)
	return string(b)
}

func judgeValidate0(m *mon.M, d *Desc, doc *loads.Document, dhash string, g *Reg, rec *recorder) (*untyped.API, bool) {
	m.Eval(1)
	cas := &Case{Desc: *d, Reg: *g}
	var api *untyped.API
	var err, errAgain error
	pv, st := mon.Catch(func() {
		api = buildAPI(doc, g, rec)
		err = api.Validate()
		// nothing is registered in between: the same registrations are validated a second time, and
		// it is the API validated twice that is served afterwards
		errAgain = api.Validate()
	})
	kc := kindClass(g.Kind) + descFeature(d)
	if pv != nil {
		m.Violate("validate-panic/"+kc, fmt.Sprintf("building/validating the API panicked: %v\n%s", pv, st), cas)
		return nil, false
	}
	obs := observe(err)
	if again := observe(errAgain); !sameObservation(obs, again) {
		m.Violate("second-validate-differs/"+kc, fmt.Sprintf("Validate -> %s; Validate called again at once on the same API (no registration in between) -> %s; registration kind %s, %s\ndescription: %s",
			obs, again, g.Kind, modeName(g), render(d)), cas)
	}
	reg := registered(d, g)
	reqNamed, reqInForce := required(d, false), required(d, true)
	named := expect(reqNamed, reg)
	inForce := expect(reqInForce, reg)
	if named.cat >= 0 {
		m.NT(dhash + "|" + modeName(g) + "|" + named.String())
		m.Class("validate:expected-failure/" + catNames[named.cat])
	} else {
		m.Class("validate:expected-success")
	}
	m.Class("variant:" + kc)
	if named.cat != inForce.cat || !named.missing.equal(inForce.missing) || !named.extra.equal(inForce.extra) {
		m.Class("validate:readings-differ")
	}
	if obs.dup {
		m.Violate("duplicate-name-in-report/"+catNames[obs.cat]+"/"+kc, "a name is reported twice: "+obs.String(), cas)
	}
	if g.ThenToggle || mon.Hash64(dhash+"|"+g.Kind+"|toggle")%4 == 0 {
		if !revalidateAfterToggle(m, d, doc, g, kc) {
			return api, obs.ok
		}
	}
	if agrees(obs, named) || agrees(obs, inForce) {
		noteReading(m, cas, obs, named, inForce, reqNamed, reqInForce, reg)
		return api, obs.ok
	}
	detail := fmt.Sprintf("Validate -> %s; the description requires -> %s (or, counting only what is in force for some operation -> %s); registration kind %s, %s\ndescription: %s",
		obs, named, inForce, g.Kind, modeName(g), render(d))
	switch {
	case obs.other != "":
		m.Violate("validate-other-error/"+kc, detail, cas)
	case named.cat < 0:
		m.Violate("rejects-coinciding-registrations/"+catNames[obs.cat]+"/"+kc, detail, cas)
	case obs.ok:
		m.Violate("accepts-mismatch/"+catNames[named.cat]+"/"+kc, detail, cas)
	case obs.cat != named.cat:
		m.Violate("not-first-failing-category/expected-"+catNames[named.cat]+"-reported-"+catNames[obs.cat]+"/"+kc, detail, cas)
	default:
		mr, _ := normItems(obs.cat, obs.missReg)
		which := "missing-specification-list"
		if !mr.equal(named.missing) {
			which = "missing-registration-list"
		}
		m.Violate("incomplete-report/"+catNames[obs.cat]+"/"+which+"/"+kc, detail, cas)
	}
	return api, obs.ok
}

func sameObservation(a, b observation) bool {
	if a.ok != b.ok || a.other != b.other || a.section != b.section {
		return false
	}
	return setOf(a.missReg).equal(setOf(b.missReg)) && setOf(a.missSpec).equal(setOf(b.missSpec)) && len(a.missReg) == len(b.missReg) && len(a.missSpec) == len(b.missSpec)
}

// ---- one reading of "requires" per category ----

// A media type or scheme that is named only globally and overridden by every operation is required
// under one reading of the statement and not under the other; the statement does not choose. But
// "succeeds exactly when ... coincide" holds for a category only if ONE of the readings is applied to
// it: an implementation that takes the missing side from one reading and the superfluous side from
// the other accepts both the registration set with and the one without such a name, and each of
// the two outcomes, taken alone, is explained by one reading. readings keeps, per category and per
// reading, the first validation (of this process) that only that reading explains.
type readingWitness struct {
	cas  *Case
	text string
}

var readings struct {
	named, inForce [nCats]*readingWitness
	reported       [nCats]bool
}

func resetReadings() {
	readings.named = [nCats]*readingWitness{}
	readings.inForce = [nCats]*readingWitness{}
	readings.reported = [nCats]bool{}
}

func sameVerdict(a, b verdict) bool {
	return a.cat == b.cat && a.missing.equal(b.missing) && a.extra.equal(b.extra)
}

// noteReading is called for an observation that agrees with at least one reading.
func noteReading(m *mon.M, cas *Case, obs observation, named, inForce verdict, reqNamed, reqInForce, reg [nCats]strset) {
	if sameVerdict(named, inForce) {
		return
	}
	aN, aE := agrees(obs, named), agrees(obs, inForce)
	if aN == aE {
		return
	}
	// the category that tells the readings apart for this registration set: the first one whose
	// difference sets depend on the reading (before it both readings find the same - empty -
	// differences, or the two verdicts would be the same failure)
	cat := -1
	for c := 0; c < nCats; c++ {
		if !reqNamed[c].minus(reg[c]).equal(reqInForce[c].minus(reg[c])) || !reg[c].minus(reqNamed[c]).equal(reg[c].minus(reqInForce[c])) {
			cat = c
			break
		}
	}
	if cat < 0 {
		return
	}
	w := &readingWitness{cas: cas, text: fmt.Sprintf("registration kind %s, %s: Validate -> %s; requirement = everything the description names -> %s; requirement = everything in force for some operation -> %s\ndescription: %s",
		cas.Reg.Kind, modeName(&cas.Reg), obs, named, inForce, render(&cas.Desc))}
	mine, theirs, which := &readings.named[cat], &readings.inForce[cat], "named"
	if aE {
		mine, theirs, which = &readings.inForce[cat], &readings.named[cat], "in-force"
	}
	m.Class("validate:explained-by-" + which + "-reading-only/" + catNames[cat])
	if *mine == nil {
		*mine = w
	}
	if *theirs == nil || readings.reported[cat] {
		return
	}
	readings.reported[cat] = true
	first := *theirs
	c2 := *cas
	o := *first.cas
	o.Other = nil
	o.Req = nil
	c2.Other = &o
	c2.Req = nil
	m.Violate("inconsistent-reading-of-requires/"+catNames[cat],
		fmt.Sprintf("category %q: no single reading of what the description requires explains both validations (success is not 'exactly when' under either).\nonly the %s reading explains: %s\nonly the other reading explains: %s",
			catNames[cat], which, w.text, first.text), &c2)
}

// revalidateAfterToggle: validation judges the registrations the API holds when it is called, whatever
// was validated before on the same API value.
func revalidateAfterToggle(m *mon.M, d *Desc, doc *loads.Document, g *Reg, kc string) bool {
	g2 := *g
	g2.NoJSONDefaults = !g.NoJSONDefaults
	g2.ThenToggle = false
	cas := &Case{Desc: *d, Reg: *g}
	cas.Reg.ThenToggle = true
	var err1, err2 error
	pv, st := mon.Catch(func() {
		api := buildAPI(doc, g, &recorder{})
		err1 = api.Validate()
		if g2.NoJSONDefaults {
			api = api.WithoutJSONDefaults()
		} else {
			api = api.WithJSONDefaults()
		}
		err2 = api.Validate()
	})
	m.Eval(1)
	if pv != nil {
		m.Violate("revalidate-panic/"+kc, fmt.Sprintf("%v\n%s", pv, st), cas)
		return false
	}
	obs := observe(err2)
	reg := registered(d, &g2)
	// switching the defaults off removes the JSON codecs whoever registered them; switching them on installs them
	if g2.NoJSONDefaults {
		delete(reg[catConsumes], "application/json")
		delete(reg[catProduces], "application/json")
	}
	reqNamed, reqInForce := required(d, false), required(d, true)
	named := expect(reqNamed, reg)
	inForce := expect(reqInForce, reg)
	m.Class("validate:again-after-json-defaults-toggle")
	if agrees(obs, named) || agrees(obs, inForce) {
		noteReading(m, cas, obs, named, inForce, reqNamed, reqInForce, reg)
		return true
	}
	first := "ok"
	if err1 != nil {
		first = "failed"
	}
	m.Violate("revalidation-after-json-defaults-toggle/"+kc, fmt.Sprintf("first Validate %s; after switching the JSON defaults (%s) Validate -> %s; the description requires -> %s (registration kind %s)", first, modeName(&g2), obs, named, g.Kind), cas)
	return false
}

// ---- serving a validated API ----

// hasBodyMethod: the methods whose operations declare a body (or form) parameter and are sent one. A
// request body is not a matter of the method for the library (runtime.HasBody looks at the request), so
// DELETE and OPTIONS operations take part too.
func hasBodyMethod(method string) bool {
	switch method {
	case "post", "put", "patch", "delete", "options":
		return true
	}
	return false
}

func concretePath(d *Desc, op *Op) string {
	p := op.Path
	for _, n := range placeholders(p) {
		p = strings.Replace(p, "{"+n+"}", "v-"+n, 1)
	}
	bp := strings.TrimSuffix(d.BasePath, "/")
	return bp + p
}

// defaultOf: the media type the API adds to every operation: the one the caller assigned, else
// application/json under the JSON defaults, else none.
func defaultOf(g *Reg, produces bool) string {
	set := g.DefaultConsumes
	if produces {
		set = g.DefaultProduces
	}
	switch {
	case set != "":
		return set
	case g.NoJSONDefaults:
		return ""
	}
	return "application/json"
}

func withDefault(l []string, def string) []string {
	if def == "" {
		return l
	}
	for _, e := range l {
		if e == def {
			return l
		}
	}
	return append(append([]string{}, l...), def)
}

func satisfied(alts []Alt, deny map[string]bool) bool {
	for _, a := range alts {
		ok := true
		for s := range a {
			if deny[s] {
				ok = false
			}
		}
		if ok {
			return true
		}
	}
	return false
}

// payloadFor is the body sent with a Content-Type: a form for the form media types, JSON otherwise.
func payloadFor(contentType string) string {
	mt, params, _ := mime.ParseMediaType(contentType)
	switch mt {
	case runtimeURLEncoded:
		return "field=v1&other=2"
	case runtimeMultipart:
		b := params["boundary"]
		return "--" + b + "\r\nContent-Disposition: form-data; name=\"field\"\r\n\r\nv1\r\n--" + b + "--\r\n"
	}
	return `{"a":1}`
}

func serveOne(m *mon.M, sv *served, rq *Req, nontrivial bool) {
	d, g, rec, dhash := sv.d, sv.g, sv.rec, sv.dhash
	if rq.Via != "" && rq.Via != viaGenerated {
		return
	}
	h := sv.handler(m, rq.Via)
	if h == nil {
		return
	}
	op := &d.Ops[rq.Op]
	m.Eval(1)
	cas := &Case{Desc: *d, Reg: *g, Req: rq}
	g = finalReg(g) // what the API holds when it is served
	mode := modeName(g)
	var body io.Reader
	if rq.ContentType != "" {
		body = strings.NewReader(payloadFor(rq.ContentType))
	}
	req := httptest.NewRequest(strings.ToUpper(op.Method), "http://example.test"+concretePath(d, op), body)
	if rq.ContentType != "" {
		req.Header.Set("Content-Type", rq.ContentType)
	}
	if rq.Accept != "" {
		req.Header.Set("Accept", rq.Accept)
	}
	*rec = recorder{deny: map[string]bool{}, responder: rq.Responder, code: op.Code}
	for _, s := range rq.Deny {
		rec.deny[s] = true
	}
	rw := httptest.NewRecorder()
	pv, st := mon.Catch(func() { h.ServeHTTP(rw, req) })
	how := "untyped pipeline"
	if rq.Via == viaGenerated {
		how = "generated-server pipeline: RoutableAPI on NewRoutableContext, RouteInfo/Authorize/BindValidRequest/Respond"
	}
	if rq.Responder {
		how += ", the handler returns a Responder"
	}
	what := fmt.Sprintf("%s %s (Content-Type %q, Accept %q, deny %v) on %s API, registration kind %s [%s]", strings.ToUpper(op.Method), req.URL.Path, rq.ContentType, rq.Accept, rq.Deny, mode, g.Kind, how)
	if nontrivial {
		m.NT("served|" + dhash + "|" + mode + "|" + kindClass(g.Kind) + "|" + fmt.Sprint(rq.Op) + "|" + rq.Shape)
	}
	// the signatures of the untyped pipeline are unchanged; those of the generated-server pipeline say so
	mode += viaSuffix(rq.Via)
	if rq.Responder {
		mode += "/handler-returns-responder"
	}
	pipeline := "untyped"
	if rq.Via == viaGenerated {
		pipeline = "generated"
	}
	if rq.Responder {
		m.Class("serve:pipeline/" + pipeline + "/responder")
	} else {
		m.Class("serve:pipeline/" + pipeline + "/value")
	}
	if g.Authorizer {
		m.Class("serve:with-authorizer")
	}
	if mt, _, _ := mime.ParseMediaType(rq.ContentType); isFormType(mt) {
		if op.Form {
			m.Class("serve:form-payload/" + mt + "/formData-parameter")
		} else {
			m.Class("serve:form-payload/" + mt + "/body-parameter-or-none")
		}
	}
	if rq.ContentType != "" && (op.Method == "delete" || op.Method == "options") {
		m.Class("serve:body-on-" + op.Method)
	}
	if strings.HasSuffix(rq.Shape, "/anonymous-alternative") || strings.Contains(rq.Shape, "/anonymous-alternative/") {
		m.Class("serve:all-schemes-denied/anonymous-alternative")
	}
	// noProd: no media type is declared for the responses of this operation at any level (and there
	// is no JSON default): no producer could have been registered for it without failing validation.
	// Only the producer lookup AFTER the handler returned is exempt; the route, the authenticators and
	// the handler are judged as for every other operation.
	noProd := len(withDefault(effProduces(d, op), defaultOf(g, true))) == 0
	producerless := false
	ranRight := len(rec.handled) == 1 && rec.handled[0] == opName(op.Method, op.Path)
	// bodiless: the answer of this operation carries no body (declared success status 204, or a HEAD operation) and
	// the handler returns a plain value: nothing is to be encoded, so no producer is needed and none can be "lacking" -
	// an operation that produces nothing on an API that validated without any producer is served like every other
	// declared operation, and a "can't find a producer" failure is a request failed for lack of a registered producer.
	// (A Responder result asks for a producer itself: that stays with the exemption below.)
	bodiless := noBodyAnswer(op) && !rq.Responder
	if noBodyAnswer(op) {
		m.Class(fmt.Sprintf("serve:answer-without-body/%s/no-produces-at-any-level=%v/responder=%v", noBodyWhy(op), noProd, rq.Responder))
	}
	if pv != nil {
		msg := fmt.Sprint(pv)
		switch {
		case strings.Contains(msg, "can't find a producer") && noProd && ranRight && bodiless:
			m.Violate("serve/panic-cant-find-producer/answer-without-body-of-an-operation-that-produces-nothing/"+noBodyWhy(op)+"/"+mode, fmt.Sprintf("%s panicked: %s; the operation declares no produces at any level and its answer (%s) carries no body: no producer is needed, and the registrations passed Validate()\ndescription: %s", what, msg, noBodyWhy(op), render(d)), cas)
			return
		case strings.Contains(msg, "can't find a producer") && noProd && ranRight:
			producerless = true
			m.Class("serve:no-produces-at-any-level/producer-lookup-failed-after-handler")
		case strings.Contains(msg, "can't find a producer") && noProd:
			m.Violate("serve/panic-cant-find-producer-before-handler/"+mode, fmt.Sprintf("%s panicked: %s; the operation declares no produces at any level, but the handler had not run (handlers invoked: %v)\ndescription: %s", what, msg, rec.handled, render(d)), cas)
			return
		case strings.Contains(msg, "can't find a producer"):
			m.Violate("serve/panic-cant-find-producer/"+mode, fmt.Sprintf("%s panicked: %s\ndescription: %s", what, msg, render(d)), cas)
			return
		default:
			m.Violate("serve/panic-other/"+mode, fmt.Sprintf("%s panicked: %s\n%s", what, msg, st), cas)
			return
		}
	}
	if rec.noConsumer {
		m.Violate("serve/no-consumer-selected-for-body/"+mode, fmt.Sprintf("%s: BindValidRequest accepted the request and handed the binder a route without a consumer, although the request carries a body of a media type the operation consumes\ndescription: %s", what, render(d)), cas)
		return
	}
	if rec.nilProducer {
		if !noProd {
			m.Violate("serve/responder-handed-no-producer/"+mode, fmt.Sprintf("%s: the Responder the handler returned was written with a nil producer\ndescription: %s", what, render(d)), cas)
			return
		}
		m.Class("serve:no-produces-at-any-level/responder-handed-no-producer")
	}
	if rq.Responder && ranRight {
		m.Class(fmt.Sprintf("serve:responder-written-%d-times", rec.responderCalls))
	}
	res := rw.Result()
	rb, _ := io.ReadAll(res.Body)
	text := string(rb)
	if !producerless {
		m.Class(fmt.Sprintf("serve:status-%d", res.StatusCode))
		if res.StatusCode == http.StatusInternalServerError && strings.Contains(text, "can't find a producer") && noProd && ranRight && bodiless {
			m.Violate("serve/500-cant-find-producer/answer-without-body-of-an-operation-that-produces-nothing/"+noBodyWhy(op)+"/"+mode, fmt.Sprintf("%s -> 500 %s; the operation declares no produces at any level and its answer (%s) carries no body: no producer is needed, and the registrations passed Validate()\ndescription: %s", what, clipS(text), noBodyWhy(op), render(d)), cas)
			return
		} else if res.StatusCode == http.StatusInternalServerError && strings.Contains(text, "can't find a producer") && noProd && ranRight {
			// the same failure, reported as an answer instead of a panic
			producerless = true
			m.Class("serve:no-produces-at-any-level/producer-lookup-failed-after-handler")
		} else if res.StatusCode == http.StatusInternalServerError && (strings.Contains(text, "no consumer registered") || strings.Contains(text, "no producer")) {
			m.Violate("serve/500-no-consumer-or-producer-registered/"+mode, fmt.Sprintf("%s -> 500 %s\ndescription: %s", what, text, render(d)), cas)
			return
		}
	}
	if op.Path == "/" {
		if strings.Trim(d.BasePath, "/") != "" {
			m.Class("serve:root-template/under-base-path")
		} else {
			m.Class("serve:root-template/no-base-path")
		}
	}
	alts := effSecurity(d, op)
	wantAccept := len(alts) == 0 || satisfied(alts, rec.deny)
	ran := len(rec.handled) > 0
	if ran {
		// some alternative must have had every one of its authenticators called (and succeeding)
		if len(alts) > 0 {
			called := setOf(rec.authed)
			witness := false
			for _, a := range alts {
				ok := true
				for s := range a {
					if !called[s] || rec.deny[s] {
						ok = false
					}
				}
				if ok {
					witness = true
					break
				}
			}
			if !witness {
				m.Violate("serve/authenticator-skipped/"+mode, fmt.Sprintf("%s reached the handler although no security alternative of %v had all its authenticators consulted successfully (called: %v)\ndescription: %s", what, alts, rec.authed, render(d)), cas)
				return
			}
		}
	}
	if !wantAccept {
		if ran {
			m.Violate("serve/handler-ran-unauthenticated/"+mode, fmt.Sprintf("%s reached the handler although every alternative of %v contains a scheme that does not apply", what, alts), cas)
		}
		m.Class("serve:rejected-as-scripted")
		return
	}
	if !ran {
		cls := fmt.Sprint(res.StatusCode)
		m.Violate("serve/handler-not-reached/status-"+cls+"/"+mode, fmt.Sprintf("%s -> %d %s; the operation handler was not invoked (authenticators called: %v)\ndescription: %s", what, res.StatusCode, clipS(text), rec.authed, render(d)), cas)
		return
	}
	if len(rec.handled) != 1 || rec.handled[0] != opName(op.Method, op.Path) {
		m.Violate("serve/wrong-handler/"+mode, fmt.Sprintf("%s invoked handlers %v", what, rec.handled), cas)
		return
	}
	if noProd {
		// what is written after the handler returned is not judged for these operations
		if !producerless {
			m.Class("serve:no-produces-at-any-level/answered")
		}
		if len(rec.produced) != 0 {
			m.Violate("serve/wrong-producer/"+mode, fmt.Sprintf("%s: the operation declares no produces at any level, but stub producers %v were invoked", what, rec.produced), cas)
			return
		}
		if !checkConsumer(m, op, g, rq, rec, what, mode, cas) {
			return
		}
		if bodiless {
			// nothing had to be encoded: the operation is served like any other (its declared status)
			if res.StatusCode != op.Code {
				m.Violate("serve/unexpected-status/answer-without-body-of-an-operation-that-produces-nothing/"+noBodyWhy(op)+"/"+mode, fmt.Sprintf("%s -> %d %s, declared success code %d (no produces at any level; the answer carries no body, so no producer is needed)\ndescription: %s", what, res.StatusCode, clipS(text), op.Code, render(d)), cas)
				return
			}
			m.Class("serve:ok-no-produces/answered-without-body/" + noBodyWhy(op))
			return
		}
		m.Class("serve:ok-handler-reached-no-produces")
		return
	}
	if res.StatusCode != op.Code {
		m.Violate("serve/unexpected-status/"+mode, fmt.Sprintf("%s -> %d %s, declared success code %d", what, res.StatusCode, clipS(text), op.Code), cas)
		return
	}
	// the producer that wrote the body must be the one registered for the announced media type (a 204 has no body:
	// who writes nothing is not judged here)
	if op.Method != "head" && op.Code != http.StatusNoContent {
		ct, _, _ := mime.ParseMediaType(res.Header.Get("Content-Type"))
		if !setOf(lowerAll(g.Producers))[ct] && ct == "application/json" && !g.NoJSONDefaults {
			// the library's own JSON default was left in place by this registration set
			if len(rec.produced) != 0 || strings.TrimSpace(text) != `{"ok":true}` {
				m.Violate("serve/wrong-producer/"+mode, fmt.Sprintf("%s -> Content-Type %q (the JSON default) but stub producers invoked %v, body %q", what, res.Header.Get("Content-Type"), rec.produced, clipS(text)), cas)
				return
			}
		} else if len(rec.produced) != 1 || rec.produced[0] != ct || text != "P("+ct+")" {
			m.Violate("serve/wrong-producer/"+mode, fmt.Sprintf("%s -> Content-Type %q but producers invoked %v, body %q", what, res.Header.Get("Content-Type"), rec.produced, clipS(text)), cas)
			return
		}
		if !setOf(withDefault(effProduces(d, op), defaultOf(g, true)))[ct] {
			m.Violate("serve/undeclared-response-type/"+mode, fmt.Sprintf("%s -> Content-Type %q which the operation does not produce", what, ct), cas)
			return
		}
	}
	if !checkConsumer(m, op, g, rq, rec, what, mode, cas) {
		return
	}
	m.Class("serve:ok")
}

// checkConsumer: the consumer that read the body must be the one registered for the announced type.
func checkConsumer(m *mon.M, op *Op, g *Reg, rq *Req, rec *recorder, what, mode string, cas *Case) bool {
	if op.Body && rq.ContentType != "" {
		ct, _, _ := mime.ParseMediaType(rq.ContentType)
		if !setOf(lowerAll(g.Consumers))[ct] && ct == "application/json" && !g.NoJSONDefaults {
			if len(rec.consumed) != 0 {
				m.Violate("serve/wrong-consumer/"+mode, fmt.Sprintf("%s: stub consumers invoked %v, expected the JSON default", what, rec.consumed), cas)
				return false
			}
		} else if len(rec.consumed) != 1 || rec.consumed[0] != ct {
			m.Violate("serve/wrong-consumer/"+mode, fmt.Sprintf("%s: consumers invoked %v, expected the one registered for %q", what, rec.consumed, ct), cas)
			return false
		}
	}
	return true
}

// noBodyAnswer: the answer of the operation carries no body whatever the handler returns.
func noBodyAnswer(op *Op) bool { return op.Code == http.StatusNoContent || op.Method == "head" }

func noBodyWhy(op *Op) string {
	if op.Code == http.StatusNoContent {
		return "declared-204"
	}
	return "head-operation"
}

// shapeNoBody is the generator's dimension "operations that answer without a body": one operation in six declares
// 204 as its success status; one description in ten is command-style (flush, delete, set ...): nothing is produced
// at any level and two operations in three declare 204. It draws from a PRNG of its own: the descriptions are
// otherwise what genDesc made them.
func shapeNoBody(r *rand.Rand, d *Desc) {
	command := r.Intn(10) == 0
	if command {
		d.Produces = nil
	}
	for i := range d.Ops {
		op := &d.Ops[i]
		if command {
			op.Produces = nil
			if r.Intn(3) > 0 {
				op.Code = http.StatusNoContent
			}
		} else if r.Intn(6) == 0 {
			op.Code = http.StatusNoContent
		}
	}
}

func lowerAll(l []string) []string {
	out := make([]string, len(l))
	for i, e := range l {
		out[i] = strings.ToLower(e)
	}
	return out
}

func clipS(s string) string {
	if len(s) > 300 {
		return s[:300] + "…"
	}
	return s
}

func upperType(mt string) string {
	// "text/plain" -> "Text/PLAIN"
	i := strings.IndexByte(mt, '/')
	if i < 0 {
		return strings.ToUpper(mt)
	}
	return strings.ToUpper(mt[:1]) + mt[1:i+1] + strings.ToUpper(mt[i+1:])
}

// genRequests builds >= 3 well-formed requests for one operation of a validated API.
// skipped names what is left out (no body is sent when no consumes exists at any level); partly names
// what is judged up to the handler only (no produces at any level).
func genRequests(r *rand.Rand, d *Desc, g *Reg, idx int) (reqs []Req, skipped, partly string) {
	op := &d.Ops[idx]
	prods := withDefault(effProduces(d, op), defaultOf(g, true))
	noProd := len(prods) == 0
	if noProd {
		// still served (route, authenticators, handler); only Accept forms that name no media type
		prods = []string{""}
		partly = "no-produces-at-any-level"
	}
	cons := withDefault(effConsumes(d, op), defaultOf(g, false))
	if op.Form {
		// an operation that takes a form is sent forms only (its own consumes list names form types only)
		cons = op.Consumes
	}
	body := hasBodyMethod(op.Method)
	if body && len(cons) == 0 {
		body = false
		skipped = "body-without-consumes-at-any-level"
	}
	var schemes []string
	ss := strset{}
	altNames(effSecurity(d, op), ss)
	schemes = ss.sorted()
	ctFor := func(i int, shape int) string {
		if !body {
			return ""
		}
		mt := cons[i%len(cons)]
		// a multipart payload names its boundary
		boundary := ""
		if mt == runtimeMultipart {
			boundary = "; boundary=c19boundary"
		}
		switch shape {
		case 1:
			return mt + "; charset=utf-8" + boundary
		case 2:
			return upperType(mt) + boundary
		case 3:
			return mt + ";q=1; charset=\"UTF-8\"" + boundary
		}
		return mt + boundary
	}
	acceptFor := func(i int, shape int) string {
		mt := prods[i%len(prods)]
		if noProd {
			if shape%2 == 0 {
				return ""
			}
			return "*/*"
		}
		switch shape {
		case 0:
			return ""
		case 1:
			return mt
		case 2:
			return "*/*"
		case 3:
			return "application/x-unknown;q=0.9, " + mt + ";q=0.8"
		case 4:
			return mt[:strings.IndexByte(mt, '/')] + "/*"
		case 6:
			// admits a type of the operation but prefers JSON (which the operation may not produce)
			return "application/json, " + mt + ";q=0.9"
		case 7:
			return "application/json, */*;q=0.8"
		}
		return mt + ", */*;q=0.1"
	}
	n := 3
	if len(cons) > n && body {
		n = len(cons)
	}
	if len(prods) > n {
		n = len(prods)
	}
	for i := 0; i < n; i++ {
		cs, as := 0, 1
		if i >= 1 {
			cs, as = r.Intn(4), r.Intn(8)
		}
		if i == 0 {
			as = 0
		}
		rq := Req{Op: idx, ContentType: ctFor(i, cs), Accept: acceptFor(i, as)}
		if i >= 2 && len(schemes) > 0 && r.Intn(2) == 0 {
			for _, s := range schemes {
				if r.Intn(2) == 0 {
					rq.Deny = append(rq.Deny, s)
				}
			}
		}
		rq.Shape = fmt.Sprintf("ct%d-%d/acc%d-%d/deny%d", i%max(1, len(cons)), cs, i%len(prods), as, len(rq.Deny))
		reqs = append(reqs, rq)
	}
	// an operation with an anonymous alternative is served whatever the authenticators say
	for _, a := range effSecurity(d, op) {
		if len(a) == 0 && len(schemes) > 0 {
			reqs = append(reqs, Req{Op: idx, ContentType: ctFor(0, 0), Accept: acceptFor(0, 0), Deny: schemes,
				Shape: fmt.Sprintf("ct0-0/acc0-0/deny-all-%d/anonymous-alternative", len(schemes))})
			break
		}
	}
	// an API that knows no JSON at all for this operation, asked by a client that prefers JSON but
	// admits a declared type: well-formed, to be answered with the declared type
	if !noProd && !setOf(prods)["application/json"] {
		i, as := r.Intn(len(prods)), 6+r.Intn(2)
		reqs = append(reqs, Req{Op: idx, ContentType: ctFor(i, 0), Accept: acceptFor(i, as),
			Shape: fmt.Sprintf("ct%d-0/acc%d-%d/prefers-json", i%max(1, len(cons)), i, as)})
	}
	// the pipeline each request goes through (a third: the one of a generated server) and what the handler
	// returns (half: a Responder)
	for k := range reqs {
		if r.Intn(3) == 0 {
			reqs[k].Via = viaGenerated
			reqs[k].Shape += "/generated"
		}
		if r.Intn(2) == 0 {
			reqs[k].Responder = true
			reqs[k].Shape += "/responder"
		}
	}
	return reqs, skipped, partly
}

func max(a, b int) int {
	if a > b {
		return a
	}
	return b
}

func namedMediaTypes(d *Desc) int {
	req := required(d, false)
	all := strset{}
	for k := range req[catConsumes] {
		all[k] = true
	}
	for k := range req[catProduces] {
		all[k] = true
	}
	return len(all)
}

// runDesc loads one description and judges the given registration sets. When serve is true every
// exactly registered API that validates is exercised; when one is given only that request is sent.
func runDesc(m *mon.M, r *rand.Rand, d *Desc, regs []Reg, serve bool, only *Req) {
	raw := render(d)
	dhash := fmt.Sprintf("%x", mon.Hash64(string(raw)))
	var doc *loads.Document
	var lerr error
	pv, st := mon.Catch(func() { doc, lerr = loads.Analyzed(json.RawMessage(raw), "") })
	if pv != nil || lerr != nil {
		// the generator is expected to emit loadable documents only; one that is not says nothing about the
		// property (loading is not the code under test): counted, and the description is dropped. Were it
		// frequent, the floor on distinct non-trivial cases would make the run inconclusive.
		m.Class("harness:description-not-loadable")
		m.Note("descriptions_not_loadable", 1)
		if m.WantSample() {
			m.Sample(map[string]interface{}{"not_loadable": json.RawMessage(raw), "error": fmt.Sprintf("%v %v %s", pv, lerr, clipS(st))})
		}
		return
	}
	m.Note("descriptions", 1)
	// one crash marker per description (Validate is a function-level call; every variant is
	// additionally isolated by mon.Catch), one per served API below
	m.Begin(map[string]interface{}{"desc": d, "registration_sets": len(regs)})
	servedAPIs := 0
	wide := isWide(d)
	if wide {
		req := required(d, false)
		for c := range req {
			if len(req[c]) > wideNames {
				w := "up-to-32"
				if len(req[c]) > 32 {
					w = "more-than-32"
				}
				m.Class("description:wide/" + catNames[c] + "/" + w)
			}
		}
	}
	for i := range regs {
		g := &regs[i]
		rec := &recorder{deny: map[string]bool{}}
		api, ok := judgeValidate(m, d, doc, dhash, g, rec)
		if !ok || api == nil {
			continue
		}
		// "a validated API": every registration set that validates is served, whatever its kind (exact,
		// letter-case variants, duplicates, application/json left to the JSON defaults, ...)
		if only == nil && !serve {
			continue
		}
		// registrations must coincide under the naming reading for the serving clause to be judged
		if expect(required(d, false), registered(d, finalReg(g))).cat >= 0 {
			m.Class("serve:validated-under-in-force-reading-only")
			continue
		}
		// a description with dozens of names in one category: the first few validated APIs are served, each
		// with a sample of its operations (budget)
		if only == nil && wide && servedAPIs >= wideServeAPIs {
			m.Class("serve:wide-description/api-not-served")
			continue
		}
		servedAPIs++
		sv := &served{d: d, g: g, doc: doc, api: api, rec: rec, dhash: dhash}
		if only == nil && sv.handler(m, "") == nil {
			continue // the construction of the untyped handler is judged for every validated API
		}
		m.Note("validated_apis_served", 1)
		m.Class("served-api:" + kindClass(g.Kind))
		nontrivial := namedMediaTypes(d) >= 2
		if only != nil {
			if only.Op >= 0 && only.Op < len(d.Ops) {
				serveOne(m, sv, only, nontrivial)
			}
			continue
		}
		m.Begin(&Case{Desc: *d, Reg: *g})
		idxs := make([]int, 0, len(d.Ops))
		for idx := range d.Ops {
			idxs = append(idxs, idx)
		}
		if len(idxs) > wideServeOps {
			idxs = r.Perm(len(d.Ops))[:wideServeOps]
			sort.Ints(idxs)
		}
		for _, idx := range idxs {
			reqs, skipped, partly := genRequests(r, d, finalReg(g), idx)
			if skipped != "" {
				m.Note("skipped:"+skipped, 1)
				m.Class("serve:skipped/" + skipped)
			}
			if partly != "" {
				m.Note("judged-up-to-the-handler:"+partly, 1)
			}
			for k := range reqs {
				serveOne(m, sv, &reqs[k], nontrivial)
			}
		}
	}
	if m.WantSample() && len(regs) > 0 {
		g := regs[len(regs)/2]
		m.Sample(map[string]interface{}{"description": json.RawMessage(raw), "registration": g,
			"expected": expect(required(d, false), registered(d, &g)).String()})
	}
}

// ---- generation ----

var mediaTypes = []string{"application/json", "application/xml", "text/plain", "text/csv", "application/x-yaml",
	"application/octet-stream", "application/vnd.api+json", "text/html", "image/png"}

var schemeNames = []string{"basic", "key", "oauth", "hdr", "Key"}
var schemeTypes = []string{"basic", "apiKey", "oauth2"}
var methods = []string{"get", "put", "post", "patch", "delete", "head", "options"}
var segs = []string{"users", "a", "ab", "items", "x", "Users"}
var basePaths = []string{"", "/", "/api", "/v1/x"}

func pickSome(r *rand.Rand, pool []string, n int) []string {
	p := r.Perm(len(pool))
	if n > len(pool) {
		n = len(pool)
	}
	out := make([]string, 0, n)
	for _, i := range p[:n] {
		out = append(out, pool[i])
	}
	return out
}

func genMedia(r *rand.Rand, pAbsent int) []string {
	if r.Intn(100) < pAbsent {
		return nil
	}
	// bias towards a small sub-pool so that levels overlap
	pool := mediaTypes
	if r.Intn(2) == 0 {
		pool = mediaTypes[:4]
	}
	l := pickSome(r, pool, 1+r.Intn(3))
	// now and then the list also names an EXTENSION of one of its types (or of application/json, which an API registers by
	// default): a media type that has the other one as a textual prefix (application/json-patch+json, text/plain-v2, ...).
	// They are two media types: each needs its own consumer / producer.
	if r.Intn(8) == 0 {
		l = withExtension(r, l)
		if r.Intn(4) == 0 {
			l = withExtension(r, l) // a second one: possibly an extension of the extension, or a sibling
		}
	}
	return l
}

// extSuffixes turn a media type into another, longer media type that has the first as a textual prefix (token characters only).
var extSuffixes = []string{"-patch+json", "-v2", "-extra", "+zip", ".v1", "2", "-seq", "x"}

func withExtension(r *rand.Rand, l []string) []string {
	base := l[r.Intn(len(l))]
	if r.Intn(3) == 0 {
		base = "application/json"
		if r.Intn(2) == 0 && !setOf(l)[base] {
			l = append(l, base) // both of the pair in one list (else the shorter one may be named at another level, or not at all)
		}
	}
	ext := base + extSuffixes[r.Intn(len(extSuffixes))]
	if !setOf(l)[ext] {
		l = append(l, ext)
	}
	return l
}

// extensionPair: some category (consumes / produces) of the description requires two media types of which one is a
// strict textual prefix of the other (compared in lower case).
func extensionPair(d *Desc) bool {
	req := required(d, false)
	for _, c := range []int{catConsumes, catProduces} {
		names := map[string]bool{}
		for n := range req[c] {
			names[strings.ToLower(n)] = true
		}
		for a := range names {
			for b := range names {
				if len(a) < len(b) && strings.HasPrefix(b, a) {
					return true
				}
			}
		}
	}
	return false
}

// genConsumes: as genMedia, and now and then the form media types (requests only: consumes lists)
func genConsumes(r *rand.Rand, pAbsent int) []string {
	l := genMedia(r, pAbsent)
	if l == nil {
		return nil
	}
	switch r.Intn(12) {
	case 0: // forms only
		return pickSome(r, formTypes, 1+r.Intn(2))
	case 1, 2: // forms next to other types
		return append(l, pickSome(r, formTypes, 1+r.Intn(2))...)
	}
	return l
}

func allForms(l []string) bool {
	for _, e := range l {
		if !isFormType(e) {
			return false
		}
	}
	return len(l) > 0
}

func genAlts(r *rand.Rand, defs []SecDef) []Alt {
	n := 1 + r.Intn(2)
	var out []Alt
	for i := 0; i < n; i++ {
		a := Alt{}
		k := 1 + r.Intn(2)
		for j := 0; j < k; j++ {
			sd := defs[r.Intn(len(defs))]
			var scopes []string
			if sd.Type == "oauth2" && r.Intn(2) == 0 {
				scopes = []string{"read"}
			}
			a[sd.Name] = scopes
		}
		out = append(out, a)
	}
	if r.Intn(8) == 0 {
		// anonymous alternative, after or before the others
		if r.Intn(3) == 0 {
			out = append([]Alt{{}}, out...)
		} else {
			out = append(out, Alt{})
		}
	}
	return out
}

func genDesc(r *rand.Rand) *Desc {
	d := &Desc{BasePath: basePaths[r.Intn(len(basePaths))]}
	d.Consumes = genConsumes(r, 35)
	d.Produces = genMedia(r, 30)
	ndefs := r.Intn(5)
	if r.Intn(3) == 0 {
		ndefs = 0
	}
	for _, n := range pickSome(r, schemeNames, ndefs) {
		d.SecDefs = append(d.SecDefs, SecDef{Name: n, Type: schemeTypes[r.Intn(len(schemeTypes))]})
	}
	if len(d.SecDefs) > 0 && r.Intn(2) == 0 {
		d.HasSec = true
		d.Security = genAlts(r, d.SecDefs)
	}
	nops := 1 + r.Intn(6)
	if r.Intn(40) == 0 {
		nops = 0
	}
	seen := map[string]bool{}
	for tries := 0; len(d.Ops) < nops && tries < 40; tries++ {
		var sb strings.Builder
		nseg := 1 + r.Intn(3)
		shape := ""
		for s := 0; s < nseg; s++ {
			sb.WriteByte('/')
			if s > 0 && r.Intn(4) == 0 {
				fmt.Fprintf(&sb, "{p%d}", s)
				shape += "/*"
			} else {
				w := segs[r.Intn(len(segs))]
				sb.WriteString(w)
				shape += "/" + w
			}
		}
		method := methods[r.Intn(len(methods))]
		if r.Intn(2) == 0 {
			method = methods[r.Intn(3)]
		}
		// reuse an existing path with another method now and then
		p := sb.String()
		if r.Intn(14) == 0 {
			p, shape = "/", "/" // the root template
		}
		if len(p) > 1 && r.Intn(8) == 0 {
			p += "/" // a template may end in a slash: names are compared as declared
		}
		// "/a" and "/a/" are the same route: one description never declares both
		for _, o := range d.Ops {
			if strings.TrimSuffix(o.Path, "/") == strings.TrimSuffix(p, "/") {
				p = o.Path
			}
		}
		if len(d.Ops) > 0 && r.Intn(3) == 0 {
			p = d.Ops[r.Intn(len(d.Ops))].Path
			shape = ""
			for _, seg := range strings.Split(strings.TrimSuffix(p[1:], "/"), "/") {
				if strings.HasPrefix(seg, "{") {
					shape += "/*"
				} else {
					shape += "/" + seg
				}
			}
		}
		key := method + " " + shape
		if seen[key] {
			continue
		}
		// two different templates with the same structure would be ambiguous for the router
		clash := false
		for _, o := range d.Ops {
			if o.Path != p && structOf(o.Path) == shape {
				clash = true
			}
		}
		if clash {
			continue
		}
		seen[key] = true
		op := Op{Method: method, Path: p, Code: 200}
		if r.Intn(5) == 0 {
			op.Code = 201
		}
		op.Consumes = genConsumes(r, 55)
		op.Produces = genMedia(r, 55)
		if len(d.SecDefs) > 0 {
			switch r.Intn(6) {
			case 0:
				op.HasSec = true // cleared
			case 1, 2:
				op.HasSec = true
				op.Security = genAlts(r, d.SecDefs)
			}
		}
		op.Body = hasBodyMethod(method) && r.Intn(3) > 0
		if hasBodyMethod(method) && allForms(op.Consumes) && r.Intn(3) > 0 {
			// a form operation: a formData parameter instead of a body parameter
			op.Body, op.Form = false, true
		}
		d.Ops = append(d.Ops, op)
	}
	// most descriptions use every declared definition (an unused one fails validation whatever is registered)
	if len(d.SecDefs) > 0 && r.Intn(6) != 0 {
		used := required(d, false)[catAuth]
		for _, sd := range d.SecDefs {
			if used[sd.Name] {
				continue
			}
			if len(d.Ops) > 0 {
				op := &d.Ops[r.Intn(len(d.Ops))]
				op.HasSec = true
				op.Security = append(op.Security, Alt{sd.Name: nil})
			} else {
				d.HasSec = true
				d.Security = append(d.Security, Alt{sd.Name: nil})
			}
		}
	}
	return d
}

var regCatNames = [4]string{"consumer", "producer", "operation", "authenticator"}

var wildcards = []string{"*/*", "text/*", "application/*", "*"}

func structOf(p string) string {
	shape := ""
	for _, seg := range strings.Split(strings.TrimPrefix(p, "/"), "/") {
		if strings.HasPrefix(seg, "{") {
			shape += "/*"
		} else {
			shape += "/" + seg
		}
	}
	return shape
}

func mixCase(r *rand.Rand, s string) string {
	b := []byte(s)
	changed := false
	for i, c := range b {
		if c >= 'a' && c <= 'z' && r.Intn(2) == 0 {
			b[i] = c - 32
			changed = true
		}
	}
	if !changed {
		return strings.ToUpper(s)
	}
	return string(b)
}

func exactReg(d *Desc, effective bool) Reg {
	req := required(d, effective)
	g := Reg{Kind: "exact", Consumers: req[catConsumes].sorted(), Producers: req[catProduces].sorted(), Auths: req[catAuth].sorted()}
	for i := range d.Ops {
		g.Ops = append(g.Ops, OpReg{Method: d.Ops[i].Method, Path: d.Ops[i].Path})
	}
	if g.Consumers == nil {
		g.Consumers = []string{}
	}
	if g.Producers == nil {
		g.Producers = []string{}
	}
	if g.Auths == nil {
		g.Auths = []string{}
	}
	if g.Ops == nil {
		g.Ops = []OpReg{}
	}
	return g
}

func cloneReg(g Reg, kind string) Reg {
	c := g
	c.Kind = kind
	c.Consumers = append([]string{}, g.Consumers...)
	c.Producers = append([]string{}, g.Producers...)
	c.Auths = append([]string{}, g.Auths...)
	c.Ops = append([]OpReg{}, g.Ops...)
	return c
}

func without(l []string, i int) []string {
	out := append([]string{}, l[:i]...)
	return append(out, l[i+1:]...)
}

func freshMedia(r *rand.Rand, named strset) string {
	return freshFrom(r, named, mediaTypes)
}

// freshConsumerMedia: a media type no consumes list of the description names, the form types included.
func freshConsumerMedia(r *rand.Rand, named strset) string {
	return freshFrom(r, named, consumerTypes)
}

var consumerTypes = append(append([]string{}, mediaTypes...), formTypes...)

func freshFrom(r *rand.Rand, named strset, pool []string) string {
	// now and then the added type is an extension of a type the description names (never required itself)
	if len(named) > 0 && r.Intn(4) == 0 {
		l := named.sorted()
		if ext := strings.ToLower(l[r.Intn(len(l))]) + extSuffixes[r.Intn(len(extSuffixes))]; !named[ext] && !strings.Contains(ext, ";") && !strings.Contains(ext, "*") {
			return ext
		}
	}
	for _, i := range r.Perm(len(pool)) {
		if !named[pool[i]] {
			return pool[i]
		}
	}
	return "application/x-extra"
}

func freshOp(r *rand.Rand, d *Desc) (OpReg, string) {
	ops := required(d, false)[catOperation]
	if len(d.Ops) > 0 {
		o := d.Ops[r.Intn(len(d.Ops))]
		switch r.Intn(3) {
		case 0: // another method on a declared path
			for _, i := range r.Perm(len(methods)) {
				if !ops[opName(methods[i], o.Path)] {
					return OpReg{Method: methods[i], Path: o.Path}, "other-method"
				}
			}
		case 1: // the declared path in another letter case is another path
			p := mixCase(r, o.Path)
			if p != o.Path && !ops[opName(o.Method, p)] {
				return OpReg{Method: o.Method, Path: p}, "path-case"
			}
		}
	}
	return OpReg{Method: methods[r.Intn(len(methods))], Path: "/not/declared"}, "fresh"
}

// variants builds the registration sets judged for one description.
func variants(r *rand.Rand, d *Desc, nmulti int) []Reg {
	base := exactReg(d, false)
	named := required(d, false)
	var out []Reg
	both := func(g Reg) {
		g.NoJSONDefaults = false
		out = append(out, g)
		g2 := cloneReg(g, g.Kind)
		g2.NoJSONDefaults = true
		out = append(out, g2)
	}
	one := func(g Reg) {
		g.NoJSONDefaults = r.Intn(2) == 0
		out = append(out, g)
	}
	both(base)
	eff := exactReg(d, true)
	eff.Kind = "exact-in-force"
	if fmt.Sprint(eff) != fmt.Sprint(cloneReg(base, "exact-in-force")) {
		both(eff)
	}
	// every single omission
	for i := range base.Consumers {
		g := cloneReg(base, "omission:consumer")
		g.Consumers = without(base.Consumers, i)
		if base.Consumers[i] == "application/json" {
			both(g) // under JSON defaults the type stays registered: still exact
		} else {
			one(g)
		}
	}
	for i := range base.Producers {
		g := cloneReg(base, "omission:producer")
		g.Producers = without(base.Producers, i)
		if base.Producers[i] == "application/json" {
			both(g)
		} else {
			one(g)
		}
	}
	for i := range base.Ops {
		g := cloneReg(base, "omission:operation")
		g.Ops = append(append([]OpReg{}, base.Ops[:i]...), base.Ops[i+1:]...)
		one(g)
	}
	for i := range base.Auths {
		g := cloneReg(base, "omission:authenticator")
		g.Auths = without(base.Auths, i)
		one(g)
	}
	// single additions
	{
		g := cloneReg(base, "addition:consumer")
		g.Consumers = append(g.Consumers, freshConsumerMedia(r, named[catConsumes]))
		one(g)
		g = cloneReg(base, "addition:producer")
		g.Producers = append(g.Producers, freshMedia(r, named[catProduces]))
		one(g)
		for k := 0; k < 2; k++ {
			o, how := freshOp(r, d)
			g = cloneReg(base, "addition:operation-"+how)
			g.Ops = append(g.Ops, o)
			one(g)
		}
		g = cloneReg(base, "addition:authenticator")
		g.Auths = append(g.Auths, "extra")
		one(g)
		if len(base.Auths) > 0 {
			a := base.Auths[r.Intn(len(base.Auths))]
			v := mixCase(r, a)
			if !named[catAuth][v] {
				g = cloneReg(base, "addition:authenticator-name-case")
				g.Auths = append(g.Auths, v)
				one(g)
			}
		}
		// a wildcard is a name like any other on the registration side: no description names it
		{
			w := wildcards[r.Intn(len(wildcards))]
			if r.Intn(2) == 0 {
				g = cloneReg(base, "addition:consumer-wildcard")
				g.Consumers = append(g.Consumers, w)
			} else {
				g = cloneReg(base, "addition:producer-wildcard")
				g.Producers = append(g.Producers, w)
			}
			one(g)
		}
		// an authenticator for a definition that is declared but used nowhere: superfluous among the
		// authenticators, a category that comes before the security definitions
		for _, sd := range d.SecDefs {
			if !named[catAuth][sd.Name] {
				g = cloneReg(base, "addition:authenticator-unused-definition")
				g.Auths = append(g.Auths, sd.Name)
				one(g)
				break
			}
		}
		// a declared path with / without its trailing slash is another path (names are compared exactly)
		if len(base.Ops) > 0 {
			o := base.Ops[r.Intn(len(base.Ops))]
			v := o.Path + "/"
			if strings.HasSuffix(o.Path, "/") {
				v = strings.TrimSuffix(o.Path, "/")
			}
			if v != "" && !named[catOperation][opName(o.Method, v)] {
				g = cloneReg(base, "addition:operation-trailing-slash")
				g.Ops = append(g.Ops, OpReg{Method: o.Method, Path: v})
				one(g)
				g = cloneReg(base, "substitution:operation-trailing-slash")
				for i := range g.Ops {
					if g.Ops[i] == o {
						g.Ops[i].Path = v
					}
				}
				one(g)
			}
		}
		// a parameterised media type is another name
		if len(base.Consumers) > 0 {
			g = cloneReg(base, "addition:consumer-with-parameter")
			g.Consumers = append(g.Consumers, base.Consumers[r.Intn(len(base.Consumers))]+"; charset=utf-8")
			one(g)
		}
	}
	// case variants of media types and methods: still the same registrations
	for k := 0; k < 2; k++ {
		g := cloneReg(base, "case-variant")
		for i := range g.Consumers {
			g.Consumers[i] = mixCase(r, g.Consumers[i])
		}
		for i := range g.Producers {
			g.Producers[i] = mixCase(r, g.Producers[i])
		}
		for i := range g.Ops {
			g.Ops[i].Method = mixCase(r, g.Ops[i].Method)
		}
		g.Authorizer = k == 1
		both(g)
	}
	// duplicates: registering twice (second time in another case) is idempotent
	{
		g := cloneReg(base, "duplicate")
		for _, c := range base.Consumers {
			g.Consumers = append(g.Consumers, strings.ToUpper(c))
		}
		for _, p := range base.Producers {
			g.Producers = append(g.Producers, p)
		}
		for _, o := range base.Ops {
			g.Ops = append(g.Ops, OpReg{Method: strings.ToUpper(o.Method), Path: o.Path})
		}
		g.Auths = append(g.Auths, base.Auths...)
		one(g)
	}
	// Register* calls between two validations of one API value
	{
		// after a success: one superfluous item of one category
		cat := r.Intn(4)
		g := cloneReg(base, "then-register:superfluous-"+regCatNames[cat])
		g.Then = &Delta{}
		switch cat {
		case 0:
			g.Then.Consumers = []string{freshConsumerMedia(r, named[catConsumes])}
		case 1:
			g.Then.Producers = []string{freshMedia(r, named[catProduces])}
		case 2:
			o, _ := freshOp(r, d)
			g.Then.Ops = []OpReg{o}
		default:
			g.Then.Auths = []string{"extra"}
		}
		one(g)
		// after a failure: the one missing item is registered; the API then validates and is served
		type cand struct {
			cat int
			i   int
		}
		var cands []cand
		for i, c := range base.Consumers {
			if c != "application/json" {
				cands = append(cands, cand{0, i})
			}
		}
		for i, p := range base.Producers {
			if p != "application/json" {
				cands = append(cands, cand{1, i})
			}
		}
		for i := range base.Ops {
			cands = append(cands, cand{2, i})
		}
		for i := range base.Auths {
			cands = append(cands, cand{3, i})
		}
		if len(cands) > 0 {
			c := cands[r.Intn(len(cands))]
			g := cloneReg(base, "then-register:missing-"+regCatNames[c.cat])
			g.Then = &Delta{}
			switch c.cat {
			case 0:
				g.Then.Consumers = []string{base.Consumers[c.i]}
				g.Consumers = without(base.Consumers, c.i)
			case 1:
				g.Then.Producers = []string{base.Producers[c.i]}
				g.Producers = without(base.Producers, c.i)
			case 2:
				g.Then.Ops = []OpReg{base.Ops[c.i]}
				g.Ops = append(append([]OpReg{}, base.Ops[:c.i]...), base.Ops[c.i+1:]...)
			default:
				g.Then.Auths = []string{base.Auths[c.i]}
				g.Auths = without(base.Auths, c.i)
			}
			both(g)
			// re-registering an existing key (another handler value) changes nothing
			c = cands[r.Intn(len(cands))]
			g = cloneReg(base, "then-register:same-key-"+regCatNames[c.cat])
			g.Then = &Delta{}
			switch c.cat {
			case 0:
				g.Then.Consumers = []string{base.Consumers[c.i]}
			case 1:
				g.Then.Producers = []string{mixCase(r, base.Producers[c.i])}
			case 2:
				g.Then.Ops = []OpReg{base.Ops[c.i]}
			default:
				g.Then.Auths = []string{base.Auths[c.i]}
			}
			one(g)
		}
	}
	// the caller assigns the API's default media types (public fields): a type the description names
	if len(base.Consumers) > 0 || len(base.Producers) > 0 {
		g := cloneReg(base, "caller-set-defaults")
		if len(base.Consumers) > 0 && r.Intn(3) > 0 {
			g.DefaultConsumes = base.Consumers[r.Intn(len(base.Consumers))]
		}
		if len(base.Producers) > 0 && (g.DefaultConsumes == "" || r.Intn(3) > 0) {
			g.DefaultProduces = base.Producers[r.Intn(len(base.Producers))]
		}
		both(g)
	}
	// random multi-category deltas
	for k := 0; k < nmulti; k++ {
		g := cloneReg(base, "multi")
		nd := 2 + r.Intn(4)
		for j := 0; j < nd; j++ {
			switch r.Intn(8) {
			case 0:
				if len(g.Consumers) > 0 {
					g.Consumers = without(g.Consumers, r.Intn(len(g.Consumers)))
				}
			case 1:
				g.Consumers = append(g.Consumers, mixCase(r, freshConsumerMedia(r, named[catConsumes])))
			case 2:
				if len(g.Producers) > 0 {
					g.Producers = without(g.Producers, r.Intn(len(g.Producers)))
				}
			case 3:
				g.Producers = append(g.Producers, freshMedia(r, named[catProduces]))
			case 4:
				if len(g.Ops) > 0 {
					i := r.Intn(len(g.Ops))
					g.Ops = append(append([]OpReg{}, g.Ops[:i]...), g.Ops[i+1:]...)
				}
			case 5:
				o, _ := freshOp(r, d)
				g.Ops = append(g.Ops, o)
			case 6:
				if len(g.Auths) > 0 {
					g.Auths = without(g.Auths, r.Intn(len(g.Auths)))
				}
			case 7:
				g.Auths = append(g.Auths, []string{"extra", "other", "BASIC"}[r.Intn(3)])
			}
		}
		one(g)
	}
	return out
}

// probeNonLower: a description that names a media type in mixed case or with a parameter (outside the
// serving clause). Validate only, for the registration set that registers every named type as it is spelt.
// Mixed case: judged - such registrations coincide with the requirements, Validate must succeed (it did not
// until the library compared the required types in the lower case it registers them under). With a
// parameter: the outcome is CLASSED, not judged.
func probeNonLower(m *mon.M, r *rand.Rand, d0 *Desc) {
	raw0, _ := json.Marshal(d0)
	var d Desc
	if json.Unmarshal(raw0, &d) != nil {
		return
	}
	var lists []*[]string
	if len(d.Consumes) > 0 {
		lists = append(lists, &d.Consumes)
	}
	if len(d.Produces) > 0 {
		lists = append(lists, &d.Produces)
	}
	for i := range d.Ops {
		if len(d.Ops[i].Consumes) > 0 {
			lists = append(lists, &d.Ops[i].Consumes)
		}
		if len(d.Ops[i].Produces) > 0 {
			lists = append(lists, &d.Ops[i].Produces)
		}
	}
	if len(lists) == 0 {
		return
	}
	l := lists[r.Intn(len(lists))]
	i := r.Intn(len(*l))
	how := "mixed-case"
	if r.Intn(2) == 0 {
		(*l)[i] = mixCase(r, (*l)[i])
	} else {
		how = "parameter"
		(*l)[i] += "; charset=utf-8"
	}
	g := exactReg(&d, false)
	g.Kind = "probe-nonlower-description"
	g.NoJSONDefaults = !required(&d, false)[catConsumes]["application/json"] || !required(&d, false)[catProduces]["application/json"]
	judgeNonLower(m, &d, g, how)
}

// judgeNonLower validates one registration set (every named type registered as it is spelt) against a description that
// names a type in mixed case or with a parameter; also the replay entry of such a case.
func judgeNonLower(m *mon.M, dp *Desc, g Reg, how string) {
	d := *dp
	raw := render(&d)
	var doc *loads.Document
	var lerr error
	if pv, _ := mon.Catch(func() { doc, lerr = loads.Analyzed(json.RawMessage(raw), "") }); pv != nil || lerr != nil {
		m.Class("probe:nonlower-description/" + how + "/not-loadable")
		return
	}
	m.Eval(1)
	var err error
	pv, st := mon.Catch(func() { err = buildAPI(doc, &g, &recorder{}).Validate() })
	if pv != nil {
		m.Violate("validate-panic/probe-nonlower-description", fmt.Sprintf("%v\n%s", pv, st), &Case{Desc: d, Reg: g})
		return
	}
	obs := observe(err)
	if how == "mixed-case" && !obs.ok && obs.other == "" && (obs.cat == catConsumes || obs.cat == catProduces) {
		// Ruling (round 3): the registrations coincide with what the description requires - every named type is registered
		// exactly as the description spells it - so validation must not fail on the media types (a failure in another
		// category, e.g. an unused security definition of the description, has nothing to do with letter case); that the registry folds letter case is its
		// own business. (The parameter variant stays a probe: what a type "with a parameter" requires is not stated.)
		m.NT("probe-nonlower|" + string(raw))
		m.Violate("rejects-coinciding-registrations/description-names-a-type-in-mixed-case", fmt.Sprintf("every media type is registered as the description spells it, Validate says: %v", err), &Case{Desc: d, Reg: g})
		return
	}
	switch {
	case obs.ok:
		m.Class("probe:nonlower-description/" + how + "/validates-with-types-registered-as-spelt")
	case obs.other != "":
		m.Class("probe:nonlower-description/" + how + "/other-error")
	default:
		side := ""
		if len(obs.missReg) > 0 {
			side += "+missing"
		}
		if len(obs.missSpec) > 0 {
			side += "+superfluous"
		}
		m.Class("probe:nonlower-description/" + how + "/fails-" + catNames[obs.cat] + side)
	}
}

// ---- descriptions that spell one media type in two ways ----

// spellings counts, per media-type category, the spellings the description uses and the media types they stand for.
func spellings(d *Desc) (spelt, types [2]int) {
	var verb, fold [2]strset
	for c := range verb {
		verb[c], fold[c] = strset{}, strset{}
	}
	add := func(c int, l []string) {
		for _, t := range l {
			verb[c][t] = true
			fold[c][strings.ToLower(t)] = true
		}
	}
	add(catConsumes, d.Consumes)
	add(catProduces, d.Produces)
	for i := range d.Ops {
		add(catConsumes, d.Ops[i].Consumes)
		add(catProduces, d.Ops[i].Produces)
	}
	for c := range verb {
		spelt[c], types[c] = len(verb[c]), len(fold[c])
	}
	return
}

// descFeature is the input feature class, in a signature, of a description that names one media type in two spellings
// that differ by letter case within one category ("" for every other description).
func descFeature(d *Desc) string {
	spelt, types := spellings(d)
	if spelt[catConsumes] > types[catConsumes] || spelt[catProduces] > types[catProduces] {
		return "/description-spells-a-type-two-ways"
	}
	if extensionPair(d) {
		return "/description-names-a-type-and-an-extension-of-it"
	}
	return ""
}

// otherSpelling gives a spelling of the media type that differs by letter case only and is none of the taken ones.
func otherSpelling(r *rand.Rand, t string, taken strset) string {
	low := strings.ToLower(t)
	cands := []string{strings.ToUpper(low), upperType(low), mixCase(r, low), mixCase(r, low), low}
	r.Shuffle(len(cands)-1, func(i, j int) { cands[i], cands[j] = cands[j], cands[i] }) // the lower-case spelling last
	for _, c := range cands {
		if !taken[c] {
			return c
		}
	}
	return ""
}

// twoSpellingsDesc derives from a lower-case description one that names 1-2 media types in a further spelling
// (letter case) within a category: in the same list, or in another list of that category (the global list, the list of
// another operation - appended, or in place of the spelling that stands there; an operation without a list of its own
// gets one now and then). how names what was done ("" = the description names no media type).
func twoSpellingsDesc(r *rand.Rand, d0 *Desc) (d *Desc, how string) {
	raw0, _ := json.Marshal(d0)
	d = &Desc{}
	if json.Unmarshal(raw0, d) != nil {
		return nil, ""
	}
	n := 1 + r.Intn(3)/2 // 1, 1 or 2 further spellings
	for k := 0; k < n; k++ {
		cat := r.Intn(2)
		lists := func(cat int) (ls []*[]string) {
			if cat == catConsumes {
				ls = append(ls, &d.Consumes)
				for i := range d.Ops {
					ls = append(ls, &d.Ops[i].Consumes)
				}
			} else {
				ls = append(ls, &d.Produces)
				for i := range d.Ops {
					ls = append(ls, &d.Ops[i].Produces)
				}
			}
			return
		}
		ls := lists(cat)
		nonEmpty := func(ls []*[]string) (out []int) {
			for i, l := range ls {
				if len(*l) > 0 {
					out = append(out, i)
				}
			}
			return
		}
		ne := nonEmpty(ls)
		if len(ne) == 0 {
			cat = 1 - cat
			ls = lists(cat)
			ne = nonEmpty(ls)
		}
		if len(ne) == 0 {
			break
		}
		taken := strset{}
		for _, l := range ls {
			for _, t := range *l {
				taken[t] = true
			}
		}
		src := ls[ne[r.Intn(len(ne))]]
		t := (*src)[r.Intn(len(*src))]
		v := otherSpelling(r, t, taken)
		if v == "" {
			continue
		}
		// where the further spelling goes
		dst, where := src, "same-list"
		if r.Intn(3) > 0 && len(ls) > 1 {
			j := r.Intn(len(ls))
			// a form-only operation keeps its list (its formData parameter needs it)
			if ls[j] != src && !(cat == catConsumes && j > 0 && d.Ops[j-1].Form) {
				dst, where = ls[j], "other-list"
			}
		}
		replaced := false
		if dst != src {
			for i, e := range *dst {
				if strings.EqualFold(e, t) {
					(*dst)[i], replaced = v, true // "text/csv" here, "text/CSV" there
					break
				}
			}
		}
		if !replaced {
			if i := r.Intn(len(*dst) + 1); i == len(*dst) {
				*dst = append(*dst, v)
			} else {
				*dst = append((*dst)[:i], append([]string{v}, (*dst)[i:]...)...)
			}
		}
		if how != "" {
			how += "+"
		}
		how += catNames[cat] + ":" + where
	}
	if descFeature(d) == "" {
		return nil, ""
	}
	return d, how
}

// probeTwoSpellings: the registration sets of a description that names one media type in two spellings within a
// category. Such a description lies outside the serving clause (its media types are not all lower-case): the validation
// clause alone is judged - both spellings are ONE required consumer / producer, so the exact set is the one that holds
// it once, and every omission, addition and multi-category delta is owed the same report as for the one-spelling
// description. Besides the registration sets of every description: 1-3 superfluous media types in one category, in both
// JSON-defaults modes (a count of registrations that equals a count of spellings says nothing about the sets).
func probeTwoSpellings(m *mon.M, r *rand.Rand, d0 *Desc) {
	d, how := twoSpellingsDesc(r, d0)
	if d == nil {
		return
	}
	m.Class("description:two-spellings/" + how)
	spelt, types := spellings(d)
	for c := range spelt {
		if k := spelt[c] - types[c]; k > 0 {
			m.Class(fmt.Sprintf("description:two-spellings/%s/%d-further-spelling(s)", catNames[c], k))
		}
	}
	regs := variants(r, d, 4)
	base := exactReg(d, false)
	named := required(d, false)
	for k := 1; k <= 3; k++ {
		for cat := 0; cat < 2; cat++ {
			g := cloneReg(base, fmt.Sprintf("addition:%s-x%d", regCatNames[cat], k))
			seen := strset{}
			for t := range named[cat] {
				seen[t] = true
			}
			for j := 0; j < k; j++ {
				t := freshFrom(r, seen, mediaTypes)
				if seen[t] {
					t = fmt.Sprintf("application/x-extra-%d", j)
				}
				seen[t] = true
				if cat == catConsumes {
					g.Consumers = append(g.Consumers, t)
				} else {
					g.Producers = append(g.Producers, t)
				}
			}
			g2 := cloneReg(g, g.Kind)
			g2.NoJSONDefaults = true
			regs = append(regs, g, g2)
		}
	}
	runDesc(m, r, d, regs, false, nil)
}

func namesMixedCaseType(d *Desc) bool {
	lists := [][]string{d.Consumes, d.Produces}
	for i := range d.Ops {
		lists = append(lists, d.Ops[i].Consumes, d.Ops[i].Produces)
	}
	for _, l := range lists {
		for _, t := range l {
			if strings.ToLower(t) != t {
				return true
			}
		}
	}
	return false
}

func run(m *mon.M) {
	// loading a description allocates heavily and the live heap is tiny: collect less often
	debug.SetGCPercent(800)
	resetReadings()
	r := m.Rand("descriptions")
	rb := m.Rand("answers-without-body")
	rs := m.Rand("two-spellings")
	n := m.N(700, 7000)
	for i := 0; i < n; i++ {
		d := genDesc(r)
		shapeNoBody(rb, d)
		if i%wideEvery == wideEvery/2 {
			d = genWideDesc(r)
		}
		regs := variants(r, d, 4)
		runDesc(m, r, d, regs, true, nil)
		if i%20 == 7 {
			probeNonLower(m, m.Rand("nonlower"), d)
		}
		if i%8 == 3 && !isWide(d) {
			probeTwoSpellings(m, rs, d)
		}
	}
}

func replay(m *mon.M, raw json.RawMessage) {
	var c Case
	if err := json.Unmarshal(raw, &c); err != nil {
		m.Violate("bad-replay-case", err.Error(), nil)
		return
	}
	resetReadings()
	if c.Reg.Kind == "probe-nonlower-description" {
		how := "parameter"
		if namesMixedCaseType(&c.Desc) {
			how = "mixed-case"
		}
		judgeNonLower(m, &c.Desc, c.Reg, how)
		return
	}
	if c.Other != nil {
		runDesc(m, rand.New(rand.NewSource(1)), &c.Other.Desc, []Reg{c.Other.Reg}, false, nil)
	}
	runDesc(m, rand.New(rand.NewSource(1)), &c.Desc, []Reg{c.Reg}, c.Req != nil, c.Req)
}
