// Package c04 monitors client/server agreement: what a caller sets through the client transport is
// what the handler of the same description receives, and the handler's response reaches the reader.
package c04

import (
	"bytes"
	"encoding/json"
	"fmt"
	"io"
	"math/rand"
	"net/http"
	"net/http/httptest"
	"sort"
	"strings"
	"sync"
	"time"
	"unicode/utf8"

	oaerrors "github.com/go-openapi/errors"
	rt "github.com/go-openapi/runtime"
	"github.com/go-openapi/runtime/client"
	"github.com/go-openapi/runtime/middleware"
	"github.com/go-openapi/runtime/middleware/untyped"
	"github.com/go-openapi/runtime/security"
	"github.com/go-openapi/runtime/yamlpc"
	"github.com/go-openapi/strfmt"

	"verif/gen"
	"verif/mon"
)

func init() {
	mon.Register(&mon.Property{
		ID:    "C04",
		Level: "exploration",
		Rule: "generated descriptions (base path in {/, /api, /a/b}; 1..4 operations; path/query/header parameters, multi-valued query arrays, a JSON body, urlencoded or multipart form fields, file uploads; optional api-key security; produces json or text; success codes 200/201/202; JSON bodies also on GET and OPTIONS operations; HEAD and OPTIONS operations; file parameters declared under names that need quoting in a part header) " +
			"served by Context.APIHandler on a real loopback httptest.Server and called through client.Runtime.Submit with hostile values (reserved URL bytes '/', '%', '+', ' ', '?', '#', ':', '*', '{', '}', ';', '=', '&', non-ASCII, NUL, boundary integers, repeated values, files of 0..70000 bytes). " +
			"Request side also: octet-stream bodies handed over as io.ReadCloser, multipart operations called without their (optional) file or with two file parameters, a file sent although the first consumes entry is urlencoded, empty items in multi arrays, DELETE with a JSON body, path values spelling another parameter's placeholder, file names holding tab, no-break/zero-width spaces, U+2028, U+FEFF, quotes, backslashes and bytes that are not UTF-8, header and form parameters left out in 1 call in 5. " +
			"Response side: the handler answers through a Responder with a status in {declared success code, 200,201,202,204,300,304,400,401,403,404,409,422,429,500,503}, an echo header, a two-valued header, optionally an explicit Content-Type (parameters, upper case), and a json/text/octet-stream body of 0 bytes..1 MiB, optionally flushing the head and writing the body only once the caller's reader has been entered (a logical event, no timing); or returns an error carrying a 4xx/5xx code (status judged only). " +
			"Oracle: equality of every received value with the supplied one (a declared query/header/form parameter the call left out must arrive as the zero value), of the operation that ran, and of status/headers/body seen by the response reader with what the handler wrote (body read to EOF without error; status and headers only for HEAD operations). non-trivial = a call with >= 1 value containing a byte that needs escaping in its location; distinct by (operation shape, value tuple)",
		Assumptions: []string{
			"path values that are empty or dot segments are not generated (outside the guarantee: paths are normalised by design)",
			"header values are restricted to what HTTP can carry (no CR/LF/NUL/other controls, no leading/trailing whitespace)",
			"JSON body strings are valid UTF-8 (JSON cannot carry other bytes); form file names are sent by base name and hold no CR/LF/NUL/DEL (Go's MIME header reader refuses a part header with DEL: protocol, not this code)",
			"the Content-Type of a 304 answer is not judged (net/http strips it); a 304 answer carries no body",
			"octet-stream request bodies have >= 1 byte (an empty stream is indistinguishable from an absent body); a 204 answer carries no body (HTTP)",
			"when the handler returns an error value only the status reaching the reader is judged (the error document is written by the API's error responder: C08); the Content-Type seen by the reader is judged only when the handler set it itself (otherwise it is the negotiated one: C07/C08)",
		},
		MinNontrivial: 200,
		Run:           run,
		Replay:        replay,
	})
}

// Call is one client call against operation Op with the given values.
type Call struct {
	Op           int                `json:"op"`
	Path         map[string]mon.Q   `json:"path,omitempty"`
	Query        map[string][]mon.Q `json:"query,omitempty"`
	Header       map[string]mon.Q   `json:"header,omitempty"`
	HeaderArr    map[string][]mon.Q `json:"headerArrays,omitempty"` // name -> items (joined by the declared separator)
	BodyType     string             `json:"bodyType,omitempty"`     // media type used for the JSON-like body ("" = first consumes)
	FileSkip     int                `json:"fileSkip,omitempty"`     // the upload is a seekable source handed over positioned at this offset
	Signer       bool               `json:"signer,omitempty"`       // the auth writer reads the body (GetBody) like a request signer
	BodyAsReader bool               `json:"bodyAsReader,omitempty"` // the JSON body is handed over as an io.Reader holding its text
	Form         map[string][]mon.Q `json:"form,omitempty"`
	FileLen      int                `json:"fileLen,omitempty"`
	File         mon.Q              `json:"file,omitempty"` // file name ("" = no file); may hold bytes that need quoting in a part header
	Text         mon.Q              `json:"text,omitempty"` // text/plain body handed over as a Go string ("" = none)
	Body         map[string]mon.Q   `json:"body,omitempty"`
	Key          mon.Q              `json:"key,omitempty"`
	RawLen       int                `json:"rawLen,omitempty"` // > 0: the body is an octet stream of this many bytes handed over as an io.ReadCloser
	File2        string             `json:"file2,omitempty"`  // second file parameter "upload2" ("" = not sent)
	File2Len     int                `json:"file2Len,omitempty"`
	// what the handler answers
	RespHeader mon.Q  `json:"respHeader,omitempty"`
	RespText   mon.Q  `json:"respText,omitempty"`
	RespLen    int    `json:"respLen,omitempty"`   // deterministic filler of this many bytes follows RespText in the answer
	RespCode   int    `json:"respCode,omitempty"`  // status the handler answers with (0 = the declared success code)
	RespFlush  bool   `json:"respFlush,omitempty"` // the handler flushes the head and writes the body once the caller's reader has been entered
	RespKind   string `json:"respKind,omitempty"`  // "" = a Responder writes the answer | "error" = the handler returns an error carrying RespCode
	RespCT     mon.Q  `json:"respCT,omitempty"`    // Content-Type set by the handler itself ("" = left to the middleware)
}

// Case is a description plus calls.
type Case struct {
	Desc  gen.Desc `json:"desc"`
	Auth  bool     `json:"auth,omitempty"`
	Calls []Call   `json:"calls"`
}

type received struct {
	op    string
	bound map[string]interface{}
	files map[string]string
	ran   int
	// response side (written by the Responder)
	noFlusher   bool
	gateTimeout bool
}

type sut struct {
	srv  *httptest.Server
	got  *received
	next *Call
	rtm  *client.Runtime
	// gate is closed when the caller's response reader is entered (or Submit has returned); done when the Responder has finished
	gate     chan struct{}
	gateOnce *sync.Once
	done     chan struct{}
}

func (s *sut) openGate() { s.gateOnce.Do(func() { close(s.gate) }) }

const (
	octetMime   = "application/octet-stream"
	gateTimeout = 20 * time.Second // watchdog only
)

// rawConsumer is the server-side consumer of octet-stream bodies: the untyped binder hands it a map target.
var rawConsumer = rt.ConsumerFunc(func(r io.Reader, v interface{}) error {
	b, err := io.ReadAll(r)
	if err != nil {
		return err
	}
	if mp, ok := v.(*map[string]interface{}); ok {
		*mp = map[string]interface{}{"raw": string(b)}
		return nil
	}
	return fmt.Errorf("c04 raw consumer: unexpected target %T", v)
})

// respFiller is the deterministic tail of a sized answer: printable text, or arbitrary bytes for octet-stream answers.
func respFiller(n int, binary bool) string {
	if n <= 0 {
		return ""
	}
	const alpha = "abcdefghijklmnopqrstuvwxyzABCDEFGHIJKLMNOPQRSTUVWXYZ0123456789 <>&\"'\\/-_.,;:"
	b := make([]byte, n)
	for i := range b {
		if binary {
			b[i] = byte(i*13 + i/251 + i/65521)
		} else {
			b[i] = alpha[(i+i/61+i/4099)%len(alpha)]
		}
	}
	return string(b)
}

func producesOctet(op *gen.Op) bool { return len(op.Produces) > 0 && op.Produces[0] == octetMime }
func producesText(op *gen.Op) bool  { return len(op.Produces) > 0 && op.Produces[0] == "text/plain" }

// respBody is what the handler writes for the call.
func respBody(call *Call, op *gen.Op) string {
	return string(call.RespText) + respFiller(call.RespLen, producesOctet(op))
}

func respCode(call *Call, op *gen.Op) int {
	if call.RespCode != 0 {
		return call.RespCode
	}
	if op.SuccessCode != 0 {
		return op.SuccessCode
	}
	return 200
}

func fileContent(n int) []byte {
	b := make([]byte, n)
	for i := range b {
		b[i] = byte(i*7 + i/251)
	}
	return b
}

// fileParamName is the declared name of the (first) file parameter of the operation.
func fileParamName(op *gen.Op) string {
	for _, p := range op.Params {
		if p.In == "formData" && p.Type == "file" && p.Name != "upload2" {
			return p.Name
		}
	}
	return "upload"
}

// bodyless: answers that cannot carry a body (HTTP).
func bodyless(code int) bool { return code == http.StatusNoContent || code == http.StatusNotModified }

// textConsumer is the server-side consumer of text/plain bodies: the library's TextConsumer reads the text; the untyped
// binder hands over a map target, which receives it under "raw".
var textConsumer = rt.ConsumerFunc(func(r io.Reader, v interface{}) error {
	mp, ok := v.(*map[string]interface{})
	if !ok {
		return rt.TextConsumer().Consume(r, v)
	}
	var str string
	if err := rt.TextConsumer().Consume(r, &str); err != nil {
		return err
	}
	*mp = map[string]interface{}{"raw": str}
	return nil
})

func build(c *Case) (*sut, error) {
	doc, err := c.Desc.Load()
	if err != nil {
		return nil, err
	}
	s := &sut{got: &received{}}
	api := untyped.NewAPI(doc)
	api.RegisterConsumer("application/x-www-form-urlencoded", rt.DiscardConsumer)
	api.RegisterConsumer("multipart/form-data", rt.DiscardConsumer)
	api.RegisterProducer("text/plain", rt.TextProducer())
	api.RegisterConsumer("text/plain", textConsumer)
	api.RegisterConsumer("application/x-yaml", yamlpc.YAMLConsumer())
	api.RegisterConsumer(octetMime, rawConsumer)
	api.RegisterProducer(octetMime, rt.ByteStreamProducer())
	api.RegisterAuth("key", security.APIKeyAuth("X-Api-Key", "header", func(tok string) (interface{}, error) { return "P:" + tok, nil }))
	for i := range c.Desc.Ops {
		op := c.Desc.Ops[i]
		api.RegisterOperation(op.Method, op.Template, rt.OperationHandlerFunc(func(params interface{}) (interface{}, error) {
			s.got.ran++
			s.got.op = op.ID
			s.got.bound, _ = params.(map[string]interface{})
			s.got.files = map[string]string{}
			for k, v := range s.got.bound {
				if f, ok := v.(rt.File); ok && f.Data != nil {
					b, _ := io.ReadAll(f.Data)
					name := ""
					if f.Header != nil {
						name = f.Header.Filename
					}
					s.got.files[k] = fmt.Sprintf("%s:%x", name, mon.Hash64(string(b)))
				}
			}
			call := s.next
			got, gate, done := s.got, s.gate, s.done
			if call.RespKind == "error" {
				close(done)
				return nil, oaerrors.New(int32(respCode(call, &op)), "refused: %s", string(call.RespText))
			}
			return middleware.ResponderFunc(func(rw http.ResponseWriter, pr rt.Producer) {
				defer close(done)
				rw.Header().Set("X-Echo", string(call.RespHeader))
				rw.Header().Add("X-Multi", "one")
				rw.Header().Add("X-Multi", "two")
				if call.RespCT != "" {
					rw.Header().Set("Content-Type", string(call.RespCT))
				}
				code := respCode(call, &op)
				rw.WriteHeader(code)
				if bodyless(code) {
					return
				}
				if call.RespFlush {
					// the head leaves now; the body is written only once the caller's reader has been entered
					if fl, ok := rw.(http.Flusher); ok {
						fl.Flush()
						select {
						case <-gate:
						case <-time.After(gateTimeout):
							got.gateTimeout = true
						}
					} else {
						got.noFlusher = true
					}
				}
				body := respBody(call, &op)
				switch {
				case producesText(&op):
					_ = pr.Produce(rw, body)
				case producesOctet(&op):
					_ = pr.Produce(rw, []byte(body))
				default:
					_ = pr.Produce(rw, map[string]string{"t": body})
				}
			}), nil
		}))
	}
	ctx := middleware.NewContext(doc, api, nil)
	s.srv = httptest.NewServer(ctx.APIHandler(nil))
	s.rtm = client.New(strings.TrimPrefix(s.srv.URL, "http://"), c.Desc.BasePath, []string{"http"})
	return s, nil
}

type upFile struct {
	name string
	r    *bytes.Reader
}

func (u *upFile) Name() string               { return u.name }
func (u *upFile) Read(p []byte) (int, error) { return u.r.Read(p) }
func (u *upFile) Close() error               { return nil }

// seekFile is a seekable upload source (like *os.File): what is uploaded starts at its current position.
type seekFile struct{ upFile }

func (s *seekFile) Seek(off int64, whence int) (int64, error) { return s.r.Seek(off, whence) }

type seen struct {
	code    int
	echo    string
	multi   []string
	ct      string
	cts     []string
	body    []byte
	readErr error
	consErr error
	value   interface{}
	ran     int
}

// respFeature names what is special about the scripted answer ("" for the plain small 2xx answers).
func respFeature(call *Call, op *gen.Op) string {
	var fs []string
	if call.RespKind == "error" {
		fs = append(fs, "error-result")
	}
	if op.Method == "HEAD" {
		fs = append(fs, "head")
	}
	if call.RespCode != 0 || respCode(call, op) == http.StatusNoContent {
		fs = append(fs, fmt.Sprintf("status-%d", respCode(call, op)))
	}
	switch {
	case call.RespLen >= 16384:
		fs = append(fs, "large-body")
	case call.RespLen > 0:
		fs = append(fs, "sized-body")
	}
	if call.RespFlush {
		fs = append(fs, "head-flushed-first")
	}
	if call.RespCT != "" {
		fs = append(fs, "explicit-content-type")
	}
	if producesOctet(op) {
		fs = append(fs, "octet-stream")
	}
	return strings.Join(fs, "+")
}

func runCase(m *mon.M, c *Case) {
	s, err := build(c)
	if err != nil {
		m.Class("desc-rejected")
		return
	}
	defer s.srv.Close()
	for ci := range c.Calls {
		call := &c.Calls[ci]
		op := &c.Desc.Ops[call.Op]
		one := &Case{Desc: c.Desc, Auth: c.Auth, Calls: []Call{*call}}
		*s.got = received{}
		s.next = call
		s.gate, s.gateOnce, s.done = make(chan struct{}), &sync.Once{}, make(chan struct{})
		sn := &seen{}
		params := rt.ClientRequestWriterFunc(func(req rt.ClientRequest, _ strfmt.Registry) error {
			for k, v := range call.Path {
				_ = req.SetPathParam(k, string(v))
			}
			for k, v := range call.Query {
				_ = req.SetQueryParam(k, mon.SQ(v)...)
			}
			for k, v := range call.Header {
				_ = req.SetHeaderParam(k, string(v))
			}
			for k, items := range call.HeaderArr {
				sep := ","
				for _, p := range op.Params {
					if p.Name == k && p.CollectionFormat == "pipes" {
						sep = "|"
					}
				}
				_ = req.SetHeaderParam(k, strings.Join(mon.SQ(items), sep))
			}
			for k, v := range call.Form {
				_ = req.SetFormParam(k, mon.SQ(v)...)
			}
			if call.File2 != "" {
				_ = req.SetFileParam("upload2", &upFile{name: call.File2, r: bytes.NewReader(fileContent(call.File2Len))})
			}
			if call.RawLen > 0 {
				_ = req.SetBodyParam(io.NopCloser(bytes.NewReader(fileContent(call.RawLen))))
			}
			if call.File != "" {
				if call.FileSkip > 0 {
					sf := &seekFile{upFile{name: string(call.File), r: bytes.NewReader(fileContent(call.FileLen))}}
					_, _ = sf.Seek(int64(call.FileSkip), io.SeekStart) // the caller already consumed a local header
					_ = req.SetFileParam(fileParamName(op), sf)
				} else {
					_ = req.SetFileParam(fileParamName(op), &upFile{name: string(call.File), r: bytes.NewReader(fileContent(call.FileLen))})
				}
			}
			if call.Text != "" {
				_ = req.SetBodyParam(string(call.Text))
			}
			if call.Body != nil {
				b := map[string]string{}
				for k, v := range call.Body {
					b[k] = string(v)
				}
				if call.BodyAsReader {
					txt, _ := json.Marshal(b)
					_ = req.SetBodyParam(strings.NewReader(string(txt)))
				} else {
					_ = req.SetBodyParam(b)
				}
			}
			return nil
		})
		var auth rt.ClientAuthInfoWriter
		if c.Auth {
			auth = client.APIKeyAuth("X-Api-Key", "header", string(call.Key))
		}
		if call.Signer {
			inner := auth
			auth = rt.ClientAuthInfoWriterFunc(func(req rt.ClientRequest, reg strfmt.Registry) error {
				_ = req.GetBody() // a signer looks at what will be sent
				// ... and canonicalises its own copy of the query (GetQueryParams documents a copy)
				q := req.GetQueryParams()
				for k := range q {
					sort.Strings(q[k])
					for i := range q[k] {
						q[k][i] = strings.ToLower(q[k][i])
					}
				}
				q.Set("x-signer-scratch", "1")
				if inner != nil {
					return inner.AuthenticateRequest(req, reg)
				}
				return nil
			})
		}
		reader := rt.ClientResponseReaderFunc(func(resp rt.ClientResponse, cons rt.Consumer) (interface{}, error) {
			sn.ran++
			s.openGate() // the caller's reader has been entered: a handler that flushed its head writes the body now
			sn.code = resp.Code()
			sn.echo = resp.GetHeader("X-Echo")
			sn.multi = resp.GetHeaders("X-Multi")
			sn.ct = resp.GetHeader("Content-Type")
			sn.cts = append([]string(nil), resp.GetHeaders("Content-Type")...)
			b, rerr := io.ReadAll(resp.Body())
			sn.body, sn.readErr = b, rerr
			switch {
			case call.RespKind == "error" || bodyless(sn.code) || op.Method == "HEAD" || rerr != nil:
				// nothing to decode (error document of the API's error responder / no body / body lost)
			case producesText(op):
				var str string
				sn.consErr = cons.Consume(bytes.NewReader(b), &str)
				sn.value = str
			case producesOctet(op):
				var buf bytes.Buffer
				sn.consErr = cons.Consume(bytes.NewReader(b), &buf)
				sn.value = buf.String()
			default:
				var mv map[string]string
				sn.consErr = cons.Consume(bytes.NewReader(b), &mv)
				sn.value = mv["t"]
			}
			return nil, nil
		})
		consumes := op.Consumes
		if call.BodyType != "" {
			consumes = []string{call.BodyType}
		}
		cop := &rt.ClientOperation{ID: op.ID, Method: op.Method, PathPattern: op.Template, ConsumesMediaTypes: consumes, ProducesMediaTypes: op.Produces,
			Params: params, Reader: reader, AuthInfo: auth}
		var subErr error
		pv, st := mon.Catch(func() { _, subErr = s.rtm.Submit(cop) })
		s.openGate() // never leave a handler waiting
		if call.RespFlush && s.got.ran > 0 {
			select { // the Responder finishes before its observations are read
			case <-s.done:
			case <-time.After(gateTimeout):
			}
		}
		m.Eval(1)
		feat := c.feature(call)
		rfeat := respFeature(call, op)
		if rfeat != "" {
			feat += "|resp=" + rfeat
			for _, f := range strings.Split(rfeat, "+") {
				m.Class("resp:" + f)
			}
		}
		if (call.File != "" || call.File2 != "") && len(op.Consumes) > 0 && op.Consumes[0] == "application/x-www-form-urlencoded" {
			// one input class of its own (known finding, shared with C11): the client labels the multipart
			// document it sends "application/x-www-form-urlencoded; boundary=..." when that type is listed first
			feat = "file-sent-while-urlencoded-is-listed-first"
		}
		if needsEscaping(call) {
			m.NT(opShape(op) + "|" + callKey(call))
		}
		descr := func() string {
			cb, _ := json.Marshal(call)
			ob, _ := json.Marshal(op)
			return fmt.Sprintf("op=%s call=%s -> submitErr=%v handlerRan=%d ranOp=%s bound=%.600v files=%v reader{ran=%d code=%d echo=%q multi=%v ct=%q bodyLen=%d body=%.80q readErr=%v consumeErr=%v} answerLen=%d", ob, cb, subErr, s.got.ran, s.got.op, s.got.bound, s.got.files, sn.ran, sn.code, sn.echo, sn.multi, sn.cts, len(sn.body), sn.body, sn.readErr, sn.consErr, len(respBody(call, op)))
		}
		if pv != nil {
			m.Violate("panic/"+feat, fmt.Sprintf("%v\n%s\n%s", pv, st, descr()), one)
			continue
		}
		if subErr != nil {
			m.Violate("submit-error/"+feat, descr(), one)
			continue
		}
		if s.got.ran != 1 {
			m.Violate(fmt.Sprintf("handler-did-not-run-status-%d/%s", sn.code, feat), descr(), one)
			continue
		}
		if s.got.op != op.ID {
			m.Violate("wrong-operation/"+feat, descr(), one)
			continue
		}
		if bad := compareValues(call, op, s.got); bad != "" {
			m.Violate("value-differs/"+bad+"/"+feat, bad+" ; "+descr(), one)
			continue
		}
		if s.got.gateTimeout || s.got.noFlusher {
			m.Class("flush-not-exercised") // watchdog / no Flusher: the flushed shape did not take place; the answer is judged all the same
		}
		code := respCode(call, op)
		wantBody := respBody(call, op)
		if bodyless(code) {
			wantBody = ""
		}
		switch {
		case sn.ran != 1:
			m.Violate(fmt.Sprintf("reader-ran-%d-times/%s", sn.ran, feat), descr(), one)
		case sn.code != code:
			m.Violate("response-status-differs/"+feat, descr(), one)
		case call.RespKind == "error":
			// the handler returned an error value: its status reached the reader; the document is the error responder's
			if sn.readErr != nil {
				m.Violate("response-body-read-error/"+feat, descr(), one)
			} else {
				m.Class("agreed-error-status")
			}
		case sn.echo != string(call.RespHeader) || strings.Join(sn.multi, ",") != "one,two":
			m.Violate("response-header-differs/"+feat, descr(), one)
		case call.RespCT != "" && code != http.StatusNotModified && (sn.ct != string(call.RespCT) || len(sn.cts) != 1 || sn.cts[0] != string(call.RespCT)):
			m.Violate("response-content-type-differs/"+feat, descr(), one)
		case sn.readErr != nil:
			m.Violate("response-body-read-error/"+feat, descr(), one)
		case op.Method == "HEAD":
			m.Class("agreed-head") // a HEAD answer carries no body (HTTP): status and headers are what can reach the reader
		case bodyless(code):
			if len(sn.body) != 0 {
				m.Violate("response-body-differs/"+feat, descr(), one)
			} else {
				m.Class("agreed")
			}
		case sn.consErr != nil || fmt.Sprint(sn.value) != wantBody:
			m.Violate("response-body-differs/"+feat, descr(), one)
		default:
			m.Class("agreed")
		}
	}
	if m.WantSample() {
		sc := *c
		if len(sc.Calls) > 2 {
			sc.Calls = sc.Calls[:2]
		}
		m.Sample(sc)
	}
}

func isZeroValue(v interface{}) bool {
	switch g := v.(type) {
	case nil:
		return true
	case string:
		return g == ""
	case []string:
		return len(g) == 0
	case []interface{}:
		return len(g) == 0
	case int64:
		return g == 0
	}
	return false
}

// unsupplied names the location of a declared parameter the caller left out that reached the handler with a value.
func unsupplied(call *Call, op *gen.Op, got *received) string {
	for _, p := range op.Params {
		supplied := false
		switch p.In {
		case "query":
			_, supplied = call.Query[p.Name]
		case "header":
			_, s1 := call.Header[p.Name]
			_, s2 := call.HeaderArr[p.Name]
			supplied = s1 || s2
		case "formData":
			if p.Type == "file" {
				continue // judged with the files
			}
			_, supplied = call.Form[p.Name]
		default:
			continue
		}
		if !supplied && !isZeroValue(got.bound[p.Name]) {
			return "unsupplied-" + p.In
		}
	}
	return ""
}

func compareValues(call *Call, op *gen.Op, got *received) string {
	str := func(v interface{}) (string, bool) {
		s, ok := v.(string)
		return s, ok
	}
	for k, v := range call.Path {
		if g, ok := str(got.bound[k]); !ok || g != string(v) {
			return "path"
		}
	}
	for k, v := range call.Query {
		switch g := got.bound[k].(type) {
		case string:
			if len(v) != 1 || g != string(v[0]) {
				return "query"
			}
		case []string:
			if strings.Join(g, "\x00") != strings.Join(mon.SQ(v), "\x00") {
				return "query-array"
			}
		case int64:
			if len(v) != 1 || fmt.Sprint(g) != string(v[0]) {
				return "query-integer"
			}
		default:
			return "query-type"
		}
	}
	for k, v := range call.Header {
		if g, ok := str(got.bound[k]); !ok || g != string(v) {
			return "header"
		}
	}
	for k, v := range call.HeaderArr {
		g, ok := got.bound[k].([]string)
		if !ok || strings.Join(g, "\x00") != strings.Join(mon.SQ(v), "\x00") {
			return "header-array"
		}
	}
	for k, v := range call.Form {
		switch g := got.bound[k].(type) {
		case string:
			if len(v) != 1 || g != string(v[0]) {
				return "form"
			}
		case []string:
			if strings.Join(g, "\x00") != strings.Join(mon.SQ(v), "\x00") {
				return "form-array"
			}
		default:
			return "form-type"
		}
	}
	if call.File != "" {
		content := fileContent(call.FileLen)
		if call.FileSkip > 0 && call.FileSkip <= len(content) {
			content = content[call.FileSkip:]
		}
		want := fmt.Sprintf("%s:%x", baseName(string(call.File)), mon.Hash64(string(content)))
		if got.files[fileParamName(op)] != want {
			return "file"
		}
	} else if _, ok := got.files[fileParamName(op)]; ok {
		return "file-not-sent"
	}
	if call.File2 != "" {
		want := fmt.Sprintf("%s:%x", baseName(call.File2), mon.Hash64(string(fileContent(call.File2Len))))
		if got.files["upload2"] != want {
			return "second-file"
		}
	} else if _, ok := got.files["upload2"]; ok {
		return "second-file-not-sent"
	}
	if call.RawLen > 0 {
		gb, ok := got.bound["body"].(map[string]interface{})
		if !ok {
			return "octet-body"
		}
		if raw, ok := gb["raw"].(string); !ok || raw != string(fileContent(call.RawLen)) {
			return "octet-body"
		}
	}
	if call.Body != nil {
		gb, ok := got.bound["body"].(map[string]interface{})
		if !ok || len(gb) != len(call.Body) {
			return "body"
		}
		for k, v := range call.Body {
			if fmt.Sprint(gb[k]) != string(v) {
				return "body"
			}
		}
	}
	if call.Text != "" {
		switch gb := got.bound["body"].(type) {
		case string: // a binder that gives the string schema a string target
			if gb != string(call.Text) {
				return "text-body"
			}
		case map[string]interface{}: // the map target of the untyped binder, filled by textConsumer
			if raw, ok := gb["raw"].(string); !ok || raw != string(call.Text) {
				return "text-body"
			}
		default:
			return "text-body"
		}
	}
	return unsupplied(call, op, got)
}

func baseName(s string) string {
	if i := strings.LastIndexAny(s, "/"); i >= 0 {
		return s[i+1:]
	}
	return s
}

func (c *Case) feature(call *Call) string {
	op := &c.Desc.Ops[call.Op]
	var fs []string
	if len(call.Path) > 0 {
		fs = append(fs, "path")
	}
	if len(call.Query) > 0 {
		fs = append(fs, "query")
	}
	if len(call.Header) > 0 {
		fs = append(fs, "header")
	}
	if len(op.Consumes) > 0 {
		switch op.Consumes[0] {
		case "multipart/form-data":
			fs = append(fs, "multipart")
		case "application/x-www-form-urlencoded":
			fs = append(fs, "urlencoded")
		case "application/json":
			if call.Body != nil {
				fs = append(fs, "json-body")
			}
		case octetMime:
			fs = append(fs, "octet-body")
		case "text/plain":
			fs = append(fs, "text-body")
		}
		if len(op.Consumes) > 1 && op.Consumes[1] == "multipart/form-data" {
			fs = append(fs, "or-multipart")
		}
		if op.Method == "DELETE" && call.Body != nil {
			fs = append(fs, "delete")
		}
		if (op.Method == "GET" || op.Method == "OPTIONS") && (call.Body != nil || call.Text != "" || call.RawLen > 0) {
			fs = append(fs, strings.ToLower(op.Method)) // a body on a method that usually has none
		}
	}
	if call.File2 != "" {
		fs = append(fs, "two-files")
	}
	if len(op.Consumes) > 0 && (op.Consumes[0] == "multipart/form-data" || len(op.Consumes) > 1 && op.Consumes[1] == "multipart/form-data") && call.File == "" && call.File2 == "" {
		fs = append(fs, "no-file")
	}
	if nameNeedsQuoting(string(call.File)) {
		fs = append(fs, "file-name-needs-quoting")
	}
	if fn := fileParamName(op); fn != "upload" && call.File != "" {
		fs = append(fs, "file-parameter-name-needs-quoting")
	}
	if formDeclared(op) && len(call.Form) == 0 && call.File == "" && call.File2 == "" {
		fs = append(fs, "no-form-value")
	}
	return strings.Join(fs, "+")
}

// nameNeedsQuoting: the name holds something other than printable ASCII without quote and backslash.
func nameNeedsQuoting(s string) bool {
	for i := 0; i < len(s); i++ {
		if c := s[i]; c < 0x20 || c >= 0x7f || c == '"' || c == '\\' {
			return true
		}
	}
	return false
}

func formDeclared(op *gen.Op) bool {
	for _, p := range op.Params {
		if p.In == "formData" {
			return true
		}
	}
	return false
}

func needsEscaping(call *Call) bool {
	chk := func(s string) bool {
		for i := 0; i < len(s); i++ {
			c := s[i]
			if !(c >= 'a' && c <= 'z' || c >= 'A' && c <= 'Z' || c >= '0' && c <= '9') {
				return true
			}
		}
		return false
	}
	for _, v := range call.Path {
		if chk(string(v)) {
			return true
		}
	}
	for _, l := range call.Query {
		for _, v := range l {
			if chk(string(v)) {
				return true
			}
		}
	}
	for _, l := range call.Form {
		for _, v := range l {
			if chk(string(v)) {
				return true
			}
		}
	}
	for _, v := range call.Header {
		if chk(string(v)) {
			return true
		}
	}
	return false
}

func opShape(op *gen.Op) string {
	b, _ := json.Marshal(op)
	return fmt.Sprintf("%x", mon.Hash64(string(b)))
}

func callKey(c *Call) string {
	b, _ := json.Marshal(c)
	return string(b)
}

// ---------- generation ----------

var atoms = []string{"/", "%", "+", " ", "?", "#", ":", "*", "{", "}", ";", "=", "&", "é", "\x00", "\xff", "a", "b", "xyz", "%2F", "%25", "..", ".", "~", "\"", "'", "<", ">", "\\", "|", "^", "`", "[", "]", "@", "!", "$", ",", "(", ")", "\t", "日本", "{id}", "{p0}", "{p1}"}

func hostile(r *rand.Rand) string {
	n := 1 + r.Intn(4)
	var sb strings.Builder
	for i := 0; i < n; i++ {
		sb.WriteString(atoms[r.Intn(len(atoms))])
	}
	return sb.String()
}

func pathValue(r *rand.Rand) string {
	for {
		v := hostile(r)
		if v != "" && v != "." && v != ".." {
			return v
		}
	}
}

func headerValue(r *rand.Rand) string {
	for {
		v := hostile(r)
		ok := v == strings.TrimSpace(v) && v != ""
		for i := 0; i < len(v); i++ {
			if v[i] < 0x20 || v[i] == 0x7f {
				ok = false
			}
		}
		if ok {
			return v
		}
	}
}

func utf8Value(r *rand.Rand) string {
	for {
		v := hostile(r)
		if utf8.ValidString(v) {
			return v
		}
	}
}

var methodsWithBody = []string{"POST", "PUT", "PATCH"}

// TRIAGE-PENDING: operations that consume text/plain with a body of schema {type: string}. On the unchanged tree the
// untyped binder gives every body parameter a map (or slice) target whatever its schema says, and the schema validation
// then refuses the bound value ("body in body must be of type string: \"object\"", 422): the handler never runs
// (alarm handler-did-not-run-status-422/text-body, replay /tmp/alarms/C04-text-body-string-schema.json). Set to true once
// the lead has ruled on it; everything else for the shape (client side, consumer, oracle) is in place.
const textBodyOps = true

// TRIAGE-PENDING: a call to an operation that declares (optional) form fields which supplies none of them and no file. On the
// unchanged tree the client then sends no body and no Content-Type, and the server's formData binder answers 415
// ("unsupported media type application/octet-stream"): the handler never runs (alarm
// handler-did-not-run-status-415/urlencoded+no-form-value, replay /tmp/alarms/C04-no-form-value.json). While false, such a
// call supplies its first form field after all.
const emptyFormCalls = true

// names that need quoting in a Content-Disposition header: no-break space, tab, zero width space, quote, backslash, non-ASCII
var fileParamNames = []string{"up\u00a0load", "up\tload", "up\u200bload", "up\"load", "up\\load", "téléversé"}

// file names: plain ones, and ones holding runes/bytes that are not printable ASCII (a part header must carry them as they are)
var fileNames = []string{"a.txt", "dir/b.bin", "sp ace.dat", "é.bin", "a.txt", "dir/b.bin",
	"rapport\u00a0final.pdf", "col1\tcol2.tsv", "zero\u200bwidth.txt", "caf\xe9.txt", "q\"uote.txt", "back\\slash.txt", "dir/\u2028line.txt", "日本\ufeff.bin"}

func genDesc(r *rand.Rand) (gen.Desc, bool) {
	d := gen.Desc{BasePath: []string{"/", "/api", "/a/b"}[r.Intn(3)], Produces: []string{"application/json"}, Consumes: []string{"application/json"}}
	auth := r.Intn(3) == 0
	if auth {
		d.SecDefs = map[string]gen.SecDef{"key": {Type: "apiKey", Name: "X-Api-Key", In: "header"}}
		d.Security = []gen.SecReq{{"key": {}}}
	}
	nops := 1 + r.Intn(4)
	for i := 0; i < nops; i++ {
		op := gen.Op{ID: fmt.Sprintf("op%d", i), SuccessCode: []int{200, 200, 201, 202, 200, 201, 204}[r.Intn(7)]}
		tpl := fmt.Sprintf("/r%d", i)
		np := r.Intn(3)
		for k := 0; k < np; k++ {
			name := fmt.Sprintf("p%d", k)
			if r.Intn(2) == 0 {
				tpl += "/s"
			}
			tpl += "/{" + name + "}"
			op.Params = append(op.Params, gen.Param{Name: name, In: "path", Type: "string", Required: true})
		}
		if r.Intn(4) == 0 {
			tpl += "/tail"
		}
		op.Template = tpl
		nq := r.Intn(3)
		for k := 0; k < nq; k++ {
			p := gen.Param{Name: fmt.Sprintf("q%d", k), In: "query", Type: "string"}
			switch r.Intn(5) {
			case 0:
				p = gen.Param{Name: fmt.Sprintf("q%d", k), In: "query", Type: "array", ItemsType: "string", CollectionFormat: "multi"}
			case 1:
				p = gen.Param{Name: fmt.Sprintf("q%d", k), In: "query", Type: "integer", Format: "int64"}
			}
			op.Params = append(op.Params, p)
		}
		nh := r.Intn(2)
		for k := 0; k < nh; k++ {
			op.Params = append(op.Params, gen.Param{Name: []string{"X-Req-Id", "x-lower", "X-UPPER"}[r.Intn(3)], In: "header", Type: "string"})
		}
		if r.Intn(4) == 0 { // an array carried in one header line
			op.Params = append(op.Params, gen.Param{Name: []string{"X-Labels", "x-labels-lower", "X-Shard-IDs"}[r.Intn(3)], In: "header", Type: "array", ItemsType: "string", CollectionFormat: []string{"csv", "pipes"}[r.Intn(2)]})
		}
		kind := r.Intn(8)
		if kind == 7 && !textBodyOps {
			kind = 4 // TRIAGE-PENDING (see textBodyOps): an operation without body instead
		}
		switch kind {
		case 7: // a text/plain body: a Go string goes through the client's text producer
			op.Method = []string{"POST", "PUT", "PATCH", "POST", "GET"}[r.Intn(5)]
			op.Consumes = []string{"text/plain"}
			op.Params = append(op.Params, gen.Param{Name: "body", In: "body", Required: true, BodySchemaType: "string"})
		case 5: // an octet-stream body
			op.Method = methodsWithBody[r.Intn(3)]
			op.Consumes = []string{octetMime}
			op.Params = append(op.Params, gen.Param{Name: "body", In: "body", Required: true})
		case 6: // multipart form with two file parameters
			op.Method = methodsWithBody[r.Intn(3)]
			op.Consumes = []string{"multipart/form-data"}
			op.Params = append(op.Params, gen.Param{Name: "f0", In: "formData", Type: "string"},
				gen.Param{Name: "upload", In: "formData", Type: "file"},
				gen.Param{Name: "upload2", In: "formData", Type: "file"})
		case 0: // JSON body, on some operations alternatively YAML (the same route sees changing media types)
			// GET and OPTIONS may declare a body too (search operations with a JSON filter)
			op.Method = []string{"POST", "PUT", "PATCH", "DELETE", "GET", "OPTIONS"}[r.Intn(6)]
			op.Consumes = []string{"application/json"}
			if r.Intn(2) == 0 {
				op.Consumes = []string{"application/json", "application/x-yaml"}
			}
			op.Params = append(op.Params, gen.Param{Name: "body", In: "body", Required: true})
		case 1: // urlencoded form
			op.Method = methodsWithBody[r.Intn(3)]
			op.Consumes = []string{"application/x-www-form-urlencoded"}
			op.Params = append(op.Params, gen.Param{Name: "f0", In: "formData", Type: "string"},
				gen.Param{Name: "f1", In: "formData", Type: "array", ItemsType: "string", CollectionFormat: "multi"})
		case 2: // multipart form with a file
			op.Method = methodsWithBody[r.Intn(3)]
			op.Consumes = []string{"multipart/form-data"}
			if r.Intn(4) == 0 { // urlencoded is listed first: a call that carries a file must still go out as multipart
				op.Consumes = []string{"application/x-www-form-urlencoded", "multipart/form-data"}
			}
			upName := "upload"
			if r.Intn(5) == 0 { // a declared name that needs quoting in the part header
				upName = fileParamNames[r.Intn(len(fileParamNames))]
			}
			op.Params = append(op.Params, gen.Param{Name: "f0", In: "formData", Type: "string"},
				gen.Param{Name: "f1", In: "formData", Type: "array", ItemsType: "string", CollectionFormat: "multi"},
				gen.Param{Name: upName, In: "formData", Type: "file"})
		default:
			op.Method = []string{"GET", "DELETE", "GET", "POST", "HEAD", "OPTIONS"}[r.Intn(6)]
		}
		switch r.Intn(6) {
		case 0, 1:
			op.Produces = []string{"text/plain"}
		case 2:
			op.Produces = []string{octetMime}
		default:
			op.Produces = []string{"application/json"}
		}
		d.Ops = append(d.Ops, op)
	}
	return d, auth
}

func genCall(r *rand.Rand, d *gen.Desc, oi int) Call {
	op := &d.Ops[oi]
	c := Call{Op: oi, RespHeader: mon.Q(headerValue(r)), RespText: mon.Q(utf8Value(r)), Key: mon.Q(headerValue(r)), Signer: r.Intn(3) == 0}
	for _, p := range op.Params {
		switch p.In {
		case "path":
			if c.Path == nil {
				c.Path = map[string]mon.Q{}
			}
			c.Path[p.Name] = mon.Q(pathValue(r))
		case "query":
			if r.Intn(5) == 0 {
				continue
			}
			if c.Query == nil {
				c.Query = map[string][]mon.Q{}
			}
			switch {
			case p.Type == "array":
				n := 1 + r.Intn(3)
				var l []mon.Q
				for i := 0; i < n; i++ {
					l = append(l, mon.Q(strings.ReplaceAll(hostile(r), "\x00", "0")+"v"))
				}
				if n >= 2 && r.Intn(4) == 0 {
					l[r.Intn(n)] = "" // an empty item between/next to non-empty ones is a value like any other
				}
				c.Query[p.Name] = l
			case p.Type == "integer":
				c.Query[p.Name] = []mon.Q{mon.Q([]string{"0", "-1", "9223372036854775807", "-9223372036854775808", "42"}[r.Intn(5)])}
			default:
				c.Query[p.Name] = []mon.Q{mon.Q(hostile(r) + "q")}
			}
		case "header":
			if r.Intn(5) == 0 {
				continue // not supplied: must arrive as the zero value
			}
			if p.Type == "array" {
				if c.HeaderArr == nil {
					c.HeaderArr = map[string][]mon.Q{}
				}
				n := 1 + r.Intn(3)
				var l []mon.Q
				for i := 0; i < n; i++ {
					l = append(l, mon.Q([]string{"a", "bb", "x-y", "é", "v1.2", "q=1"}[r.Intn(6)]))
				}
				c.HeaderArr[p.Name] = l
				continue
			}
			if c.Header == nil {
				c.Header = map[string]mon.Q{}
			}
			c.Header[p.Name] = mon.Q(headerValue(r))
		case "formData":
			if p.Type == "file" {
				if r.Intn(3) == 0 {
					continue // the (optional) file is not sent: a fields-only form
				}
				if p.Name == "upload2" {
					c.File2 = []string{"second.txt", "dir/c.bin", "a.txt"}[r.Intn(3)]
					c.File2Len = []int{0, 1, 513, 4096, 70000}[r.Intn(5)]
					continue
				}
				c.File = mon.Q(fileNames[r.Intn(len(fileNames))])
				c.FileLen = []int{0, 1, 511, 512, 513, 4096, 70000}[r.Intn(7)]
				if c.FileLen > 1 && r.Intn(3) == 0 {
					c.FileSkip = 1 + r.Intn(c.FileLen-1)
				}
				continue
			}
			if r.Intn(5) == 0 {
				continue // not supplied: must arrive as the zero value
			}
			if c.Form == nil {
				c.Form = map[string][]mon.Q{}
			}
			if p.Type == "array" {
				n := 1 + r.Intn(3)
				var l []mon.Q
				for i := 0; i < n; i++ {
					l = append(l, mon.Q(hostile(r)+"f"))
				}
				if n >= 2 && r.Intn(4) == 0 {
					l[r.Intn(n)] = ""
				}
				c.Form[p.Name] = l
			} else {
				c.Form[p.Name] = []mon.Q{mon.Q(hostile(r) + "f")}
			}
		case "body":
			if len(op.Consumes) > 0 && op.Consumes[0] == octetMime {
				c.RawLen = []int{1, 2, 511, 4096, 65536, 70001}[r.Intn(6)]
				continue
			}
			if len(op.Consumes) > 0 && op.Consumes[0] == "text/plain" {
				c.Text = mon.Q("t" + utf8Value(r))
				continue
			}
			c.BodyAsReader = r.Intn(3) == 0
			c.Body = map[string]mon.Q{"s": mon.Q(utf8Value(r)), "t": mon.Q(utf8Value(r))}
			if len(op.Consumes) > 1 {
				c.BodyType = op.Consumes[r.Intn(len(op.Consumes))]
				if c.BodyType == "application/x-yaml" {
					c.BodyAsReader = false
					// YAML 1.2 scalars: keep to printable text so that the value is what was sent
					c.Body = map[string]mon.Q{"s": mon.Q("y" + strings.Map(func(r rune) rune {
						if r < 0x20 || r == 0x7f || r == 0x85 || r == 0xfeff {
							return '_'
						}
						return r
					}, string(c.Body["s"]))), "t": "plain"}
				}
			}
		}
	}
	if !emptyFormCalls && formDeclared(op) && len(c.Form) == 0 && c.File == "" && c.File2 == "" {
		// TRIAGE-PENDING (see emptyFormCalls)
		for _, p := range op.Params {
			if p.In == "formData" && p.Type != "file" {
				c.Form = map[string][]mon.Q{p.Name: {mon.Q(hostile(r) + "f")}}
				break
			}
		}
	}
	genAnswer(r, op, &c)
	return c
}

var answerCodes = []int{200, 201, 202, 204, 400, 401, 403, 404, 409, 422, 500, 503, 300, 304, 429}

// sizes around the client's 4 KiB read buffer, beyond what travels with the head, and beyond the socket buffers
var (
	answerSizesSmall = []int{1, 1000, 4095, 4096, 4097}
	answerSizesMid   = []int{16384, 65536, 65537}
	answerSizesBig   = []int{131072, 262144, 1048576}
)

func answerSize(r *rand.Rand) int {
	switch k := r.Intn(10); {
	case k < 5:
		return answerSizesSmall[r.Intn(len(answerSizesSmall))]
	case k < 8:
		return answerSizesMid[r.Intn(len(answerSizesMid))]
	default:
		return answerSizesBig[r.Intn(len(answerSizesBig))]
	}
}

// genAnswer scripts what the handler answers: most answers stay the small 2xx ones, the others vary one or more of
// status, size, the moment the body is written, the way the handler answers and the Content-Type it sets.
func genAnswer(r *rand.Rand, op *gen.Op, c *Call) {
	if r.Intn(10) == 0 {
		c.RespText = "" // a 0-byte text / an empty JSON string
	}
	if r.Intn(4) == 0 {
		c.RespCode = answerCodes[r.Intn(len(answerCodes))]
	}
	if r.Intn(8) == 0 {
		c.RespLen = answerSize(r)
	}
	if r.Intn(8) == 0 {
		c.RespFlush = true
		if c.RespLen == 0 && r.Intn(2) == 0 {
			c.RespLen = answerSize(r)
		}
	}
	if r.Intn(16) == 0 {
		c.RespKind = "error"
		c.RespCode = []int{400, 401, 403, 404, 409, 422, 500, 503}[r.Intn(8)]
		c.RespLen, c.RespFlush = 0, false
		return
	}
	if r.Intn(8) == 0 {
		switch {
		case producesText(op):
			c.RespCT = mon.Q([]string{"text/plain; charset=utf-8", "text/plain;charset=UTF-8", "TEXT/PLAIN", "text/plain; format=flowed; charset=\"utf-8\""}[r.Intn(4)])
		case producesOctet(op):
			c.RespCT = mon.Q([]string{"application/octet-stream; name=\"x y.bin\"", "Application/Octet-Stream"}[r.Intn(2)])
		default:
			c.RespCT = mon.Q([]string{"application/json; charset=utf-8", "application/json;version=2", "Application/JSON", "application/json; profile=\"http://x/y;z\""}[r.Intn(4)])
		}
	}
}

func run(m *mon.M) {
	r := m.Rand("c04")
	nd := m.N(400, 4000)
	per := m.N(25, 40)
	for i := 0; i < nd; i++ {
		d, auth := genDesc(r)
		c := &Case{Desc: d, Auth: auth}
		for k := 0; k < per; k++ {
			c.Calls = append(c.Calls, genCall(r, &d, r.Intn(len(d.Ops))))
		}
		m.Begin(c)
		runCase(m, c)
	}
}

func replay(m *mon.M, raw json.RawMessage) {
	var c Case
	if err := json.Unmarshal(raw, &c); err != nil {
		m.Violate("bad-replay-case", err.Error(), nil)
		return
	}
	runCase(m, &c)
}

var _ = sort.Strings
