// Package c04 monitors client/server agreement: what a caller sets through the client transport is
// what the handler of the same description receives, and the handler's response reaches the reader.
package c04

import (
	"bytes"
	"encoding/json"
	"errors"
	"fmt"
	"io"
	"math/rand"
	"mime"
	"mime/multipart"
	"net/http"
	"net/http/httptest"
	"net/url"
	"os"
	"sort"
	"strconv"
	"strings"
	"sync"
	"sync/atomic"
	"time"
	"unicode/utf8"

	oaerrors "github.com/go-openapi/errors"
	rt "github.com/go-openapi/runtime"
	"github.com/go-openapi/runtime/client"
	"github.com/go-openapi/runtime/middleware"
	"github.com/go-openapi/runtime/middleware/untyped"
	"github.com/go-openapi/runtime/security"
	"github.com/go-openapi/runtime/yamlpc"
	"github.com/go-openapi/strfmt"

	"verif/gen"
	"verif/mon"
)

func init() {
	mon.Register(&mon.Property{
		ID:    "C04",
		Level: "exploration",
		Rule: "generated descriptions (base path in {/, /api, /a/b}; 1..4 operations; path/query/header parameters, multi-valued query arrays, a JSON body, urlencoded or multipart form fields, file uploads; optional api-key security; produces json or text; success codes 200/201/202; JSON bodies also on GET and OPTIONS operations; HEAD and OPTIONS operations; file parameters declared under names that need quoting in a part header) " +
			"served by Context.APIHandler on a real loopback httptest.Server and called through client.Runtime.Submit with hostile values (reserved URL bytes '/', '%', '+', ' ', '?', '#', ':', '*', '{', '}', ';', '=', '&', non-ASCII, NUL, boundary integers, repeated values, files of 0..70000 bytes). " +
			"Request side also: octet-stream bodies handed over as io.ReadCloser, multipart operations called without their (optional) file or with two file parameters, a file sent although the first consumes entry is urlencoded, empty items in multi arrays, DELETE with a JSON body, path values spelling another parameter's placeholder, file names holding tab, no-break/zero-width spaces, U+2028, U+FEFF, quotes, backslashes and bytes that are not UTF-8, header and form parameters left out in 1 call in 5. " +
			"Response side: the handler answers through a Responder with a status in {declared success code, 200,201,202,204,300,304,400,401,403,404,409,422,429,500,503}, an echo header, a two-valued header, optionally an explicit Content-Type (parameters, upper case), and a json/text/octet-stream body of 0 bytes..1 MiB, optionally flushing the head and writing the body only once the caller's reader has been entered (a logical event, no timing); or returns an error carrying a 4xx/5xx code (status judged only). " +
			"Round 3: query and form parameter names that need escaping ($filter, page[size], 'a b', ...); values ending in a space, a reserved byte or a line break; templates and a base path ending in '/', literal segments with reserved bytes; static query parameters written into the operation's path pattern or into the transport's base path, each such call followed by a call (1 in 2 on a new Runtime) to an operation declaring the name whose caller leaves it out (it must receive none); readers that hand the live body to the consumer; answers labelled with a media type the client has no consumer for (the call must fail naming the content type without entering the reader, as C13 states; with a catch-all consumer the answer must arrive intact); values that cannot be sent (unmarshallable body, media type without producer, a directory as upload: the call fails and no handler runs; a stream whose Close fails). " +
			"Round 4: empty values at every count (a scalar query/form value that is the empty text; multi arrays of one empty item [\"\"], of several empty items; some multi arrays declare a default); descriptions that spell a produces entry with upper-case letters and/or a parameter (Text/Plain, application/JSON; charset=utf-8, a blank before the ';'), the client listing the types as the description spells them (consumes entries spelled that way too: the client used to refuse them with 'none of producers registered', repaired by bbaab0a and pinned). Lists are compared item by item (a list of one empty item is not the empty list). " +
			"Round 5: the query string carries keys that are no parameter of the operation, mostly spelled like a (non-file) form field of it, which the caller sets or leaves out as before: the api key of the description's security scheme carried in the query (client.APIKeyAuth(name, \"query\", ..) against security.APIKeyAuth on the server), a parameter the client auth writer adds (a token, a signature), a static query parameter of the path pattern or of the transport's base path; the form field must arrive as set in the form, or as nothing. The handler sets a further response header line by line (a date header with its date; Warning/Link/free-text headers of 1..3 lines, 1 value in 2 holding a comma) and the reader reads it, and the echo header, through GetHeaders as well as GetHeader: the lines must arrive as many, in order and whole. " +
			"Round 10: segments made of one placeholder and literal text closing the segment ('/r0/{p0}.json', '{p0}:activate', '{p0}.tar.gz', ';v=1', '@latest', ...) in 1 path parameter in 4, called in 2 calls in 3 with values built around that literal (at the start, in the middle, at the end, twice, several times in a row, alone, cut short to a proper prefix, a proper suffix first, directly followed by more text) next to the ordinary hostile values: the handler must get the value as supplied. " +
			"Round 11: in 1 upload in 3 the request writer sets the (first) file field more than once on the one request (SetFileParam replaces: the same list again, the list plus an attachment behind or in front of it, other files, one file kept and one dropped, three calls, a list shrinking to one of its files; a file listed again is the same source), and in 1 upload in 2 the sources are *os.File values open on temporary files or in-memory sources whose Read fails once they have been closed (next to the sources whose Close does nothing). What the caller supplies is the list of the last call: the handler must run and hold a file of that list whole, and the request body as the server read it (recorded on its way to the middleware, parsed by the harness with mime/multipart) must carry under the field's name exactly the files of that list, in order, each whole. " +
			"Every call runs on a transport of its case; a dial/reset/deadline/closed-connection error of the loopback plumbing is counted (env:*), the call is repeated once on a fresh server and only what shows again is judged; running out of descriptors/ports is never judged. " +
			"Oracle: equality of every received value with the supplied one (a declared query/header/form parameter the call left out must arrive as the zero value, or as the default its declaration has), of the operation that ran, and of status/headers/body seen by the response reader with what the handler wrote (body read to EOF without error; status and headers only for HEAD operations). non-trivial = a call with >= 1 value containing a byte that needs escaping in its location; distinct by (operation shape, value tuple)",
		Assumptions: []string{
			"path values that are empty or dot segments are not generated (outside the guarantee: paths are normalised by design)",
			"a template segment holds at most one placeholder, optionally followed by literal text; several placeholders in one segment ('{a}.{b}') are not generated (which text belongs to which placeholder is ambiguous for values holding the separator: C01's recorded class)",
			"header values are restricted to what HTTP can carry (no CR/LF/NUL/other controls, no leading/trailing whitespace)",
			"JSON body strings are valid UTF-8 (JSON cannot carry other bytes); form file names are sent by base name and hold no CR/LF/NUL/DEL (Go's MIME header reader refuses a part header with DEL: protocol, not this code)",
			"a file parameter is ONE file (Swagger 2.0): when the caller sets several files under its name, which of them the handler holds is not judged (it must be one of them, whole); that all of them are sent is judged on the request body. A failure to write or open the harness's temporary files is an environment class (env:temporary-file*), never a verdict. Upload sources of an uncomparable dynamic type are not generated",
			"the Content-Type of a 304 answer is not judged (net/http strips it); a 304 answer carries no body",
			"octet-stream request bodies have >= 1 byte (an empty stream is indistinguishable from an absent body); a 204 answer carries no body (HTTP)",
			"a query parameter the caller does not set has the value written into the path pattern, else the one written into the base path; when both carry it either value is accepted (the statement does not rank the two); a value the caller sets wins over both",
			"literal template segments hold only bytes a URL path carries unescaped (space, non-ASCII, '|', '\"' in a literal are not generated: no still-encoded request path spells such a literal, see escapedLiteralTemplates) and neither ':' nor '*' (router meta bytes: C01/C05)",
			"an answer labelled with a media type the client has no consumer for, and no catch-all consumer: the call fails with an error naming the content type and the reader is not entered (stated by C13; ruled not a C04 defect)",
			"a parameter the caller leaves out whose declaration has a default may arrive as that default or as the zero value (the statement speaks of supplied values only); nothing else may arrive",
			"a multi array supplied as empty items only ([\"\"], [\"\", \"\"]) to a parameter that declares a default: the supplied list and the declared default are both accepted (class either:*): the statement is silent on defaults and C03 reads an empty parameter as its default; without a declared default the supplied list is due",
			"scalar parameters with a default, required arrays and the non-multi collection formats in query/form are not generated (an empty scalar stands for its default, an empty required value is refused, \"\" splits into no items: C03's ground, the statement of C04 does not rank these against 'equal to the ones supplied')",
			"the accessor for ONE value (GetHeader) of a header the handler set in several lines may hand back the first line or the lines combined with ',' (RFC 7230 3.2.2); the accessor for all values (GetHeaders) hands back the lines as set",
			"when the handler returns an error value only the status reaching the reader is judged (the error document is written by the API's error responder: C08); the Content-Type seen by the reader is judged only when the handler set it itself (otherwise it is the negotiated one: C07/C08)",
		},
		MinNontrivial: 200,
		Run:           run,
		Replay:        replay,
	})
}

// Call is one client call against operation Op with the given values.
type Call struct {
	Op           int                `json:"op"`
	Path         map[string]mon.Q   `json:"path,omitempty"`
	Query        map[string][]mon.Q `json:"query,omitempty"`
	Header       map[string]mon.Q   `json:"header,omitempty"`
	HeaderArr    map[string][]mon.Q `json:"headerArrays,omitempty"` // name -> items (joined by the declared separator)
	BodyType     string             `json:"bodyType,omitempty"`     // media type used for the JSON-like body ("" = first consumes)
	FileSkip     int                `json:"fileSkip,omitempty"`     // the upload is a seekable source handed over positioned at this offset
	Signer       bool               `json:"signer,omitempty"`       // the auth writer reads the body (GetBody) like a request signer
	BodyAsReader bool               `json:"bodyAsReader,omitempty"` // the JSON body is handed over as an io.Reader holding its text
	Form         map[string][]mon.Q `json:"form,omitempty"`
	FileLen      int                `json:"fileLen,omitempty"`
	File         mon.Q              `json:"file,omitempty"` // file name ("" = no file); may hold bytes that need quoting in a part header
	Text         mon.Q              `json:"text,omitempty"` // text/plain body handed over as a Go string ("" = none)
	Body         map[string]mon.Q   `json:"body,omitempty"`
	Key          mon.Q              `json:"key,omitempty"`
	RawLen       int                `json:"rawLen,omitempty"` // > 0: the body is an octet stream of this many bytes handed over as an io.ReadCloser
	File2        string             `json:"file2,omitempty"`  // second file parameter "upload2" ("" = not sent)
	File2Len     int                `json:"file2Len,omitempty"`
	// what the handler answers
	RespHeader mon.Q  `json:"respHeader,omitempty"`
	RespText   mon.Q  `json:"respText,omitempty"`
	RespLen    int    `json:"respLen,omitempty"`   // deterministic filler of this many bytes follows RespText in the answer
	RespCode   int    `json:"respCode,omitempty"`  // status the handler answers with (0 = the declared success code)
	RespFlush  bool   `json:"respFlush,omitempty"` // the handler flushes the head and writes the body once the caller's reader has been entered
	RespKind   string `json:"respKind,omitempty"`  // "" = a Responder writes the answer | "error" = the handler returns an error carrying RespCode
	RespCT     mon.Q  `json:"respCT,omitempty"`    // Content-Type set by the handler itself ("" = left to the middleware)
	// round 3
	PinQuery     map[string][]mon.Q `json:"pinQuery,omitempty"`     // static query parameters written into the client's path pattern ("/r0/{p0}?q0=full")
	FreshRuntime bool               `json:"freshRuntime,omitempty"` // the call is made on a new client.Runtime (same host and base path)
	AnyConsumer  bool               `json:"anyConsumer,omitempty"`  // the Runtime has a catch-all ("*/*") consumer for this call
	LiveBody     bool               `json:"liveBody,omitempty"`     // the reader hands the live response body to the consumer (as generated readers do)
	PreSend      string             `json:"preSend,omitempty"`      // a value that cannot be sent: "unproducible-body" | "no-producer" | "directory-file" | "body-close-error"
	// round 5
	AuthQuery     map[string]mon.Q `json:"authQuery,omitempty"`     // query parameters the client auth writer adds to the request (a signature, a token): none of them is a parameter of the operation
	RespLinesName string           `json:"respLinesName,omitempty"` // a response header the handler sets line by line (Header().Add), one line per item of RespLines
	RespLines     []mon.Q          `json:"respLines,omitempty"`
	// round 11: a history of the file field on the one request object, and sources whose Close means something.
	// FileSets: the request writer calls SetFileParam several times for the (first) file field, once per entry (SetFileParam
	// replaces what the field holds: this is how a decorating writer adds an attachment, or sets the field a wrapped writer has
	// set already). An entry lists the files of that call: 0 = the file File/FileLen/FileSkip, i > 0 = FileMore[i-1]. The LAST
	// entry is what the caller supplies. Empty = the field is set once with File, as before.
	FileSets   [][]int    `json:"fileSets,omitempty"`
	FileMore   []MoreFile `json:"fileMore,omitempty"`
	FileSource string     `json:"fileSource,omitempty"` // "" = in-memory source whose Close does nothing | "os" = *os.File open on a temporary file | "strict" = in-memory source whose Read fails once it has been closed
}

// MoreFile is a further file of the (first) file field.
type MoreFile struct {
	Name mon.Q `json:"name"`
	Len  int   `json:"len"`
}

// moreContent is the content of the i-th further file: another byte sequence than the first file's.
func moreContent(i, n int) []byte {
	b := make([]byte, n)
	for k := range b {
		b[k] = byte(k*11 + k/253 + 37*(i+1))
	}
	return b
}

// suppliedFiles lists what the caller supplies for the (first) file field, in order, each as "<base name>:<hash of the content>":
// the files of the last SetFileParam call.
func suppliedFiles(call *Call) []string {
	if call.File == "" {
		return nil
	}
	main := fileContent(call.FileLen)
	if call.FileSkip > 0 && call.FileSkip <= len(main) {
		main = main[call.FileSkip:]
	}
	ids := []int{0}
	if len(call.FileSets) > 0 {
		ids = call.FileSets[len(call.FileSets)-1]
	}
	var out []string
	for _, id := range ids {
		switch {
		case id == 0:
			out = append(out, fmt.Sprintf("%s:%x", baseName(string(call.File)), mon.Hash64(string(main))))
		case id-1 < len(call.FileMore):
			f := call.FileMore[id-1]
			out = append(out, fmt.Sprintf("%s:%x", baseName(string(f.Name)), mon.Hash64(string(moreContent(id-1, f.Len)))))
		}
	}
	return out
}

// fileHistory names the shape of the file field's history ("" = set once).
func fileHistory(call *Call) string {
	if len(call.FileSets) < 2 {
		return ""
	}
	last := call.FileSets[len(call.FileSets)-1]
	kept, dropped := false, false
	for _, set := range call.FileSets[:len(call.FileSets)-1] {
		for _, id := range set {
			in := false
			for _, l := range last {
				in = in || l == id
			}
			kept = kept || in
			dropped = dropped || !in
		}
	}
	switch {
	case kept && dropped:
		return "file-field-set-again-keeping-some-files"
	case kept:
		return "file-field-set-again-keeping-its-files"
	default:
		return "file-field-set-again-with-other-files"
	}
}

// Case is a description plus calls.
type Case struct {
	Desc  gen.Desc `json:"desc"`
	Auth  bool     `json:"auth,omitempty"`
	Calls []Call   `json:"calls"`
	// BaseQuery: static query parameters written into the base path the client transport is configured with ("/api?q0=17")
	BaseQuery map[string]mon.Q `json:"baseQuery,omitempty"`
}

type received struct {
	op    string
	bound map[string]interface{}
	files map[string]string
	ran   int
	// response side (written by the Responder)
	noFlusher   bool
	gateTimeout bool
}

type sut struct {
	srv  *httptest.Server
	got  *received
	next *Call
	rtm  *client.Runtime
	tr   *http.Transport // the case's own transport: no connection is shared with another case or another process-wide user
	host string
	base string // the base path the client is configured with (the description's, plus the static query of the case)
	// gate is closed when the caller's response reader is entered (or Submit has returned); done when the Responder has finished
	gate     chan struct{}
	gateOnce *sync.Once
	done     chan struct{}
	wire     *wire // round 11: set for the duration of a call whose request body is recorded as the server reads it
}

func (s *sut) openGate() { s.gateOnce.Do(func() { close(s.gate) }) }

const (
	octetMime   = "application/octet-stream"
	gateTimeout = 20 * time.Second // watchdog only
)

// rawConsumer is the server-side consumer of octet-stream bodies: the untyped binder hands it a map target.
var rawConsumer = rt.ConsumerFunc(func(r io.Reader, v interface{}) error {
	b, err := io.ReadAll(r)
	if err != nil {
		return err
	}
	if mp, ok := v.(*map[string]interface{}); ok {
		*mp = map[string]interface{}{"raw": string(b)}
		return nil
	}
	return fmt.Errorf("c04 raw consumer: unexpected target %T", v)
})

// respFiller is the deterministic tail of a sized answer: printable text, or arbitrary bytes for octet-stream answers.
func respFiller(n int, binary bool) string {
	if n <= 0 {
		return ""
	}
	const alpha = "abcdefghijklmnopqrstuvwxyzABCDEFGHIJKLMNOPQRSTUVWXYZ0123456789 <>&\"'\\/-_.,;:"
	b := make([]byte, n)
	for i := range b {
		if binary {
			b[i] = byte(i*13 + i/251 + i/65521)
		} else {
			b[i] = alpha[(i+i/61+i/4099)%len(alpha)]
		}
	}
	return string(b)
}

// The description may spell a media type with upper-case letters, with parameters, with blanks around the ';': which type it is
// is decided on the bare type in lower case (mediaTypeOf).
func producesOctet(op *gen.Op) bool {
	return len(op.Produces) > 0 && mediaTypeOf(op.Produces[0]) == octetMime
}
func producesText(op *gen.Op) bool {
	return len(op.Produces) > 0 && mediaTypeOf(op.Produces[0]) == "text/plain"
}

// consumesIs: the i-th consumes entry of the operation is the given media type, however the description spells it.
func consumesIs(op *gen.Op, i int, mt string) bool {
	return len(op.Consumes) > i && mediaTypeOf(op.Consumes[i]) == mt
}

// respBody is what the handler writes for the call.
func respBody(call *Call, op *gen.Op) string {
	return string(call.RespText) + respFiller(call.RespLen, producesOctet(op))
}

func respCode(call *Call, op *gen.Op) int {
	if call.RespCode != 0 {
		return call.RespCode
	}
	if op.SuccessCode != 0 {
		return op.SuccessCode
	}
	return 200
}

func fileContent(n int) []byte {
	b := make([]byte, n)
	for i := range b {
		b[i] = byte(i*7 + i/251)
	}
	return b
}

// fileParamName is the declared name of the (first) file parameter of the operation.
func fileParamName(op *gen.Op) string {
	for _, p := range op.Params {
		if p.In == "formData" && p.Type == "file" && p.Name != "upload2" {
			return p.Name
		}
	}
	return "upload"
}

// bodyless: answers that cannot carry a body (HTTP).
func bodyless(code int) bool { return code == http.StatusNoContent || code == http.StatusNotModified }

// textConsumer is the server-side consumer of text/plain bodies: the library's TextConsumer reads the text; the untyped
// binder hands over a map target, which receives it under "raw".
var textConsumer = rt.ConsumerFunc(func(r io.Reader, v interface{}) error {
	mp, ok := v.(*map[string]interface{})
	if !ok {
		return rt.TextConsumer().Consume(r, v)
	}
	var str string
	if err := rt.TextConsumer().Consume(r, &str); err != nil {
		return err
	}
	*mp = map[string]interface{}{"raw": str}
	return nil
})

// keyScheme says where the description's api-key scheme "key" carries its key: the name and "header" or "query" (cases recorded
// before round 5 carry it in the header X-Api-Key).
func keyScheme(d *gen.Desc) (name, in string) {
	name, in = "X-Api-Key", "header"
	if sd, ok := d.SecDefs["key"]; ok && sd.Type == "apiKey" && sd.Name != "" {
		name = sd.Name
		if sd.In == "query" {
			in = "query"
		}
	}
	return name, in
}

func build(c *Case) (*sut, error) {
	doc, err := c.Desc.Load()
	if err != nil {
		return nil, err
	}
	s := &sut{got: &received{}}
	api := untyped.NewAPI(doc)
	api.RegisterConsumer("application/x-www-form-urlencoded", rt.DiscardConsumer)
	api.RegisterConsumer("multipart/form-data", rt.DiscardConsumer)
	api.RegisterProducer("text/plain", rt.TextProducer())
	api.RegisterConsumer("text/plain", textConsumer)
	api.RegisterConsumer("application/x-yaml", yamlpc.YAMLConsumer())
	api.RegisterConsumer(octetMime, rawConsumer)
	api.RegisterProducer(octetMime, rt.ByteStreamProducer())
	keyName, keyIn := keyScheme(&c.Desc)
	api.RegisterAuth("key", security.APIKeyAuth(keyName, keyIn, func(tok string) (interface{}, error) { return "P:" + tok, nil }))
	for i := range c.Desc.Ops {
		op := c.Desc.Ops[i]
		api.RegisterOperation(op.Method, op.Template, rt.OperationHandlerFunc(func(params interface{}) (interface{}, error) {
			s.got.ran++
			s.got.op = op.ID
			s.got.bound, _ = params.(map[string]interface{})
			s.got.files = map[string]string{}
			for k, v := range s.got.bound {
				if f, ok := v.(rt.File); ok && f.Data != nil {
					b, _ := io.ReadAll(f.Data)
					name := ""
					if f.Header != nil {
						name = f.Header.Filename
					}
					s.got.files[k] = fmt.Sprintf("%s:%x", name, mon.Hash64(string(b)))
				}
			}
			call := s.next
			got, gate, done := s.got, s.gate, s.done
			if call.RespKind == "error" {
				close(done)
				return nil, oaerrors.New(int32(respCode(call, &op)), "refused: %s", string(call.RespText))
			}
			return middleware.ResponderFunc(func(rw http.ResponseWriter, pr rt.Producer) {
				defer close(done)
				rw.Header().Set("X-Echo", string(call.RespHeader))
				rw.Header().Add("X-Multi", "one")
				rw.Header().Add("X-Multi", "two")
				for _, l := range call.RespLines {
					rw.Header().Add(call.RespLinesName, string(l))
				}
				if call.RespCT != "" {
					rw.Header().Set("Content-Type", string(call.RespCT))
				}
				code := respCode(call, &op)
				rw.WriteHeader(code)
				if bodyless(code) {
					return
				}
				if call.RespFlush {
					// the head leaves now; the body is written only once the caller's reader has been entered
					if fl, ok := rw.(http.Flusher); ok {
						fl.Flush()
						select {
						case <-gate:
						case <-time.After(gateTimeout):
							got.gateTimeout = true
						}
					} else {
						got.noFlusher = true
					}
				}
				body := respBody(call, &op)
				switch {
				case producesText(&op):
					_ = pr.Produce(rw, body)
				case producesOctet(&op):
					_ = pr.Produce(rw, []byte(body))
				default:
					_ = pr.Produce(rw, map[string]string{"t": body})
				}
			}), nil
		}))
	}
	ctx := middleware.NewContext(doc, api, nil)
	ln, err := listenLoopback()
	if err != nil {
		return nil, err
	}
	// not httptest.NewServer: it panics when it cannot listen
	apiHandler := ctx.APIHandler(nil)
	s.srv = &httptest.Server{Listener: ln, Config: &http.Server{Handler: http.HandlerFunc(func(rw http.ResponseWriter, r *http.Request) {
		if w := s.wire; w != nil && r.Body != nil {
			// what the middleware reads of the body is recorded on its way; nothing else about the request changes
			w.mu.Lock()
			w.ct = r.Header.Get("Content-Type")
			w.buf.Reset()
			w.mu.Unlock()
			r.Body = teeBody{io.TeeReader(r.Body, w), r.Body}
		}
		apiHandler.ServeHTTP(rw, r)
	})}}
	s.srv.Start()
	s.host = strings.TrimPrefix(s.srv.URL, "http://")
	s.base = c.Desc.BasePath + staticQuery(c.BaseQuery)
	s.tr = &http.Transport{MaxIdleConnsPerHost: 2, IdleConnTimeout: 30 * time.Second}
	s.rtm = s.newRuntime()
	return s, nil
}

// newRuntime is a client transport for the case's server: the case's own http.Transport, debug dumps off whatever the
// environment variables of the machine say.
func (s *sut) newRuntime() *client.Runtime {
	rtm := client.New(s.host, s.base, []string{"http"})
	rtm.Transport = s.tr
	rtm.Debug = false
	return rtm
}

func (s *sut) close() {
	s.tr.CloseIdleConnections()
	s.srv.Close()
}

// staticQuery spells static query parameters the way they are written into a base path ("?a=1&b=2"; "" for none).
func staticQuery(q map[string]mon.Q) string {
	if len(q) == 0 {
		return ""
	}
	l := map[string][]mon.Q{}
	for k, v := range q {
		l[k] = []mon.Q{v}
	}
	return staticQueryList(l)
}

func staticQueryList(q map[string][]mon.Q) string {
	if len(q) == 0 {
		return ""
	}
	names := make([]string, 0, len(q))
	for k := range q {
		names = append(names, k)
	}
	sort.Strings(names)
	var parts []string
	for _, k := range names {
		for _, v := range q[k] {
			parts = append(parts, url.QueryEscape(k)+"="+url.QueryEscape(string(v)))
		}
	}
	return "?" + strings.Join(parts, "&")
}

type upFile struct {
	name string
	r    *bytes.Reader
}

func (u *upFile) Name() string               { return u.name }
func (u *upFile) Read(p []byte) (int, error) { return u.r.Read(p) }
func (u *upFile) Close() error               { return nil }

// seekFile is a seekable upload source (like *os.File): what is uploaded starts at its current position.
type seekFile struct{ upFile }

func (s *seekFile) Seek(off int64, whence int) (int64, error) { return s.r.Seek(off, whence) }

// strictFile is an in-memory upload source that behaves like a real file in one respect: once closed, it cannot be read.
type strictFile struct {
	upFile
	closed atomic.Bool
}

func (s *strictFile) Read(p []byte) (int, error) {
	if s.closed.Load() {
		return 0, fmt.Errorf("read %s: %w", s.name, os.ErrClosed)
	}
	return s.r.Read(p)
}
func (s *strictFile) Close() error { s.closed.Store(true); return nil }
func (s *strictFile) Seek(off int64, whence int) (int64, error) {
	if s.closed.Load() {
		return 0, fmt.Errorf("seek %s: %w", s.name, os.ErrClosed)
	}
	return s.r.Seek(off, whence)
}

// wire is what the server read of a request body (recorded for calls with a file field history only).
type wire struct {
	mu  sync.Mutex
	ct  string
	buf bytes.Buffer
}

func (w *wire) Write(p []byte) (int, error) {
	w.mu.Lock()
	defer w.mu.Unlock()
	return w.buf.Write(p)
}

type teeBody struct {
	io.Reader
	io.Closer
}

// fileParts lists the file parts of the recorded multipart body that are sent under the given field name, in order, each as
// "<file name>:<hash of the content>" (parsed by the harness with mime/multipart: the library is not asked).
func (w *wire) fileParts(field string) ([]string, error) {
	w.mu.Lock()
	body := append([]byte(nil), w.buf.Bytes()...)
	ct := w.ct
	w.mu.Unlock()
	_, ps, err := mime.ParseMediaType(ct)
	if err != nil {
		return nil, err
	}
	if ps["boundary"] == "" {
		return nil, errors.New("no boundary")
	}
	mr := multipart.NewReader(bytes.NewReader(body), ps["boundary"])
	var out []string
	for {
		p, err := mr.NextRawPart()
		if err == io.EOF {
			return out, nil
		}
		if err != nil {
			return out, err
		}
		b, err := io.ReadAll(p)
		if err != nil {
			return out, err
		}
		if p.FormName() == field {
			out = append(out, fmt.Sprintf("%s:%x", p.FileName(), mon.Hash64(string(b))))
		}
	}
}

type seen struct {
	code    int
	msg     string
	echo    string
	multi   []string
	echos   []string // X-Echo through the plural accessor
	lines   []string // the header set line by line, through the plural accessor
	line1   string   // ... and through the singular accessor
	ct      string
	cts     []string
	body    []byte
	live    bool // the consumer read the live body: body holds nothing
	readErr error
	consErr error
	value   interface{}
	ran     int
}

// media types the client transport has a consumer for when it is created (client.New)
var clientConsumes = map[string]bool{"application/x-yaml": true, "application/json": true, "application/xml": true, "text/plain": true,
	"text/html": true, "text/csv": true, octetMime: true}

// well-formed response media types the client transport has no consumer for
var alienTypes = []string{"application/problem+json", "application/vnd.c04.v1+json", "image/png", "bogus", "Application/Problem+JSON; charset=utf-8", "text/x-c04; format=flowed"}

// mediaTypeOf is the media type of a Content-Type value without its parameters, in lower case.
func mediaTypeOf(ct string) string {
	if i := strings.IndexByte(ct, ';'); i >= 0 {
		ct = ct[:i]
	}
	return strings.ToLower(strings.TrimSpace(ct))
}

// alienAnswer: the handler labels its answer with a media type the client has no consumer for.
func alienAnswer(call *Call) bool {
	return call.RespCT != "" && call.RespKind != "error" && !clientConsumes[mediaTypeOf(string(call.RespCT))]
}

// expectNoConsumer: the answer reaches the client labelled with a media type it has no consumer for, and there is no catch-all
// consumer: the call fails with an error naming the content type and the reader is not entered (property C13 states this
// outcome; ruled not to be a defect for C04). A 304 answer does not carry the label (net/http strips it).
func expectNoConsumer(call *Call, op *gen.Op) bool {
	return alienAnswer(call) && !call.AnyConsumer && respCode(call, op) != http.StatusNotModified
}

// respFeature names what is special about the scripted answer ("" for the plain small 2xx answers).
func respFeature(call *Call, op *gen.Op) string {
	var fs []string
	if call.RespKind == "error" {
		fs = append(fs, "error-result")
	}
	if op.Method == "HEAD" {
		fs = append(fs, "head")
	}
	if call.RespCode != 0 || respCode(call, op) == http.StatusNoContent {
		fs = append(fs, fmt.Sprintf("status-%d", respCode(call, op)))
	}
	switch {
	case call.RespLen >= 16384:
		fs = append(fs, "large-body")
	case call.RespLen > 0:
		fs = append(fs, "sized-body")
	}
	if call.RespFlush {
		fs = append(fs, "head-flushed-first")
	}
	if call.RespCT != "" {
		fs = append(fs, "explicit-content-type")
	}
	if producesOctet(op) {
		fs = append(fs, "octet-stream")
	}
	if alienAnswer(call) {
		if call.AnyConsumer {
			fs = append(fs, "media-type-for-the-catch-all-consumer")
		} else {
			fs = append(fs, "media-type-without-consumer")
		}
	}
	if call.LiveBody {
		fs = append(fs, "live-body")
	}
	if call.RespLinesName != "" {
		if len(call.RespLines) > 1 {
			fs = append(fs, "header-in-several-lines")
		} else {
			fs = append(fs, "header-line")
		}
	}
	if commaInHeader(call) {
		fs = append(fs, "comma-in-header-value")
	}
	return strings.Join(fs, "+")
}

// catchAll is the "*/*" consumer of the calls that have one: it hands over the bytes.
var catchAll = rt.ConsumerFunc(func(r io.Reader, v interface{}) error {
	b, err := io.ReadAll(r)
	if err != nil {
		return err
	}
	switch t := v.(type) {
	case *string:
		*t = string(b)
	case *bytes.Buffer:
		t.Write(b)
	case *[]byte:
		*t = b
	default:
		return fmt.Errorf("c04 catch-all consumer: unexpected target %T", v)
	}
	return nil
})

// unmarshalable is a body value the JSON producer cannot write.
type unmarshalable struct{}

func (unmarshalable) MarshalJSON() ([]byte, error) {
	return nil, errors.New("c04: this value cannot be marshalled")
}

// closeErrBody is a stream body whose Close reports an error after everything has been read.
type closeErrBody struct{ *bytes.Reader }

func (closeErrBody) Close() error { return errors.New("c04: close failed") }

// obs is what one execution of a call showed.
type obs struct {
	pv     interface{}
	stack  string
	subErr error
	got    received
	sn     *seen
	edited bool  // the media type lists handed to the library came back changed
	plumb  error // the harness could not prepare the call (temporary files): nothing was submitted
	wire   *wire // the request body as the server read it (calls with a file field history)
}

// env names the plumbing failure the execution ran into ("" = none).
func (o *obs) env() string {
	if o.plumb != nil {
		if k := envKind(o.plumb); resourceKind(k) {
			return k
		}
		return "temporary-file"
	}
	if o.pv != nil {
		return ""
	}
	if k := envKind(o.subErr); k != "" {
		return k
	}
	if k := envKind(o.sn.readErr); k != "" {
		return k
	}
	return envKind(o.sn.consErr)
}

// exec makes the call on the case's server and records what the handler and the reader saw.
func (s *sut) exec(c *Case, call *Call, op *gen.Op) *obs {
	*s.got = received{}
	s.next = call
	s.gate, s.gateOnce, s.done = make(chan struct{}), &sync.Once{}, make(chan struct{})
	sn := &seen{}
	var dir *os.File
	s.wire = nil
	if len(call.FileSets) > 0 {
		s.wire = &wire{}
	}
	// round 11: the sources of the (first) file field. Temporary files are written before anything is submitted; a failure to
	// do so is the harness's own (obs.plumb).
	var tmpDir string
	var opened []*os.File
	defer func() {
		for _, f := range opened {
			_ = f.Close() // whoever closed it before: closing again changes nothing
		}
		if tmpDir != "" {
			_ = os.RemoveAll(tmpDir)
		}
	}()
	fileBytes := func(id int) (string, []byte) {
		if id == 0 {
			return string(call.File), fileContent(call.FileLen)
		}
		return string(call.FileMore[id-1].Name), moreContent(id-1, call.FileMore[id-1].Len)
	}
	nFiles := 0
	if call.File != "" {
		nFiles = 1 + len(call.FileMore)
	}
	if call.FileSource == "os" && nFiles > 0 {
		d, err := os.MkdirTemp("", "c04-upload-")
		if err != nil {
			return &obs{sn: sn, plumb: err}
		}
		tmpDir = d
		for id := 0; id < nFiles; id++ {
			name, content := fileBytes(id)
			sub := fmt.Sprintf("%s/%d", tmpDir, id) // one directory per file: two files may have the same base name
			if err := os.Mkdir(sub, 0o700); err != nil {
				return &obs{sn: sn, plumb: err}
			}
			if err := os.WriteFile(sub+"/"+baseName(name), content, 0o600); err != nil {
				return &obs{sn: sn, plumb: err}
			}
		}
	}
	var openErr error
	// source makes the upload source of file id; one source per file and per run of the request writer
	source := func(id int) rt.NamedReadCloser {
		name, content := fileBytes(id)
		skip := 0
		if id == 0 {
			skip = call.FileSkip
		}
		switch call.FileSource {
		case "os":
			f, err := os.Open(fmt.Sprintf("%s/%d/%s", tmpDir, id, baseName(name)))
			if err != nil {
				openErr = err
				return &upFile{name: name, r: bytes.NewReader(content)}
			}
			opened = append(opened, f)
			if skip > 0 {
				_, _ = f.Seek(int64(skip), io.SeekStart)
			}
			return f
		case "strict":
			sf := &strictFile{upFile: upFile{name: name, r: bytes.NewReader(content)}}
			if skip > 0 {
				_, _ = sf.Seek(int64(skip), io.SeekStart)
			}
			return sf
		}
		if skip > 0 {
			sf := &seekFile{upFile{name: name, r: bytes.NewReader(content)}}
			_, _ = sf.Seek(int64(skip), io.SeekStart) // the caller already consumed a local header
			return sf
		}
		return &upFile{name: name, r: bytes.NewReader(content)}
	}
	params := rt.ClientRequestWriterFunc(func(req rt.ClientRequest, _ strfmt.Registry) error {
		for k, v := range call.Path {
			_ = req.SetPathParam(k, string(v))
		}
		for k, v := range call.Query {
			_ = req.SetQueryParam(k, mon.SQ(v)...)
		}
		for k, v := range call.Header {
			_ = req.SetHeaderParam(k, string(v))
		}
		for k, items := range call.HeaderArr {
			sep := ","
			for _, p := range op.Params {
				if p.Name == k && p.CollectionFormat == "pipes" {
					sep = "|"
				}
			}
			_ = req.SetHeaderParam(k, strings.Join(mon.SQ(items), sep))
		}
		for k, v := range call.Form {
			_ = req.SetFormParam(k, mon.SQ(v)...)
		}
		if call.File2 != "" {
			_ = req.SetFileParam("upload2", &upFile{name: call.File2, r: bytes.NewReader(fileContent(call.File2Len))})
		}
		if call.RawLen > 0 {
			if call.PreSend == "body-close-error" {
				_ = req.SetBodyParam(closeErrBody{bytes.NewReader(fileContent(call.RawLen))})
			} else {
				_ = req.SetBodyParam(io.NopCloser(bytes.NewReader(fileContent(call.RawLen))))
			}
		}
		if call.PreSend == "directory-file" {
			d, err := os.Open(os.TempDir())
			if err != nil {
				return err
			}
			dir = d
			// a caller that checks what the setter says: a directory cannot be uploaded
			if err := req.SetFileParam(fileParamName(op), d); err != nil {
				return err
			}
		}
		if call.File != "" {
			sets := call.FileSets
			if len(sets) == 0 {
				sets = [][]int{{0}}
			}
			pool := map[int]rt.NamedReadCloser{} // a file listed by several SetFileParam calls is the same source each time
			for _, set := range sets {
				var files []rt.NamedReadCloser
				for _, id := range set {
					if id < 0 || id >= nFiles {
						continue
					}
					if pool[id] == nil {
						pool[id] = source(id)
					}
					files = append(files, pool[id])
				}
				_ = req.SetFileParam(fileParamName(op), files...)
			}
		}
		if call.Text != "" {
			_ = req.SetBodyParam(string(call.Text))
		}
		if call.Body != nil {
			b := map[string]string{}
			for k, v := range call.Body {
				b[k] = string(v)
			}
			switch {
			case call.PreSend == "unproducible-body":
				_ = req.SetBodyParam(map[string]interface{}{"s": b["s"], "t": unmarshalable{}})
			case call.BodyAsReader:
				txt, _ := json.Marshal(b)
				_ = req.SetBodyParam(strings.NewReader(string(txt)))
			default:
				_ = req.SetBodyParam(b)
			}
		}
		return nil
	})
	var auth rt.ClientAuthInfoWriter
	if c.Auth {
		keyName, keyIn := keyScheme(&c.Desc)
		auth = client.APIKeyAuth(keyName, keyIn, string(call.Key))
	}
	if len(call.AuthQuery) > 0 {
		// an auth writer that puts parameters of its own into the query (a token, a signature)
		inner := auth
		auth = rt.ClientAuthInfoWriterFunc(func(req rt.ClientRequest, reg strfmt.Registry) error {
			for k, v := range call.AuthQuery {
				_ = req.SetQueryParam(k, string(v))
			}
			if inner != nil {
				return inner.AuthenticateRequest(req, reg)
			}
			return nil
		})
	}
	if call.Signer {
		inner := auth
		auth = rt.ClientAuthInfoWriterFunc(func(req rt.ClientRequest, reg strfmt.Registry) error {
			_ = req.GetBody() // a signer looks at what will be sent
			// ... and canonicalises its own copy of the query (GetQueryParams documents a copy)
			q := req.GetQueryParams()
			for k := range q {
				sort.Strings(q[k])
				for i := range q[k] {
					q[k][i] = strings.ToLower(q[k][i])
				}
			}
			q.Set("x-signer-scratch", "1")
			if inner != nil {
				return inner.AuthenticateRequest(req, reg)
			}
			return nil
		})
	}
	alien := alienAnswer(call)
	reader := rt.ClientResponseReaderFunc(func(resp rt.ClientResponse, cons rt.Consumer) (interface{}, error) {
		sn.ran++
		s.openGate() // the caller's reader has been entered: a handler that flushed its head writes the body now
		sn.code = resp.Code()
		sn.msg = resp.Message()
		sn.echo = resp.GetHeader("X-Echo")
		sn.multi = resp.GetHeaders("X-Multi")
		sn.echos = append([]string(nil), resp.GetHeaders("X-Echo")...)
		if call.RespLinesName != "" {
			sn.lines = append([]string(nil), resp.GetHeaders(call.RespLinesName)...)
			sn.line1 = resp.GetHeader(call.RespLinesName)
		}
		sn.ct = resp.GetHeader("Content-Type")
		sn.cts = append([]string(nil), resp.GetHeaders("Content-Type")...)
		decode := !(call.RespKind == "error" || bodyless(sn.code) || op.Method == "HEAD")
		if decode && call.LiveBody && !alien {
			// the way generated readers do it: the consumer reads the live body
			sn.live = true
			switch {
			case producesText(op):
				var str string
				sn.consErr = cons.Consume(resp.Body(), &str)
				sn.value = str
			case producesOctet(op):
				var buf bytes.Buffer
				sn.consErr = cons.Consume(resp.Body(), &buf)
				sn.value = buf.String()
			default:
				var mv map[string]string
				sn.consErr = cons.Consume(resp.Body(), &mv)
				sn.value = mv["t"]
			}
			return nil, nil
		}
		b, rerr := io.ReadAll(resp.Body())
		sn.body, sn.readErr = b, rerr
		switch {
		case !decode || rerr != nil:
			// nothing to decode (error document of the API's error responder / no body / body lost)
		case alien:
			// a media type of the handler's own: the bytes are what the operation's producer wrote, whatever consumer was handed over
			if producesText(op) || producesOctet(op) {
				sn.value = string(b)
			} else {
				var mv map[string]string
				sn.consErr = json.Unmarshal(b, &mv)
				sn.value = mv["t"]
			}
		case producesText(op):
			var str string
			sn.consErr = cons.Consume(bytes.NewReader(b), &str)
			sn.value = str
		case producesOctet(op):
			var buf bytes.Buffer
			sn.consErr = cons.Consume(bytes.NewReader(b), &buf)
			sn.value = buf.String()
		default:
			var mv map[string]string
			sn.consErr = cons.Consume(bytes.NewReader(b), &mv)
			sn.value = mv["t"]
		}
		return nil, nil
	})
	consumes := op.Consumes
	if call.BodyType != "" {
		consumes = []string{call.BodyType}
	}
	if call.PreSend == "no-producer" {
		consumes = []string{"application/vnd.c04.unregistered+json"}
	}
	// the library gets lists of its own: what it does to them cannot reach the description the oracle reads
	consArg, prodArg := append([]string(nil), consumes...), append([]string(nil), op.Produces...)
	cop := &rt.ClientOperation{ID: op.ID, Method: op.Method, PathPattern: op.Template + staticQueryList(call.PinQuery), ConsumesMediaTypes: consArg, ProducesMediaTypes: prodArg,
		Params: params, Reader: reader, AuthInfo: auth}
	rtm := s.rtm
	if call.FreshRuntime {
		rtm = s.newRuntime()
	}
	if call.AnyConsumer {
		rtm.Consumers["*/*"] = catchAll
	} else {
		delete(rtm.Consumers, "*/*")
	}
	o := &obs{sn: sn, wire: s.wire}
	o.pv, o.stack = mon.Catch(func() { _, o.subErr = rtm.Submit(cop) })
	if openErr != nil {
		o.plumb = openErr
	}
	s.openGate() // never leave a handler waiting
	if s.got.ran > 0 {
		select { // the Responder finishes before its observations are read and before the next call is scripted
		case <-s.done:
		case <-time.After(gateTimeout):
		}
	}
	if dir != nil {
		_ = dir.Close()
	}
	o.got = *s.got
	o.edited = strings.Join(consArg, "\x00") != strings.Join(consumes, "\x00") || strings.Join(prodArg, "\x00") != strings.Join(op.Produces, "\x00")
	return o
}

func runCase(m *mon.M, c *Case) {
	s, err := build(c)
	if err != nil {
		if errors.Is(err, errListen) {
			envExhausted(m, "listen", err)
			return
		}
		m.Class("desc-rejected")
		return
	}
	defer s.close()
	var pinned []Call // the earlier calls of the case whose path pattern carried static query parameters
	for ci := range c.Calls {
		call := &c.Calls[ci]
		op := &c.Desc.Ops[call.Op]
		one := &Case{Desc: c.Desc, Auth: c.Auth, BaseQuery: c.BaseQuery, Calls: append(append([]Call(nil), pinned...), *call)}
		// the input class is fixed before the code under test runs
		feat := c.feature(call)
		if afterPinned(pinned, call, op) {
			feat += "+after-pattern-query"
		}
		rfeat := respFeature(call, op)
		if rfeat != "" {
			feat += "|resp=" + rfeat
			for _, f := range strings.Split(rfeat, "+") {
				m.Class("resp:" + f)
			}
		}
		if (call.File != "" || call.File2 != "") && consumesIs(op, 0, "application/x-www-form-urlencoded") {
			// one input class of its own (known finding, shared with C11): the client labels the multipart
			// document it sends "application/x-www-form-urlencoded; boundary=..." when that type is listed first
			feat = "file-sent-while-urlencoded-is-listed-first"
		}
		if call.PreSend != "" {
			feat = "pre-send:" + call.PreSend
			m.Class(feat)
		}
		for _, f := range strings.Split(strings.SplitN(feat, "|", 2)[0], "+") {
			switch f {
			case "pattern-query", "base-path-query", "after-pattern-query", "parameter-name-needs-escaping", "slash-at-the-end-of-template-or-base-path", "literal-needs-escaping",
				"array-of-one-empty-item", "array-of-empty-items", "empty-value",
				"produces-spelled-with-upper-case", "produces-spelled-with-parameter", "produces-spelled-with-upper-case-and-parameter",
				"consumes-spelled-with-upper-case", "consumes-spelled-with-parameter", "consumes-spelled-with-upper-case-and-parameter",
				"file-field-set-again-keeping-its-files", "file-field-set-again-keeping-some-files", "file-field-set-again-with-other-files", "file-source-os", "file-source-strict":
				m.Class("shape:" + f)
			}
		}
		if eitherDefault(call, op) {
			m.Class("either:empty-items-only-for-an-array-with-declared-default") // supplied list or declared default, see eitherDefault
		}
		if call.FreshRuntime {
			m.Class("shape:fresh-runtime")
		}
		if from := formFieldLikeQueryKey(c, call, op); from != "" {
			for _, f := range strings.Split(from, ",") {
				m.Class("shape:form-field-named-like-a-query-key:" + f)
			}
			for _, p := range op.Params {
				if _, stray := strayQueryKeys(c, call)[p.Name]; stray && p.In == "formData" && p.Type != "file" {
					if _, set := call.Form[p.Name]; set {
						m.Class("shape:form-field-named-like-a-query-key:set-by-the-caller")
					} else {
						m.Class("shape:form-field-named-like-a-query-key:left-out")
					}
				}
			}
		}
		if len(call.AuthQuery) > 0 {
			m.Class("shape:auth-writer-adds-query")
		}
		if _, in := keyScheme(&c.Desc); c.Auth && in == "query" {
			m.Class("shape:api-key-in-query")
		}
		if endsUnusually(call) {
			m.Class("shape:value-ends-in-space-or-line-break")
		}
		o := s.exec(c, call, op)
		if kind := o.env(); kind != "" {
			// the loopback plumbing failed: counted, and the call is made once more on a fresh server and transport
			if resourceKind(kind) {
				envExhausted(m, kind, o.subErr)
				continue
			}
			m.Class("env:" + kind)
			s2, err := build(c)
			if err != nil {
				envExhausted(m, "listen", err)
				continue
			}
			o = s2.exec(c, call, op)
			s2.close()
			switch k2 := o.env(); {
			case k2 == "":
				m.Class("env:gone-on-retry")
			case resourceKind(k2):
				envExhausted(m, k2, o.subErr)
				continue
			default:
				m.Class("env:shown-again-on-retry") // judged below like any other outcome
			}
		}
		m.Eval(1)
		if needsEscaping(call) {
			m.NT(opShape(op) + "|" + callKey(call))
		}
		if f := closedSegmentFeature(call, op); f != "" {
			m.Class("shape:" + f) // round 10
		}
		if o.edited {
			m.Class("probe:media-type-list-of-the-operation-edited-by-the-library")
		}
		judge(m, c, call, op, o, feat, one)
		if len(call.PinQuery) > 0 {
			pinned = append(pinned, *call)
		}
	}
	if m.WantSample() {
		sc := *c
		if len(sc.Calls) > 2 {
			sc.Calls = sc.Calls[:2]
		}
		m.Sample(sc)
	}
}

// afterPinned: an earlier call of the case pinned, in its path pattern, a query parameter this operation declares and this call
// does not supply.
func afterPinned(pinned []Call, call *Call, op *gen.Op) bool {
	for i := range pinned {
		for name := range pinned[i].PinQuery {
			for _, p := range op.Params {
				if p.In == "query" && p.Name == name {
					_, s1 := call.Query[name]
					_, s2 := call.PinQuery[name]
					if !s1 && !s2 {
						return true
					}
				}
			}
		}
	}
	return false
}

func judge(m *mon.M, c *Case, call *Call, op *gen.Op, o *obs, feat string, one *Case) {
	sn, got, subErr := o.sn, &o.got, o.subErr
	descr := func() string {
		cb, _ := json.Marshal(call)
		ob, _ := json.Marshal(op)
		return fmt.Sprintf("op=%s call=%s baseQuery=%v -> submitErr=%v handlerRan=%d ranOp=%s bound=%.600v files=%v reader{ran=%d code=%d msg=%q echo=%q echoes=%q multi=%v lines=%q line1=%q ct=%q live=%v bodyLen=%d body=%.80q readErr=%v consumeErr=%v value=%.80q} answerLen=%d", ob, cb, c.BaseQuery, subErr, got.ran, got.op, got.bound, got.files, sn.ran, sn.code, sn.msg, sn.echo, sn.echos, sn.multi, sn.lines, sn.line1, sn.cts, sn.live, len(sn.body), sn.body, sn.readErr, sn.consErr, fmt.Sprint(sn.value), len(respBody(call, op)))
	}
	if o.plumb != nil {
		m.Class("env:temporary-file-unavailable") // the harness could not prepare the upload sources, twice: nothing to judge
		return
	}
	if o.pv != nil {
		m.Violate("panic/"+feat, fmt.Sprintf("%v\n%s\n%s", o.pv, o.stack, descr()), one)
		return
	}
	switch call.PreSend {
	case "unproducible-body", "no-producer", "directory-file":
		// what the caller supplied cannot be sent: no request may invoke the handler in its place, and the caller is told
		switch {
		case got.ran > 0:
			m.Violate("handler-ran-without-the-supplied-value/"+feat, descr(), one)
		case subErr == nil:
			m.Violate("no-error-for-a-value-that-cannot-be-sent/"+feat, descr(), one)
		default:
			m.Class("agreed-refused-before-send")
		}
		return
	case "body-close-error":
		// everything was read and only the source's Close failed: the statement leaves open whether the call is made
		if subErr != nil {
			if got.ran > 0 {
				if bad := compareValues(c, call, op, got); bad != "" {
					m.Violate("value-differs/"+bad+"/"+feat, bad+" ; "+descr(), one)
					return
				}
			}
			m.Class("agreed-refused-before-send")
			return
		}
	}
	noCons := expectNoConsumer(call, op)
	if subErr != nil && !noCons {
		m.Violate("submit-error/"+feat, descr(), one)
		return
	}
	if got.ran != 1 {
		m.Violate(fmt.Sprintf("handler-did-not-run-status-%d/%s", sn.code, feat), descr(), one)
		return
	}
	if got.op != op.ID {
		m.Violate("wrong-operation/"+feat, descr(), one)
		return
	}
	if bad := compareValues(c, call, op, got); bad != "" {
		m.Violate("value-differs/"+bad+"/"+feat, bad+" ; "+descr(), one)
		return
	}
	if o.wire != nil && call.File != "" {
		// round 11: the field was set more than once: the request the client transport produced carries, under the field's name,
		// the files of the LAST SetFileParam call, as many, in that order, each one whole (and none of an earlier call only)
		parts, err := o.wire.fileParts(fileParamName(op))
		switch want := suppliedFiles(call); {
		case err != nil:
			m.Class("probe:recorded-request-body-not-parsed") // the harness's own reading of the body: no verdict
		case strings.Join(parts, "\x00") != strings.Join(want, "\x00"):
			m.Violate("value-differs/files-of-the-field-in-the-request/"+feat, fmt.Sprintf("file parts sent under %q: %q, supplied: %q ; ", fileParamName(op), parts, want)+descr(), one)
			return
		default:
			m.Class("agreed-files-of-a-field-set-again")
		}
	}
	if got.gateTimeout || got.noFlusher {
		m.Class("flush-not-exercised") // watchdog / no Flusher: the flushed shape did not take place; the answer is judged all the same
	}
	if noCons {
		// C13: "otherwise the call fails with an error naming the content type"; the reader has nothing to be handed
		switch {
		case sn.ran != 0 || subErr == nil:
			m.Violate("reader-entered-without-a-consumer/"+feat, descr(), one)
		case !strings.Contains(strings.ToLower(subErr.Error()), mediaTypeOf(string(call.RespCT))):
			m.Violate("error-does-not-name-the-content-type/"+feat, descr(), one)
		default:
			m.Class("agreed-no-consumer-error")
		}
		return
	}
	code := respCode(call, op)
	wantBody := respBody(call, op)
	if bodyless(code) {
		wantBody = ""
	}
	switch {
	case sn.ran != 1:
		m.Violate(fmt.Sprintf("reader-ran-%d-times/%s", sn.ran, feat), descr(), one)
	case sn.code != code:
		m.Violate("response-status-differs/"+feat, descr(), one)
	case !strings.HasPrefix(sn.msg, strconv.Itoa(code)):
		m.Violate("response-status-message-differs/"+feat, descr(), one)
	case call.RespKind == "error":
		// the handler returned an error value: its status reached the reader; the document is the error responder's
		if sn.readErr != nil {
			m.Violate("response-body-read-error/"+feat, descr(), one)
		} else {
			m.Class("agreed-error-status")
		}
	case sn.echo != string(call.RespHeader) || strings.Join(sn.multi, ",") != "one,two":
		m.Violate("response-header-differs/"+feat, descr(), one)
	case !sameItems(sn.echos, []mon.Q{call.RespHeader}):
		// the plural accessor hands back the one line the handler set, whatever bytes the value holds (a comma is part of it)
		m.Violate("response-header-differs-through-the-plural-accessor/"+feat, fmt.Sprintf("GetHeaders(X-Echo)=%q ; ", sn.echos)+descr(), one)
	case call.RespLinesName != "" && !sameItems(sn.lines, call.RespLines):
		// a header the handler set line by line arrives as those lines: as many, in that order, each one whole
		m.Violate("response-header-lines-differ/"+feat, fmt.Sprintf("GetHeaders(%s)=%q ; ", call.RespLinesName, sn.lines)+descr(), one)
	case call.RespLinesName != "" && !singularAccessorOK(sn.line1, call.RespLines):
		m.Violate("response-header-first-line-differs/"+feat, fmt.Sprintf("GetHeader(%s)=%q ; ", call.RespLinesName, sn.line1)+descr(), one)
	case call.RespCT != "" && code != http.StatusNotModified && (sn.ct != string(call.RespCT) || len(sn.cts) != 1 || sn.cts[0] != string(call.RespCT)):
		m.Violate("response-content-type-differs/"+feat, descr(), one)
	case sn.readErr != nil:
		m.Violate("response-body-read-error/"+feat, descr(), one)
	case op.Method == "HEAD":
		m.Class("agreed-head") // a HEAD answer carries no body (HTTP): status and headers are what can reach the reader
	case bodyless(code):
		if len(sn.body) != 0 {
			m.Violate("response-body-differs/"+feat, descr(), one)
		} else {
			m.Class("agreed")
		}
	case sn.consErr != nil || fmt.Sprint(sn.value) != wantBody:
		m.Violate("response-body-differs/"+feat, descr(), one)
	default:
		m.Class("agreed")
	}
}

// singularAccessorOK: what the accessor for ONE value may hand back for a header the handler set in these lines: the first line,
// or all of them combined into one field value (RFC 7230 section 3.2.2: "," or ", " between them); for a single line, that line.
func singularAccessorOK(g string, lines []mon.Q) bool {
	if len(lines) == 0 {
		return g == ""
	}
	l := mon.SQ(lines)
	return g == l[0] || g == strings.Join(l, ",") || g == strings.Join(l, ", ")
}

// commaInHeader: a header value the handler sets holds a comma.
func commaInHeader(call *Call) bool {
	if strings.Contains(string(call.RespHeader), ",") {
		return true
	}
	for _, l := range call.RespLines {
		if strings.Contains(string(l), ",") {
			return true
		}
	}
	return false
}

// strayQueryKeys gives the keys the request's query string carries that the caller did not set as a query parameter of the
// operation, with where each comes from: the transport's base path, the operation's path pattern, the client auth writer
// (an api key carried in the query, a parameter the writer adds).
func strayQueryKeys(c *Case, call *Call) map[string]string {
	out := map[string]string{}
	for k := range c.BaseQuery {
		out[k] = "base-path"
	}
	for k := range call.PinQuery {
		out[k] = "path-pattern"
	}
	for k := range call.AuthQuery {
		out[k] = "auth-writer"
	}
	if name, in := keyScheme(&c.Desc); c.Auth && in == "query" {
		out[name] = "api-key"
	}
	return out
}

// formFieldLikeQueryKey names where a key of the query string comes from that is spelled like a (non-file) form field of the
// operation ("" = no form field of the operation is spelled like a key of the query string). The oracle does not change with it:
// a form field is what the caller set in the form, or nothing when the caller left it out.
func formFieldLikeQueryKey(c *Case, call *Call, op *gen.Op) string {
	keys := strayQueryKeys(c, call)
	var src []string
	for _, p := range op.Params {
		if p.In == "formData" && p.Type != "file" {
			if from, ok := keys[p.Name]; ok {
				src = append(src, from)
			}
		}
	}
	sort.Strings(src)
	return strings.Join(src, ",")
}

func isZeroValue(v interface{}) bool {
	switch g := v.(type) {
	case nil:
		return true
	case string:
		return g == ""
	case []string:
		return len(g) == 0
	case []interface{}:
		return len(g) == 0
	case int64:
		return g == 0
	}
	return false
}

// unsupplied names the location of a declared parameter the caller left out that reached the handler with a value.
func unsupplied(c *Case, call *Call, op *gen.Op, got *received) string {
	wq := wantQuery(c, call)
	for _, p := range op.Params {
		supplied := false
		switch p.In {
		case "query":
			_, supplied = wq[p.Name]
		case "header":
			_, s1 := call.Header[p.Name]
			_, s2 := call.HeaderArr[p.Name]
			supplied = s1 || s2
		case "formData":
			if p.Type == "file" {
				continue // judged with the files
			}
			_, supplied = call.Form[p.Name]
		default:
			continue
		}
		if !supplied && !isZeroValue(got.bound[p.Name]) {
			// a parameter the caller leaves out may arrive as the default the description declares for it (the statement
			// speaks of supplied values only; nothing but the zero value or the declared default may arrive)
			if def, ok := declaredDefault(&p); ok {
				if g, isList := got.bound[p.Name].([]string); isList && sameItems(g, def) {
					continue
				}
			}
			return "unsupplied-" + p.In
		}
	}
	return ""
}

// wantQuery gives, for every query parameter the caller supplies one way or another, the value lists the handler may receive.
// What the caller sets on the request is what the handler gets; a parameter it does not set has the value written into the
// operation's path pattern or into the base path (where both carry it the statement does not say which: either is accepted).
func wantQuery(c *Case, call *Call) map[string][][]mon.Q {
	w := map[string][][]mon.Q{}
	for k, v := range c.BaseQuery {
		w[k] = [][]mon.Q{{v}}
	}
	for k, v := range call.PinQuery {
		w[k] = append(w[k], v)
	}
	for k, v := range call.Query {
		w[k] = [][]mon.Q{v}
	}
	return w
}

// sameItems: the received list has the supplied items, as many and in the order supplied (a list of one empty item is not the
// empty list).
func sameItems(g []string, v []mon.Q) bool {
	if len(g) != len(v) {
		return false
	}
	for i := range g {
		if g[i] != string(v[i]) {
			return false
		}
	}
	return true
}

// declaredDefault gives the items of the default the description declares for an array parameter.
func declaredDefault(p *gen.Param) ([]mon.Q, bool) {
	if p == nil || p.Type != "array" || p.Default == nil {
		return nil, false
	}
	var out []mon.Q
	switch l := p.Default.(type) {
	case []interface{}: // as generated, and as read back from a replay file
		for _, it := range l {
			out = append(out, mon.Q(fmt.Sprint(it)))
		}
	case []string:
		for _, it := range l {
			out = append(out, mon.Q(it))
		}
	default:
		return nil, false
	}
	return out, true
}

func paramOf(op *gen.Op, in, name string) *gen.Param {
	for i := range op.Params {
		if op.Params[i].In == in && op.Params[i].Name == name {
			return &op.Params[i]
		}
	}
	return nil
}

// onlyEmptyItems: a supplied list (>= 1 item) all of whose items are the empty text.
func onlyEmptyItems(v []mon.Q) bool {
	for _, it := range v {
		if it != "" {
			return false
		}
	}
	return len(v) > 0
}

// eitherDefault: the call supplies, for an array parameter with a declared default, a list made of empty items only. C04's
// statement ("values equal to the ones supplied") says nothing about defaults, and the description itself declares what an
// empty parameter stands for (C03: "the declared default when the parameter is absent or empty"; C03 does not judge an empty
// occurrence of a multi array either): the supplied list and the declared default are both accepted, nothing else is. Without
// a declared default the supplied list is due ([""] is one item, the empty text, not the empty list).
func eitherDefault(call *Call, op *gen.Op) bool {
	for i := range op.Params {
		p := &op.Params[i]
		if _, ok := declaredDefault(p); !ok {
			continue
		}
		switch p.In {
		case "query":
			if onlyEmptyItems(call.Query[p.Name]) {
				return true
			}
		case "formData":
			if onlyEmptyItems(call.Form[p.Name]) {
				return true
			}
		}
	}
	return false
}

// emptyValueFeature names the empty values the call supplies for query and form parameters ("" = none): a scalar that is the
// empty text, an array of one empty item, an array of several items all of them empty.
func emptyValueFeature(call *Call, op *gen.Op) string {
	var one, all, scalar, def bool
	for i := range op.Params {
		p := &op.Params[i]
		var v []mon.Q
		switch {
		case p.In == "query":
			v = call.Query[p.Name]
		case p.In == "formData" && p.Type != "file":
			v = call.Form[p.Name]
		}
		if !onlyEmptyItems(v) {
			continue
		}
		switch {
		case p.Type != "array":
			scalar = true
		case len(v) == 1:
			one = true
		default:
			all = true
		}
		if _, ok := declaredDefault(p); ok {
			def = true
		}
	}
	var fs []string
	if one {
		fs = append(fs, "array-of-one-empty-item")
	}
	if all {
		fs = append(fs, "array-of-empty-items")
	}
	if scalar {
		fs = append(fs, "empty-value")
	}
	if def {
		fs = append(fs, "default-declared")
	}
	return strings.Join(fs, "+")
}

// spellingFeature names how the description spells the media type: with upper-case letters, with a parameter ("" = the bare
// type in lower case).
func spellingFeature(what string, mts []string) string {
	var upper, param bool
	for _, mt := range mts {
		bare := mt
		if i := strings.IndexByte(mt, ';'); i >= 0 {
			bare, param = mt[:i], true
		}
		if bare != strings.ToLower(bare) {
			upper = true
		}
	}
	switch {
	case upper && param:
		return what + "-spelled-with-upper-case-and-parameter"
	case upper:
		return what + "-spelled-with-upper-case"
	case param:
		return what + "-spelled-with-parameter"
	}
	return ""
}

// queryDiffers names how the bound value differs from the supplied list ("" = equal).
func queryDiffers(bound interface{}, v []mon.Q) string {
	switch g := bound.(type) {
	case string:
		if len(v) != 1 || g != string(v[0]) {
			return "query"
		}
	case []string:
		if !sameItems(g, v) {
			return "query-array"
		}
	case int64:
		if len(v) != 1 || fmt.Sprint(g) != string(v[0]) {
			return "query-integer"
		}
	default:
		return "query-type"
	}
	return ""
}

func compareValues(c *Case, call *Call, op *gen.Op, got *received) string {
	str := func(v interface{}) (string, bool) {
		s, ok := v.(string)
		return s, ok
	}
	for k, v := range call.Path {
		if g, ok := str(got.bound[k]); !ok || g != string(v) {
			return "path"
		}
	}
	wq := wantQuery(c, call)
	for _, p := range op.Params {
		alts, ok := wq[p.Name]
		if !ok || p.In != "query" {
			continue
		}
		bad := ""
		for _, v := range alts {
			if bad = queryDiffers(got.bound[p.Name], v); bad == "" {
				break
			}
			if def, ok := declaredDefault(&p); ok && onlyEmptyItems(v) && queryDiffers(got.bound[p.Name], def) == "" {
				bad = "" // an array made of empty items only, default declared: see eitherDefault
				break
			}
		}
		if bad != "" {
			return bad
		}
	}
	for k, v := range call.Header {
		if g, ok := str(got.bound[k]); !ok || g != string(v) {
			return "header"
		}
	}
	for k, v := range call.HeaderArr {
		g, ok := got.bound[k].([]string)
		if !ok || !sameItems(g, v) {
			return "header-array"
		}
	}
	for k, v := range call.Form {
		switch g := got.bound[k].(type) {
		case string:
			if len(v) != 1 || g != string(v[0]) {
				return "form"
			}
		case []string:
			if def, ok := declaredDefault(paramOf(op, "formData", k)); ok && onlyEmptyItems(v) && sameItems(g, def) {
				continue // see eitherDefault
			}
			if !sameItems(g, v) {
				return "form-array"
			}
		default:
			return "form-type"
		}
	}
	if call.File != "" {
		// the declared parameter is ONE file: the handler holds a file of the list the caller supplied, whole, under its name
		// (which one of several the statement does not say; that all of them travel is judged on the request body, see judge)
		held := false
		for _, want := range suppliedFiles(call) {
			held = held || got.files[fileParamName(op)] == want
		}
		if !held {
			return "file"
		}
	} else if _, ok := got.files[fileParamName(op)]; ok {
		return "file-not-sent"
	}
	if call.File2 != "" {
		want := fmt.Sprintf("%s:%x", baseName(call.File2), mon.Hash64(string(fileContent(call.File2Len))))
		if got.files["upload2"] != want {
			return "second-file"
		}
	} else if _, ok := got.files["upload2"]; ok {
		return "second-file-not-sent"
	}
	if call.RawLen > 0 {
		gb, ok := got.bound["body"].(map[string]interface{})
		if !ok {
			return "octet-body"
		}
		if raw, ok := gb["raw"].(string); !ok || raw != string(fileContent(call.RawLen)) {
			return "octet-body"
		}
	}
	if call.Body != nil {
		gb, ok := got.bound["body"].(map[string]interface{})
		if !ok || len(gb) != len(call.Body) {
			return "body"
		}
		for k, v := range call.Body {
			if fmt.Sprint(gb[k]) != string(v) {
				return "body"
			}
		}
	}
	if call.Text != "" {
		switch gb := got.bound["body"].(type) {
		case string: // a binder that gives the string schema a string target
			if gb != string(call.Text) {
				return "text-body"
			}
		case map[string]interface{}: // the map target of the untyped binder, filled by textConsumer
			if raw, ok := gb["raw"].(string); !ok || raw != string(call.Text) {
				return "text-body"
			}
		default:
			return "text-body"
		}
	}
	return unsupplied(c, call, op, got)
}

func baseName(s string) string {
	if i := strings.LastIndexAny(s, "/"); i >= 0 {
		return s[i+1:]
	}
	return s
}

func (c *Case) feature(call *Call) string {
	op := &c.Desc.Ops[call.Op]
	var fs []string
	if len(call.Path) > 0 {
		fs = append(fs, "path")
	}
	if len(call.Query) > 0 {
		fs = append(fs, "query")
	}
	if len(call.PinQuery) > 0 {
		fs = append(fs, "pattern-query")
	}
	for _, p := range op.Params {
		if _, ok := c.BaseQuery[p.Name]; ok && p.In == "query" {
			fs = append(fs, "base-path-query")
			break
		}
	}
	if nameNeedsEscaping(op) {
		fs = append(fs, "parameter-name-needs-escaping")
	}
	if strings.HasSuffix(op.Template, "/") || strings.HasSuffix(c.Desc.BasePath, "/") && c.Desc.BasePath != "/" {
		fs = append(fs, "slash-at-the-end-of-template-or-base-path")
	}
	if literalNeedsEscaping(op.Template) {
		fs = append(fs, "literal-needs-escaping")
	}
	if f := closedSegmentFeature(call, op); f != "" {
		fs = append(fs, f) // round 10
	}
	if len(call.Header) > 0 {
		fs = append(fs, "header")
	}
	if len(op.Consumes) > 0 {
		switch mediaTypeOf(op.Consumes[0]) {
		case "multipart/form-data":
			fs = append(fs, "multipart")
		case "application/x-www-form-urlencoded":
			fs = append(fs, "urlencoded")
		case "application/json":
			if call.Body != nil {
				fs = append(fs, "json-body")
			}
		case octetMime:
			fs = append(fs, "octet-body")
		case "text/plain":
			fs = append(fs, "text-body")
		}
		if consumesIs(op, 1, "multipart/form-data") {
			fs = append(fs, "or-multipart")
		}
		if op.Method == "DELETE" && call.Body != nil {
			fs = append(fs, "delete")
		}
		if (op.Method == "GET" || op.Method == "OPTIONS") && (call.Body != nil || call.Text != "" || call.RawLen > 0) {
			fs = append(fs, strings.ToLower(op.Method)) // a body on a method that usually has none
		}
	}
	if call.File2 != "" {
		fs = append(fs, "two-files")
	}
	if (consumesIs(op, 0, "multipart/form-data") || consumesIs(op, 1, "multipart/form-data")) && call.File == "" && call.File2 == "" {
		fs = append(fs, "no-file")
	}
	if nameNeedsQuoting(string(call.File)) {
		fs = append(fs, "file-name-needs-quoting")
	}
	if fn := fileParamName(op); fn != "upload" && call.File != "" {
		fs = append(fs, "file-parameter-name-needs-quoting")
	}
	// round 11
	if h := fileHistory(call); h != "" && call.File != "" {
		fs = append(fs, h)
	}
	if call.FileSource != "" && call.File != "" {
		fs = append(fs, "file-source-"+call.FileSource)
	}
	if formDeclared(op) && len(call.Form) == 0 && call.File == "" && call.File2 == "" {
		fs = append(fs, "no-form-value")
	}
	// round 4
	if f := emptyValueFeature(call, op); f != "" {
		fs = append(fs, f)
	}
	if f := spellingFeature("produces", op.Produces); f != "" {
		fs = append(fs, f)
	}
	if f := spellingFeature("consumes", op.Consumes); f != "" {
		fs = append(fs, f)
	}
	// round 5
	if formFieldLikeQueryKey(c, call, op) != "" {
		fs = append(fs, "form-field-named-like-a-query-key")
	}
	if len(call.AuthQuery) > 0 {
		fs = append(fs, "auth-writer-adds-query")
	}
	if _, in := keyScheme(&c.Desc); c.Auth && in == "query" {
		fs = append(fs, "api-key-in-query")
	}
	return strings.Join(fs, "+")
}

// nameNeedsQuoting: the name holds something other than printable ASCII without quote and backslash.
func nameNeedsQuoting(s string) bool {
	for i := 0; i < len(s); i++ {
		if c := s[i]; c < 0x20 || c >= 0x7f || c == '"' || c == '\\' {
			return true
		}
	}
	return false
}

// names of query and form parameters that hold bytes a URL or a part header must escape (OData, JSON:API, dotted names)
var hostileNames = []string{"$filter", "page[size]", "filter.name", "a b", "q&a", "x=y", "naïve"}

func nameNeedsEscaping(op *gen.Op) bool {
	for _, p := range op.Params {
		if p.In != "query" && p.In != "formData" || p.Type == "file" {
			continue
		}
		for _, h := range hostileNames {
			if p.Name == h {
				return true
			}
		}
	}
	return false
}

// literalNeedsEscaping: outside its placeholders the template holds a byte that a URL path cannot carry as it is.
func literalNeedsEscaping(tpl string) bool {
	depth := 0
	for i := 0; i < len(tpl); i++ {
		switch c := tpl[i]; {
		case c == '{':
			depth++
		case c == '}':
			depth--
		case depth == 0 && (c <= 0x20 || c >= 0x7f || strings.IndexByte("\"<>\\^`|", c) >= 0):
			return true
		}
	}
	return false
}

// closedSegmentFeature: a path parameter of the operation is followed by literal text inside its segment; the value the call
// gives it holds that text, or does not.
func closedSegmentFeature(call *Call, op *gen.Op) string {
	f := ""
	for _, p := range op.Params {
		if p.In != "path" {
			continue
		}
		lit := closingLiteral(op.Template, p.Name)
		if lit == "" {
			continue
		}
		if v, ok := call.Path[p.Name]; ok && strings.Contains(string(v), lit) {
			return "value-holds-the-literal-closing-its-segment"
		}
		f = "literal-closes-the-segment"
	}
	return f
}

func formDeclared(op *gen.Op) bool {
	for _, p := range op.Params {
		if p.In == "formData" {
			return true
		}
	}
	return false
}

func needsEscaping(call *Call) bool {
	chk := func(s string) bool {
		for i := 0; i < len(s); i++ {
			c := s[i]
			if !(c >= 'a' && c <= 'z' || c >= 'A' && c <= 'Z' || c >= '0' && c <= '9') {
				return true
			}
		}
		return false
	}
	for _, v := range call.Path {
		if chk(string(v)) {
			return true
		}
	}
	for _, l := range call.Query {
		for _, v := range l {
			if chk(string(v)) {
				return true
			}
		}
	}
	for _, l := range call.Form {
		for _, v := range l {
			if chk(string(v)) {
				return true
			}
		}
	}
	for _, v := range call.Header {
		if chk(string(v)) {
			return true
		}
	}
	return false
}

// endsUnusually: a query or form value of the call ends in white space or a line break.
func endsUnusually(call *Call) bool {
	chk := func(l []mon.Q) bool {
		for _, v := range l {
			if s := string(v); s != "" && strings.ContainsRune(" \t\r\n", rune(s[len(s)-1])) {
				return true
			}
		}
		return false
	}
	for _, l := range call.Query {
		if chk(l) {
			return true
		}
	}
	for _, l := range call.Form {
		if chk(l) {
			return true
		}
	}
	for _, l := range call.PinQuery {
		if chk(l) {
			return true
		}
	}
	return false
}

func opShape(op *gen.Op) string {
	b, _ := json.Marshal(op)
	return fmt.Sprintf("%x", mon.Hash64(string(b)))
}

func callKey(c *Call) string {
	b, _ := json.Marshal(c)
	return string(b)
}

// ---------- generation ----------

var atoms = []string{"/", "%", "+", " ", "?", "#", ":", "*", "{", "}", ";", "=", "&", "é", "\x00", "\xff", "a", "b", "xyz", "%2F", "%25", "..", ".", "~", "\"", "'", "<", ">", "\\", "|", "^", "`", "[", "]", "@", "!", "$", ",", "(", ")", "\t", "日本", "{id}", "{p0}", "{p1}", "\n", "\r\n", "a\n", " "}

func hostile(r *rand.Rand) string {
	n := 1 + r.Intn(4)
	var sb strings.Builder
	for i := 0; i < n; i++ {
		sb.WriteString(atoms[r.Intn(len(atoms))])
	}
	return sb.String()
}

// tail appends the letter to every other value: the last byte of a value is a letter or whatever the value ends in (a space,
// a line break, a reserved byte), and a value that would be empty gets the letter
func tail(r *rand.Rand, v, letter string) string {
	if v == "" || r.Intn(2) == 0 {
		return v + letter
	}
	return v
}

func pathValue(r *rand.Rand) string {
	for {
		v := hostile(r)
		if v != "" && v != "." && v != ".." {
			return v
		}
	}
}

func headerValue(r *rand.Rand) string {
	for {
		v := hostile(r)
		ok := v == strings.TrimSpace(v) && v != ""
		for i := 0; i < len(v); i++ {
			if v[i] < 0x20 || v[i] == 0x7f {
				ok = false
			}
		}
		if ok {
			return v
		}
	}
}

func utf8Value(r *rand.Rand) string {
	for {
		v := hostile(r)
		if utf8.ValidString(v) {
			return v
		}
	}
}

var methodsWithBody = []string{"POST", "PUT", "PATCH"}

// round 10: a segment made of ONE placeholder and literal text after it ("/reports/{id}.json", "/jobs/{name}:activate"). The
// literal belongs to the template, not to the value: the client appends it to the (escaped) value, and what the handler gets
// is the value as supplied, whatever the value itself holds, the literal's own text included. Only bytes a URL path carries
// unescaped; several placeholders in one segment ("{a}.{b}") are not generated: which text belongs to which of them is
// ambiguous for values holding the separator (C01's recorded class).
const closedSegments = true

var closingLiterals = []string{".json", ":activate", ".v2", "-x", ".tar.gz", "@latest", ";v=1", "_id", ",full", ".j", "=", "~~", ".xml", ":1"}

// closingLiteral is the literal text between the placeholder of the named parameter and the end of its segment ("" = none).
func closingLiteral(tpl, name string) string {
	i := strings.Index(tpl, "{"+name+"}")
	if i < 0 {
		return ""
	}
	rest := tpl[i+len(name)+2:]
	if j := strings.IndexByte(rest, '/'); j >= 0 {
		rest = rest[:j]
	}
	if strings.ContainsAny(rest, "{}") {
		return "" // a further placeholder in the segment: not generated
	}
	return rest
}

// valueAroundLiteral is a path value built around the text that closes the value's segment in the template: the literal at
// the start of the value, in the middle, at its end, twice, several times in a row, alone, cut short (a proper prefix or a
// proper suffix of it) and overlapping itself; the other parts are letters or hostile text.
func valueAroundLiteral(r *rand.Rand, lit string) string {
	part := func() string {
		switch r.Intn(4) {
		case 0:
			return hostile(r)
		case 1:
			return []string{"q3", "export", "a", "7"}[r.Intn(4)]
		case 2:
			return ""
		}
		return []string{"b", "x1", "é", "a b"}[r.Intn(4)]
	}
	prefix := func() string { // a proper, non-empty prefix of the literal where it has one
		if len(lit) < 2 {
			return lit
		}
		return lit[:1+r.Intn(len(lit)-1)]
	}
	for {
		var v string
		switch r.Intn(10) {
		case 0: // at the start
			v = lit + part() + "s"
		case 1: // in the middle
			v = part() + lit + part() + "m"
		case 2: // at the end (the request path then ends in the literal twice)
			v = part() + lit
		case 3: // twice, the second time at the end or not
			v = part() + lit + part() + lit + []string{"", "t", ".bak"}[r.Intn(3)]
		case 4: // several times in a row
			v = part() + strings.Repeat(lit, 2+r.Intn(2)) + []string{"", "r"}[r.Intn(2)]
		case 5: // the literal and nothing else
			v = lit
		case 6: // cut short at the end of the value: a proper prefix of the literal
			v = part() + "p" + prefix()
		case 7: // the literal, then a proper prefix of it
			v = part() + lit + prefix()
		case 8: // a proper suffix of the literal at the start, the literal later
			v = lit[len(lit)/2:] + part() + lit + []string{"", "u"}[r.Intn(2)]
		default: // the literal directly followed by more text ("a.jsonb")
			v = part() + lit + []string{"b", "0", "x y", "/z"}[r.Intn(4)]
		}
		if v != "" && v != "." && v != ".." {
			return v
		}
	}
}

// literal template segments with reserved bytes that a URL path carries unescaped (':' and '*' are left to C01/C05: the trie
// router gives them a meaning of its own, a known finding there)
var reservedLiterals = []string{"a+b", "r;v=1", "r$x", "r@x", "r,x", "r=x", "v1.2", "r~x", "r!x", "r'x", "r(x)", "r&x", "r[x]", "a-b_c"}

// NOT GENERATED, by decision: a template with a literal segment holding bytes that a URL path cannot carry as they are (space,
// non-ASCII, '|', '"'). The client sends the segment percent-encoded ("/caf%C3%A9/ab"); the router compares the still
// percent-encoded request path with the template text byte for byte ("/café/{p0}"), finds no route and answers 404. C01's
// statement defines a fitting template on the still percent-encoded path, literal segments byte for byte, so a literal that no
// encoded path can spell fits no request: such a description is outside the quantifier (RFC 3986 has no such bytes in a path;
// the same template spelled "/caf%C3%A9/{p0}" is served). The generator, feature and oracle stay in place behind the constant
// (witness of the observation: reviews/alarms3/C04-template-literal-needs-escaping.json).
const escapedLiteralTemplates = false

var escapedLiterals = []string{"r 0", "café", "r|x", "r\"x", "日本"}

// (resolved, f886ac0; the switch stays on) operations that consume text/plain with a body of schema {type: string}. On the unchanged tree the
// untyped binder gives every body parameter a map (or slice) target whatever its schema says, and the schema validation
// then refuses the bound value ("body in body must be of type string: \"object\"", 422): the handler never runs
// (alarm handler-did-not-run-status-422/text-body, replay /tmp/alarms/C04-text-body-string-schema.json). Set to true once
// the lead has ruled on it; everything else for the shape (client side, consumer, oracle) is in place.
const textBodyOps = true

// (resolved, 73fc19b; the switch stays on) a call to an operation that declares (optional) form fields which supplies none of them and no file. On the
// unchanged tree the client then sends no body and no Content-Type, and the server's formData binder answers 415
// ("unsupported media type application/octet-stream"): the handler never runs (alarm
// handler-did-not-run-status-415/urlencoded+no-form-value, replay /tmp/alarms/C04-no-form-value.json). While false, such a
// call supplies its first form field after all.
const emptyFormCalls = true

// names that need quoting in a Content-Disposition header: no-break space, tab, zero width space, quote, backslash, non-ASCII
var fileParamNames = []string{"up\u00a0load", "up\tload", "up\u200bload", "up\"load", "up\\load", "téléversé"}

// file names: plain ones, and ones holding runes/bytes that are not printable ASCII (a part header must carry them as they are)
var fileNames = []string{"a.txt", "dir/b.bin", "sp ace.dat", "é.bin", "a.txt", "dir/b.bin",
	"rapport\u00a0final.pdf", "col1\tcol2.tsv", "zero\u200bwidth.txt", "caf\xe9.txt", "q\"uote.txt", "back\\slash.txt", "dir/\u2028line.txt", "日本\ufeff.bin"}

func genDesc(r *rand.Rand) (gen.Desc, bool) {
	d := gen.Desc{BasePath: []string{"/", "/api", "/a/b"}[r.Intn(3)], Produces: []string{"application/json"}, Consumes: []string{"application/json"}}
	if r.Intn(10) == 0 {
		d.BasePath = "/api/" // a base path spelled with a slash at its end
	}
	auth := r.Intn(3) == 0
	if auth {
		d.SecDefs = map[string]gen.SecDef{"key": {Type: "apiKey", Name: "X-Api-Key", In: "header"}}
		d.Security = []gen.SecReq{{"key": {}}}
	}
	nops := 1 + r.Intn(4)
	for i := 0; i < nops; i++ {
		op := gen.Op{ID: fmt.Sprintf("op%d", i), SuccessCode: []int{200, 200, 201, 202, 200, 201, 204}[r.Intn(7)]}
		tpl := fmt.Sprintf("/r%d", i)
		if r.Intn(8) == 0 { // a literal segment holding reserved bytes a URL path may carry as they are
			tpl += "/" + reservedLiterals[r.Intn(len(reservedLiterals))]
		}
		if escapedLiteralTemplates && r.Intn(16) == 0 {
			tpl += "/" + escapedLiterals[r.Intn(len(escapedLiterals))]
		}
		np := r.Intn(3)
		for k := 0; k < np; k++ {
			name := fmt.Sprintf("p%d", k)
			if r.Intn(2) == 0 {
				tpl += "/s"
			}
			tpl += "/{" + name + "}"
			if closedSegments && r.Intn(4) == 0 {
				// round 10: literal text closes the segment after its (one) placeholder ("/reports/{id}.json", "{name}:activate")
				tpl += closingLiterals[r.Intn(len(closingLiterals))]
			}
			op.Params = append(op.Params, gen.Param{Name: name, In: "path", Type: "string", Required: true})
		}
		if r.Intn(4) == 0 {
			tpl += "/tail"
		}
		if r.Intn(10) == 0 {
			tpl += "/" // a template that ends in a slash: the request the client builds ends in one too
		}
		op.Template = tpl
		nq := r.Intn(3)
		hn := r.Intn(len(hostileNames)) // where this operation starts taking names that need escaping (each at most once)
		for k := 0; k < nq; k++ {
			name := fmt.Sprintf("q%d", k)
			if r.Intn(6) == 0 {
				name = hostileNames[hn%len(hostileNames)]
				hn++
			}
			p := gen.Param{Name: name, In: "query", Type: "string"}
			switch r.Intn(5) {
			case 0:
				p = gen.Param{Name: name, In: "query", Type: "array", ItemsType: "string", CollectionFormat: "multi"}
				arrayDefault(r, &p)
			case 1:
				p = gen.Param{Name: name, In: "query", Type: "integer", Format: "int64"}
			}
			op.Params = append(op.Params, p)
		}
		f0 := "f0" // the first form field of the operation (when it has a form)
		if r.Intn(6) == 0 {
			f0 = hostileNames[hn%len(hostileNames)]
			hn++
		}
		nh := r.Intn(2)
		for k := 0; k < nh; k++ {
			op.Params = append(op.Params, gen.Param{Name: []string{"X-Req-Id", "x-lower", "X-UPPER"}[r.Intn(3)], In: "header", Type: "string"})
		}
		if r.Intn(4) == 0 { // an array carried in one header line
			op.Params = append(op.Params, gen.Param{Name: []string{"X-Labels", "x-labels-lower", "X-Shard-IDs"}[r.Intn(3)], In: "header", Type: "array", ItemsType: "string", CollectionFormat: []string{"csv", "pipes"}[r.Intn(2)]})
		}
		kind := r.Intn(8)
		if kind == 7 && !textBodyOps {
			kind = 4 // only while textBodyOps is off: an operation without body instead
		}
		switch kind {
		case 7: // a text/plain body: a Go string goes through the client's text producer
			op.Method = []string{"POST", "PUT", "PATCH", "POST", "GET"}[r.Intn(5)]
			op.Consumes = []string{"text/plain"}
			op.Params = append(op.Params, gen.Param{Name: "body", In: "body", Required: true, BodySchemaType: "string"})
		case 5: // an octet-stream body
			op.Method = methodsWithBody[r.Intn(3)]
			op.Consumes = []string{octetMime}
			op.Params = append(op.Params, gen.Param{Name: "body", In: "body", Required: true})
		case 6: // multipart form with two file parameters
			op.Method = methodsWithBody[r.Intn(3)]
			op.Consumes = []string{"multipart/form-data"}
			op.Params = append(op.Params, gen.Param{Name: f0, In: "formData", Type: "string"},
				gen.Param{Name: "upload", In: "formData", Type: "file"},
				gen.Param{Name: "upload2", In: "formData", Type: "file"})
		case 0: // JSON body, on some operations alternatively YAML (the same route sees changing media types)
			// GET and OPTIONS may declare a body too (search operations with a JSON filter)
			op.Method = []string{"POST", "PUT", "PATCH", "DELETE", "GET", "OPTIONS"}[r.Intn(6)]
			op.Consumes = []string{"application/json"}
			if r.Intn(2) == 0 {
				op.Consumes = []string{"application/json", "application/x-yaml"}
			}
			op.Params = append(op.Params, gen.Param{Name: "body", In: "body", Required: true})
		case 1: // urlencoded form
			op.Method = methodsWithBody[r.Intn(3)]
			op.Consumes = []string{"application/x-www-form-urlencoded"}
			op.Params = append(op.Params, gen.Param{Name: f0, In: "formData", Type: "string"},
				gen.Param{Name: "f1", In: "formData", Type: "array", ItemsType: "string", CollectionFormat: "multi"})
		case 2: // multipart form with a file
			op.Method = methodsWithBody[r.Intn(3)]
			op.Consumes = []string{"multipart/form-data"}
			if r.Intn(4) == 0 { // urlencoded is listed first: a call that carries a file must still go out as multipart
				op.Consumes = []string{"application/x-www-form-urlencoded", "multipart/form-data"}
			}
			upName := "upload"
			if r.Intn(5) == 0 { // a declared name that needs quoting in the part header
				upName = fileParamNames[r.Intn(len(fileParamNames))]
			}
			op.Params = append(op.Params, gen.Param{Name: f0, In: "formData", Type: "string"},
				gen.Param{Name: "f1", In: "formData", Type: "array", ItemsType: "string", CollectionFormat: "multi"},
				gen.Param{Name: upName, In: "formData", Type: "file"})
		default:
			op.Method = []string{"GET", "DELETE", "GET", "POST", "HEAD", "OPTIONS"}[r.Intn(6)]
		}
		switch r.Intn(6) {
		case 0, 1:
			op.Produces = []string{"text/plain"}
		case 2:
			op.Produces = []string{octetMime}
		default:
			op.Produces = []string{"application/json"}
		}
		// round 4: the description spells a media type its own way; the client built from it lists the types as spelled
		if r.Intn(5) == 0 {
			op.Produces[0] = respell(r, op.Produces[0], true)
		}
		if spelledConsumes && len(op.Consumes) > 0 && r.Intn(8) == 0 {
			form := consumesIs(&op, 0, "multipart/form-data") || consumesIs(&op, 0, "application/x-www-form-urlencoded")
			op.Consumes[0] = respell(r, op.Consumes[0], !form)
		}
		for k := range op.Params {
			if p := &op.Params[k]; p.In == "formData" && p.Type == "array" {
				arrayDefault(r, p)
			}
		}
		d.Ops = append(d.Ops, op)
	}
	if auth && r.Intn(3) == 0 {
		// round 5: the api key travels in the query string, in 3 descriptions in 4 under a name that some operation gives a form field
		name := "api_key"
		if cand := formOnlyNames(&d); len(cand) > 0 && r.Intn(4) != 0 {
			name = cand[r.Intn(len(cand))]
		}
		d.SecDefs = map[string]gen.SecDef{"key": {Type: "apiKey", Name: name, In: "query"}}
	}
	return d, auth
}

// formOnlyNames lists the names of the (non-file) form fields of the description's operations that no operation declares as a
// query parameter, in the order of the description.
func formOnlyNames(d *gen.Desc) []string {
	query := map[string]bool{}
	for _, op := range d.Ops {
		for _, p := range op.Params {
			if p.In == "query" {
				query[p.Name] = true
			}
		}
	}
	var out []string
	seen := map[string]bool{}
	for _, op := range d.Ops {
		for _, p := range op.Params {
			if p.In == "formData" && p.Type != "file" && !query[p.Name] && !seen[p.Name] {
				seen[p.Name] = true
				out = append(out, p.Name)
			}
		}
	}
	return out
}

// formOnlyNamesOf: those of the names that are form fields of this operation.
func formOnlyNamesOf(d *gen.Desc, op *gen.Op) []string {
	var out []string
	for _, n := range formOnlyNames(d) {
		if p := paramOf(op, "formData", n); p != nil && p.Type != "file" {
			out = append(out, n)
		}
	}
	return out
}

func genCall(r *rand.Rand, d *gen.Desc, oi int) Call {
	op := &d.Ops[oi]
	c := Call{Op: oi, RespHeader: mon.Q(headerValue(r)), RespText: mon.Q(utf8Value(r)), Key: mon.Q(headerValue(r)), Signer: r.Intn(3) == 0}
	for _, p := range op.Params {
		switch p.In {
		case "path":
			if c.Path == nil {
				c.Path = map[string]mon.Q{}
			}
			c.Path[p.Name] = mon.Q(pathValue(r))
			if lit := closingLiteral(op.Template, p.Name); lit != "" && r.Intn(3) != 0 {
				c.Path[p.Name] = mon.Q(valueAroundLiteral(r, lit))
			}
		case "query":
			if r.Intn(8) == 0 {
				// the operation's path pattern carries the parameter ("/reports?view=full"); the caller sets it too in 1 call in 2
				if c.PinQuery == nil {
					c.PinQuery = map[string][]mon.Q{}
				}
				c.PinQuery[p.Name] = pinValue(r, &p)
				if r.Intn(2) == 0 {
					continue
				}
			} else if r.Intn(5) == 0 {
				continue
			}
			if c.Query == nil {
				c.Query = map[string][]mon.Q{}
			}
			switch {
			case p.Type == "array":
				c.Query[p.Name] = multiItems(r, "v", true)
			case p.Type == "integer":
				c.Query[p.Name] = []mon.Q{mon.Q(intValues[r.Intn(len(intValues))])}
			case r.Intn(16) == 0:
				c.Query[p.Name] = []mon.Q{""} // the empty text is a value like any other
			default:
				c.Query[p.Name] = []mon.Q{mon.Q(tail(r, hostile(r), "q"))}
			}
		case "header":
			if r.Intn(5) == 0 {
				continue // not supplied: must arrive as the zero value
			}
			if p.Type == "array" {
				if c.HeaderArr == nil {
					c.HeaderArr = map[string][]mon.Q{}
				}
				n := 1 + r.Intn(3)
				var l []mon.Q
				for i := 0; i < n; i++ {
					l = append(l, mon.Q([]string{"a", "bb", "x-y", "é", "v1.2", "q=1"}[r.Intn(6)]))
				}
				c.HeaderArr[p.Name] = l
				continue
			}
			if c.Header == nil {
				c.Header = map[string]mon.Q{}
			}
			c.Header[p.Name] = mon.Q(headerValue(r))
		case "formData":
			if p.Type == "file" {
				if r.Intn(3) == 0 {
					continue // the (optional) file is not sent: a fields-only form
				}
				if p.Name == "upload2" {
					c.File2 = []string{"second.txt", "dir/c.bin", "a.txt"}[r.Intn(3)]
					c.File2Len = []int{0, 1, 513, 4096, 70000}[r.Intn(5)]
					continue
				}
				c.File = mon.Q(fileNames[r.Intn(len(fileNames))])
				c.FileLen = []int{0, 1, 511, 512, 513, 4096, 70000}[r.Intn(7)]
				if c.FileLen > 1 && r.Intn(3) == 0 {
					c.FileSkip = 1 + r.Intn(c.FileLen-1)
				}
				genFileHistory(r, &c)
				continue
			}
			if r.Intn(5) == 0 {
				continue // not supplied: must arrive as the zero value
			}
			if c.Form == nil {
				c.Form = map[string][]mon.Q{}
			}
			switch {
			case p.Type == "array":
				c.Form[p.Name] = multiItems(r, "f", false)
			case r.Intn(16) == 0:
				c.Form[p.Name] = []mon.Q{""}
			default:
				c.Form[p.Name] = []mon.Q{mon.Q(tail(r, hostile(r), "f"))}
			}
		case "body":
			if consumesIs(op, 0, octetMime) {
				c.RawLen = []int{1, 2, 511, 4096, 65536, 70001}[r.Intn(6)]
				continue
			}
			if consumesIs(op, 0, "text/plain") {
				c.Text = mon.Q("t" + utf8Value(r))
				continue
			}
			c.BodyAsReader = r.Intn(3) == 0
			c.Body = map[string]mon.Q{"s": mon.Q(utf8Value(r)), "t": mon.Q(utf8Value(r))}
			if len(op.Consumes) > 1 {
				c.BodyType = op.Consumes[r.Intn(len(op.Consumes))]
				if mediaTypeOf(c.BodyType) == "application/x-yaml" {
					c.BodyAsReader = false
					// YAML 1.2 scalars: keep to printable text so that the value is what was sent
					c.Body = map[string]mon.Q{"s": mon.Q("y" + strings.Map(func(r rune) rune {
						if r < 0x20 || r == 0x7f || r == 0x85 || r == 0xfeff {
							return '_'
						}
						return r
					}, string(c.Body["s"]))), "t": "plain"}
				}
			}
		}
	}
	if !emptyFormCalls && formDeclared(op) && len(c.Form) == 0 && c.File == "" && c.File2 == "" {
		// only while emptyFormCalls is off
		for _, p := range op.Params {
			if p.In == "formData" && p.Type != "file" {
				c.Form = map[string][]mon.Q{p.Name: {mon.Q(hostile(r) + "f")}}
				break
			}
		}
	}
	c.FreshRuntime = r.Intn(10) == 0
	c.LiveBody = r.Intn(2) == 0
	// round 5: the query string carries a key that is no parameter of the operation: the client auth writer adds it (a token, a
	// signature), or the operation's path pattern has it; on form operations it is mostly spelled like one of the form's fields
	// (which the caller sets or leaves out as before)
	if names := formOnlyNamesOf(d, op); len(names) > 0 {
		if r.Intn(8) == 0 {
			c.AuthQuery = map[string]mon.Q{names[r.Intn(len(names))]: mon.Q(tail(r, hostile(r), "a"))}
		}
		if r.Intn(10) == 0 {
			if c.PinQuery == nil {
				c.PinQuery = map[string][]mon.Q{}
			}
			c.PinQuery[names[r.Intn(len(names))]] = []mon.Q{mon.Q(tail(r, hostile(r), "p"))}
		}
	} else if r.Intn(30) == 0 {
		c.AuthQuery = map[string]mon.Q{"sig": mon.Q(tail(r, hostile(r), "a"))}
	}
	if r.Intn(40) == 0 {
		genPreSend(r, op, &c)
	}
	genAnswer(r, op, &c)
	return c
}

// multiItems is a value list for a multi array: 1..3 items. In 1 list in 4 of those with >= 2 items one item is empty (an empty
// item between/next to non-empty ones is a value like any other); 1 list in 8 is made of empty items only, whatever its length:
// [""] is the list of one item, the empty text, ["", ""] the list of two.
func multiItems(r *rand.Rand, letter string, noNUL bool) []mon.Q {
	n := 1 + r.Intn(3)
	var l []mon.Q
	for i := 0; i < n; i++ {
		v := hostile(r)
		if noNUL {
			v = strings.ReplaceAll(v, "\x00", "0")
		}
		l = append(l, mon.Q(tail(r, v, letter)))
	}
	switch k := r.Intn(8); {
	case k < 2 && n >= 2:
		l[r.Intn(n)] = ""
	case k == 2:
		for i := range l {
			l[i] = ""
		}
	}
	return l
}

// arrayDefault: 1 array parameter in 4 declares a default (what arrives when the caller leaves the parameter out).
func arrayDefault(r *rand.Rand, p *gen.Param) {
	if r.Intn(4) == 0 {
		p.Default = []interface{}{"dflt"} // the form a replay file gives it back in
		if r.Intn(2) == 0 {
			p.Default = []interface{}{"d 1", ""}
		}
	}
}

// (round 4; ruled a defect and repaired in the library by bbaab0a, pinned): descriptions whose CONSUMES entries are spelled with upper-case letters or with a parameter
// ("Application/JSON", "application/json; charset=utf-8"). On the unchanged tree the client transport picks its producer by
// the exact text of the first consumes entry (client/runtime.go createHttpRequest: r.Producers[cmt]; client/request.go buildHTTP:
// producers[mediaType], isMultipart) and refuses the call before sending ("none of producers ... registered"): no request is
// produced and the handler never runs, although the server built from the same description admits the type however it is spelled
// (alarm submit-error/...+consumes-spelled-with-upper-case|-with-parameter; replays /tmp/alarms4/C04-consumes-spelled-with-*.json,
// drafted repair /tmp/alarms4/C04-consumes-spelling.fix.diff, with which the shape agrees end to end). Set to true once the lead
// has ruled; everything for the shape (generator, features, oracle) is in place behind the switch.
const spelledConsumes = true

var mediaTypeParams = []string{"; charset=utf-8", " ; charset=utf-8", ";charset=UTF-8", "; Charset=utf-8"}

// respell spells the media type the way a description may: letters in upper case (all, the first of each token, the subtype),
// a parameter after it, or both. Media types are case-insensitive and may carry parameters (RFC 7231 section 3.1.1.1).
func respell(r *rand.Rand, mt string, params bool) string {
	k := r.Intn(3) // 0: letters, 1: parameter, 2: both
	if !params {
		k = 0
	}
	if k != 1 {
		switch r.Intn(3) {
		case 0:
			mt = strings.ToUpper(mt)
		case 1: // Text/Plain, Application/Octet-Stream
			b := []byte(mt)
			for i := range b {
				if (i == 0 || b[i-1] == '/' || b[i-1] == '-') && b[i] >= 'a' && b[i] <= 'z' {
					b[i] -= 'a' - 'A'
				}
			}
			mt = string(b)
		default: // application/JSON
			if i := strings.IndexByte(mt, '/'); i >= 0 {
				mt = mt[:i+1] + strings.ToUpper(mt[i+1:])
			}
		}
	}
	if k != 0 {
		mt += mediaTypeParams[r.Intn(len(mediaTypeParams))]
	}
	return mt
}

var intValues = []string{"0", "-1", "9223372036854775807", "-9223372036854775808", "42"}

// pinValue is a value list a path pattern carries for the query parameter.
func pinValue(r *rand.Rand, p *gen.Param) []mon.Q {
	switch p.Type {
	case "integer":
		return []mon.Q{mon.Q(intValues[r.Intn(len(intValues))])}
	case "array":
		l := []mon.Q{mon.Q(strings.ReplaceAll(hostile(r), "\x00", "0") + "p")}
		if r.Intn(2) == 0 {
			l = append(l, mon.Q(tail(r, strings.ReplaceAll(hostile(r), "\x00", "0"), "p")))
		}
		return l
	}
	return []mon.Q{mon.Q(tail(r, hostile(r), "p"))}
}

// genFileHistory (round 11): in 1 upload in 3 the source is one whose Close means something (an *os.File, an in-memory source
// that cannot be read once closed); in 1 upload in 3 the request writer sets the file field more than once, the way a writer
// does that decorates another one: the same list again, the list found plus an attachment (behind or in front), other files
// altogether, some kept and some dropped, three calls. What the caller supplies is the list of the last call.
func genFileHistory(r *rand.Rand, c *Call) {
	switch r.Intn(6) {
	case 0, 1:
		c.FileSource = "os"
	case 2:
		c.FileSource = "strict"
	}
	if r.Intn(3) != 0 {
		return
	}
	more := func() int { // a further file; its index in the sets
		c.FileMore = append(c.FileMore, MoreFile{Name: mon.Q(fileNames[r.Intn(len(fileNames))]), Len: []int{0, 1, 511, 513, 4096, 70000}[r.Intn(6)]})
		return len(c.FileMore)
	}
	switch r.Intn(7) {
	case 0: // the field is set to what it holds already (a wrapper and the writer it wraps both set the file)
		c.FileSets = [][]int{{0}, {0}}
	case 1: // an attachment is added behind what the field holds
		c.FileSets = [][]int{{0}, {0, more()}}
	case 2: // ... or in front of it
		c.FileSets = [][]int{{0}, {more(), 0}}
	case 3: // the file replaces another one
		c.FileSets = [][]int{{more()}, {0}}
	case 4: // one file is kept, one dropped
		a, b := more(), more()
		c.FileSets = [][]int{{a, 0}, {0, b}}
	case 5: // two attachments, one after the other
		a, b := more(), more()
		c.FileSets = [][]int{{0}, {0, a}, {0, a, b}}
	case 6: // the list shrinks to one of its files
		a := more()
		c.FileSets = [][]int{{0, a}, {[]int{0, a}[r.Intn(2)]}}
	}
}

// genPreSend turns the call into one that supplies something which cannot be sent (when the operation has a place for it).
func genPreSend(r *rand.Rand, op *gen.Op, c *Call) {
	switch {
	case c.Body != nil && consumesIs(op, 0, "application/json"):
		c.PreSend = []string{"unproducible-body", "no-producer"}[r.Intn(2)]
		c.BodyType, c.BodyAsReader = "", false
	case c.RawLen > 0:
		c.PreSend, c.Signer = "body-close-error", true // the auth writer asks for the body: the stream is read and closed before sending
	case consumesIs(op, 0, "multipart/form-data"):
		c.PreSend = "directory-file"
		c.File, c.FileLen, c.FileSkip = "", 0, 0
		c.FileSets, c.FileMore, c.FileSource = nil, nil, ""
	}
}

// followUp is a call, to an operation that declares a query parameter the call before it had in its path pattern, whose caller
// does not supply that parameter: whatever was built before, the handler must receive none.
func followUp(r *rand.Rand, d *gen.Desc, prev *Call) (Call, bool) {
	type cand struct {
		op   int
		name string
	}
	var cs []cand
	names := make([]string, 0, len(prev.PinQuery))
	for n := range prev.PinQuery {
		names = append(names, n)
	}
	sort.Strings(names)
	for oi := range d.Ops {
		for _, p := range d.Ops[oi].Params {
			for _, n := range names {
				if p.In == "query" && p.Name == n {
					cs = append(cs, cand{oi, n})
				}
			}
		}
	}
	if len(cs) == 0 {
		return Call{}, false
	}
	pick := cs[r.Intn(len(cs))]
	c := genCall(r, d, pick.op)
	for _, n := range names {
		delete(c.Query, n)
		delete(c.PinQuery, n)
	}
	if len(c.Query) == 0 {
		c.Query = nil
	}
	if len(c.PinQuery) == 0 {
		c.PinQuery = nil
	}
	c.PreSend = ""
	c.FreshRuntime = r.Intn(2) == 0
	return c, true
}

var answerCodes = []int{200, 201, 202, 204, 400, 401, 403, 404, 409, 422, 500, 503, 300, 304, 429}

// sizes around the client's 4 KiB read buffer, beyond what travels with the head, and beyond the socket buffers
var (
	answerSizesSmall = []int{1, 1000, 4095, 4096, 4097}
	answerSizesMid   = []int{16384, 65536, 65537}
	answerSizesBig   = []int{131072, 262144, 1048576}
)

func answerSize(r *rand.Rand) int {
	switch k := r.Intn(10); {
	case k < 5:
		return answerSizesSmall[r.Intn(len(answerSizesSmall))]
	case k < 8:
		return answerSizesMid[r.Intn(len(answerSizesMid))]
	default:
		return answerSizesBig[r.Intn(len(answerSizesBig))]
	}
}

// genAnswer scripts what the handler answers: most answers stay the small 2xx ones, the others vary one or more of
// status, size, the moment the body is written, the way the handler answers and the Content-Type it sets.
func genAnswer(r *rand.Rand, op *gen.Op, c *Call) {
	if r.Intn(10) == 0 {
		c.RespText = "" // a 0-byte text / an empty JSON string
	}
	if r.Intn(4) == 0 {
		c.RespCode = answerCodes[r.Intn(len(answerCodes))]
	}
	if r.Intn(8) == 0 {
		c.RespLen = answerSize(r)
	}
	if r.Intn(6) == 0 {
		genHeaderLines(r, c)
	}
	if r.Intn(8) == 0 {
		c.RespFlush = true
		if c.RespLen == 0 && r.Intn(2) == 0 {
			c.RespLen = answerSize(r)
		}
	}
	if r.Intn(16) == 0 {
		c.RespKind = "error"
		c.RespCode = []int{400, 401, 403, 404, 409, 422, 500, 503}[r.Intn(8)]
		c.RespLen, c.RespFlush = 0, false
		return
	}
	if r.Intn(16) == 0 {
		// a media type of the handler's own choosing that the client has no consumer for; in 1 call in 2 it has a catch-all consumer
		c.RespCT = mon.Q(alienTypes[r.Intn(len(alienTypes))])
		c.AnyConsumer = r.Intn(2) == 0
		return
	}
	if r.Intn(8) == 0 {
		switch {
		case producesText(op):
			c.RespCT = mon.Q([]string{"text/plain; charset=utf-8", "text/plain;charset=UTF-8", "TEXT/PLAIN", "text/plain; format=flowed; charset=\"utf-8\""}[r.Intn(4)])
		case producesOctet(op):
			c.RespCT = mon.Q([]string{"application/octet-stream; name=\"x y.bin\"", "Application/Octet-Stream"}[r.Intn(2)])
		default:
			c.RespCT = mon.Q([]string{"application/json; charset=utf-8", "application/json;version=2", "Application/JSON", "application/json; profile=\"http://x/y;z\""}[r.Intn(4)])
		}
	}
}

// header values in which a comma is part of the value: HTTP dates, free text, quoted strings, a list carried in one line
var commaValues = []string{"Wed, 21 Oct 2015 07:28:00 GMT", "Sun, 06 Nov 1994 08:49:37 GMT", "3 warnings, 0 errors", "199 - \"miscellaneous, with a comma\"",
	"</r0?page=2>; rel=\"next\", </r0?page=9>; rel=\"last\"", "a,b", "a, b ,c", "x,", ",x", ",", "Basic realm=\"a, b\", charset=\"UTF-8\""}

var (
	dateHeaders = []string{"Last-Modified", "Expires", "Retry-After"}
	listHeaders = []string{"X-Lines", "Warning", "Link", "X-Summary", "x-lower-lines"}
)

// genHeaderLines scripts a response header the handler sets line by line: a date header with its one date, or a header of 1..3
// lines whose values are free text; 1 value in 2 holds a comma.
func genHeaderLines(r *rand.Rand, c *Call) {
	if r.Intn(4) == 0 {
		c.RespLinesName = dateHeaders[r.Intn(len(dateHeaders))]
		c.RespLines = []mon.Q{mon.Q(commaValues[r.Intn(2)])}
		return
	}
	c.RespLinesName = listHeaders[r.Intn(len(listHeaders))]
	n := 1 + r.Intn(3)
	for i := 0; i < n; i++ {
		if r.Intn(2) == 0 {
			c.RespLines = append(c.RespLines, mon.Q(commaValues[r.Intn(len(commaValues))]))
		} else {
			c.RespLines = append(c.RespLines, mon.Q(headerValue(r)))
		}
	}
}

func run(m *mon.M) {
	r := m.Rand("c04")
	nd := m.N(400, 4000)
	per := m.N(25, 40)
	for i := 0; i < nd; i++ {
		d, auth := genDesc(r)
		c := &Case{Desc: d, Auth: auth}
		if r.Intn(12) == 0 {
			// the base path the transport is configured with carries a query parameter some operation declares
			var names []string
			for _, op := range d.Ops {
				for _, p := range op.Params {
					if p.In == "query" {
						names = append(names, p.Name)
					}
				}
			}
			if len(names) > 0 {
				c.BaseQuery = map[string]mon.Q{names[r.Intn(len(names))]: mon.Q([]string{"17", "0", "-3"}[r.Intn(3)])}
			}
		}
		if names := formOnlyNames(&d); len(names) > 0 && r.Intn(12) == 0 {
			// round 5: the base path carries a static query parameter that no operation declares as one, spelled like a form field
			if c.BaseQuery == nil {
				c.BaseQuery = map[string]mon.Q{}
			}
			c.BaseQuery[names[r.Intn(len(names))]] = mon.Q([]string{"17", "v2", "a b"}[r.Intn(3)])
		}
		for k := 0; k < per; k++ {
			call := genCall(r, &d, r.Intn(len(d.Ops)))
			c.Calls = append(c.Calls, call)
			if len(call.PinQuery) > 0 && k+1 < per {
				if f, ok := followUp(r, &d, &call); ok {
					c.Calls = append(c.Calls, f)
					k++
				}
			}
		}
		m.Begin(c)
		runCase(m, c)
	}
}

func replay(m *mon.M, raw json.RawMessage) {
	var c Case
	if err := json.Unmarshal(raw, &c); err != nil {
		m.Violate("bad-replay-case", err.Error(), nil)
		return
	}
	runCase(m, &c)
}

var _ = sort.Strings
