package c04

// The harness's own loopback plumbing (listeners, dials, pooled connections, the client's default request timeout) can fail on a
// loaded machine. Such a failure says nothing about the property: it is counted (m.Class("env:...")), the call is repeated once
// on a fresh server and transport, and only an error that shows again on the repetition is judged. Running out of a machine
// resource (descriptors, ports, memory) is never judged; a worker that keeps running out ends its run as INCONCLUSIVE.

import (
	"context"
	"errors"
	"fmt"
	"io"
	"net"
	"os"
	"strings"
	"syscall"
	"time"

	"verif/mon"
)

var errListen = errors.New("c04: no loopback listener")

// listenLoopback opens the listener of a case's server; a refusal is retried with a short pause (plumbing, not an oracle).
func listenLoopback() (net.Listener, error) {
	var last error
	for i := 0; i < 6; i++ {
		l, err := net.Listen("tcp", "127.0.0.1:0")
		if err == nil {
			return l, nil
		}
		last = err
		time.Sleep(time.Duration(20<<i) * time.Millisecond)
	}
	return nil, fmt.Errorf("%w: %v", errListen, last)
}

// envKind names the class of a transport-level error of the loopback plumbing ("" = not such an error).
func envKind(err error) string {
	if err == nil {
		return ""
	}
	switch {
	case errors.Is(err, syscall.EMFILE), errors.Is(err, syscall.ENFILE):
		return "resource-descriptors"
	case errors.Is(err, syscall.EADDRNOTAVAIL), errors.Is(err, syscall.EADDRINUSE):
		return "resource-ports"
	case errors.Is(err, syscall.ENOBUFS), errors.Is(err, syscall.ENOMEM):
		return "resource-memory"
	case errors.Is(err, syscall.ECONNRESET):
		return "connection-reset"
	case errors.Is(err, syscall.EPIPE):
		return "broken-pipe"
	case errors.Is(err, syscall.ECONNREFUSED), errors.Is(err, syscall.ECONNABORTED):
		return "dial"
	case errors.Is(err, context.DeadlineExceeded), errors.Is(err, os.ErrDeadlineExceeded):
		return "deadline"
	}
	var oe *net.OpError
	if errors.As(err, &oe) {
		switch oe.Op {
		case "dial", "listen", "accept":
			return oe.Op
		}
		if oe.Timeout() {
			return "deadline"
		}
	}
	var ne net.Error
	if errors.As(err, &ne) && ne.Timeout() {
		return "deadline"
	}
	if errors.Is(err, io.EOF) || errors.Is(err, io.ErrUnexpectedEOF) {
		return "connection-closed" // the peer went away without an answer (a reused connection that was closed under us)
	}
	msg := err.Error()
	for _, s := range []string{"server closed idle connection", "transport connection broken", "connection reset by peer", "use of closed network connection", "Client.Timeout exceeded"} {
		if strings.Contains(msg, s) {
			return "connection-closed"
		}
	}
	return ""
}

func resourceKind(kind string) bool { return strings.HasPrefix(kind, "resource-") }

const envGiveUp = 25 // machine-resource failures per worker after which nothing useful is being observed any more

// envExhausted counts a machine-resource failure; a worker that meets too many of them stops in the way the driver reports as
// INCONCLUSIVE ("worker died of a machine resource").
func envExhausted(m *mon.M, kind string, err error) {
	m.Class("env:" + kind)
	m.Note("env-resource-failures", 1)
	envFailures++
	if envFailures >= envGiveUp {
		msg := "too many open files"
		if kind == "resource-ports" || kind == "listen" {
			msg = "httptest: failed to listen on a port"
		}
		panic(fmt.Sprintf("c04: the machine is out of a resource the harness needs (%s; %d failures, last: %v)", msg, envFailures, err))
	}
}

var envFailures int // per worker process; cases run one after the other
